/-
  Extract family — layout independence, layer 2: one commutation lemma per visit method, part 2
  (try, def / lambda / class, comprehensions) and the dispatcher `compile_comm`.
-/
import SuppModel.Extract.LemmasLayout4

namespace SuppModel.Extract
open SuppModel.Flow

variable {φ ψ : Pos → Pos}

theorem toList_map {α β} (f : α → β) (o : Option α) : (o.map f).toList = o.toList.map f := by cases o <;> rfl

/-! ### try -/

theorem handlerBind_comm {h : Ast} {name : Option String} {hbody : List Ast} {fh : Nat} {prog : Prog}
    (hqb : ∀ b ∈ hbody, posQ φ ψ b = true) (hb : handlerBind h name hbody fh = .ok prog) :
    handlerBind (h.mapPos φ) name (hbody.map (Ast.mapPos φ)) fh = .ok (prog.map (Instr.mapP φ ψ)) := by
  cases name with
  | none => simp only [handlerBind, pure_ok_iff] at hb; subst hb; rfl
  | some s =>
    simp only [handlerBind, bind_ok_iff, pure_ok_iff] at hb
    obtain ⟨bl, h1, p, h2, rfl⟩ := hb
    simp only [handlerBind, bodyLoc_mapPos hqb h1, np_mapPos h2, bind, Except.bind, pure, Except.pure]
    rfl

theorem compileHandler_comm {n h : Ast} {fh res : Nat} {prog : Prog} (hs : Sub h n) (hq : n.all (posQ φ ψ) = true)
    (hc : compileHandler h fh res = .ok prog) :
    compileHandler (h.mapPos φ) fh res = .ok (prog.map (Instr.mapP φ ψ)) := by
  simp only [compileHandler, bind_ok_iff, pure_ok_iff] at hc
  obtain ⟨name, h1, hbody, h2, bnd, h3, ty, h4, rfl⟩ := hc
  have hqb : ∀ b ∈ hbody, posQ φ ψ b = true :=
    fun b hb => posQ_sub ((getNodeList_sub h2 b hb).trans hs.inside) hq
  simp only [compileHandler, getOptStr_mapPos h1, getNodeList_mapPos h2, handlerBind_comm hqb h3, getOptNode_mapPos h4,
    bind, Except.bind, pure, Except.pure, List.map_append, toList_map]
  rfl

theorem compileHandlers_comm {n : Ast} (hq : n.all (posQ φ ψ) = true) : ∀ (hs : List Ast), (∀ h ∈ hs, Sub h n) →
    ∀ r res, compileHandlers hs r = .ok res →
      compileHandlers (hs.map (Ast.mapPos φ)) r = .ok (res.1.map (Instr.mapP φ ψ), res.2) := by
  intro hs
  induction hs with
  | nil => intro _ r res h; simp only [compileHandlers, pure_ok_iff] at h; subst h; rfl
  | cons h hs ih =>
    intro hsub r res hc
    simp only [compileHandlers, bind_ok_iff, pure_ok_iff] at hc
    obtain ⟨a, ha, b, hb, rfl⟩ := hc
    simp only [List.map_cons, compileHandlers, compileHandler_comm (hsub h List.mem_cons_self) hq ha,
      ih (fun x hx => hsub x (List.mem_cons_of_mem _ hx)) (r + 2) b hb, bind, Except.bind, pure, Except.pure,
      List.map_append]

theorem finalProg_comm {n : Ast} {k : Nat} {prog : Prog} (h : finalProg n k = .ok prog) :
    finalProg (n.mapPos φ) k = .ok (prog.map (Instr.mapP φ ψ)) := by
  unfold finalProg at h ⊢
  rw [field?_mapPos]
  split at h
  · rename_i v hv
    rw [hv]
    simp only [bind_ok_iff, pure_ok_iff] at h
    obtain ⟨fb, h1, rfl⟩ := h
    simp only [Option.map_some, getNodeList_mapPos h1, bind, Except.bind, pure, Except.pure]
    rfl
  · rename_i hv
    rw [hv]
    simp only [pure_ok_iff] at h; subst h; rfl

theorem compileTry_comm {n : Ast} {prog : Prog} (hq : n.all (posQ φ ψ) = true) (h : compileTry n = .ok prog) :
    compileTry (n.mapPos φ) = .ok (prog.map (Instr.mapP φ ψ)) := by
  simp only [compileTry, bind_ok_iff, pure_ok_iff] at h
  obtain ⟨body, h1, handlers, h2, hp, h3, orelse, h4, fin, h5, rfl⟩ := h
  simp only [compileTry, getNodeList_mapPos h1, getNodeList_mapPos h2,
    compileHandlers_comm hq handlers (getNodeList_sub h2) 3 hp h3, getNodeList_mapPos h4, List.length_map,
    finalProg_comm (ψ := ψ) h5, bind, Except.bind, pure, Except.pure, List.map_append]
  rfl

/-! ### def / lambda / class -/

def ArgsView.mapP (φ : Pos → Pos) (v : ArgsView) : ArgsView :=
  { defaults := v.defaults.map (Ast.mapPos φ), kwDefaults := v.kwDefaults.map (Ast.mapPos φ),
    positional := v.positional.map (Ast.mapPos φ), kwonly := v.kwonly.map (Ast.mapPos φ),
    vararg := v.vararg.map (Ast.mapPos φ), kwarg := v.kwarg.map (Ast.mapPos φ) }

theorem viewArguments_comm {a : Ast} {v : ArgsView} (h : viewArguments a = .ok v) :
    viewArguments (a.mapPos φ) = .ok (v.mapP φ) := by
  simp only [viewArguments, bind_ok_iff, pure_ok_iff] at h
  obtain ⟨defaults, h1, kwd, h2, posonly, h3, aa, h4, kwonly, h5, vararg, h6, kwarg, h7, rfl⟩ := h
  simp only [viewArguments, getNodeList_mapPos h1, getOptNodeList_mapPos h2, optNodeList_mapPos h3,
    getNodeList_mapPos h4, getNodeList_mapPos h5, getOptNode_mapPos h6, getOptNode_mapPos h7, bind, Except.bind, pure,
    Except.pure, ArgsView.mapP, List.map_append]

theorem viewArgs_comm {n : Ast} {v : ArgsView} (h : viewArgs n = .ok v) : viewArgs (n.mapPos φ) = .ok (v.mapP φ) := by
  simp only [viewArgs, bind_ok_iff] at h
  obtain ⟨args, h0, h⟩ := h
  simp only [viewArgs, getNode_mapPos h0, bind, Except.bind]
  exact viewArguments_comm h

theorem annotationsOf_comm : ∀ (l r : List Ast), annotationsOf l = .ok r →
    annotationsOf (l.map (Ast.mapPos φ)) = .ok (r.map (Ast.mapPos φ)) := by
  intro l
  induction l with
  | nil => intro r h; simp only [annotationsOf, pure_ok_iff] at h; subst h; rfl
  | cons a l ih =>
    intro r h
    simp only [annotationsOf, bind_ok_iff, pure_ok_iff] at h
    obtain ⟨ann, h1, rest, h2, rfl⟩ := h
    simp only [List.map_cons, annotationsOf, getOptNode_mapPos h1, ih rest h2, bind, Except.bind, pure, Except.pure,
      List.map_append, toList_map]

theorem optAnnotation_comm {a : Option Ast} {r : List Ast} (h : optAnnotation a = .ok r) :
    optAnnotation (a.map (Ast.mapPos φ)) = .ok (r.map (Ast.mapPos φ)) := by
  cases a with
  | none => simp only [optAnnotation, pure_ok_iff] at h; subst h; rfl
  | some x =>
    simp only [optAnnotation, bind_ok_iff, pure_ok_iff] at h
    obtain ⟨ann, h1, rfl⟩ := h
    simp only [Option.map_some, optAnnotation, getOptNode_mapPos h1, bind, Except.bind, pure, Except.pure, toList_map]

theorem argBindings_comm {loc : Pos} : ∀ (l : List Ast) (i : Nat) (idx : Bool) (bs : List Binding),
    argBindings loc l i idx = .ok bs →
      argBindings (ψ loc) (l.map (Ast.mapPos φ)) i idx = .ok (bs.map (Binding.mapP φ ψ)) := by
  intro l
  induction l with
  | nil => intro i idx bs h; simp only [argBindings, pure_ok_iff] at h; subst h; rfl
  | cons a r ih =>
    intro i idx bs h
    simp only [argBindings, bind_ok_iff, pure_ok_iff] at h
    obtain ⟨name, h1, p, h2, rest, h3, rfl⟩ := h
    simp only [List.map_cons, argBindings, getStr_mapPos h1, np_mapPos h2, ih (i + 1) idx rest h3, bind, Except.bind,
      pure, Except.pure]
    rfl

theorem allArgBindings_comm {loc : Pos} {v : ArgsView} {bs : List Binding} (h : allArgBindings loc v = .ok bs) :
    allArgBindings (ψ loc) (v.mapP φ) = .ok (bs.map (Binding.mapP φ ψ)) := by
  simp only [allArgBindings, bind_ok_iff, pure_ok_iff] at h
  obtain ⟨a, h1, b, h2, c, h3, d, h4, rfl⟩ := h
  have h3' := argBindings_comm (φ := φ) (ψ := ψ) _ _ _ _ h3
  have h4' := argBindings_comm (φ := φ) (ψ := ψ) _ _ _ _ h4
  rw [← toList_map] at h3' h4'
  simp only [allArgBindings, ArgsView.mapP, argBindings_comm _ _ _ _ h1, argBindings_comm _ _ _ _ h2, h3', h4', bind,
    Except.bind, pure, Except.pure, List.map_append]

theorem compileFunctionDef_comm {n : Ast} {prog : Prog} (hq : n.all (posQ φ ψ) = true)
    (h : compileFunctionDef n = .ok prog) : compileFunctionDef (n.mapPos φ) = .ok (prog.map (Instr.mapP φ ψ)) := by
  simp only [compileFunctionDef, bind_ok_iff, pure_ok_iff] at h
  obtain ⟨decs, h1, v, hv, a1, ha1, a2, ha2, a3, ha3, a4, ha4, returns, h2, name, h3, p, h4, body, h5,
    location, h6, args, h7, rfl⟩ := h
  have h6' := bodyLoc_mapPos (posQ_list (getNodeList_sub h5) hq) h6
  have e1 := annotationsOf_comm (φ := φ) _ _ ha1
  have e2 := annotationsOf_comm (φ := φ) _ _ ha2
  have e3 := optAnnotation_comm (φ := φ) ha3
  have e4 := optAnnotation_comm (φ := φ) ha4
  have e7 := allArgBindings_comm (φ := φ) (ψ := ψ) h7
  simp only [compileFunctionDef, getNodeList_mapPos h1, viewArgs_comm hv, getOptNode_mapPos h2, getStr_mapPos h3,
    np_mapPos h4, getNodeList_mapPos h5, h6', bind, Except.bind, pure, Except.pure]
  simp only [ArgsView.mapP] at e1 e2 e3 e4 e7 ⊢
  simp only [e1, e2, e3, e4, e7]
  simp only [List.map_append, map_visit_mapP, toList_map]
  rfl

theorem compileLambda_comm {n : Ast} {prog : Prog} (hq : n.all (posQ φ ψ) = true)
    (h : compileLambda n = .ok prog) : compileLambda (n.mapPos φ) = .ok (prog.map (Instr.mapP φ ψ)) := by
  simp only [compileLambda, bind_ok_iff, pure_ok_iff] at h
  obtain ⟨v, hv, a1, ha1, a2, ha2, body, h1, location, h2, p, h3, args, h4, rfl⟩ := h
  have hloc : ψ location = φ location := (posQ_pos (posQ_sub (getNode_sub h1) hq) (np_pos h2)).1
  have e1 := annotationsOf_comm (φ := φ) _ _ ha1
  have e2 := annotationsOf_comm (φ := φ) _ _ ha2
  have e4 := allArgBindings_comm (φ := φ) (ψ := ψ) h4
  rw [hloc] at e4
  simp only [compileLambda, viewArgs_comm hv, getNode_mapPos h1, np_mapPos h2, np_mapPos h3, bind, Except.bind, pure,
    Except.pure]
  simp only [ArgsView.mapP] at e1 e2 e4 ⊢
  simp only [e1, e2, e4]
  simp only [List.map_append, map_visit_mapP, List.map_cons, List.map_nil, Instr.mapP, Binding.mapP, NameInfo.mapP, hloc, Option.map_none]

theorem compileClassDef_comm {n : Ast} {prog : Prog} (hq : n.all (posQ φ ψ) = true)
    (h : compileClassDef n = .ok prog) : compileClassDef (n.mapPos φ) = .ok (prog.map (Instr.mapP φ ψ)) := by
  simp only [compileClassDef, bind_ok_iff, pure_ok_iff] at h
  obtain ⟨decs, h1, bases, h2, keywords, h3, name, h4, p, h5, body, h6, location, h7, rfl⟩ := h
  have h7' := firstLoc_mapPos (posQ_list (getNodeList_sub h6) hq) h7
  simp only [compileClassDef, getNodeList_mapPos h1, getNodeList_mapPos h2, optNodeList_mapPos h3, getStr_mapPos h4,
    np_mapPos h5, getNodeList_mapPos h6, h7', bind, Except.bind, pure, Except.pure]
  rfl

end SuppModel.Extract

namespace SuppModel.Extract
open SuppModel.Flow

variable {φ ψ : Pos → Pos}

/-! ### comprehensions -/

theorem compBinds_comm {cp : Option Pos} {i : Nat} (hcp : ∀ l, cp = some l → ψ l = φ l) :
    ∀ (ts : List Target) (prog : Prog), compBinds cp i ts = .ok prog →
      compBinds (cp.map φ) i (ts.map (Target.mapP φ)) = .ok (prog.map (Instr.mapP φ ψ)) := by
  intro ts
  induction ts with
  | nil => intro prog h; simp only [compBinds, pure_ok_iff] at h; subst h; rfl
  | cons t ts ih =>
    intro prog h
    cases t with
    | name p id =>
      simp only [compBinds, bind_ok_iff, pure_ok_iff] at h
      obtain ⟨loc, h1, rest, h2, rfl⟩ := h
      cases cp with
      | none => cases h1
      | some l =>
        simp only [pure_ok_iff] at h1; subst h1
        have ih' := ih rest h2
        simp only [Option.map_some] at ih'
        simp only [List.map_cons, Target.mapP, compBinds, Option.map_some, ih', bind, Except.bind, pure, Except.pure,
          List.map_append, List.map_cons, List.map_nil, Instr.mapP, Binding.mapP, NameInfo.mapP, assigned, Option.map_none]
        rw [hcp l rfl]
    | attr p =>
      simp only [compBinds, bind_ok_iff, pure_ok_iff] at h
      obtain ⟨rest, h2, rfl⟩ := h
      have ih' := ih rest h2
      simp only [List.map_cons, Target.mapP, compBinds, ih', bind, Except.bind, pure, Except.pure, Instr.mapP]
    | skip =>
      simp only [compBinds] at h
      simp only [List.map_cons, Target.mapP, compBinds]
      exact ih prog h

theorem compileGenerators_comm {n : Ast} {cp : Option Pos} (hcp : ∀ l, cp = some l → ψ l = φ l) :
    ∀ (gs : List Ast), (∀ g ∈ gs, Sub g n) → ∀ (i : Nat) (prog : Prog), compileGenerators cp gs i = .ok prog →
      compileGenerators (cp.map φ) (gs.map (Ast.mapPos φ)) i = .ok (prog.map (Instr.mapP φ ψ)) := by
  intro gs
  induction gs with
  | nil => intro _ i prog h; simp only [compileGenerators, pure_ok_iff] at h; subst h; rfl
  | cons g gs ih =>
    intro hs i prog h
    simp only [compileGenerators, bind_ok_iff, pure_ok_iff] at h
    obtain ⟨iter, h1, iterL, h2, target, h3, ts, h4, binds, h5, ifs, h6, rest, h7, rfl⟩ := h
    have hifs : (ifs.map (fun x => Instr.visitIn [x] (i + 1) none)).map (Instr.mapP φ ψ) =
        (ifs.map (Ast.mapPos φ)).map (fun x => Instr.visitIn [x] (i + 1) none) := by
      simp [List.map_map, Function.comp_def, Instr.mapP]
    simp only [List.map_cons, compileGenerators, get_mapPos h1, single_mapPos h2, getNode_mapPos h3, targetsOf_mapPos h4,
      compBinds_comm hcp ts binds h5, getNodeList_mapPos h6,
      ih (fun x hx => hs x (List.mem_cons_of_mem _ hx)) (i + 1) rest h7, bind, Except.bind, pure, Except.pure,
      List.map_append, hifs]
    rfl

theorem eltOf_comm {n elt : Ast} (h : eltOf n = .ok elt) : eltOf (n.mapPos φ) = .ok (elt.mapPos φ) := by
  unfold eltOf at h ⊢
  rw [field?_mapPos]
  split at h
  · rename_i kd p ns vs hv
    simp only [pure_ok_iff] at h; subst h
    rw [hv]
    rfl
  · rename_i hne
    have := get_mapPos (φ := φ) h
    cases hf : n.field? "elt" with
    | none => simpa [hf] using this
    | some v =>
      cases v with
      | node kd p ns vs => exact absurd hf (hne kd p ns vs)
      | list l => simpa [hf, Ast.mapPos] using this
      | str s => simpa [hf, Ast.mapPos] using this
      | int i => simpa [hf, Ast.mapPos] using this
      | none => simpa [hf, Ast.mapPos] using this

theorem keyProg_comm {n : Ast} {k : Nat} {prog : Prog} (h : keyProg n k = .ok prog) :
    keyProg (n.mapPos φ) k = .ok (prog.map (Instr.mapP φ ψ)) := by
  unfold keyProg at h ⊢
  rw [field?_mapPos]
  split at h
  · rename_i key hv
    rw [hv]
    simp only [bind_ok_iff, pure_ok_iff] at h
    obtain ⟨keyL, h1, rfl⟩ := h
    simp only [Option.map_some, single_mapPos h1, bind, Except.bind, pure, Except.pure]
    rfl
  · rename_i hv
    rw [hv]
    simp only [pure_ok_iff] at h; subst h; rfl

theorem compileComp_comm {n : Ast} {prog : Prog} (hn : n.isNode = true) (hq : n.all (posQ φ ψ) = true)
    (h : compileComp n = .ok prog) : compileComp (n.mapPos φ) = .ok (prog.map (Instr.mapP φ ψ)) := by
  simp only [compileComp, bind_ok_iff, pure_ok_iff] at h
  obtain ⟨gens, h1, gprog, h2, elt, h3, eltL, h4, kprog, h5, rfl⟩ := h
  have hcp : ∀ l, n.pos? = some l → ψ l = φ l := fun l hl => (posQ_pos (q_of_all hn hq) hl).1
  have e2 := compileGenerators_comm (n := n) hcp gens (getNodeList_sub h1) 0 gprog h2
  simp only [compileComp, getNodeList_mapPos h1, mapPos_pos, e2, eltOf_comm h3, single_mapPos h4, List.length_map,
    keyProg_comm (ψ := ψ) h5, bind, Except.bind, pure, Except.pure, List.map_append]
  rfl

/-! ### the dispatcher -/

/-- LAYER 2: on a node all of whose nodes satisfy the position conditions, the actions of the visit method on the
    re-positioned node are the re-positioned actions -/
theorem compile_comm {n : Ast} {prog : Prog} (hn : n.isNode = true) (hq : n.all (posQ φ ψ) = true)
    (h : compile n = .ok prog) : compile (n.mapPos φ) = .ok (prog.map (Instr.mapP φ ψ)) := by
  unfold compile at h ⊢
  rw [mapPos_kind]
  split at h <;> rename_i hk
  · exact compileAssign_comm hq h
  · exact compileAnnAssign_comm hn hq h
  · exact compileIf_comm h
  · exact compileFor_comm hq h
  · exact compileFor_comm hq h
  · exact compileWhile_comm h
  · exact compileImport_comm hn hq h
  · exact compileImportFrom_comm hn hq h
  · exact compileTry_comm hq h
  · exact compileTry_comm hq h
  · exact compileFunctionDef_comm hq h
  · exact compileFunctionDef_comm hq h
  · exact compileLambda_comm hq h
  · exact compileClassDef_comm hq h
  · exact compileReturn_comm h
  · exact compileComp_comm hn hq h
  · exact compileComp_comm hn hq h
  · exact compileComp_comm hn hq h
  · exact compileComp_comm hn hq h
  · exact compileWith_comm hq h
  · exact compileWith_comm hq h
  · exact compileGlobal_comm h
  · exact compileNonlocal_comm h
  · exact compileName_comm h
  · exact compileNamedExpr_comm hq h
  · simp only [pure_ok_iff] at h; subst h
    rw [generic_mapPos (ψ := ψ)]
    rfl

end SuppModel.Extract
