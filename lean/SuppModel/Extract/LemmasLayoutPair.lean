/-
  Extract family — layout independence for a REAL pair of trees: `layoutPairOK t1 t2` (decidable, evaluated by the
  driver) provides every hypothesis of the layout theorem, with φ ψ S read off the two trees.
-/
import SuppModel.Extract.LemmasLayout5
import SuppModel.Extract.LemmasLayoutGraph

namespace SuppModel.Extract
open SuppModel.Flow

/-- LAYER 2 packaged: `layoutQ` is a `Q` for which `compile` commutes with re-positioning -/
theorem compileComm_layoutQ (φ ψ : Pos → Pos) (S : List Pos) : CompileComm φ ψ S (layoutQ φ ψ S) := by
  intro n prog hn hall hp
  have hq : n.all (posQ φ ψ) = true :=
    all_mono (fun x hx => by simp only [layoutQ, Bool.and_eq_true] at hx; exact hx.1) n hall
  refine ⟨compile_comm hn hq hp, ?_⟩
  have := q_of_all hn hall
  simp only [layoutQ, Bool.and_eq_true, hp, List.all_eq_true, List.contains_iff_mem] at this
  intro l hl
  simpa using this.2 l hl

theorem queryIso_map {ψ : Pos → Pos} (pos pos' : Pos) (ls : List Pos) (h : ∀ l ∈ ls, Pos.lt pos' (ψ l) = Pos.lt pos l) :
    queryIso pos pos' ls (ls.map ψ) = true := by
  unfold queryIso
  simp only [List.length_map, beq_self_eq_true, Bool.true_and, List.all_eq_true, beq_iff_eq]
  intro a ha
  obtain ⟨i, hi⟩ := List.getElem?_of_mem ha
  simp only [List.getElem?_zip_eq_some, List.getElem?_map, Option.map_eq_some_iff] at hi
  obtain ⟨h1, x, h2, h3⟩ := hi
  rw [h1] at h2; injection h2 with h2; subst h2
  rw [← h3]
  exact (h a.1 (List.mem_of_getElem? h1)).symm

theorem queryIsoAt_mapLoc {ψ : Pos → Pos} (g : Graph) (f : Nat) (pos pos' : Pos)
    (h : ∀ l ∈ g.locsOf f, Pos.lt pos' (ψ l) = Pos.lt pos l) :
    queryIsoAt g (g.mapLoc ψ) f pos pos' = true := by
  unfold queryIsoAt
  rw [locsOf_mapLoc]
  exact queryIso_map pos pos' _ h

/-! ### the position map read off two trees -/

mutual
theorem mapPos_of_pairs (φ : Pos → Pos) : ∀ (t1 t2 : Ast), eqUpToPos t1 t2 = true →
    (∀ pq ∈ posPairs t1 t2, φ pq.1 = pq.2) → t1.mapPos φ = t2
  | .node k1 p1 ns1 vs1, t2, he, hp => by
    cases t2 with
    | node k2 p2 ns2 vs2 =>
      simp only [eqUpToPos, Bool.and_eq_true, beq_iff_eq] at he
      obtain ⟨⟨⟨hk, hs⟩, hns⟩, hl⟩ := he
      subst hk hns
      have hvs := mapPosList_of_pairs φ vs1 vs2 hl (fun pq h => hp pq (by simp [posPairs, h]))
      simp only [Ast.mapPos, hvs]
      cases p1 with
      | none => cases p2 with
        | none => rfl
        | some b => simp at hs
      | some a => cases p2 with
        | none => simp at hs
        | some b =>
          have := hp (a, b) (by simp [posPairs])
          simp only at this
          simp [this]
    | list _ => simp [eqUpToPos] at he
    | str _ => simp [eqUpToPos] at he
    | int _ => simp [eqUpToPos] at he
    | none => simp [eqUpToPos] at he
  | .list a, t2, he, hp => by
    cases t2 with
    | list b =>
      simp only [eqUpToPos] at he
      have := mapPosList_of_pairs φ a b he (fun pq h => hp pq (by simpa [posPairs] using h))
      simp only [Ast.mapPos, this]
    | node _ _ _ _ => simp [eqUpToPos] at he
    | str _ => simp [eqUpToPos] at he
    | int _ => simp [eqUpToPos] at he
    | none => simp [eqUpToPos] at he
  | .str a, t2, he, _ => by
    cases t2 with
    | str b => simp only [eqUpToPos, beq_iff_eq] at he; subst he; rfl
    | node _ _ _ _ => simp [eqUpToPos] at he
    | list _ => simp [eqUpToPos] at he
    | int _ => simp [eqUpToPos] at he
    | none => simp [eqUpToPos] at he
  | .int a, t2, he, _ => by
    cases t2 with
    | int b => simp only [eqUpToPos, beq_iff_eq] at he; subst he; rfl
    | node _ _ _ _ => simp [eqUpToPos] at he
    | list _ => simp [eqUpToPos] at he
    | str _ => simp [eqUpToPos] at he
    | none => simp [eqUpToPos] at he
  | .none, t2, he, _ => by
    cases t2 with
    | none => rfl
    | node _ _ _ _ => simp [eqUpToPos] at he
    | list _ => simp [eqUpToPos] at he
    | str _ => simp [eqUpToPos] at he
    | int _ => simp [eqUpToPos] at he
theorem mapPosList_of_pairs (φ : Pos → Pos) : ∀ (l1 l2 : List Ast), eqUpToPosList l1 l2 = true →
    (∀ pq ∈ posPairsList l1 l2, φ pq.1 = pq.2) → mapPosList φ l1 = l2
  | [], l2, he, _ => by
    cases l2 with
    | nil => rfl
    | cons _ _ => simp [eqUpToPosList] at he
  | x :: xs, l2, he, hp => by
    cases l2 with
    | nil => simp [eqUpToPosList] at he
    | cons y ys =>
      simp only [eqUpToPosList, Bool.and_eq_true] at he
      have h1 := mapPos_of_pairs φ x y he.1 (fun pq h => hp pq (by simp [posPairsList, h]))
      have h2 := mapPosList_of_pairs φ xs ys he.2 (fun pq h => hp pq (by simp [posPairsList, h]))
      simp only [mapPosList, h1, h2]
end

theorem phiOf_of_functional {pairs : List (Pos × Pos)} (h : functional pairs = true) :
    ∀ pq ∈ pairs, phiOf pairs pq.1 = pq.2 := by
  intro pq hpq
  simp only [functional, List.all_eq_true, beq_iff_eq] at h
  simp [phiOf, h pq hpq]

theorem orderPreserving_of_orderOK {ψ : Pos → Pos} {S : List Pos} (h : orderOK ψ S = true) : OrderPreserving ψ S := by
  intro a ha b hb
  simp only [orderOK, List.all_eq_true, List.mem_map, beq_iff_eq] at h
  exact h (a, ψ a) ⟨a, ha, rfl⟩ (b, ψ b) ⟨b, hb, rfl⟩

theorem queries_of_queriesOK {φ ψ : Pos → Pos} {S qs : List Pos} (h : queriesOK φ ψ S qs = true) :
    ∀ p ∈ qs, ψ p = φ p ∧ ∀ l ∈ S, Pos.lt (ψ p) (ψ l) = Pos.lt p l := by
  intro p hp
  simp only [queriesOK, List.all_eq_true, Bool.and_eq_true, decide_eq_true_eq, List.mem_map, beq_iff_eq] at h
  obtain ⟨h1, h2⟩ := h p hp
  exact ⟨h1, fun l hl => h2 (l, ψ l) ⟨l, hl, rfl⟩⟩

/-- what `layoutPairOK` provides -/
theorem layoutPairOK_spec {t1 t2 : Ast} (h : layoutPairOK t1 t2 = true) :
    t1.mapPos (pairPhi t1 t2) = t2 ∧
    t1.all (layoutQ (pairPhi t1 t2) (pairPsi t1 t2) (pairS t1)) = true ∧
    OrderPreserving (pairPsi t1 t2) (pairS t1) ∧
    ∀ p ∈ namePos t1, pairPsi t1 t2 p = pairPhi t1 t2 p ∧
      ∀ l ∈ pairS t1, Pos.lt (pairPsi t1 t2 p) (pairPsi t1 t2 l) = Pos.lt p l := by
  simp only [layoutPairOK, Bool.and_eq_true] at h
  obtain ⟨⟨⟨⟨h1, h2⟩, h3⟩, h4⟩, h5⟩ := h
  exact ⟨mapPos_of_pairs _ t1 t2 h1 (phiOf_of_functional h2), h3, orderPreserving_of_orderOK h4,
    queries_of_queriesOK h5⟩

end SuppModel.Extract
