/-
  Extract family — structural facts of every extracted graph that are part of `Graph.wf`
  (SuppModel/Flow/Scoping.lean), proved through the induction principle `extract_preserves`:
  flow and scope ids are their creation indices (hence unique), every name of a flow carries the
  flow's scope.  (The remaining conjuncts of `wf` - unique name ids, predecessors in the same scope, final
  flows, one module scope, finite parent chains - depend on which flows a visit method holds in its
  local variables; they are evaluated by the driver on every extracted graph of every run.)
-/
import SuppModel.Extract.LemmasInv

namespace SuppModel.Extract
open SuppModel.Flow

theorem getElem?_modifyAt {α} (l : List α) (i j : Nat) (g : α → α) :
    (modifyAt l i g)[j]? = if j = i then l[j]?.map g else l[j]? := by
  induction l generalizing i j with
  | nil => simp [modifyAt]
  | cons a as ih =>
    cases i with
    | zero => cases j <;> simp [modifyAt]
    | succ i =>
      cases j with
      | zero => simp [modifyAt]
      | succ j => simp [modifyAt, ih]

theorem length_modifyAt {α} (l : List α) (i : Nat) (g : α → α) : (modifyAt l i g).length = l.length := by
  induction l generalizing i with
  | nil => rfl
  | cons a as ih => cases i <;> simp [modifyAt, ih]

theorem mem_insertLoc {names : List NameRec} {n x : NameRec} (h : x ∈ insertLoc names n) : x ∈ names ∨ x = n := by
  unfold insertLoc at h
  split at h
  · split at h
    · simp only [List.mem_append, List.mem_singleton] at h; exact h
    · simp only [List.mem_append, List.mem_singleton] at h
      rcases h with (h | h) | h
      · exact Or.inl (List.mem_of_mem_take h)
      · exact Or.inr h
      · exact Or.inl (List.mem_of_mem_drop h)
  · simp only [List.mem_singleton] at h; exact Or.inr h

/-- ids are creation indices; names carry their flow's scope -/
structure Basic (st : St) : Prop where
  flowIds : ∀ (i : Nat) (f : FlowRec), st.flows[i]? = some f → f.id = i
  scopeIds : ∀ (i : Nat) (s : ScopeSt), st.scopes[i]? = some s → s.id = i
  nameScope : ∀ f ∈ st.flows, ∀ n ∈ f.names, n.scope = f.scope

theorem basic_init : Basic St.init := by
  refine ⟨?_, ?_, ?_⟩
  · intro i f h
    match i with
    | 0 => simp [St.init] at h; subst h; rfl
    | i + 1 => simp [St.init] at h
  · intro i s h
    match i with
    | 0 => simp [St.init] at h; subst h; rfl
    | 1 => simp [St.init] at h; subst h; rfl
    | i + 2 => simp [St.init] at h
  · intro f hf n hn
    simp [St.init] at hf; subst hf; cases hn

theorem basic_scopes_modify {st : St} (hb : Basic st) (sc : Nat) (g : ScopeSt → ScopeSt)
    (hid : ∀ s, (g s).id = s.id) :
    ∀ (i : Nat) (s : ScopeSt), (modifyAt st.scopes sc g)[i]? = some s → s.id = i := by
  intro i s h
  rw [getElem?_modifyAt] at h
  split at h
  · simp only [Option.map_eq_some_iff] at h
    obtain ⟨s0, h0, rfl⟩ := h
    rw [hid]; exact hb.scopeIds i s0 h0
  · exact hb.scopeIds i s h

theorem basic_flows_insert {st : St} (hb : Basic st) (f : Nat) (r : NameRec) (hr : r.scope = st.flowScope f) :
    (∀ (i : Nat) (fr : FlowRec), (modifyAt st.flows f (fun fr => { fr with names := insertLoc fr.names r }))[i]? = some fr → fr.id = i) ∧
    (∀ fr ∈ modifyAt st.flows f (fun fr => { fr with names := insertLoc fr.names r }), ∀ n ∈ fr.names, n.scope = fr.scope) := by
  constructor
  · intro i fr h
    rw [getElem?_modifyAt] at h
    split at h
    · simp only [Option.map_eq_some_iff] at h
      obtain ⟨f0, h0, rfl⟩ := h
      exact hb.flowIds i f0 h0
    · exact hb.flowIds i fr h
  · intro fr hfr n hn
    obtain ⟨i, hi⟩ := List.getElem?_of_mem hfr
    rw [getElem?_modifyAt] at hi
    split at hi
    · rename_i hif
      subst hif
      simp only [Option.map_eq_some_iff] at hi
      obtain ⟨f0, h0, rfl⟩ := hi
      rcases mem_insertLoc hn with hn | hn
      · exact hb.nameScope f0 (List.mem_of_getElem? h0) n hn
      · subst hn
        simp only [hr, St.flowScope, h0]
    · exact hb.nameScope fr (List.mem_of_getElem? hi) n hn

theorem getElem?_append_singleton {α} {l : List α} {x y : α} {i : Nat} (h : (l ++ [x])[i]? = some y) :
    l[i]? = some y ∨ (i = l.length ∧ y = x) := by
  simp only [List.getElem?_append] at h
  split at h
  · exact Or.inl h
  · rename_i hlt
    cases hi : i - l.length with
    | zero =>
      rw [hi] at h
      simp at h
      exact Or.inr ⟨by omega, h.symm⟩
    | succ k => rw [hi] at h; simp at h

theorem basic_preserved : Preserved Basic where
  setCur := fun _ _ h => ⟨h.flowIds, h.scopeIds, h.nameScope⟩
  newFlow := by
    intro st scope parents h
    refine ⟨?_, h.scopeIds, ?_⟩
    · intro i f hf
      rcases getElem?_append_singleton hf with hf | ⟨hi, rfl⟩
      · exact h.flowIds i f hf
      · exact hi.symm
    · intro f hf n hn
      simp only [St.newFlow, List.mem_append, List.mem_singleton] at hf
      rcases hf with hf | hf
      · exact h.nameScope f hf n hn
      · subst hf; cases hn
  addName := by
    intro st f b h
    simp only [St.addName]
    split
    · exact ⟨h.flowIds, h.scopeIds, h.nameScope⟩
    · obtain ⟨h1, h2⟩ := basic_flows_insert h f
        { id := st.infos.length, name := b.name, loc := b.loc, scope := st.flowScope f } rfl
      split
      · exact ⟨h1, h.scopeIds, h2⟩
      exact ⟨h1, basic_scopes_modify h (st.flowScope f)
        (fun s => { s with locals := addSet s.locals b.name }) (fun _ => rfl), h2⟩
  compName := by
    intro st f b h
    obtain ⟨h1, h2⟩ := basic_flows_insert h f
      { id := st.infos.length, name := b.name, loc := b.loc, scope := st.flowScope f } rfl
    exact ⟨h1, h.scopeIds, h2⟩
  addLoop := by
    intro st a b h
    refine ⟨?_, h.scopeIds, ?_⟩
    · intro i fr hf
      simp only [St.addLoop, getElem?_modifyAt] at hf
      split at hf
      · simp only [Option.map_eq_some_iff] at hf
        obtain ⟨f0, h0, rfl⟩ := hf
        exact h.flowIds i f0 h0
      · exact h.flowIds i fr hf
    · intro fr hfr n hn
      simp only [St.addLoop] at hfr
      rcases mem_modifyAt hfr with hfr | ⟨y, hy, rfl⟩
      · exact h.nameScope fr hfr n hn
      · exact h.nameScope y hy n hn
  setFinal := fun st h =>
    ⟨h.flowIds, basic_scopes_modify h st.curScope (fun s => { s with flow := st.cur }) (fun _ => rfl), h.nameScope⟩
  newScope := by
    intro st k h
    refine ⟨?_, ?_, ?_⟩
    · intro i f hf
      rcases getElem?_append_singleton hf with hf | ⟨hi, rfl⟩
      · exact h.flowIds i f hf
      · exact hi.symm
    · intro i s hs
      rcases getElem?_append_singleton hs with hs | ⟨hi, rfl⟩
      · exact h.scopeIds i s hs
      · exact hi.symm
    · intro f hf n hn
      simp only [St.newScope, List.mem_append, List.mem_singleton] at hf
      rcases hf with hf | hf
      · exact h.nameScope f hf n hn
      · subst hf; cases hn
  globalDecl := fun st ns h =>
    ⟨h.flowIds, basic_scopes_modify h st.curScope
      (fun s => { s with globalsDecl := ns.foldl addSet s.globalsDecl }) (fun _ => rfl), h.nameScope⟩
  nonlocalDecl := fun st ns h =>
    ⟨h.flowIds, basic_scopes_modify h st.curScope
      (fun s => { s with nonlocalsDecl := ns.foldl addSet s.nonlocalsDecl }) (fun _ => rfl), h.nameScope⟩
  addReturn := fun st h =>
    ⟨h.flowIds, basic_scopes_modify h st.curScope
      (fun s => match s.kind with | .func => { s with returns := s.returns + 1 } | _ => s)
      (fun s => by split <;> rfl), h.nameScope⟩
  flowAttr := fun _ _ h => ⟨h.flowIds, h.scopeIds, h.nameScope⟩
  attrAssign := fun _ _ h => ⟨h.flowIds, h.scopeIds, h.nameScope⟩
  addImport := fun _ _ h => ⟨h.flowIds, h.scopeIds, h.nameScope⟩
  addStar := fun _ _ h => ⟨h.flowIds, h.scopeIds, h.nameScope⟩
  clearStars := fun _ h => ⟨h.flowIds, h.scopeIds, h.nameScope⟩

theorem extract_basic (lines : List Text.Str) (mods : List (String × List String)) (t : Ast) (st : St)
    (h : extract lines mods t = .ok st) : Basic st :=
  extract_preserves basic_preserved basic_init lines mods t st h

end SuppModel.Extract
