/-
  Extract family — the full invariant of the extractor's state (`Good`): `Basic` (ids are creation indices,
  names carry their flow's scope), `NamesOK` (name ids are fresh: pairwise distinct), `Struct` on the skeleton
  (predecessors exist and lie in the same scope, scopes of flows exist, final flows belong to their scope,
  exactly scope 1 is the module, scope parents are earlier scopes).  Part 1: each primitive action keeps it.
-/
import SuppModel.Extract.LemmasStruct

namespace SuppModel.Extract
open SuppModel.Flow

def St.fsk (st : St) : FSk := st.flows.map (fun f => (f.scope, f.parents))
def St.ssk (st : St) : SSk := st.scopes.map (fun s => (s.kind, s.parent, s.flow))
def St.allNames (st : St) : List NameRec := st.flows.flatMap (·.names) ++ st.globalNames

structure NamesOK (st : St) : Prop where
  nodup : (st.allNames.map (·.id)).Nodup
  lt : ∀ n ∈ st.allNames, n.id < st.infos.length

structure Good (st : St) : Prop where
  basic : Basic st
  names : NamesOK st
  struct : Struct st.fsk st.ssk st.cur

theorem flowScope_eq (st : St) (f : Nat) : st.flowScope f = scopeOf st.fsk f := by
  simp only [St.flowScope, scopeOf, St.fsk, List.getElem?_map]
  cases st.flows[f]? <;> rfl

theorem curScope_eq (st : St) : st.curScope = scopeOf st.fsk st.cur := flowScope_eq st st.cur

theorem map_modifyAt_same {α β} (sk : α → β) (g : α → α) (hg : ∀ x, sk (g x) = sk x) (l : List α) (i : Nat) :
    (modifyAt l i g).map sk = l.map sk := by
  induction l generalizing i with
  | nil => rfl
  | cons a as ih => cases i <;> simp [modifyAt, hg, ih]

theorem map_modifyAt {α β} (sk : α → β) (g : α → α) (g' : β → β) (hg : ∀ x, sk (g x) = g' (sk x)) (l : List α) (i : Nat) :
    (modifyAt l i g).map sk = modifyAt (l.map sk) i g' := by
  induction l generalizing i with
  | nil => rfl
  | cons a as ih => cases i <;> simp [modifyAt, hg, ih]

theorem flatMap_modifyAt_same {α β} (nm : α → List β) (g : α → α) (hg : ∀ x, nm (g x) = nm x) (l : List α) (i : Nat) :
    (modifyAt l i g).flatMap nm = l.flatMap nm := by
  induction l generalizing i with
  | nil => rfl
  | cons a as ih => cases i <;> simp [modifyAt, hg, ih]

/-! ### name ids -/

theorem insertLoc_perm (names : List NameRec) (r : NameRec) : (insertLoc names r).Perm (r :: names) := by
  unfold insertLoc
  split
  · split
    · exact List.perm_append_comm
    · have h1 : (names.take (bisectRight names r.loc) ++ [r] ++ names.drop (bisectRight names r.loc)).Perm
          (r :: (names.take (bisectRight names r.loc) ++ names.drop (bisectRight names r.loc))) := by
        rw [List.append_assoc]
        exact List.perm_middle
      rw [List.take_append_drop] at h1
      exact h1
  · rename_i hl
    have : names = [] := by
      cases names with
      | nil => rfl
      | cons a as => simp [List.getLast?] at hl
    subst this; exact List.Perm.refl _

theorem flatMap_insert_perm (flows : List FlowRec) (f : Nat) (r : NameRec) :
    ∃ extra, (extra = [] ∨ extra = [r]) ∧
      ((modifyAt flows f (fun fr => { fr with names := insertLoc fr.names r })).flatMap (·.names)).Perm
        (extra ++ flows.flatMap (·.names)) := by
  induction flows generalizing f with
  | nil => exact ⟨[], Or.inl rfl, List.Perm.refl _⟩
  | cons x xs ih =>
    cases f with
    | zero =>
      refine ⟨[r], Or.inr rfl, ?_⟩
      simp only [modifyAt, List.flatMap_cons, List.singleton_append]
      exact List.Perm.append_right _ (insertLoc_perm x.names r)
    | succ f =>
      obtain ⟨extra, he, hp⟩ := ih f
      refine ⟨extra, he, ?_⟩
      simp only [modifyAt, List.flatMap_cons]
      refine (List.Perm.append_left x.names hp).trans ?_
      rw [← List.append_assoc, ← List.append_assoc]
      exact List.Perm.append_right _ List.perm_append_comm

theorem dictSet_perm (gn : List NameRec) (r : NameRec) :
    ∃ l', l'.Sublist gn ∧ (dictSet gn r).Perm (r :: l') := by
  induction gn with
  | nil => exact ⟨[], List.Sublist.refl _, List.Perm.refl _⟩
  | cons m rest ih =>
    simp only [dictSet]
    split
    · exact ⟨rest, List.sublist_cons_self m rest, List.Perm.refl _⟩
    · obtain ⟨l', hs, hp⟩ := ih
      exact ⟨m :: l', hs.cons_cons m, (List.Perm.cons m hp).trans (List.Perm.swap r m l')⟩

theorem ids_step {all all' l' : List NameRec} {N : Nat} (hn : (all.map (·.id)).Nodup) (hlt : ∀ n ∈ all, n.id < N)
    {r : NameRec} (hr : r.id = N) (hs : l'.Sublist all) (hp : all'.Perm (r :: l') ∨ all'.Perm l') :
    (all'.map (·.id)).Nodup ∧ ∀ n ∈ all', n.id < N + 1 := by
  have hn' : (l'.map (·.id)).Nodup := hn.sublist (hs.map _)
  have hlt' : ∀ n ∈ l', n.id < N := fun n hn => hlt n (hs.subset hn)
  rcases hp with hp | hp
  · constructor
    · rw [(hp.map _).nodup_iff, List.map_cons, List.nodup_cons]
      refine ⟨?_, hn'⟩
      intro hm
      obtain ⟨n, hnm, he⟩ := List.mem_map.mp hm
      have := hlt' n hnm
      omega
    · intro n hnm
      rcases List.mem_cons.mp (hp.mem_iff.mp hnm) with rfl | h
      · omega
      · have := hlt' n h; omega
  · constructor
    · rw [(hp.map _).nodup_iff]; exact hn'
    · intro n hnm
      have := hlt' n (hp.mem_iff.mp hnm); omega

theorem namesOK_insert {st : St} (h : NamesOK st) (f : Nat) (r : NameRec) (hr : r.id = st.infos.length)
    (st' : St) (hf : st'.flows = modifyAt st.flows f (fun fr => { fr with names := insertLoc fr.names r }))
    (hg : st'.globalNames = st.globalNames) (hi : st'.infos.length = st.infos.length + 1) : NamesOK st' := by
  obtain ⟨extra, he, hp⟩ := flatMap_insert_perm st.flows f r
  have hp' : st'.allNames.Perm (extra ++ st.allNames) := by
    simp only [St.allNames, hf, hg]
    rw [← List.append_assoc]
    exact List.Perm.append_right _ hp
  have := ids_step h.nodup h.lt hr (List.Sublist.refl _) (all' := st'.allNames)
    (by rcases he with rfl | rfl
        · exact Or.inr hp'
        · exact Or.inl hp')
  exact ⟨this.1, by rw [hi]; exact this.2⟩

theorem namesOK_global {st : St} (h : NamesOK st) (r : NameRec) (hr : r.id = st.infos.length)
    (st' : St) (hf : st'.flows = st.flows) (hg : st'.globalNames = dictSet st.globalNames r)
    (hi : st'.infos.length = st.infos.length + 1) : NamesOK st' := by
  obtain ⟨l', hs, hp⟩ := dictSet_perm st.globalNames r
  have hp' : st'.allNames.Perm (r :: (st.flows.flatMap (·.names) ++ l')) := by
    simp only [St.allNames, hf, hg]
    exact (List.Perm.append_left _ hp).trans List.perm_middle
  have := ids_step h.nodup h.lt hr (List.Sublist.append_left hs _ : (st.flows.flatMap (·.names) ++ l').Sublist st.allNames)
    (all' := st'.allNames) (Or.inl hp')
  exact ⟨this.1, by rw [hi]; exact this.2⟩

theorem namesOK_same {st st' : St} (h : NamesOK st) (hn : st'.allNames = st.allNames) (hi : st'.infos = st.infos) :
    NamesOK st' :=
  ⟨by rw [hn]; exact h.nodup, by rw [hn, hi]; exact h.lt⟩

/-! ### each primitive keeps `Good` -/

theorem Good.setCur {st : St} (h : Good st) {v : Nat} (hv : v < st.fsk.length) : Good { st with cur := v } :=
  ⟨basic_preserved.setCur st v h.basic, namesOK_same h.names rfl rfl, h.struct.setCur hv⟩

theorem Good.addName {st : St} (h : Good st) (f : Nat) (b : Binding) :
    Good (st.addName f b) ∧ (st.addName f b).fsk = st.fsk ∧ (st.addName f b).cur = st.cur := by
  have hfsk : (st.addName f b).fsk = st.fsk := by
    simp only [St.addName, St.fsk]
    split
    · rfl
    · split <;>
      · dsimp only
        apply map_modifyAt_same
        intro x; rfl
  have hssk : (st.addName f b).ssk = st.ssk := by
    simp only [St.addName, St.ssk]
    split
    · rfl
    · split
      · rfl
      · dsimp only
        apply map_modifyAt_same
        intro x; rfl
  have hcur : (st.addName f b).cur = st.cur := by
    simp only [St.addName]
    split
    · rfl
    · split <;> rfl
  refine ⟨⟨basic_preserved.addName st f b h.basic, ?_, by rw [hfsk, hssk, hcur]; exact h.struct⟩, hfsk, hcur⟩
  simp only [St.addName]
  split
  · exact namesOK_global h.names _ rfl _ rfl rfl (by simp)
  · split
    · exact namesOK_insert h.names f _ rfl _ rfl rfl (by simp)
    · exact namesOK_insert h.names f _ rfl _ rfl rfl (by simp)

theorem Good.compName {st : St} (h : Good st) (f : Nat) (b : Binding) :
    Good (st.compName f b) ∧ (st.compName f b).fsk = st.fsk ∧ (st.compName f b).cur = st.cur := by
  have e1 : (st.compName f b).fsk = st.fsk := by
    simp only [St.compName, St.fsk]
    apply map_modifyAt_same
    intro x; rfl
  refine ⟨⟨basic_preserved.compName st f b h.basic, ?_, ?_⟩, e1, rfl⟩
  · exact namesOK_insert h.names f _ rfl _ rfl rfl (by simp [St.compName])
  · rw [e1]; exact h.struct

theorem Good.newFlow {st : St} (h : Good st) {S : Nat} {ps : List Parent} (hS : S < st.ssk.length)
    (hps : ∀ p ∈ ps, PIn st.fsk S p) :
    Good (st.newFlow S ps).1 ∧ (st.newFlow S ps).1.fsk = st.fsk ++ [(S, ps)] ∧ (st.newFlow S ps).1.cur = st.cur ∧
    (st.newFlow S ps).2 = st.fsk.length := by
  have e1 : (st.newFlow S ps).1.fsk = st.fsk ++ [(S, ps)] := by simp [St.newFlow, St.fsk]
  refine ⟨⟨basic_preserved.newFlow st S ps h.basic, ?_, ?_⟩, e1, rfl, by simp [St.newFlow, St.fsk]⟩
  · exact namesOK_same h.names (by simp [St.allNames, St.newFlow]) rfl
  · rw [e1]; exact h.struct.newFlow hS hps

theorem Good.addLoop {st : St} (h : Good st) {hd t : Nat} (ht : FIn st.fsk t (scopeOf st.fsk hd)) :
    Good (st.addLoop hd t) ∧ MonoF st.fsk (st.addLoop hd t).fsk ∧ (st.addLoop hd t).cur = st.cur := by
  have e1 : (st.addLoop hd t).fsk = modifyAt st.fsk hd (fun x => (x.1, x.2 ++ [Parent.loop hd t])) := by
    simp only [St.addLoop, St.fsk]
    apply map_modifyAt
    intro x; rfl
  refine ⟨⟨basic_preserved.addLoop st hd t h.basic, ?_, ?_⟩, ?_, rfl⟩
  · exact namesOK_same h.names (by
      simp only [St.allNames, St.addLoop]
      congr 1
      apply flatMap_modifyAt_same
      intro x; rfl) rfl
  · rw [e1]; exact h.struct.addLoop ht
  · rw [e1]; exact monoF_modify _ _ _ (fun _ => rfl)

theorem Good.setFinal {st : St} (h : Good st) :
    Good st.setFinal ∧ st.setFinal.fsk = st.fsk ∧ st.setFinal.cur = st.cur := by
  have e2 : st.setFinal.ssk = modifyAt st.ssk (scopeOf st.fsk st.cur) (fun s => (s.1, s.2.1, st.cur)) := by
    simp only [St.setFinal, St.ssk, curScope_eq]
    apply map_modifyAt
    intro x; rfl
  refine ⟨⟨basic_preserved.setFinal st h.basic, namesOK_same h.names rfl rfl, ?_⟩, rfl, rfl⟩
  show Struct st.fsk st.setFinal.ssk st.cur
  rw [e2]; exact h.struct.setFinal

theorem Good.scopesSame {st st' : St} (h : Good st) (hb : Basic st') (hf : st'.flows = st.flows)
    (hs : st'.ssk = st.ssk) (hg : st'.globalNames = st.globalNames) (hi : st'.infos = st.infos) (hc : st'.cur = st.cur) :
    Good st' := by
  refine ⟨hb, namesOK_same h.names (by simp [St.allNames, hf, hg]) hi, ?_⟩
  have : st'.fsk = st.fsk := by simp [St.fsk, hf]
  rw [this, hs, hc]; exact h.struct

theorem Good.globalDecl {st : St} (h : Good st) (ns : List String) : Good (st.globalDecl ns) :=
  h.scopesSame (basic_preserved.globalDecl st ns h.basic) rfl
    (by simp only [St.globalDecl, St.ssk]; apply map_modifyAt_same; intro x; rfl) rfl rfl rfl

theorem Good.nonlocalDecl {st : St} (h : Good st) (ns : List String) : Good (st.nonlocalDecl ns) :=
  h.scopesSame (basic_preserved.nonlocalDecl st ns h.basic) rfl
    (by simp only [St.nonlocalDecl, St.ssk]; apply map_modifyAt_same; intro x; rfl) rfl rfl rfl

theorem Good.addReturn {st : St} (h : Good st) : Good st.addReturn :=
  h.scopesSame (basic_preserved.addReturn st h.basic) rfl
    (by simp only [St.addReturn, St.ssk]; apply map_modifyAt_same; intro x; split <;> rfl) rfl rfl rfl

theorem Good.newScope {st : St} (h : Good st) {k : ScopeKind} (hk : k = .func ∨ k = .cls) :
    Good (st.newScope k).1 ∧ MonoF st.fsk (st.newScope k).1.fsk ∧ (st.newScope k).1.cur = st.cur ∧
    FIn (st.newScope k).1.fsk (st.newScope k).2.2 (st.newScope k).2.1 := by
  have e1 : (st.newScope k).1.fsk = st.fsk ++ [(st.ssk.length, [])] := by simp [St.newScope, St.fsk, St.ssk]
  have e2 : (st.newScope k).1.ssk = st.ssk ++ [(k, some (scopeOf st.fsk st.cur), st.fsk.length)] := by
    simp [St.newScope, St.fsk, St.ssk, curScope_eq]
  refine ⟨⟨basic_preserved.newScope st k h.basic, ?_, ?_⟩, ?_, rfl, ?_⟩
  · exact namesOK_same h.names (by simp [St.allNames, St.newScope]) rfl
  · show Struct (st.newScope k).1.fsk (st.newScope k).1.ssk st.cur
    rw [e1, e2]; exact h.struct.newScope hk
  · rw [e1]; exact monoF_append _ _
  · rw [e1]
    have : (st.newScope k).2.2 = st.fsk.length := by simp [St.newScope, St.fsk]
    rw [this]
    have : (st.newScope k).2.1 = st.ssk.length := by simp [St.newScope, St.ssk]
    rw [this]
    exact fin_newFlow _ _ _

theorem good_init : Good St.init :=
  ⟨basic_init, ⟨by simp [St.allNames, St.init], by simp [St.allNames, St.init]⟩, struct_init⟩

end SuppModel.Extract
