/-
  Extract family — cursor-mark transparency with the rename half PROVED (no `renQ` / `renAQ` among the hypotheses).
-/
import SuppModel.Extract.LemmasRenameAttrLaws
import SuppModel.Extract.LemmasMarkAttr

namespace SuppModel.Extract
open SuppModel.Flow

theorem mark_transparent2 (t : Ast) (cursor p : Pos) (newId : String) (k : Nat)
    (hok : markOK2 t cursor p newId k = true)
    (lines lines' : List Text.Str) (mods : List (String × List String)) (s : St) (b : List String)
    (h : extract lines mods t = .ok s) :
    ∃ s', extract lines' mods (markTree t cursor p newId k) = .ok s' ∧
      sameShape (s.toGraph b) (s'.toGraph b) = true ∧
      (∀ id f, (some p, id, f) ∈ s.flowAttrs → (some p, newId, f) ∈ s'.flowAttrs) ∧
      ∀ (n : Nat) (R : List Nat) (f : Nat), namesAt (s'.toGraph b) n R f cursor = namesAt (s.toGraph b) n R f cursor := by
  simp only [markOK2, Bool.and_eq_true, List.all_eq_true, beq_iff_eq, decide_eq_true_eq] at hok
  obtain ⟨⟨⟨h1, h2⟩, h3⟩, h4⟩ := hok
  have hr : extract lines mods (t.rename p newId) = .ok (s.mapAttrs (attrRen p newId)) :=
    extract_rename_ok lines mods t h1 s h
  obtain ⟨hmap, hq, hop, _⟩ := layoutPairOK_spec h2
  obtain ⟨s', e, hs, hl⟩ := extract_sim hop lines lines' mods
    (compileComm_layoutQ (pairPhi (t.rename p newId) (markTree t cursor p newId k))
      (pairPsi (t.rename p newId) (markTree t cursor p newId k)) (pairS (t.rename p newId)))
    (t.rename p newId) hq _ hr
  rw [hmap] at e
  have hg := hs.toGraph b
  have hg0 : (s.mapAttrs (attrRen p newId)).toGraph b = s.toGraph b := rfl
  rw [hg0] at hg
  have hsame : sameShape (s.toGraph b) (s'.toGraph b) = true := by rw [hg]; exact sameShape_mapLoc _
  refine ⟨s', e, hsame, ?_, ?_⟩
  · intro id f hm
    rw [hs.flowAttrs]
    refine List.mem_map.mpr ⟨(some p, newId, f), ?_, by simp [h4]⟩
    exact List.mem_map.mpr ⟨(some p, id, f), hm, by simp [attrRen]⟩
  · intro n R f
    apply SuppModel.Props.C13.C13_layouts _ _ n R f cursor cursor hsame
    rw [hg]
    apply queryIsoAt_mapLoc
    intro l hlm
    exact h3 l (locsOf_in hl b f l (by rw [hg0]; exact hlm))

theorem mark_transparent_attr2 (t : Ast) (cursor p : Pos) (z : Nat) (newAttr : String) (k : Nat)
    (hok : markAttrOK2 t cursor p z newAttr k = true)
    (lines lines' : List Text.Str) (mods : List (String × List String)) (s : St) (b : List String)
    (h : extract lines mods t = .ok s) :
    ∃ s', extract lines' mods (markAttrTree t cursor p z newAttr k) = .ok s' ∧
      sameShape (s.toGraph b) (s'.toGraph b) = true ∧
      s'.attrAssigns = s.attrAssigns.map (fun x => (x.1, x.2.map
        (pairPhi (t.renameAttr p z newAttr) (markAttrTree t cursor p z newAttr k)))) ∧
      (∀ q ∈ valueNamePos t p z, ∀ id f, (some q, id, f) ∈ s.flowAttrs → (some q, id, f) ∈ s'.flowAttrs) ∧
      ∀ q ∈ valueNamePos t p z, ∀ (n : Nat) (R : List Nat) (f : Nat),
        namesAt (s'.toGraph b) n R f q = namesAt (s.toGraph b) n R f q := by
  simp only [markAttrOK2, Bool.and_eq_true, List.all_eq_true, beq_iff_eq, decide_eq_true_eq] at hok
  obtain ⟨h2, h3⟩ := hok
  have hr : extract lines mods (t.renameAttr p z newAttr) = .ok s := extract_renameAttr_ok lines mods t s h
  obtain ⟨hmap, hq, hop, _⟩ := layoutPairOK_spec h2
  obtain ⟨s', e, hs, hl⟩ := extract_sim hop lines lines' mods
    (compileComm_layoutQ (pairPhi (t.renameAttr p z newAttr) (markAttrTree t cursor p z newAttr k))
      (pairPsi (t.renameAttr p z newAttr) (markAttrTree t cursor p z newAttr k)) (pairS (t.renameAttr p z newAttr)))
    (t.renameAttr p z newAttr) hq _ hr
  rw [hmap] at e
  have hg := hs.toGraph b
  have hsame : sameShape (s.toGraph b) (s'.toGraph b) = true := by rw [hg]; exact sameShape_mapLoc _
  refine ⟨s', e, hsame, hs.attrAssigns, ?_, ?_⟩
  · intro q hq' id f hm
    rw [hs.flowAttrs]
    exact List.mem_map.mpr ⟨(some q, id, f), hm, by simp [(h3 q hq').1]⟩
  · intro q hq' n R f
    apply SuppModel.Props.C13.C13_layouts _ _ n R f q q hsame
    rw [hg]
    apply queryIsoAt_mapLoc
    intro l hlm
    exact (h3 q hq').2 l (locsOf_in hl b f l hlm)

end SuppModel.Extract
