/-
  Attrs — specification: Python's attribute lookup, written independently of the model's tables.
  `mro` is the depth-first left-to-right linearisation, which is Python's C3 MRO exactly for hierarchies
  without repeated ancestors (`NoRepeatedAncestors`, the property's domain; the harness compares `mro`
  with CPython's `__mro__` on every generated hierarchy).
-/
import SuppModel.Attrs.Model

namespace SuppModel.Attrs

inductive MroEntry where
  | cls (c : ClassId)
  | builtin (name : String) (attrs : List String)
deriving DecidableEq, Repr

def baseMro (rec : ClassId → List MroEntry) : Base → List MroEntry
  | .src d => rec d
  | .builtin nm attrs _ => [.builtin nm attrs]
  | .unknown => []

def mroF : Nat → Hier → ClassId → List MroEntry
  | 0, _, _ => []
  | n + 1, h, c => .cls c :: (getDef h c).bases.flatMap (baseMro (mroF n h))

def mro (h : Hier) (c : ClassId) : List MroEntry := mroF (fuel h) h c

/-- the binding a class body leaves under `x` after running top to bottom: the last one -/
def bodyLookup : List (String × Site) → String → Option Site
  | [], _ => none
  | (k, s) :: r, x =>
    match bodyLookup r x with
    | some s' => some s'
    | none => if k = x then some s else none

/-- the sites of `self.x = …` in the methods of one class -/
def selfSites (cd : ClassDef) (x : String) : List Site :=
  (cd.selfAssigns.filter (fun p => p.1 = x)).map (·.2)

def classEntry (h : Hier) (x : String) : MroEntry → Option Val
  | .cls c => (bodyLookup (getDef h c).body x).map Val.site
  | .builtin nm attrs => if x ∈ attrs then some (.builtin nm) else none

def instEntry (h : Hier) (x : String) : MroEntry → Option Val
  | .cls c => if selfSites (getDef h c) x = [] then none else some (.multi (selfSites (getDef h c) x))
  | .builtin _ _ => none

/-- class attribute lookup: the first entry of the MRO that defines `x` -/
def classLookup (h : Hier) (c : ClassId) (x : String) : Option Val :=
  (mro h c).findSome? (classEntry h x)

/-- is `x` assigned through `self` in a method of some class of the MRO -/
def instAssigned (h : Hier) (c : ClassId) (x : String) : Bool :=
  (mro h c).any (fun e => (instEntry h x e).isSome)

/-- attributes of the runtime instance of a direct builtin base (`dir(dict())` for `class C(dict)`):
    what supp adds below everything else -/
def runtimeInstLookup (h : Hier) (c : ClassId) (x : String) : Option Val :=
  (getDef h c).bases.findSome? (fun b => match b with
    | .builtin nm _ inst => if x ∈ inst then some (.builtin nm) else none
    | _ => none)

def isObject : MroEntry → Bool
  | .builtin nm _ => nm == "object"
  | _ => false

/-- `object` is an ancestor of every class: it may only be written as a base where it ends the linearisation -/
def objectLast : List MroEntry → Bool
  | [] => true
  | [_] => true
  | e :: r => !isObject e && objectLast r

def entryKey : MroEntry → Sum ClassId String
  | .cls c => .inl c
  | .builtin nm _ => .inr nm

/-- no class (source or builtin) is reached along two inheritance paths -/
def NoRepeatedAncestors (h : Hier) (c : ClassId) : Prop :=
  ((mro h c).map entryKey).Nodup ∧ objectLast (mro h c) = true

instance (h : Hier) (c : ClassId) : Decidable (NoRepeatedAncestors h c) := by
  unfold NoRepeatedAncestors; infer_instance

def bodyNames (cd : ClassDef) : List String := cd.body.map (·.1)
def selfNames (cd : ClassDef) : List String := cd.selfAssigns.map (·.1)

end SuppModel.Attrs
