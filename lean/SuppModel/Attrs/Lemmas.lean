/-
  Attrs — lemmas: dict algebra, the closed form of the merged tables, fuel independence.
-/
import SuppModel.Attrs.Spec

namespace SuppModel.Attrs

namespace Dict
variable {α : Type}

@[simp] theorem get_nil (x : String) : get ([] : Dict α) x = none := rfl

theorem get_set (d : Dict α) (k : String) (v : α) (x : String) :
    get (set d k v) x = if k = x then some v else get d x := by
  induction d with
  | nil => simp [set, get]
  | cons p r ih =>
    obtain ⟨k', v'⟩ := p
    simp only [set]
    by_cases hk : k' = k
    · subst hk
      simp only [if_true, get]
      by_cases hx : k' = x <;> simp [hx]
    · simp only [hk, if_false, get, ih]
      by_cases hx : k' = x
      · subst hx
        have : ¬ k = k' := fun e => hk e.symm
        simp [this]
      · simp [hx]

theorem keys_set (d : Dict α) (k : String) (v : α) :
    keys (set d k v) = if k ∈ keys d then keys d else keys d ++ [k] := by
  induction d with
  | nil => simp [set, keys]
  | cons p r ih =>
    obtain ⟨k', v'⟩ := p
    simp only [set]
    split
    · rename_i hk; subst hk; simp [keys]
    · rename_i hk
      have ih' : List.map (fun x => x.fst) (set r k v) =
          if k ∈ List.map (fun x => x.fst) r then List.map (fun x => x.fst) r
          else List.map (fun x => x.fst) r ++ [k] := ih
      simp only [keys, List.map_cons, List.mem_cons, ih']
      have : ¬ k = k' := fun e => hk e.symm
      split <;> simp_all

theorem nodup_set (d : Dict α) (k : String) (v : α) (hd : (keys d).Nodup) : (keys (set d k v)).Nodup := by
  rw [keys_set]
  split
  · exact hd
  · rename_i hk
    rw [List.nodup_append]
    refine ⟨hd, by simp, ?_⟩
    intro a ha b hb
    simp at hb; subst hb
    intro e; subst e; exact hk ha

theorem nodup_update (d : Dict α) (e : List (String × α)) (hd : (keys d).Nodup) :
    (keys (update d e)).Nodup := by
  induction e generalizing d with
  | nil => simpa [update] using hd
  | cons p r ih => simpa [update] using ih (set d p.1 p.2) (nodup_set d p.1 p.2 hd)

/-- the last binding of `x` in a list of pairs -/
def getLast : List (String × α) → String → Option α
  | [], _ => none
  | (k, v) :: r, x => (getLast r x).or (if k = x then some v else none)

theorem get_update (d : Dict α) (e : List (String × α)) (x : String) :
    get (update d e) x = (getLast e x).or (get d x) := by
  induction e generalizing d with
  | nil => simp [update, getLast]
  | cons p r ih =>
    obtain ⟨k, v⟩ := p
    have : update d ((k, v) :: r) = update (set d k v) r := by simp [update]
    rw [this, ih, get_set]
    simp only [getLast]
    cases getLast r x <;> (split <;> simp_all)

theorem get_eq_none_of_not_mem (d : Dict α) (x : String) (hx : x ∉ keys d) : get d x = none := by
  induction d with
  | nil => rfl
  | cons p r ih =>
    obtain ⟨k, v⟩ := p
    simp only [keys, List.map_cons, List.mem_cons, not_or] at hx
    simp only [get]
    split
    · rename_i hk; exact absurd hk.symm hx.1
    · exact ih hx.2

theorem get_isSome_iff (d : Dict α) (x : String) : (get d x).isSome = true ↔ x ∈ keys d := by
  induction d with
  | nil => simp [get, keys]
  | cons p r ih =>
    obtain ⟨k, v⟩ := p
    simp only [get, keys, List.map_cons, List.mem_cons]
    split
    · rename_i hk; simp [hk]
    · rename_i hk
      rw [ih]
      constructor
      · intro hm; exact Or.inr hm
      · rintro (e | hm)
        · exact absurd e.symm hk
        · exact hm

theorem getLast_eq_get (d : Dict α) (x : String) (hd : (keys d).Nodup) : getLast d x = get d x := by
  induction d with
  | nil => rfl
  | cons p r ih =>
    obtain ⟨k, v⟩ := p
    simp only [keys, List.map_cons, List.nodup_cons] at hd
    simp only [getLast, get, ih hd.2]
    split
    · rename_i hk; subst hk
      rw [get_eq_none_of_not_mem r k hd.1]; rfl
    · cases get r x <;> rfl

theorem get_update_dict (d e : Dict α) (x : String) (he : (keys e).Nodup) :
    get (update d e) x = (get e x).or (get d x) := by
  rw [get_update, getLast_eq_get e x he]

theorem get_map (d : Dict α) {β : Type} (f : α → β) (x : String) :
    get (d.map (fun p => (p.1, f p.2))) x = (get d x).map f := by
  induction d with
  | nil => rfl
  | cons p r ih =>
    obtain ⟨k, v⟩ := p
    simp only [List.map_cons, get, ih]
    split <;> rfl

theorem keys_map (d : Dict α) {β : Type} (f : α → β) :
    keys (d.map (fun p => (p.1, f p.2))) = keys d := by
  simp [keys, List.map_map, Function.comp_def]

end Dict

open Dict

/-! ### generic list facts -/

theorem findSome?_flatMap {α β γ : Type} (l : List α) (f : α → List β) (p : β → Option γ) :
    (l.flatMap f).findSome? p = l.findSome? (fun a => (f a).findSome? p) := by
  induction l with
  | nil => rfl
  | cons a r ih =>
    simp only [List.flatMap_cons, List.findSome?_append, List.findSome?_cons, ih]
    cases (f a).findSome? p <;> rfl

theorem flatMap_congr_mem {α β : Type} (l : List α) (f g : α → List β)
    (hfg : ∀ a ∈ l, f a = g a) : l.flatMap f = l.flatMap g := by
  induction l with
  | nil => rfl
  | cons a r ih =>
    simp only [List.flatMap_cons, hfg a (by simp)]
    rw [ih (fun b hb => hfg b (by simp [hb]))]

theorem findSome?_congr_mem {α β : Type} (l : List α) (f g : α → Option β)
    (hfg : ∀ a ∈ l, f a = g a) : l.findSome? f = l.findSome? g := by
  induction l with
  | nil => rfl
  | cons a r ih =>
    simp only [List.findSome?_cons, hfg a (by simp)]
    rw [ih (fun b hb => hfg b (by simp [hb]))]

theorem findSome?_isSome {α β : Type} (l : List α) (f : α → Option β) :
    (l.findSome? f).isSome = true ↔ ∃ a ∈ l, (f a).isSome = true := by
  induction l with
  | nil => simp
  | cons a r ih =>
    simp only [List.findSome?_cons, List.mem_cons]
    cases hfa : f a with
    | some v => simp [hfa]
    | none =>
      simp only [ih]
      constructor
      · rintro ⟨b, hb, hs⟩; exact ⟨b, Or.inr hb, hs⟩
      · rintro ⟨b, hb | hb, hs⟩
        · subst hb; simp [hfa] at hs
        · exact ⟨b, hb, hs⟩

theorem findSome?_some_mem {α β : Type} (l : List α) (f : α → Option β) (v : β)
    (hv : l.findSome? f = some v) : ∃ a ∈ l, f a = some v := by
  induction l with
  | nil => simp at hv
  | cons a r ih =>
    simp only [List.findSome?_cons] at hv
    cases hfa : f a with
    | some w => rw [hfa] at hv; simp at hv; subst hv; exact ⟨a, by simp, hfa⟩
    | none =>
      rw [hfa] at hv
      obtain ⟨b, hb, hfb⟩ := ih hv
      exact ⟨b, by simp [hb], hfb⟩

/-! ### tables of one class -/

theorem nodup_clsAttrs (cd : ClassDef) : (keys (clsAttrs cd)).Nodup :=
  nodup_update [] _ (by simp [keys])

theorem nodup_fromKeys (ks : List String) (v : Val) : (keys (fromKeys ks v)).Nodup :=
  nodup_update [] _ (by simp [keys])

theorem getLast_body (body : List (String × Site)) (x : String) :
    getLast (body.map (fun p => (p.1, Val.site p.2))) x = (bodyLookup body x).map Val.site := by
  induction body with
  | nil => rfl
  | cons p r ih =>
    obtain ⟨k, s⟩ := p
    simp only [List.map_cons, getLast, ih, bodyLookup]
    cases bodyLookup r x with
    | some s' => rfl
    | none => simp only [Option.map_none, Option.none_or]; split <;> rfl

theorem get_clsAttrs (cd : ClassDef) (x : String) :
    get (clsAttrs cd) x = (bodyLookup cd.body x).map Val.site := by
  simp [clsAttrs, get_update, getLast_body]

theorem getLast_fromKeys (ks : List String) (v : Val) (x : String) :
    getLast (ks.map (fun k => (k, v))) x = if x ∈ ks then some v else none := by
  induction ks with
  | nil => rfl
  | cons k r ih =>
    simp only [List.map_cons, getLast, ih, List.mem_cons]
    by_cases hr : x ∈ r
    · simp [hr]
    · by_cases hk : k = x
      · subst hk; simp [hr]
      · have : ¬ x = k := fun e => hk e.symm
        simp [hr, hk, this]

theorem get_fromKeys (ks : List String) (v : Val) (x : String) :
    get (fromKeys ks v) x = if x ∈ ks then some v else none := by
  simp [fromKeys, get_update, getLast_fromKeys]

/-- sites of `x` in a list of self-assignments -/
def sitesOf (l : List (String × Site)) (x : String) : List Site :=
  (l.filter (fun p => p.1 = x)).map (·.2)

theorem get_foldl_assign (l : List (String × Site)) (d : Dict (List Site)) (x : String) :
    get (l.foldl (fun d p => Dict.set d p.1 (((Dict.get d p.1).getD []) ++ [p.2])) d) x =
      if sitesOf l x = [] then get d x else some ((get d x).getD [] ++ sitesOf l x) := by
  induction l generalizing d with
  | nil => simp [sitesOf]
  | cons p r ih =>
    obtain ⟨k, s⟩ := p
    simp only [List.foldl_cons, ih, get_set]
    by_cases hk : k = x
    · subst hk
      have : sitesOf ((k, s) :: r) k = s :: sitesOf r k := by simp [sitesOf]
      rw [this]
      by_cases hr : sitesOf r k = []
      · simp [hr]
      · simp [hr]
    · have : sitesOf ((k, s) :: r) x = sitesOf r x := by simp [sitesOf, hk]
      rw [this]
      simp [hk]

theorem nodup_foldl_assign (l : List (String × Site)) (d : Dict (List Site)) (hd : (keys d).Nodup) :
    (keys (l.foldl (fun d p => Dict.set d p.1 (((Dict.get d p.1).getD []) ++ [p.2])) d)).Nodup := by
  induction l generalizing d with
  | nil => simpa using hd
  | cons p r ih => exact ih _ (nodup_set d _ _ hd)

theorem nodup_ownInst (cd : ClassDef) : (keys (ownInst cd)).Nodup := by
  unfold ownInst
  rw [keys_map]
  exact nodup_foldl_assign _ [] (by simp [keys])

theorem get_ownInst (cd : ClassDef) (x : String) :
    get (ownInst cd) x = if selfSites cd x = [] then none else some (.multi (selfSites cd x)) := by
  unfold ownInst
  rw [get_map]
  unfold assignSites
  rw [get_foldl_assign]
  have : sitesOf cd.selfAssigns x = selfSites cd x := rfl
  rw [this]
  split <;> simp

/-! ### merging base tables -/

theorem mergeBases_cons (F : Base → Dict Val) (b : Base) (bs : List Base) (init : Dict Val) :
    mergeBases F (b :: bs) init = update (mergeBases F bs init) (F b) := by
  simp [mergeBases, List.foldl_append]

theorem nodup_mergeBases (F : Base → Dict Val) (bs : List Base) (init : Dict Val)
    (hi : (keys init).Nodup) : (keys (mergeBases F bs init)).Nodup := by
  induction bs with
  | nil => simpa [mergeBases] using hi
  | cons b r ih => rw [mergeBases_cons]; exact nodup_update _ _ ih

theorem get_mergeBases (F : Base → Dict Val) (bs : List Base) (init : Dict Val) (x : String)
    (hF : ∀ b ∈ bs, (keys (F b)).Nodup) :
    get (mergeBases F bs init) x = (bs.findSome? (fun b => get (F b) x)).or (get init x) := by
  induction bs with
  | nil => simp [mergeBases]
  | cons b r ih =>
    rw [mergeBases_cons, get_update_dict _ _ _ (hF b (by simp)), ih (fun b hb => hF b (by simp [hb]))]
    simp only [List.findSome?_cons]
    cases get (F b) x <;> rfl

/-! ### the whole hierarchy -/

theorem nodup_classAttrsF (n : Nat) (h : Hier) (c : ClassId) : (keys (classAttrsF n h c)).Nodup := by
  cases n with
  | zero => simp [classAttrsF, keys]
  | succ n => exact nodup_update _ _ (nodup_mergeBases _ _ _ (by simp [keys]))

theorem nodup_instOnlyF (n : Nat) (h : Hier) (c : ClassId) : (keys (instOnlyF n h c)).Nodup := by
  cases n with
  | zero => simp [instOnlyF, keys]
  | succ n => exact nodup_update _ _ (nodup_mergeBases _ _ _ (by simp [keys]))

theorem nodup_classAttrsG (n : Nat) (busy : List ClassId) (h : Hier) (c : ClassId) :
    (keys (classAttrsG n busy h c)).Nodup := by
  cases n with
  | zero => simp [classAttrsG, keys]
  | succ n =>
    simp only [classAttrsG]
    split
    · simp [keys]
    · exact nodup_update _ _ (nodup_mergeBases _ _ _ (by simp [keys]))

theorem nodup_instOnlyG (n : Nat) (busy : List ClassId) (h : Hier) (c : ClassId) :
    (keys (instOnlyG n busy h c)).Nodup := by
  cases n with
  | zero => simp [instOnlyG, keys]
  | succ n =>
    simp only [instOnlyG]
    split
    · simp [keys]
    · exact nodup_update _ _ (nodup_mergeBases _ _ _ (by simp [keys]))

theorem nodup_baseClassAttrs (n : Nat) (busy : List ClassId) (h : Hier) (b : Base) :
    (keys (baseClassAttrs (classAttrsG n busy h) b)).Nodup := by
  cases b with
  | src d => exact nodup_classAttrsG n busy h d
  | builtin nm a i => exact nodup_fromKeys _ _
  | unknown => simp [baseClassAttrs, keys]

theorem nodup_baseInstOnly (n : Nat) (busy : List ClassId) (h : Hier) (b : Base) :
    (keys (baseInstOnly (instOnlyG n busy h) b)).Nodup := by
  cases b with
  | src d => exact nodup_instOnlyG n busy h d
  | builtin nm a i => simp [baseInstOnly, keys]
  | unknown => simp [baseInstOnly, keys]

theorem nodup_baseRuntimeInst (b : Base) : (keys (baseRuntimeInst b)).Nodup := by
  cases b with
  | src d => simp [baseRuntimeInst, keys]
  | builtin nm a i => exact nodup_fromKeys _ _
  | unknown => simp [baseRuntimeInst, keys]

theorem okF_base {n : Nat} {h : Hier} {c : ClassId} (hok : okF (n + 1) h c = true) {d : ClassId}
    (hd : Base.src d ∈ (getDef h c).bases) : okF n h d = true := by
  simp only [okF, List.all_eq_true] at hok
  exact hok _ hd

theorem okG_base {n : Nat} {busy : List ClassId} {h : Hier} {c : ClassId} (hok : okG (n + 1) busy h c = true)
    {d : ClassId} (hd : Base.src d ∈ (getDef h c).bases) : okG n (c :: busy) h d = true := by
  simp only [okG, Bool.and_eq_true, List.all_eq_true] at hok
  exact hok.2 _ hd

theorem okG_not_busy {n : Nat} {busy : List ClassId} {h : Hier} {c : ClassId}
    (hok : okG (n + 1) busy h c = true) : c ∉ busy := by
  simp only [okG, Bool.and_eq_true, decide_eq_true_eq] at hok
  exact hok.1

theorem okF_of_okG (n : Nat) (busy : List ClassId) (h : Hier) (c : ClassId) (hok : okG n busy h c = true) :
    okF n h c = true := by
  induction n generalizing busy c with
  | zero => simp [okG] at hok
  | succ n ih =>
    simp only [okF, List.all_eq_true]
    intro b hb
    cases b with
    | src d => exact ih _ d (okG_base hok hb)
    | builtin nm a i => rfl
    | unknown => rfl

/-- closed form of the class table: the first MRO entry defining `x` -/
theorem get_classAttrsG (n : Nat) (busy : List ClassId) (h : Hier) (c : ClassId) (x : String)
    (hok : okG n busy h c = true) :
    get (classAttrsG n busy h c) x = (mroF n h c).findSome? (classEntry h x) := by
  induction n generalizing c busy with
  | zero => simp [okG] at hok
  | succ n ih =>
    simp only [classAttrsG, mroF, if_neg (okG_not_busy hok)]
    rw [get_update_dict _ _ _ (nodup_clsAttrs _), get_clsAttrs,
      get_mergeBases _ _ _ _ (fun b _ => nodup_baseClassAttrs n (c :: busy) h b)]
    simp only [List.findSome?_cons, classEntry, findSome?_flatMap, Dict.get_nil, Option.or_none]
    have hb : (getDef h c).bases.findSome? (fun b => get (baseClassAttrs (classAttrsG n (c :: busy) h) b) x) =
        (getDef h c).bases.findSome? (fun a => (baseMro (mroF n h) a).findSome? (classEntry h x)) := by
      apply findSome?_congr_mem
      intro b hbm
      cases b with
      | src d => exact ih _ d (okG_base hok hbm)
      | builtin nm a i =>
        simp only [baseClassAttrs, get_fromKeys, baseMro, List.findSome?_cons, classEntry,
          List.findSome?_nil]
        split <;> rfl
      | unknown => simp [baseClassAttrs, baseMro]
    rw [hb]
    cases Option.map Val.site (bodyLookup (getDef h c).body x) <;> rfl

/-- closed form of the instance-assignment table: the first class of the MRO assigning `x` through self -/
theorem get_instOnlyG (n : Nat) (busy : List ClassId) (h : Hier) (c : ClassId) (x : String)
    (hok : okG n busy h c = true) :
    get (instOnlyG n busy h c) x = (mroF n h c).findSome? (instEntry h x) := by
  induction n generalizing c busy with
  | zero => simp [okG] at hok
  | succ n ih =>
    simp only [instOnlyG, mroF, if_neg (okG_not_busy hok)]
    rw [get_update_dict _ _ _ (nodup_ownInst _), get_ownInst,
      get_mergeBases _ _ _ _ (fun b _ => nodup_baseInstOnly n (c :: busy) h b)]
    simp only [List.findSome?_cons, instEntry, findSome?_flatMap, Dict.get_nil, Option.or_none]
    have hb : (getDef h c).bases.findSome? (fun b => get (baseInstOnly (instOnlyG n (c :: busy) h) b) x) =
        (getDef h c).bases.findSome? (fun a => (baseMro (mroF n h) a).findSome? (instEntry h x)) := by
      apply findSome?_congr_mem
      intro b hbm
      cases b with
      | src d => exact ih _ d (okG_base hok hbm)
      | builtin nm a i => simp [baseInstOnly, baseMro, instEntry]
      | unknown => simp [baseInstOnly, baseMro]
    rw [hb]
    split <;> rfl

theorem get_runtimeInst (h : Hier) (c : ClassId) (x : String) :
    get (mergeBases baseRuntimeInst (getDef h c).bases []) x = runtimeInstLookup h c x := by
  rw [get_mergeBases _ _ _ _ (fun b _ => nodup_baseRuntimeInst b)]
  simp only [Dict.get_nil, Option.or_none, runtimeInstLookup]
  apply findSome?_congr_mem
  intro b _
  cases b with
  | src d => simp [baseRuntimeInst]
  | builtin nm a i => simp [baseRuntimeInst, get_fromKeys]
  | unknown => simp [baseRuntimeInst]

theorem get_classAttrs (h : Hier) (c : ClassId) (x : String) (ha : Acyclic h c) :
    get (classAttrs h c) x = classLookup h c x :=
  get_classAttrsG _ [] h c x ha

theorem get_instOnly (h : Hier) (c : ClassId) (x : String) (ha : Acyclic h c) :
    get (instOnly h c) x = (mro h c).findSome? (instEntry h x) :=
  get_instOnlyG _ [] h c x ha

theorem get_instAttrs (h : Hier) (c : ClassId) (x : String) (ha : Acyclic h c) :
    get (instAttrs h c) x =
      ((mro h c).findSome? (instEntry h x)).or ((classLookup h c x).or (runtimeInstLookup h c x)) := by
  have h1 : (keys (instOnly h c)).Nodup := nodup_instOnlyG _ _ h c
  have h2 : (keys (classAttrs h c)).Nodup := nodup_classAttrsG _ _ h c
  unfold instAttrs
  simp only []
  rw [get_update_dict _ _ _ h1, get_update_dict _ _ _ h2,
    get_instOnly h c x ha, get_classAttrs h c x ha, get_runtimeInst]

/-! ### fuel independence: any amount of fuel that suffices gives the same tables -/

theorem okF_succ (n : Nat) (h : Hier) (c : ClassId) (hok : okF n h c = true) : okF (n + 1) h c = true := by
  induction n generalizing c with
  | zero => simp [okF] at hok
  | succ n ih =>
    simp only [okF, List.all_eq_true] at hok ⊢
    intro b hb
    cases b with
    | src d => exact ih d (hok _ hb)
    | builtin nm a i => rfl
    | unknown => rfl

theorem mroF_succ (n : Nat) (h : Hier) (c : ClassId) (hok : okF n h c = true) :
    mroF (n + 1) h c = mroF n h c := by
  induction n generalizing c with
  | zero => simp [okF] at hok
  | succ n ih =>
    rw [mroF, mroF]
    congr 1
    apply flatMap_congr_mem
    intro b hb
    cases b with
    | src d => exact ih d (okF_base hok hb)
    | builtin nm a i => rfl
    | unknown => rfl

/-! ### key sets -/

theorem bodyLookup_isSome (body : List (String × Site)) (x : String) :
    (bodyLookup body x).isSome = true ↔ x ∈ body.map (·.1) := by
  induction body with
  | nil => simp [bodyLookup]
  | cons p r ih =>
    obtain ⟨k, s⟩ := p
    simp only [bodyLookup, List.map_cons, List.mem_cons]
    cases hr : bodyLookup r x with
    | some s' =>
      have : x ∈ r.map (·.1) := ih.mp (by simp [hr])
      simp [this]
    | none =>
      have hn : ¬ x ∈ r.map (·.1) := fun hm => by have := ih.mpr hm; simp [hr] at this
      by_cases hk : k = x
      · subst hk; simp
      · have : ¬ x = k := fun e => hk e.symm
        simp [hk, this, hn]

theorem selfSites_ne_nil (cd : ClassDef) (x : String) : selfSites cd x ≠ [] ↔ x ∈ selfNames cd := by
  unfold selfSites selfNames
  induction cd.selfAssigns with
  | nil => simp
  | cons p r ih =>
    obtain ⟨k, s⟩ := p
    by_cases hk : k = x
    · subst hk; simp
    · have : ¬ x = k := fun e => hk e.symm
      simp only [List.filter_cons, hk, decide_false, Bool.false_eq_true, if_false, List.map_cons,
        List.mem_cons, this, false_or]
      exact ih

theorem classEntry_isSome (h : Hier) (x : String) (e : MroEntry) :
    (classEntry h x e).isSome = true ↔
      (∃ d, e = .cls d ∧ x ∈ bodyNames (getDef h d)) ∨ (∃ nm attrs, e = .builtin nm attrs ∧ x ∈ attrs) := by
  cases e with
  | cls d =>
    simp only [classEntry, Option.isSome_map, bodyLookup_isSome, bodyNames]
    constructor
    · intro hm; exact Or.inl ⟨d, rfl, hm⟩
    · rintro (⟨d', hd, hm⟩ | ⟨_, _, hd, _⟩)
      · cases hd; exact hm
      · cases hd
  | builtin nm attrs =>
    simp only [classEntry]
    constructor
    · intro hs
      by_cases hx : x ∈ attrs
      · exact Or.inr ⟨nm, attrs, rfl, hx⟩
      · simp [hx] at hs
    · rintro (⟨_, hd, _⟩ | ⟨nm', attrs', hd, hm⟩)
      · cases hd
      · cases hd; simp [hm]

theorem instEntry_isSome (h : Hier) (x : String) (e : MroEntry) :
    (instEntry h x e).isSome = true ↔ ∃ d, e = .cls d ∧ x ∈ selfNames (getDef h d) := by
  cases e with
  | cls d =>
    simp only [instEntry]
    constructor
    · intro hs
      refine ⟨d, rfl, (selfSites_ne_nil _ _).mp ?_⟩
      intro hnil; simp [hnil] at hs
    · rintro ⟨d', hd, hm⟩
      cases hd
      have := (selfSites_ne_nil _ _).mpr hm
      simp [this]
  | builtin nm attrs =>
    simp only [instEntry]
    constructor
    · intro hs; simp at hs
    · rintro ⟨_, hd, _⟩; cases hd

theorem runtimeInstLookup_isSome (h : Hier) (c : ClassId) (x : String) :
    (runtimeInstLookup h c x).isSome = true ↔
      ∃ nm attrs inst, Base.builtin nm attrs inst ∈ (getDef h c).bases ∧ x ∈ inst := by
  unfold runtimeInstLookup
  rw [findSome?_isSome]
  constructor
  · rintro ⟨b, hb, hs⟩
    cases b with
    | src d => simp at hs
    | builtin nm a i =>
      by_cases hx : x ∈ i
      · exact ⟨nm, a, i, hb, hx⟩
      · simp [hx] at hs
    | unknown => simp at hs
  · rintro ⟨nm, a, i, hb, hx⟩
    exact ⟨_, hb, by simp [hx]⟩

end SuppModel.Attrs

namespace SuppModel.Attrs

theorem okF_add (n k : Nat) (h : Hier) (c : ClassId) (hok : okF n h c = true) :
    okF (n + k) h c = true ∧ mroF (n + k) h c = mroF n h c := by
  induction k with
  | zero => exact ⟨hok, rfl⟩
  | succ k ih =>
    refine ⟨okF_succ _ h c ih.1, ?_⟩
    rw [← ih.2]
    exact mroF_succ _ h c ih.1

theorem mroF_indep (n m : Nat) (h : Hier) (c : ClassId) (hn : okF n h c = true) (hm : okF m h c = true) :
    mroF n h c = mroF m h c := by
  rcases Nat.le_total n m with hle | hle
  · obtain ⟨k, rfl⟩ := Nat.exists_eq_add_of_le hle
    exact (okF_add n k h c hn).2.symm
  · obtain ⟨k, rfl⟩ := Nat.exists_eq_add_of_le hle
    exact (okF_add m k h c hm).2

end SuppModel.Attrs

/-! ### the guard bounds the recursion: totality on every hierarchy, cyclic ones included -/

namespace SuppModel.Attrs
open Dict

theorem okG_succ (n : Nat) (busy : List ClassId) (h : Hier) (c : ClassId) (hok : okG n busy h c = true) :
    okG (n + 1) busy h c = true := by
  induction n generalizing busy c with
  | zero => simp [okG] at hok
  | succ n ih =>
    have hnb := okG_not_busy hok
    simp only [okG, Bool.and_eq_true, decide_eq_true_eq, List.all_eq_true] at hok ⊢
    refine ⟨hnb, ?_⟩
    intro b hb
    cases b with
    | src d => exact ih _ d (hok.2 _ hb)
    | builtin nm a i => rfl
    | unknown => rfl

theorem mergeBases_congr (F G : Base → Dict Val) (bs : List Base) (init : Dict Val)
    (hFG : ∀ b ∈ bs, F b = G b) : mergeBases F bs init = mergeBases G bs init := by
  induction bs with
  | nil => rfl
  | cons b r ih =>
    rw [mergeBases_cons, mergeBases_cons, hFG b (by simp), ih (fun b hb => hFG b (by simp [hb]))]

/-- the classes of `h` that are not being collected: the measure the guard decreases -/
def free (h : Hier) (busy : List ClassId) : Nat :=
  ((h.map (·.1)).filter (fun k => decide (k ∉ busy))).length

theorem filter_len_le {α : Type} (l : List α) (p q : α → Bool) (hpq : ∀ a, p a = true → q a = true) :
    (l.filter p).length ≤ (l.filter q).length := by
  induction l with
  | nil => simp
  | cons k r ih =>
    rw [List.filter_cons, List.filter_cons]
    cases hp : p k with
    | true => rw [hpq k hp]; simp only [if_true, List.length_cons]; omega
    | false =>
      cases hq : q k with
      | true => simp only [if_true, List.length_cons]; simp; omega
      | false => simpa using ih

theorem filter_len_lt {α : Type} (l : List α) (p q : α → Bool) (hpq : ∀ a, p a = true → q a = true)
    (c : α) (hc : c ∈ l) (hpc : p c = false) (hqc : q c = true) :
    (l.filter p).length < (l.filter q).length := by
  induction l with
  | nil => simp at hc
  | cons k r ih =>
    rw [List.filter_cons, List.filter_cons]
    rcases List.mem_cons.mp hc with e | e
    · subst e
      have := filter_len_le r p q hpq
      rw [hpc, hqc]; simp only [if_true, List.length_cons]; simp; omega
    · have := ih e
      cases hp : p k with
      | true => rw [hpq k hp]; simp only [if_true, List.length_cons]; omega
      | false =>
        cases hq : q k with
        | true => simp only [if_true, List.length_cons]; simp; omega
        | false => simpa using this

theorem filter_busy_lt (l : List ClassId) (busy : List ClassId) (c : ClassId) (hc : c ∈ l) (hb : c ∉ busy) :
    (l.filter (fun k => decide (k ∉ c :: busy))).length < (l.filter (fun k => decide (k ∉ busy))).length := by
  apply filter_len_lt l _ _ _ c hc
  · simp
  · simpa using hb
  · intro a ha
    simp only [List.mem_cons, not_or, decide_eq_true_eq] at ha ⊢
    exact ha.2

theorem getDef_bases_of_not_mem (h : Hier) (c : ClassId) (hc : c ∉ h.map (·.1)) : (getDef h c).bases = [] := by
  have : h.lookup c = none := by
    induction h with
    | nil => rfl
    | cons p r ih =>
      obtain ⟨k, cd⟩ := p
      simp only [List.map_cons, List.mem_cons, not_or] at hc
      have hne : (c == k) = false := by simp [hc.1]
      simp only [List.lookup_cons, hne]
      exact ih hc.2
  simp [getDef, this]

theorem classAttrsG_stable (h : Hier) (n : Nat) (busy : List ClassId) (c : ClassId) (hn : free h busy < n) :
    classAttrsG (n + 1) busy h c = classAttrsG n busy h c := by
  induction n generalizing busy c with
  | zero => omega
  | succ n ih =>
    rw [classAttrsG, classAttrsG]
    by_cases hb : c ∈ busy
    · simp [hb]
    · simp only [if_neg hb]
      congr 1
      apply mergeBases_congr
      intro b hbm
      cases b with
      | src d =>
        by_cases hc : c ∈ h.map (·.1)
        · exact ih (c :: busy) d (by have := filter_busy_lt _ busy c hc hb; unfold free at hn ⊢; omega)
        · rw [getDef_bases_of_not_mem h c hc] at hbm; simp at hbm
      | builtin nm a i => rfl
      | unknown => rfl

theorem instOnlyG_stable (h : Hier) (n : Nat) (busy : List ClassId) (c : ClassId) (hn : free h busy < n) :
    instOnlyG (n + 1) busy h c = instOnlyG n busy h c := by
  induction n generalizing busy c with
  | zero => omega
  | succ n ih =>
    rw [instOnlyG, instOnlyG]
    by_cases hb : c ∈ busy
    · simp [hb]
    · simp only [if_neg hb]
      congr 1
      apply mergeBases_congr
      intro b hbm
      cases b with
      | src d =>
        by_cases hc : c ∈ h.map (·.1)
        · exact ih (c :: busy) d (by have := filter_busy_lt _ busy c hc hb; unfold free at hn ⊢; omega)
        · rw [getDef_bases_of_not_mem h c hc] at hbm; simp at hbm
      | builtin nm a i => rfl
      | unknown => rfl

theorem free_nil (h : Hier) : free h [] = h.length := by
  unfold free
  rw [List.filter_eq_self.mpr (by simp)]
  simp

theorem tables_total (h : Hier) (c : ClassId) (k : Nat) :
    classAttrsG (fuel h + k) [] h c = classAttrs h c ∧ instOnlyG (fuel h + k) [] h c = instOnly h c := by
  induction k with
  | zero => exact ⟨rfl, rfl⟩
  | succ k ih =>
    have hf : free h [] < fuel h + k := by rw [free_nil]; unfold fuel; omega
    exact ⟨(classAttrsG_stable h _ [] c hf).trans ih.1, (instOnlyG_stable h _ [] c hf).trans ih.2⟩

end SuppModel.Attrs
