/-
  Attrs — executable model of supp's attribute tables (supp/name.py):
    ClassObject._cls_attrs / bases / _attrs,  InstanceValue._inst_attrs / _attrs (tree after bd90a2a and
    a174aec: in-progress guard `_busy` in `_attrs` and `_inst_attrs`),
    SourceScope.assigns restricted to one instance (MultiValue per attribute name),
    and the pre-fix InstanceValue._attrs (`instAttrsLegacy`).
  Core Lean only.  What is outside the code is a parameter: how a base expression evaluates
  (`Base`), `vars()`/`dir()` of runtime objects (attribute name lists of builtin bases), source positions
  (`Site`, opaque), the iteration order of `scope.locals` (a set: only the order of keys depends on it,
  never a lookup, and `assist` sorts).
-/
namespace SuppModel.Attrs

abbrev ClassId := Nat
/-- an opaque source position (file + line of the binding); the harness numbers them -/
abbrev Site := Nat

/-- what `ctx.evaluate(base_expr)` gives for one entry of `ClassDef.bases` -/
inductive Base where
  /-- a ClassObject of the project -/
  | src (c : ClassId)
  /-- a RuntimeName wrapping a builtin type: `attrs` = keys of `vars(type)`,
      `inst` = names of `dir(type())` (attributes of `RuntimeName.call`; [] when the call fails) -/
  | builtin (name : String) (attrs : List String) (inst : List String)
  /-- an expression whose value is not a `Callable` (None, a CompositeValue, an instance): dropped by
      `ClassObject.bases` -/
  | unknown
deriving DecidableEq, Repr

structure ClassDef where
  bases : List Base
  /-- names bound in the class body, source order (`scope.flow.names` restricted to `scope.locals`) -/
  body : List (String × Site)
  /-- `self.<name> = …` in any method, `_attr_assigns` order -/
  selfAssigns : List (String × Site)
deriving DecidableEq, Repr

abbrev Hier := List (ClassId × ClassDef)

/-- the value stored under an attribute name -/
inductive Val where
  | site (s : Site)            -- a Name bound in a class body (FuncScope, ClassScope, AssignedName …)
  | builtin (owner : String)   -- a RuntimeName
  | multi (ss : List Site)     -- a MultiValue: the AssignedAttributes of one name
deriving DecidableEq, Repr

/-! ### Python dict as an association list (insertion ordered, unique keys) -/

abbrev Dict (α : Type) := List (String × α)

namespace Dict
variable {α : Type}

def get : Dict α → String → Option α
  | [], _ => none
  | (k, v) :: r, x => if k = x then some v else get r x

/-- `d[k] = v`: an existing key keeps its position -/
def set : Dict α → String → α → Dict α
  | [], k, v => [(k, v)]
  | (k', v') :: r, k, v => if k' = k then (k', v) :: r else (k', v') :: set r k v

/-- `d.update(e)` (also `dict(e)` / a dict comprehension when `d = []`) -/
def update (d : Dict α) (e : List (String × α)) : Dict α :=
  e.foldl (fun acc kv => Dict.set acc kv.1 kv.2) d

def keys (d : Dict α) : List String := d.map (·.1)

end Dict

def getDef (h : Hier) (c : ClassId) : ClassDef :=
  match h.lookup c with
  | some cd => cd
  | none => ⟨[], [], []⟩

/-- `ClassObject._cls_attrs`: `{n: names[n] for n in scope.locals}`, the later binding of a name wins -/
def clsAttrs (cd : ClassDef) : Dict Val :=
  Dict.update [] (cd.body.map (fun p => (p.1, Val.site p.2)))

/-- `{k: RuntimeName(k, …) for k in vars(value)}` -/
def fromKeys (ks : List String) (v : Val) : Dict Val :=
  Dict.update [] (ks.map (fun k => (k, v)))

/-- `SourceScope.assigns(ctx).get(instance, {})`: one MultiValue per name, sites in `_attr_assigns` order -/
def assignSites (l : List (String × Site)) : Dict (List Site) :=
  l.foldl (fun d p => Dict.set d p.1 (((Dict.get d p.1).getD []) ++ [p.2])) ([] : Dict (List Site))

def ownInst (cd : ClassDef) : Dict Val :=
  (assignSites cd.selfAssigns).map (fun p => (p.1, Val.multi p.2))

/-- `b._attrs` for one evaluated base of a class -/
def baseClassAttrs (rec : ClassId → Dict Val) : Base → Dict Val
  | .src d => rec d
  | .builtin nm attrs _ => fromKeys attrs (.builtin nm)
  | .unknown => []

/-- `attrs = init; for b in reversed(bases): attrs.update(F(b))` (a base whose table is skipped by the
    code contributes the empty table) -/
def mergeBases (F : Base → Dict Val) (bases : List Base) (init : Dict Val) : Dict Val :=
  bases.reverse.foldl (fun acc b => Dict.update acc (F b)) init

/-- `ClassObject._attrs` WITHOUT the in-progress guard (the code before a174aec; a cyclic hierarchy made it
    recurse until RecursionError — fuel stands for Python's stack).  Kept for `instAttrsLegacyF`. -/
def classAttrsF : Nat → Hier → ClassId → Dict Val
  | 0, _, _ => []
  | n + 1, h, c =>
    let cd := getDef h c
    Dict.update (mergeBases (baseClassAttrs (classAttrsF n h)) cd.bases []) (clsAttrs cd)

/-- `o._inst_attrs` for `o = b.call(ctx)` when that is an InstanceValue (bases that are ClassObjects) -/
def baseInstOnly (rec : ClassId → Dict Val) : Base → Dict Val
  | .src d => rec d
  | _ => []

/-- `InstanceValue._inst_attrs` without the guard (before a174aec) -/
def instOnlyF : Nat → Hier → ClassId → Dict Val
  | 0, _, _ => []
  | n + 1, h, c =>
    let cd := getDef h c
    Dict.update (mergeBases (baseInstOnly (instOnlyF n h)) cd.bases []) (ownInst cd)

/-- `o._attrs` for `o = b.call(ctx)` when that is not an InstanceValue: the attributes of a runtime
    instance of a builtin base -/
def baseRuntimeInst : Base → Dict Val
  | .builtin nm _ inst => fromKeys inst (.builtin nm)
  | _ => []

/-- evaluating class `c` with fuel `n` never runs out of fuel (unguarded tables) -/
def okF : Nat → Hier → ClassId → Bool
  | 0, _, _ => false
  | n + 1, h, c => (getDef h c).bases.all (fun b => match b with | .src d => okF n h d | _ => true)

/-- `ClassObject._attrs` (current tree): `busy` = the classes whose `_busy` flag is set, i.e. the classes being
    collected on the current path; a class met again contributes NOTHING (not even its own body), otherwise
    `for b in reversed(bases): attrs.update(b._attrs)` and then the own body.
    The recursion is bounded by the guard (each level adds a class of `h` to `busy`; a class outside `h` has no
    bases): `fuel h` always suffices, see `classAttrsG_total`.
    Not modelled: `cached_property` keeps the partial table a class got while an ancestor-in-a-cycle was busy;
    on cyclic hierarchies in which such a class is reached again along another path the real answer depends on
    the traversal order.  On acyclic hierarchies the guard never fires and the cache is invisible. -/
def classAttrsG : Nat → List ClassId → Hier → ClassId → Dict Val
  | 0, _, _, _ => []
  | n + 1, busy, h, c =>
    if c ∈ busy then []
    else
      Dict.update (mergeBases (baseClassAttrs (classAttrsG n (c :: busy) h)) (getDef h c).bases [])
        (clsAttrs (getDef h c))

/-- `InstanceValue._inst_attrs` (current tree), guard `_busy` of the instance values -/
def instOnlyG : Nat → List ClassId → Hier → ClassId → Dict Val
  | 0, _, _, _ => []
  | n + 1, busy, h, c =>
    if c ∈ busy then []
    else
      Dict.update (mergeBases (baseInstOnly (instOnlyG n (c :: busy) h)) (getDef h c).bases [])
        (ownInst (getDef h c))

/-- collecting class `c` with fuel `n` neither runs out of fuel nor meets a busy class -/
def okG : Nat → List ClassId → Hier → ClassId → Bool
  | 0, _, _, _ => false
  | n + 1, busy, h, c =>
    decide (c ∉ busy) &&
      (getDef h c).bases.all (fun b => match b with | .src d => okG n (c :: busy) h d | _ => true)

def fuel (h : Hier) : Nat := h.length + 1

/-- no inheritance cycle is reachable from `c`: while the table of `c` is collected the in-progress guard never
    fires (and `fuel h` is enough).  On a cyclic hierarchy the guard cuts the cycle (totality: C08); the lookup
    order of C06 is stated for acyclic hierarchies. -/
def Acyclic (h : Hier) (c : ClassId) : Prop := okG (fuel h) [] h c = true

instance (h : Hier) (c : ClassId) : Decidable (Acyclic h c) := by unfold Acyclic; infer_instance

def classAttrs (h : Hier) (c : ClassId) : Dict Val := classAttrsG (fuel h) [] h c
def instOnly (h : Hier) (c : ClassId) : Dict Val := instOnlyG (fuel h) [] h c

/-- `InstanceValue._attrs` (current tree): runtime instances of builtin bases, then the class table of
    the whole hierarchy, then everything assigned through `self` -/
def instAttrs (h : Hier) (c : ClassId) : Dict Val :=
  let cd := getDef h c
  Dict.update (Dict.update (mergeBases baseRuntimeInst cd.bases []) (classAttrs h c)) (instOnly h c)

/-- `o._attrs` of `o = b.call(ctx)` in the pre-fix code: complete instance tables of the bases -/
def baseLegacy (rec : ClassId → Dict Val) : Base → Dict Val
  | .src d => rec d
  | b => baseRuntimeInst b

/-- `InstanceValue._attrs` before bd90a2a: the complete table of every base *instance* applied over the
    derived class's table -/
def instAttrsLegacyF : Nat → Hier → ClassId → Dict Val
  | 0, _, _ => []
  | n + 1, h, c =>
    let cd := getDef h c
    Dict.update (mergeBases (baseLegacy (instAttrsLegacyF n h)) cd.bases (classAttrsF (n + 1) h c)) (ownInst cd)

def instAttrsLegacy (h : Hier) (c : ClassId) : Dict Val := instAttrsLegacyF (fuel h) h c

/-- what `cls` in a classmethod was looked up in before 51a17f1: the instance table -/
def clsParamLegacy (h : Hier) (c : ClassId) : Dict Val := instAttrs h c

end SuppModel.Attrs
