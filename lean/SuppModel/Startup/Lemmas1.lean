/-
  Startup, proofs I: the inductive invariant of the start-up protocol (current source, launches
  succeed, no close() in the workload) and its preservation by every step of every thread.
-/
import SuppModel.Startup.Model

namespace SuppModel.Startup
set_option linter.unusedSimpArgs false
set_option linter.unusedVariables false

/-! ### classes of lines -/

def Pc.isClose : Pc → Bool
  | .clTry | .clConn | .clExcept | .clPass | .clSend | .clClose | .clDel => true
  | _ => false

def Pc.starter : Pc → Bool
  | .tTry | .tRun | .tClear => true
  | _ => false

/-- lines at which `self.prepare_thread` is known to be None -/
def Pc.pthNone : Pc → Bool
  | .pIfConn | .pMk | .rIfConn | .rRun => true
  | _ => false

/-- lines at which `conn` is known to be absent -/
def Pc.connNone : Pc → Bool
  | .pMk | .pStart | .rRun | .tTry | .tRun => true
  | _ => false

/-- lines at which `conn` is known to be present -/
def Pc.connSome : Pc → Bool
  | .rExit | .cSend | .cRecv => true
  | _ => false

def Pc.usesLoc : Pc → Bool
  | .rIf | .rJoin => true
  | _ => false

/-- what thread `i` (record `th`) knows about the shared state -/
def Local (lock pthread : Option Tid) (conn : Option Conn) (len : Nat) (i : Tid) (th : Thr) : Prop :=
  ((th.pc = .done ∧ th.out = .returned) ∨ (th.pc ≠ .done ∧ th.out = .running)) ∧
  th.pend = none ∧
  (lock = some i ↔ th.pc.locked = true) ∧
  th.pc.isClose = false ∧ th.ops.all (· != .close) = true ∧
  (th.pc.pthNone = true → pthread = none) ∧
  (th.pc.connNone = true → conn = none) ∧
  (th.pc.connSome = true → conn.isSome = true) ∧
  (pthread = some i ↔ th.pc.starter = true) ∧
  (th.pc = .pStart → pthread = some len) ∧
  (th.pc.locked = true → th.pc ≠ .pStart → ∀ x, pthread = some x → x < len) ∧
  (th.pc.usesLoc = true → (pthread = none ∨ pthread = th.loc) ∧ ∀ x, th.loc = some x → x < len) ∧
  (th.pc = .rJoin → th.loc.isSome = true)

def Shared (s : St) : Prop :=
  (s.popen = if s.conn.isSome then 1 else 0) ∧
  (∀ c, s.conn = some c → c.closed = false ∧ s.live = true) ∧
  (∀ o, s.lock = some o → o < s.threads.length) ∧
  (s.lock = none → ∀ x, s.pthread = some x → x < s.threads.length)

def Inv (s : St) : Prop :=
  Shared s ∧ ∀ i th, s.threads[i]? = some th → Local s.lock s.pthread s.conn s.threads.length i th

theorem getElem?_lt {α} {l : List α} {i : Nat} {x : α} (h : l[i]? = some x) : i < l.length :=
  (List.getElem?_eq_some_iff.mp h).1


/-! ### relations between the classes -/

theorem pthNone_locked {pc : Pc} (h : pc.pthNone = true) : pc.locked = true := by cases pc <;> simp_all [Pc.pthNone, Pc.locked]
theorem usesLoc_locked {pc : Pc} (h : pc.usesLoc = true) : pc.locked = true := by cases pc <;> simp_all [Pc.usesLoc, Pc.locked]
theorem connNone_cases {pc : Pc} (h : pc.connNone = true) : pc.locked = true ∨ pc.starter = true := by
  cases pc <;> simp_all [Pc.connNone, Pc.locked, Pc.starter]
theorem connNone_cases' {pc : Pc} (h : pc.connNone = true) : pc.starter = true ∨ pc.pthNone = true ∨ pc = .pStart := by
  cases pc <;> simp_all [Pc.connNone, Pc.pthNone, Pc.starter]
theorem starter_not_locked {pc : Pc} (h : pc.starter = true) : pc.locked = false := by cases pc <;> simp_all [Pc.starter, Pc.locked]
theorem starter_not_done {pc : Pc} (h : pc.starter = true) : pc ≠ .done := by cases pc <;> simp_all [Pc.starter]

theorem connNone_not_done {pc : Pc} (h : pc.connNone = true) : pc ≠ .done := by cases pc <;> simp_all [Pc.connNone]
theorem locked_not_done {pc : Pc} (h : pc.locked = true) : pc ≠ .done := by cases pc <;> simp_all [Pc.locked]

/-- the thread record after the current operation returned -/
theorem local_next {lock pthread : Option Tid} {conn : Option Conn} {len i : Nat} {th : Thr}
    (hout : th.out = .running) (hpend : th.pend = none) (hops : th.ops.all (· != .close) = true)
    (hl : lock ≠ some i) (hp : pthread ≠ some i) : Local lock pthread conn len i th.next := by
  unfold Thr.next
  cases hops' : th.ops with
  | nil => simp [Local, hpend, hl, hp, Pc.locked, Pc.isClose, Pc.pthNone, Pc.connNone, Pc.connSome, Pc.starter, Pc.usesLoc]
  | cons o r =>
    rw [hops'] at hops
    cases o <;>
      simp_all [Local, Op.entry, Pc.locked, Pc.isClose, Pc.pthNone, Pc.connNone, Pc.connSome, Pc.starter, Pc.usesLoc]

/-- frame rule: thread `t` rewrites its own record and the shared fields -/
theorem inv_of_set {s : St} {t : Tid} {th : Thr} (h : Inv s) (hth : s.threads[t]? = some th)
    {lock' pthread' : Option Tid} {conn' : Option Conn} {live' : Bool} {popen' cm' : Nat} {th' : Thr}
    (hshared : (popen' = if conn'.isSome then 1 else 0) ∧
      (∀ c, conn' = some c → c.closed = false ∧ live' = true) ∧
      (∀ o, lock' = some o → o < s.threads.length) ∧
      (lock' = none → ∀ x, pthread' = some x → x < s.threads.length))
    (hself : Local lock' pthread' conn' s.threads.length t th')
    (hothers : ∀ i thi, i ≠ t → i < s.threads.length →
      Local s.lock s.pthread s.conn s.threads.length i thi →
      Local lock' pthread' conn' s.threads.length i thi) :
    Inv { lock := lock', pthread := pthread', conn := conn', live := live', popen := popen',
          closeMsgs := cm', threads := s.threads.set t th' } := by
  refine ⟨?_, ?_⟩
  · simpa [Shared] using hshared
  · intro i thi hi
    simp only [List.getElem?_set, List.length_set] at hi ⊢
    split at hi
    · rename_i hti
      subst hti
      have : t < s.threads.length := getElem?_lt hth
      simp [this] at hi
      subst hi
      exact hself
    · rename_i hti
      exact hothers i thi (fun e => hti e.symm) (getElem?_lt hi) (h.2 i thi hi)


/-- frame rule for `self.prepare_thread.start()`: as above, and one thread is appended -/
theorem inv_of_app {s : St} {t : Tid} {th : Thr} (h : Inv s) (hth : s.threads[t]? = some th)
    {lock' pthread' : Option Tid} {conn' : Option Conn} {live' : Bool} {popen' cm' : Nat} {th' new : Thr}
    (hshared : (popen' = if conn'.isSome then 1 else 0) ∧
      (∀ c, conn' = some c → c.closed = false ∧ live' = true) ∧
      (∀ o, lock' = some o → o < s.threads.length + 1) ∧
      (lock' = none → ∀ x, pthread' = some x → x < s.threads.length + 1))
    (hself : Local lock' pthread' conn' (s.threads.length + 1) t th')
    (hnew : Local lock' pthread' conn' (s.threads.length + 1) s.threads.length new)
    (hothers : ∀ i thi, i ≠ t → i < s.threads.length →
      Local s.lock s.pthread s.conn s.threads.length i thi →
      Local lock' pthread' conn' (s.threads.length + 1) i thi) :
    Inv { lock := lock', pthread := pthread', conn := conn', live := live', popen := popen',
          closeMsgs := cm', threads := s.threads.set t th' ++ [new] } := by
  have htlt : t < s.threads.length := getElem?_lt hth
  refine ⟨?_, ?_⟩
  · simpa [Shared] using hshared
  · intro i thi hi
    simp only [List.length_append, List.length_set, List.length_singleton] at hi ⊢
    by_cases hil : i < s.threads.length
    · rw [List.getElem?_append_left (by simpa using hil)] at hi
      simp only [List.getElem?_set] at hi
      split at hi
      · rename_i hti
        subst hti
        simp [htlt] at hi
        subst hi
        exact hself
      · rename_i hti
        exact hothers i thi (fun e => hti e.symm) hil (h.2 i thi hi)
    · have hlt := getElem?_lt hi
      simp only [List.length_append, List.length_set, List.length_cons, List.length_nil] at hlt
      have : i = s.threads.length :=
        Nat.le_antisymm (Nat.lt_succ_iff.mp (by simpa using hlt)) (Nat.not_lt.mp hil)
      subst this
      simp at hi
      subst hi
      exact hnew

end SuppModel.Startup
