/-
  Startup, proofs VI: `Inv2` on every reachable state; progress (no deadlock) and
  "exactly one server, every call answered" in every state in which no thread can run.
-/
import SuppModel.Startup.Lemmas5

namespace SuppModel.Startup
set_option linter.unusedSimpArgs false
set_option linter.unusedVariables false

theorem mkThr_not_recv (ops : List Op) : atRecv (mkThr ops) = false := atRecv_next _

theorem countP_init (w : List (List Op)) : (w.map mkThr).countP atRecv = 0 := by
  induction w with
  | nil => simp
  | cons a r ih => simp [List.countP_cons, mkThr_not_recv, ih]

theorem inv2_init (w : List (List Op)) : Inv2 w (init w) := by
  refine ⟨by simp [init], by simp [init], by simp only [init, countP_init, unread], ?_⟩
  intro i th hi
  simp only [init, List.getElem?_map, Option.map_eq_some_iff] at hi
  obtain ⟨ops, hops, rfl⟩ := hi
  have hlt : i < w.length := getElem?_lt hops
  simp only [init, mkThr]
  apply local2_next
  · intro h; exact absurd hlt (Nat.not_lt.mpr h)
  · simp [total, hops]
  · simp

theorem inv_both_exec (w : List (List Op)) (sched : List Tid) :
    ∀ s, Inv s → Inv2 w s → Inv (exec .current false sched s) ∧ Inv2 w (exec .current false sched s) := by
  induction sched with
  | nil => intro s h h2; exact ⟨h, h2⟩
  | cons t rest ih =>
    intro s h h2
    simp only [exec]
    cases hs : step .current false s t with
    | none => simpa using ih s h h2
    | some s' => simpa using ih s' (inv_step h hs) (inv2_step h h2 hs)

theorem inv_both_reach (w : List (List Op)) (hw : noClose w = true) (sched : List Tid) :
    Inv (exec .current false sched (init w)) ∧ Inv2 w (exec .current false sched (init w)) :=
  inv_both_exec w sched _ (inv_init w hw) (inv2_init w)

/-- every line except the four that can block produces a successor state -/
theorem line_some (s : St) (t : Tid) (th : Thr)
    (h1 : th.pc ≠ .pWith) (h2 : th.pc ≠ .rWith) (h3 : th.pc ≠ .rJoin) (h4 : th.pc ≠ .cRecv) (h5 : th.pc ≠ .done) :
    (line .current false s t th).isSome = true := by
  unfold line
  split <;> simp_all [goto, finish, raise, launch, St.upd]
  all_goals (repeat' split) <;> simp_all

theorem enabled_of_line {s : St} {t : Tid} {th : Thr} (hth : s.threads[t]? = some th) (hr : th.out = .running)
    (h : (line .current false s t th).isSome = true) : enabled .current false s t = true := by
  simp [enabled, step, hth, hr, h]

theorem not_stuck_of_enabled {s : St} {t : Tid} (h : enabled .current false s t = true) :
    s.stuck .current false = false := by
  have hlt : t < s.threads.length := by
    simp only [enabled, step] at h
    cases hth : s.threads[t]? with
    | none => simp [hth] at h
    | some th => exact getElem?_lt hth
  simp only [St.stuck, St.enabledSet]
  cases hf : List.filter (enabled Variant.current false s) (List.range s.threads.length) with
  | nil =>
    have : t ∈ List.filter (enabled Variant.current false s) (List.range s.threads.length) := by
      simp [List.mem_filter, hlt, h]
    rw [hf] at this
    simp at this
  | cons a r => simp

theorem running_not_done {s : St} (h : Inv s) {i : Tid} {th : Thr} (hi : s.threads[i]? = some th) :
    (th.out = .running ↔ th.pc ≠ .done) := by
  rcases (h.2 i th hi).1 with ⟨h1, h2⟩ | ⟨h1, h2⟩ <;> simp [h1, h2]

theorem locked_cases {pc : Pc} (h : pc.locked = true) :
    pc ≠ .pWith ∧ pc ≠ .rWith ∧ pc ≠ .cRecv ∧ pc ≠ .done := by cases pc <;> simp_all [Pc.locked]

theorem starter_cases {pc : Pc} (h : pc.starter = true) :
    pc ≠ .pWith ∧ pc ≠ .rWith ∧ pc ≠ .rJoin ∧ pc ≠ .cRecv ∧ pc ≠ .done := by cases pc <;> simp_all [Pc.starter]

/-- progress: while some thread is still running, some thread can execute a line -/
theorem no_deadlock {w : List (List Op)} {s : St} (h : Inv s) (h2 : Inv2 w s) (hf : s.final = false) :
    s.stuck .current false = false := by
  -- a running thread
  have : ∃ (i : Nat) (th : Thr), s.threads[i]? = some th ∧ th.out = .running := by
    simp only [St.final, List.all_eq_false] at hf
    obtain ⟨th, hmem, hout⟩ := hf
    obtain ⟨i, hi⟩ := List.getElem?_of_mem hmem
    exact ⟨i, th, hi, by simpa using hout⟩
  obtain ⟨i, th, hi, hrun⟩ := this
  have hli := h.2 i th hi
  cases hlock : s.lock with
  | none =>
    have hnl : th.pc.locked = false := by
      have := hli.2.2.1
      rw [hlock] at this
      cases hb : th.pc.locked with
      | false => rfl
      | true => simp [hb] at this
    have hnd : th.pc ≠ .done := (running_not_done h hi).mp hrun
    by_cases hrecv : th.pc = .cRecv
    · -- a thread waiting for its reply: the reply is there
      have hcs : s.conn.isSome = true := hli.2.2.2.2.2.2.2.1 (by simp [hrecv, Pc.connSome])
      cases hc : s.conn with
      | none => simp [hc] at hcs
      | some c =>
        have hok := h.1.2.1 c hc
        have hcnt := h2.2.2.1
        have hpos : 0 < s.threads.countP atRecv :=
          List.countP_pos_iff.mpr ⟨th, List.mem_of_getElem? hi, by simp [atRecv, hrecv]⟩
        rw [hcnt, hc] at hpos
        simp only [unread] at hpos
        apply not_stuck_of_enabled (t := i)
        apply enabled_of_line hi hrun
        simp [line, hrecv, hc, hok.1, hpos, goto]
    · by_cases hj : th.pc = .rJoin
      · simp [hj, Pc.locked] at hnl
      · apply not_stuck_of_enabled (t := i)
        apply enabled_of_line hi hrun
        by_cases hp : th.pc = .pWith
        · simp [line, hp, hlock, goto]
        · by_cases hr : th.pc = .rWith
          · simp [line, hr, hlock, goto]
          · exact line_some s i th hp hr hj hrecv hnd
  | some o =>
    obtain ⟨tho, hto, hlk⟩ := inv_lock_owner h o hlock
    have hlo := h.2 o tho hto
    obtain ⟨c1, c2, c3, c4⟩ := locked_cases hlk
    have horun : tho.out = .running := (running_not_done h hto).mpr c4
    by_cases hj : tho.pc = .rJoin
    · -- the owner waits in join(): the joined thread is a starter, which can always run
      have hsome := hlo.2.2.2.2.2.2.2.2.2.2.2.2 hj
      cases hlc : tho.loc with
      | none => simp [hlc] at hsome
      | some x =>
        have hul := hlo.2.2.2.2.2.2.2.2.2.2.2.1 (by simp [hj, Pc.usesLoc])
        have hx : x < s.threads.length := hul.2 x hlc
        have htx : s.threads[x]? = some s.threads[x] := by simp [hx]
        by_cases hxr : (s.threads[x]).out = .running
        · have hwx : w.length ≤ x := (h2.2.2.2 o tho hto).2.2.1 (by simp [hj, Pc.usesLoc]) x hlc
          have hsd := ((h2.2.2.2 x _ htx).1 hwx).1
          have hxnd : (s.threads[x]).pc ≠ .done := (running_not_done h htx).mp hxr
          rcases hsd with hst | hd
          · obtain ⟨d1, d2, d3, d4, d5⟩ := starter_cases hst
            apply not_stuck_of_enabled (t := x)
            exact enabled_of_line htx hxr (line_some s x _ d1 d2 d3 d4 d5)
          · exact absurd hd hxnd
        · apply not_stuck_of_enabled (t := o)
          apply enabled_of_line hto horun
          simp [line, hj, hlc, htx, hxr, goto]
    · apply not_stuck_of_enabled (t := o)
      exact enabled_of_line hto horun (line_some s o tho c1 c2 hj c3 c4)

/-- in a state in which no thread can run: exactly one launch, every call of every worker answered -/
theorem exactly_one {w : List (List Op)} {s : St} (h : Inv s) (h2 : Inv2 w s) (hcall : hasCall w = true)
    (hst : s.stuck .current false = true) :
    s.popen = 1 ∧ ∀ (i : Tid) (ops : List Op), w[i]? = some ops →
      ∃ th, s.threads[i]? = some th ∧ th.out = .returned ∧ th.answered = ops.count .call := by
  have hfin : s.final = true := by
    cases hf : s.final with
    | true => rfl
    | false => have := no_deadlock h h2 hf; rw [hst] at this; exact absurd this (by simp)
  have hdone : ∀ (i : Nat) (th : Thr), s.threads[i]? = some th → th.out ≠ .running := by
    intro i th hi
    simp only [St.final, List.all_eq_true] at hfin
    simpa using hfin th (List.mem_of_getElem? hi)
  have key : ∀ (i : Tid) (ops : List Op), w[i]? = some ops →
      ∃ th, s.threads[i]? = some th ∧ th.out = .returned ∧ th.answered = ops.count .call ∧
        (0 < th.answered → s.conn.isSome = true) := by
    intro i ops hi
    have hlt : i < w.length := getElem?_lt hi
    have hlt' : i < s.threads.length := Nat.lt_of_lt_of_le hlt h2.1
    have hth : s.threads[i]? = some s.threads[i] := by simp [hlt']
    refine ⟨s.threads[i], hth, ?_⟩
    have hnr := hdone i _ hth
    have hl := (h.2 i _ hth).1
    have hl2 := h2.2.2.2 i _ hth
    rcases hl with ⟨hd, hret⟩ | ⟨_, hr⟩
    · refine ⟨hret, ?_, fun hp => hl2.2.2.2.2.2 (Or.inl hp)⟩
      have hops := hl2.2.2.2.1 hd
      have hacc := hl2.2.2.2.2.1
      simp [hd, hops, Pc.inCall, total, hi] at hacc
      exact hacc
    · exact absurd hr hnr
  refine ⟨?_, fun i ops hi => by obtain ⟨th, a, b, c, _⟩ := key i ops hi; exact ⟨th, a, b, c⟩⟩
  -- some worker has a call; it was answered, so a connection exists, so exactly one launch
  simp only [hasCall, List.any_eq_true] at hcall
  obtain ⟨ops, hmem, hany⟩ := hcall
  obtain ⟨o, homem, ho⟩ := hany
  have ho' : o = .call := by cases o <;> simp_all
  subst ho'
  obtain ⟨i, hi⟩ := List.getElem?_of_mem hmem
  obtain ⟨th, _, _, hans, hconn⟩ := key i ops hi
  have hpos : 0 < th.answered := by rw [hans]; exact List.count_pos_iff.mpr homem
  have := h.1.1
  simpa [hconn hpos] using this

end SuppModel.Startup
