/-
  Startup, proofs III: the server loop; ranking function; close() in sequence.
-/
import SuppModel.Startup.Lemmas2

namespace SuppModel.Startup
set_option linter.unusedSimpArgs false
set_option linter.unusedVariables false
set_option maxHeartbeats 1000000

theorem serverRun_requests (pre : List SrvIn) (hpre : ∀ i ∈ pre, i = .request) :
    (serverRun pre).continues = true ∧ (serverRun pre).replies = pre.length ∧ (serverRun pre).closesConn = false := by
  induction pre with
  | nil => simp [serverRun]
  | cons a r ih =>
    have ha : a = .request := hpre a (by simp)
    have ih' := ih (fun i hi => hpre i (by simp [hi]))
    subst ha
    simp [serverRun, serverStep, ih']
    omega

theorem serverRun_stops (pre : List SrvIn) (x : SrvIn) (post : List SrvIn)
    (hpre : ∀ i ∈ pre, i = .request) (hx : x ≠ .request) :
    (serverRun (pre ++ x :: post)).continues = false ∧ (serverRun (pre ++ x :: post)).replies = pre.length ∧
    (serverRun pre).continues = true := by
  refine ⟨?_, ?_, (serverRun_requests pre hpre).1⟩
  · induction pre with
    | nil => cases x <;> simp_all [serverRun, serverStep]
    | cons a r ih =>
      have ha : a = .request := hpre a (by simp)
      subst ha
      simp [serverRun, serverStep]
      exact ih (fun i hi => hpre i (by simp [hi]))
  · induction pre with
    | nil => cases x <;> simp_all [serverRun, serverStep]
    | cons a r ih =>
      have ha : a = .request := hpre a (by simp)
      subst ha
      simp [serverRun, serverStep]
      have := ih (fun i hi => hpre i (by simp [hi]))
      omega

/-! ### ranking function -/

theorem rank_next (th : Thr) : th.next.rank + th.pc.weight = th.rank := by
  unfold Thr.next Thr.rank
  cases th.ops with
  | nil => simp [Pc.weight]
  | cons o r => simp; omega

theorem sum_set (l : List Thr) (t : Nat) (th th' : Thr) (h : l[t]? = some th) :
    ((l.set t th').map Thr.rank).sum + th.rank = (l.map Thr.rank).sum + th'.rank := by
  induction l generalizing t with
  | nil => simp at h
  | cons a r ih =>
    cases t with
    | zero => simp at h; subst h; simp; omega
    | succ n =>
      simp only [List.getElem?_cons_succ] at h
      have := ih n h
      simp only [List.set_cons_succ, List.map_cons, List.sum_cons]
      omega

theorem line_rank (v : Variant) (lf : Bool) (s : St) (t : Tid) (th : Thr) (s' : St)
    (h : line v lf s t th = some s') :
    (∃ th', s'.threads = s.threads.set t th' ∧ th'.rank < th.rank) ∨
    (∃ th', s'.threads = s.threads.set t th' ++ [starterThr] ∧ th'.rank + 3 < th.rank) := by
  unfold line at h
  split at h
  all_goals (try simp only [goto, finish, raise, launch, St.upd] at h)
  all_goals (repeat' (split at h))
  all_goals (try (simp at h))
  all_goals (try (obtain ⟨_, h⟩ := h))
  all_goals (try subst h)
  all_goals (first
    | (left; refine ⟨_, rfl, ?_⟩; have := rank_next th; simp_all [Thr.rank, Pc.weight]; done)
    | (left; refine ⟨_, rfl, ?_⟩; have := rank_next th; simp_all [Thr.rank, Pc.weight]; omega)
    | (right; refine ⟨_, rfl, ?_⟩; simp_all [Thr.rank, Pc.weight]; done)
    | (right; refine ⟨_, rfl, ?_⟩; simp_all [Thr.rank, Pc.weight]; omega)
    | (left; refine ⟨_, rfl, ?_⟩; have := rank_next { th with answered := th.answered + 1 }; simp_all [Thr.rank, Pc.weight]; omega)
    | skip)

theorem step_shape {v : Variant} {lf : Bool} {s s' : St} {t : Tid} (hs : step v lf s t = some s') :
    ∃ th, s.threads[t]? = some th ∧ th.out = .running ∧
      ((∃ th', s'.threads = s.threads.set t th' ∧ th'.rank < th.rank) ∨
       (∃ th', s'.threads = s.threads.set t th' ++ [starterThr] ∧ th'.rank + 3 < th.rank)) := by
  unfold step at hs
  cases hth : s.threads[t]? with
  | none => simp [hth] at hs
  | some th =>
    simp only [hth] at hs
    split at hs
    · rename_i hrun
      exact ⟨th, rfl, hrun, line_rank v lf s t th s' hs⟩
    · simp at hs

/-- every line executed by any thread strictly decreases the rank -/
theorem rank_step {v : Variant} {lf : Bool} {s s' : St} {t : Tid} (hs : step v lf s t = some s') :
    s'.rank < s.rank := by
  obtain ⟨th, hth, _, h | h⟩ := step_shape hs
  · obtain ⟨th', he, hlt⟩ := h
    have := sum_set s.threads t th th' hth
    simp only [St.rank, he]
    omega
  · obtain ⟨th', he, hlt⟩ := h
    have := sum_set s.threads t th th' hth
    have h3 : starterThr.rank = 3 := by simp [starterThr, Thr.rank, Pc.weight]
    simp only [St.rank, he, List.map_append, List.sum_append, List.map_cons, List.map_nil, List.sum_cons,
      List.sum_nil, h3]
    omega

/-- a strict schedule is never longer than the initial rank -/
theorem execStrict_bound (v : Variant) (lf : Bool) (sched : List Tid) :
    ∀ s s', execStrict v lf sched s = some s' → sched.length + s'.rank ≤ s.rank := by
  induction sched with
  | nil => intro s s' h; simp [execStrict] at h; subst h; simp
  | cons t rest ih =>
    intro s s' h
    simp only [execStrict] at h
    cases hs : step v lf s t with
    | none => simp [hs] at h
    | some s1 =>
      simp [hs] at h
      have := ih s1 s' h
      have := rank_step hs
      simp only [List.length_cons]
      omega

/-! ### threads that have finished never run again -/

def othersDone (n : Nat) (s : St) : Prop :=
  n ≤ s.threads.length ∧ ∀ u th, u < n → s.threads[u]? = some th → th.out ≠ .running

theorem othersDone_step {v : Variant} {lf : Bool} {s s' : St} {t n : Nat} (h : othersDone n s)
    (hs : step v lf s t = some s') : n ≤ t ∧ othersDone n s' := by
  obtain ⟨th, hth, hrun, hsh⟩ := step_shape hs
  have hnt : n ≤ t := by
    apply Nat.le_of_not_lt
    intro hlt
    exact h.2 t th hlt hth hrun
  refine ⟨hnt, ?_⟩
  rcases hsh with ⟨th', he, _⟩ | ⟨th', he, _⟩
  · refine ⟨by simp [he]; exact h.1, ?_⟩
    intro u thu hu hget
    rw [he, List.getElem?_set] at hget
    have : t ≠ u := by omega
    simp [this] at hget
    exact h.2 u thu hu hget
  · refine ⟨by simp [he]; have := h.1; omega, ?_⟩
    intro u thu hu hget
    have hul : u < (s.threads.set t th').length := by simp; have := h.1; omega
    rw [he, List.getElem?_append_left hul, List.getElem?_set] at hget
    have : t ≠ u := by omega
    simp [this] at hget
    exact h.2 u thu hu hget

theorem othersDone_exec (v : Variant) (lf : Bool) (n : Nat) (sched : List Tid) :
    ∀ s, othersDone n s → othersDone n (exec v lf sched s) := by
  induction sched with
  | nil => intro s h; exact h
  | cons t rest ih =>
    intro s h
    simp only [exec]
    cases hs : step v lf s t with
    | none => simpa using ih s h
    | some s' => simpa using ih s' (othersDone_step h hs).2

/-! ### close() in sequence -/

@[simp] theorem getElem?_last {α} (l : List α) (a : α) : (l ++ [a])[l.length]? = some a := by simp
@[simp] theorem set_last {α} (l : List α) (a b : α) : (l ++ [a]).set l.length b = l ++ [b] := by
  induction l with
  | nil => simp
  | cons x r ih => simp [ih]

theorem runN_add (v : Variant) (lf : Bool) (t : Tid) (a b : Nat) : ∀ s,
    runN v lf t (a + b) s = (runN v lf t a s).bind (runN v lf t b) := by
  induction a with
  | zero => intro s; simp [runN]
  | succ n ih =>
    intro s
    rw [Nat.succ_add]
    simp only [runN]
    cases step v lf s t with
    | none => simp
    | some s' => simpa using ih s'

/-- the five lines of close() run by the last thread on a live connection -/
theorem close_op (l : List Thr) (lock pth : Option Tid) (c : Conn) (hcl : c.closed = false) (popen cm : Nat)
    (ops : List Op) (loc : Option Tid) (ans : Nat) :
    runN .current false l.length 5
      ⟨lock, pth, some c, true, popen, cm, l ++ [⟨.clTry, ops, .running, loc, none, ans⟩]⟩ =
    some ⟨lock, pth, none, false, popen, cm + 1, l ++ [Thr.next ⟨.clDel, ops, .running, loc, none, ans⟩]⟩ := by
  simp [runN, step, line, goto, finish, raise, St.upd, serverStep, hcl]

theorem call_op1 (l : List Thr) (live : Bool) (popen cm : Nat) (ops : List Op) (loc : Option Tid) (ans : Nat) :
    runN .current false l.length 7
      ⟨none, none, none, live, popen, cm, l ++ [⟨.cTry, ops, .running, loc, none, ans⟩]⟩ =
    some ⟨some l.length, none, none, live, popen, cm, l ++ [⟨.rIfConn, ops, .running, none, none, ans⟩]⟩ := by
  simp [runN, step, line, goto, finish, raise, St.upd, serverStep]

theorem call_op2 (l : List Thr) (live : Bool) (popen cm : Nat) (ops : List Op) (ans : Nat) :
    runN .current false l.length 7
      ⟨some l.length, none, none, live, popen, cm, l ++ [⟨.rIfConn, ops, .running, none, none, ans⟩]⟩ =
    some ⟨none, none, some ⟨false, 0⟩, true, popen + 1, cm,
          l ++ [Thr.next ⟨.cRet, ops, .running, none, none, ans + 1⟩]⟩ := by
  simp [runN, step, line, goto, finish, raise, launch, St.upd, serverStep]

/-- close() issued by a new thread in a quiescent state with a live connection: five lines later the
    connection is forgotten, exactly one close message was sent and the server has left; the call
    that follows (fourteen lines) launches exactly one new server and is answered -/
theorem close_then_call (s : St) (c : Conn) (hc : s.conn = some c) (hcl : c.closed = false) (hl : s.live = true)
    (hlock : s.lock = none) (hpt : s.pthread = none) :
    runN .current false s.threads.length 5 (s.spawn [.close, .call]) =
      some ⟨none, none, none, false, s.popen, s.closeMsgs + 1,
            s.threads ++ [⟨.cTry, [], .running, none, none, 0⟩]⟩ ∧
    runN .current false s.threads.length 19 (s.spawn [.close, .call]) =
      some ⟨none, none, some ⟨false, 0⟩, true, s.popen + 1, s.closeMsgs + 1,
            s.threads ++ [⟨.done, [], .returned, none, none, 1⟩]⟩ := by
  have h0 : s.spawn [.close, .call] =
      ⟨none, none, some c, true, s.popen, s.closeMsgs, s.threads ++ [⟨.clTry, [.call], .running, none, none, 0⟩]⟩ := by
    cases s
    simp_all [St.spawn, mkThr, Thr.next, Op.entry]
  have h5 := close_op s.threads none none c hcl s.popen s.closeMsgs [.call] none 0
  have h5' : runN .current false s.threads.length 5 (s.spawn [.close, .call]) =
      some ⟨none, none, none, false, s.popen, s.closeMsgs + 1,
            s.threads ++ [⟨.cTry, [], .running, none, none, 0⟩]⟩ := by
    rw [h0, h5]; simp [Thr.next, Op.entry]
  refine ⟨h5', ?_⟩
  have e : (19 : Nat) = 5 + (7 + 7) := rfl
  rw [e, runN_add, h5', Option.bind_some, runN_add,
    call_op1 s.threads false s.popen (s.closeMsgs + 1) [] none 0, Option.bind_some,
    call_op2 s.threads false s.popen (s.closeMsgs + 1) [] 0]
  simp [Thr.next]


/-- in a reachable state in which every thread has finished nobody holds the lock and the starter handle is cleared -/
theorem inv_final_quiet {s : St} (h : Inv s) (hf : s.final = true) :
    s.lock = none ∧ s.pthread = none ∧ othersDone s.threads.length s := by
  have hdone : ∀ (i : Nat) (th : Thr), s.threads[i]? = some th → th.out ≠ .running := by
    intro i th hi
    simp only [St.final, List.all_eq_true] at hf
    have := hf th (List.mem_of_getElem? hi)
    simpa using this
  have hlock : s.lock = none := by
    cases hl : s.lock with
    | none => rfl
    | some o =>
      obtain ⟨th, hth, hlk⟩ := inv_lock_owner h o hl
      have h1 := (h.2 o th hth).1
      have h2 := hdone o th hth
      have h3 := locked_not_done hlk
      rcases h1 with ⟨h1, _⟩ | ⟨_, h1⟩
      · exact absurd h1 h3
      · exact absurd h1 h2
  refine ⟨hlock, ?_, Nat.le_refl _, fun u th _ hu => hdone u th hu⟩
  cases hp : s.pthread with
  | none => rfl
  | some x =>
    have hx : x < s.threads.length := h.1.2.2.2 hlock x hp
    have hl := h.2 x s.threads[x] (by simp [hx])
    have hst : (s.threads[x]).pc.starter = true := hl.2.2.2.2.2.2.2.2.1.mp hp
    have h1 := hl.1
    have h2 := hdone x s.threads[x] (by simp [hx])
    have h3 := starter_not_done hst
    rcases h1 with ⟨h1, _⟩ | ⟨_, h1⟩
    · exact absurd h1 h3
    · exact absurd h1 h2

theorem inv_conn {s : St} (h : Inv s) (c : Conn) (hc : s.conn = some c) :
    c.closed = false ∧ s.live = true ∧ s.popen = 1 := by
  refine ⟨(h.1.2.1 c hc).1, (h.1.2.1 c hc).2, ?_⟩
  have := h.1.1
  simpa [hc] using this

theorem othersDone_spawn {s : St} {n : Nat} (h : othersDone n s) (ops : List Op) : othersDone n (s.spawn ops) := by
  refine ⟨by simp [St.spawn]; have := h.1; omega, ?_⟩
  intro u th hu hget
  have : u < s.threads.length := by have := h.1; omega
  simp only [St.spawn] at hget
  rw [List.getElem?_append_left this] at hget
  exact h.2 u th hu hget

end SuppModel.Startup
