/-
  Startup — executable model of the client start-up protocol of supp/remote.py
  (`Environment.prepare / run / _threaded_run / _call / close`) at SOURCE-LINE granularity,
  for any number of threads, plus the server loop of supp/server.py (`Server.run`).

  One model step of thread `t` = everything the real thread does between two consecutive
  `line` trace events inside the five methods above (CPython 3.12: a `with` line is visited
  twice, once to enter and once — also while an exception is in flight — to leave).
  `_run` (Popen + connect loop) is one atomic action of the calling line.

  Outside the code, hence parameters: the thread scheduler (the `Tid` argument of `step`),
  whether a launched server ever accepts the connection (`lf`, "launch fails"), and the
  variant of the source (`Variant`: the tree as it is now, and the two pre-fix behaviours).
-/
namespace SuppModel.Startup

abbrev Tid := Nat

/-- the source as it is now, and the two behaviours repaired by the `fix:` commits -/
inductive Variant
  | current
  | legacyJoin    -- run(): `if self.prepare_thread: self.prepare_thread.join()` (field read twice)
  | legacyClose   -- close(): `dumps(('close', (), {}), 2)` raises TypeError before anything is sent
  deriving DecidableEq, Repr

inductive Op | prepare | call | close
  deriving DecidableEq, Repr

inductive Exc
  | attributeError | typeError | osError | brokenPipeError | eofError | runtimeError
  | launchTimeout           -- `Exception('Supp server launching timeout exceed: …')`
  deriving DecidableEq, Repr

/-- program counter = the source line the thread is about to execute -/
inductive Pc
  -- prepare()
  | pWith | pIfThread | pRet1 | pIfConn | pRet2 | pMk | pStart | pExit
  -- run()
  | rWith | rRead | rIf | rJoin | rIfConn | rRun | rExit
  -- _threaded_run()
  | tTry | tRun | tClear
  -- _call()
  | cTry | cConn | cExcept | cRun | cSend | cRecv | cIf | cRet
  -- close()
  | clTry | clConn | clExcept | clPass | clSend | clClose | clDel
  | done
  deriving DecidableEq, Repr

inductive Out | running | returned | raised (e : Exc)
  deriving DecidableEq, Repr

structure Thr where
  pc : Pc
  ops : List Op            -- operations still to be started after the current one
  out : Out := .running
  loc : Option Tid := none -- run()'s local variable `thread`
  pend : Option Exc := none -- exception in flight through a `with` / `finally` exit
  answered : Nat := 0      -- calls that returned the server's reply
  deriving DecidableEq, Repr

/-- the client end of the connection (`self.conn` when the attribute exists) -/
structure Conn where
  closed : Bool
  replies : Nat            -- replies written by the server and not yet read
  deriving DecidableEq, Repr

structure St where
  lock : Option Tid        -- owner of `prepare_lock`
  pthread : Option Tid     -- `self.prepare_thread` (a Thread object is named by the index it gets when started)
  conn : Option Conn       -- `hasattr(self, 'conn')`
  live : Bool              -- the most recently launched server has not been made to exit
  popen : Nat              -- number of `Popen` calls
  closeMsgs : Nat          -- `('close', (), {})` requests that reached a server
  threads : List Thr
  deriving DecidableEq, Repr

/-! ### the server loop (`Server.run`) -/

inductive SrvIn
  | request       -- a decodable request other than close
  | closeReq      -- `('close', (), {})`
  | eof           -- `recv_bytes` raises EOFError: the client end is gone
  | garbage       -- bytes `loads` cannot decode (any other exception)
  deriving DecidableEq, Repr

structure SrvOut where
  continues : Bool     -- stays in the `while True` loop
  replies : Nat        -- `send_bytes` calls
  closesConn : Bool    -- `conn.close()`
  deriving DecidableEq, Repr

/-- one iteration of `while True:` in `Server.run` whose `poll` returned true -/
def serverStep : SrvIn → SrvOut
  | .request  => ⟨true, 1, false⟩
  | .closeReq => ⟨false, 0, true⟩
  | .eof      => ⟨false, 0, false⟩
  | .garbage  => ⟨false, 0, false⟩

/-- the loop on a list of inputs: (still running?, replies sent, conn.close() called?) -/
def serverRun : List SrvIn → SrvOut
  | [] => ⟨true, 0, false⟩
  | i :: rest =>
    let o := serverStep i
    if o.continues then
      let r := serverRun rest
      ⟨r.continues, o.replies + r.replies, r.closesConn⟩
    else o

/-! ### the client -/

def Op.entry : Op → Pc
  | .prepare => .pWith
  | .call => .cTry
  | .close => .clTry

/-- the current operation returned: start the next one or finish the thread -/
def Thr.next (th : Thr) : Thr :=
  match th.ops with
  | [] => { th with pc := .done, out := .returned }
  | o :: r => { th with pc := o.entry, ops := r }

def mkThr (ops : List Op) : Thr := Thr.next { pc := .done, ops := ops }

def starterThr : Thr := { pc := .tTry, ops := [] }

def init (w : List (List Op)) : St :=
  { lock := none, pthread := none, conn := none, live := false, popen := 0, closeMsgs := 0,
    threads := w.map mkThr }

/-- one more worker thread (used to state sequential composition) -/
def St.spawn (s : St) (ops : List Op) : St := { s with threads := s.threads ++ [mkThr ops] }

def St.upd (s : St) (t : Tid) (th : Thr) : St := { s with threads := s.threads.set t th }

def goto (s : St) (t : Tid) (th : Thr) (pc : Pc) : Option St := some (s.upd t { th with pc := pc })

/-- an exception leaves the current operation and, with it, the thread's workload -/
def raise (s : St) (t : Tid) (th : Thr) (e : Exc) : Option St :=
  some (s.upd t { th with pc := .done, out := .raised e })

def finish (s : St) (t : Tid) (th : Thr) : Option St := some (s.upd t th.next)

/-- `_run()`: Popen, then the connect loop; with `lf` the server never accepts (→ timeout) -/
def launch (lf : Bool) (s : St) : St × Option Exc :=
  if lf then ({ s with popen := s.popen + 1, live := true }, some .launchTimeout)
  else ({ s with popen := s.popen + 1, live := true, conn := some ⟨false, 0⟩ }, none)

/-- what thread `t` (record `th`, known to be running) does on its current line -/
def line (v : Variant) (lf : Bool) (s : St) (t : Tid) (th : Thr) : Option St :=
  match th.pc with
  -- prepare
  | .pWith => if s.lock.isNone then goto { s with lock := some t } t th .pIfThread else none
  | .pIfThread => goto s t th (if s.pthread.isSome then .pRet1 else .pIfConn)
  | .pRet1 => goto s t th .pExit
  | .pIfConn => goto s t th (if s.conn.isSome then .pRet2 else .pMk)
  | .pRet2 => goto s t th .pExit
  | .pMk => goto { s with pthread := some s.threads.length } t th .pStart
  | .pStart =>
    match s.pthread with
    | none => some (s.upd t { th with pc := .pExit, pend := some .attributeError })
    | some x =>
      if x = s.threads.length then
        some { s with threads := (s.threads.set t { th with pc := .pExit }) ++ [starterThr] }
      else some (s.upd t { th with pc := .pExit, pend := some .runtimeError })
  | .pExit =>
    match th.pend with
    | some e => raise { s with lock := none } t th e
    | none => finish { s with lock := none } t th
  -- run
  | .rWith =>
    if s.lock.isNone then
      goto { s with lock := some t } t th (if v = .legacyJoin then .rIf else .rRead)
    else none
  | .rRead => some (s.upd t { th with pc := .rIf, loc := s.pthread })
  | .rIf =>
    goto s t th (if (if v = .legacyJoin then s.pthread else th.loc).isSome then .rJoin else .rIfConn)
  | .rJoin =>
    match (if v = .legacyJoin then s.pthread else th.loc) with
    | none => some (s.upd t { th with pc := .rExit, pend := some .attributeError })
    | some x =>
      match s.threads[x]? with
      | none => some (s.upd t { th with pc := .rExit, pend := some .runtimeError })
      | some tx => if tx.out = .running then none else goto s t th .rIfConn
  | .rIfConn => goto s t th (if s.conn.isSome then .rExit else .rRun)
  | .rRun =>
    let (s', e) := launch lf s
    some (s'.upd t { th with pc := .rExit, pend := e })
  | .rExit =>
    match th.pend with
    | some e => raise { s with lock := none } t th e
    | none => goto { s with lock := none } t th .cSend
  -- _threaded_run
  | .tTry => goto s t th .tRun
  | .tRun =>
    let (s', e) := launch lf s
    some (s'.upd t { th with pc := .tClear, pend := e })
  | .tClear =>
    match th.pend with
    | some e => raise { s with pthread := none } t th e
    | none => finish { s with pthread := none } t th
  -- _call
  | .cTry => goto s t th .cConn
  | .cConn => goto s t th (if s.conn.isSome then .cSend else .cExcept)
  | .cExcept => goto s t th .cRun
  | .cRun => goto s t th .rWith
  | .cSend =>
    match s.conn with
    | none => raise s t th .attributeError
    | some c =>
      if c.closed then raise s t th .osError
      else if !s.live then raise s t th .brokenPipeError
      else goto { s with conn := some { c with replies := c.replies + (serverStep .request).replies },
                         live := (serverStep .request).continues } t th .cRecv
  | .cRecv =>
    match s.conn with
    | none => raise s t th .attributeError
    | some c =>
      if c.closed then raise s t th .osError
      else if c.replies > 0 then goto { s with conn := some { c with replies := c.replies - 1 } } t th .cIf
      else if s.live then none
      else raise s t th .eofError
  | .cIf => goto s t th .cRet
  | .cRet => finish s t { th with answered := th.answered + 1 }
  -- close
  | .clTry => goto s t th .clConn
  | .clConn => goto s t th (if s.conn.isSome then .clSend else .clExcept)
  | .clExcept => goto s t th .clPass
  | .clPass => finish s t th
  | .clSend =>
    if v = .legacyClose then raise s t th .typeError
    else match s.conn with
    | none => raise s t th .attributeError
    | some c =>
      if c.closed then raise s t th .osError
      else if !s.live then raise s t th .brokenPipeError
      else goto { s with closeMsgs := s.closeMsgs + 1, live := (serverStep .closeReq).continues } t th .clClose
  | .clClose =>
    match s.conn with
    | none => raise s t th .attributeError
    | some c => goto { s with conn := some { c with closed := true }, live := s.live && (serverStep .eof).continues } t th .clDel
  | .clDel =>
    match s.conn with
    | none => raise s t th .attributeError
    | some _ => finish { s with conn := none } t th
  | .done => none

/-- one scheduling decision: thread `t` runs one line; `none` = `t` does not exist, has finished, or is blocked -/
def step (v : Variant) (lf : Bool) (s : St) (t : Tid) : Option St :=
  match s.threads[t]? with
  | none => none
  | some th => if th.out = .running then line v lf s t th else none

def enabled (v : Variant) (lf : Bool) (s : St) (t : Tid) : Bool := (step v lf s t).isSome

/-- a schedule is a list of thread ids; a decision for a thread that cannot run is skipped -/
def exec (v : Variant) (lf : Bool) : List Tid → St → St
  | [], s => s
  | t :: rest, s => exec v lf rest ((step v lf s t).getD s)

/-- strict replay: every decision must name a runnable thread -/
def execStrict (v : Variant) (lf : Bool) : List Tid → St → Option St
  | [], s => some s
  | t :: rest, s => (step v lf s t).bind (execStrict v lf rest)

/-- thread `t` alone, `n` lines -/
def runN (v : Variant) (lf : Bool) (t : Tid) : Nat → St → Option St
  | 0, s => some s
  | n + 1, s => (step v lf s t).bind (runN v lf t n)

def St.enabledSet (v : Variant) (lf : Bool) (s : St) : List Tid :=
  (List.range s.threads.length).filter (enabled v lf s)

/-- no thread is still running -/
def St.final (s : St) : Bool := s.threads.all (fun th => th.out != .running)

/-- no thread can take a step -/
def St.stuck (v : Variant) (lf : Bool) (s : St) : Bool := (s.enabledSet v lf).isEmpty

/-- the lines inside a `with self.prepare_lock:` block (including the line that leaves it) -/
def Pc.locked : Pc → Bool
  | .pIfThread | .pRet1 | .pIfConn | .pRet2 | .pMk | .pStart | .pExit
  | .rRead | .rIf | .rJoin | .rIfConn | .rRun | .rExit => true
  | _ => false

/-! ### ranking function: an upper bound on the lines still to be executed -/

/-- lines the thread can still execute in its current operation (including the three lines of a
    starter thread it may yet create) -/
def Pc.weight : Pc → Nat
  | .pWith => 9 | .pIfThread => 8 | .pRet1 => 2 | .pIfConn => 7 | .pRet2 => 2 | .pMk => 6 | .pStart => 5 | .pExit => 1
  | .rWith => 11 | .rRead => 10 | .rIf => 9 | .rJoin => 8 | .rIfConn => 7 | .rRun => 6 | .rExit => 5
  | .tTry => 3 | .tRun => 2 | .tClear => 1
  | .cTry => 15 | .cConn => 14 | .cExcept => 13 | .cRun => 12 | .cSend => 4 | .cRecv => 3 | .cIf => 2 | .cRet => 1
  | .clTry => 5 | .clConn => 4 | .clExcept => 2 | .clPass => 1 | .clSend => 3 | .clClose => 2 | .clDel => 1
  | .done => 0

def Thr.rank (th : Thr) : Nat := th.pc.weight + (th.ops.map (fun o => o.entry.weight)).sum

def St.rank (s : St) : Nat := (s.threads.map Thr.rank).sum

def noClose (w : List (List Op)) : Bool := w.all (fun ops => ops.all (· != .close))
def hasCall (w : List (List Op)) : Bool := w.any (fun ops => ops.any (· == .call))

end SuppModel.Startup
