/-
  Startup, proofs IV: the second invariant (who is a starter, reply counting, bookkeeping of answered
  calls) used for progress (`no deadlock`) and for `exactly one server, every call answered`.
-/
import SuppModel.Startup.Lemmas3

namespace SuppModel.Startup
set_option linter.unusedSimpArgs false
set_option linter.unusedVariables false

/-- lines of `_call` and of the `run()` it calls: a call is in progress -/
def Pc.inCall : Pc → Bool
  | .cTry | .cConn | .cExcept | .cRun | .rWith | .rRead | .rIf | .rJoin | .rIfConn | .rRun | .rExit
  | .cSend | .cRecv | .cIf | .cRet => true
  | _ => false

def atRecv (th : Thr) : Bool := th.pc == .cRecv

/-- replies written by the server and not yet read -/
def unread : Option Conn → Nat
  | some c => c.replies
  | none => 0

/-- calls in the workload of thread `i` (starters have none) -/
def total (w : List (List Op)) (i : Tid) : Nat :=
  match w[i]? with
  | some ops => ops.count .call
  | none => 0

/-- second layer of thread-local facts; workers are the threads `< w.length`, starters the others -/
def Local2 (w : List (List Op)) (conn : Option Conn) (i : Tid) (th : Thr) : Prop :=
  (w.length ≤ i → (th.pc.starter = true ∨ th.pc = .done) ∧ th.ops = [] ∧ th.answered = 0) ∧
  (i < w.length → th.pc.starter = false) ∧
  (th.pc.usesLoc = true → ∀ x, th.loc = some x → w.length ≤ x) ∧
  (th.pc = .done → th.ops = []) ∧
  (th.answered + (if th.pc.inCall then 1 else 0) + th.ops.count .call = total w i) ∧
  ((0 < th.answered ∨ th.pc = .cIf ∨ th.pc = .cRet) → conn.isSome = true)

def Inv2 (w : List (List Op)) (s : St) : Prop :=
  w.length ≤ s.threads.length ∧
  (∀ x, s.pthread = some x → w.length ≤ x) ∧
  (s.threads.countP atRecv = unread s.conn) ∧
  ∀ i th, s.threads[i]? = some th → Local2 w s.conn i th

theorem countP_set {α} (p : α → Bool) (l : List α) (t : Nat) (a b : α) (h : l[t]? = some a) :
    (l.set t b).countP p + (if p a then 1 else 0) = l.countP p + (if p b then 1 else 0) := by
  induction l generalizing t with
  | nil => simp at h
  | cons x r ih =>
    cases t with
    | zero =>
      simp at h; subst h
      simp only [List.set_cons_zero, List.countP_cons]
      omega
    | succ n =>
      simp only [List.getElem?_cons_succ] at h
      have := ih n h
      simp only [List.set_cons_succ, List.countP_cons]
      omega

theorem total_ge (w : List (List Op)) (i : Tid) (h : w.length ≤ i) : total w i = 0 := by
  simp [total, List.getElem?_eq_none_iff.mpr h]

theorem atRecv_next (th : Thr) : atRecv th.next = false := by
  unfold Thr.next atRecv
  cases th.ops with
  | nil => simp
  | cons o r => cases o <;> simp [Op.entry]

@[simp] theorem next_pc_ne_recv (th : Thr) : (th.next.pc = .cRecv) = False := by
  have := atRecv_next th
  simpa [atRecv] using this

/-- the record after the current operation returned -/
theorem local2_next {w : List (List Op)} {conn : Option Conn} {i : Tid} {th : Thr}
    (hge : w.length ≤ i → th.ops = [] ∧ th.answered = 0)
    (hacc : th.answered + th.ops.count .call = total w i)
    (hconn : 0 < th.answered → conn.isSome = true) : Local2 w conn i th.next := by
  unfold Thr.next
  cases hops : th.ops with
  | nil =>
    simp [Local2, Pc.starter, Pc.usesLoc, Pc.inCall, hops] at hacc ⊢
    refine ⟨fun h => (hge h).2, hacc, hconn⟩
  | cons o r =>
    rw [hops] at hacc
    have hlt : i < w.length := by
      apply Nat.lt_of_not_le
      intro h
      have := (hge h).1
      simp [hops] at this
    cases o <;>
      simp [Local2, Op.entry, Pc.starter, Pc.usesLoc, Pc.inCall, List.count_cons] at hacc ⊢ <;>
      exact ⟨hlt, by omega, hconn⟩

/-- frame rule: thread `t` rewrites its own record and the shared fields -/
theorem inv2_of_set {w : List (List Op)} {s : St} {t : Tid} {th : Thr} (h : Inv2 w s)
    (hth : s.threads[t]? = some th)
    {lock' pthread' : Option Tid} {conn' : Option Conn} {live' : Bool} {popen' cm' : Nat} {th' : Thr}
    (hp : ∀ x, pthread' = some x → w.length ≤ x)
    (hcnt : unread conn' + (if atRecv th then 1 else 0) = unread s.conn + (if atRecv th' then 1 else 0))
    (hself : Local2 w conn' t th')
    (hmono : s.conn.isSome = true → conn'.isSome = true) :
    Inv2 w { lock := lock', pthread := pthread', conn := conn', live := live', popen := popen',
             closeMsgs := cm', threads := s.threads.set t th' } := by
  obtain ⟨hlen, _, hc, hl⟩ := h
  refine ⟨by simpa using hlen, hp, ?_, ?_⟩
  · have := countP_set atRecv s.threads t th th' hth
    simp only
    omega
  · intro i thi hi
    simp only [List.getElem?_set] at hi
    split at hi
    · rename_i hti
      subst hti
      have : t < s.threads.length := getElem?_lt hth
      simp [this] at hi
      subst hi
      exact hself
    · have := hl i thi hi
      simp only [Local2] at this ⊢
      refine ⟨this.1, this.2.1, this.2.2.1, this.2.2.2.1, this.2.2.2.2.1, fun hh => hmono (this.2.2.2.2.2 hh)⟩

/-- frame rule for `start()`: one starter thread is appended -/
theorem inv2_of_app {w : List (List Op)} {s : St} {t : Tid} {th : Thr} (h : Inv2 w s)
    (hth : s.threads[t]? = some th)
    {lock' pthread' : Option Tid} {conn' : Option Conn} {live' : Bool} {popen' cm' : Nat} {th' : Thr}
    (hp : ∀ x, pthread' = some x → w.length ≤ x)
    (hcnt : unread conn' + (if atRecv th then 1 else 0) = unread s.conn + (if atRecv th' then 1 else 0))
    (hself : Local2 w conn' t th')
    (hmono : s.conn.isSome = true → conn'.isSome = true) :
    Inv2 w { lock := lock', pthread := pthread', conn := conn', live := live', popen := popen',
             closeMsgs := cm', threads := s.threads.set t th' ++ [starterThr] } := by
  obtain ⟨hlen, _, hc, hl⟩ := h
  have htlt : t < s.threads.length := getElem?_lt hth
  refine ⟨by simp; omega, hp, ?_, ?_⟩
  · have := countP_set atRecv s.threads t th th' hth
    have h0 : List.countP atRecv [starterThr] = 0 := by simp [atRecv, starterThr]
    simp only [List.countP_append, h0]
    omega
  · intro i thi hi
    by_cases hil : i < s.threads.length
    · rw [List.getElem?_append_left (by simpa using hil)] at hi
      simp only [List.getElem?_set] at hi
      split at hi
      · rename_i hti
        subst hti
        simp [htlt] at hi
        subst hi
        exact hself
      · have := hl i thi hi
        simp only [Local2] at this ⊢
        refine ⟨this.1, this.2.1, this.2.2.1, this.2.2.2.1, this.2.2.2.2.1, fun hh => hmono (this.2.2.2.2.2 hh)⟩
    · have hlt := getElem?_lt hi
      simp only [List.length_append, List.length_set, List.length_cons, List.length_nil] at hlt
      have : i = s.threads.length :=
        Nat.le_antisymm (Nat.lt_succ_iff.mp (by simpa using hlt)) (Nat.not_lt.mp hil)
      subst this
      simp at hi
      subst hi
      have hge : w.length ≤ s.threads.length := hlen
      simp [Local2, starterThr, Pc.starter, Pc.usesLoc, Pc.inCall, total_ge w _ hge]
      omega

end SuppModel.Startup
