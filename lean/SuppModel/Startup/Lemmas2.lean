/-
  Startup, proofs II: every step of every thread preserves the invariant (current source, launches
  succeed, no close() in the workload); consequences for every reachable state.
  (The per-line cases are generated from one template: frame rule + `grind`.)
-/
import SuppModel.Startup.Lemmas1
namespace SuppModel.Startup
set_option linter.unusedSimpArgs false
set_option linter.unusedVariables false
set_option maxHeartbeats 400000

theorem inv_step {s s' : St} {t : Tid} (h : Inv s) (hs : step .current false s t = some s') : Inv s' := by
  obtain ⟨hsh, hloc⟩ := h
  unfold step at hs
  cases hth : s.threads[t]? with
  | none => simp [hth] at hs
  | some th =>
    simp only [hth] at hs
    split at hs
    · rename_i hrun
      have hl := hloc t th hth
      have htlt : t < s.threads.length := getElem?_lt hth
      have hpend : th.pend = none := hl.2.1
      cases hpc : th.pc
      case pRet1 =>
        simp [line, hpc, goto, finish, raise, launch, St.upd, hpend, serverStep] at hs
        subst hs
        refine inv_of_set ⟨hsh, hloc⟩ hth ?_ ?_ ?_
        · simp [Shared] at hsh
          simp [Local, hpc, Pc.locked, Pc.isClose, Pc.starter, Pc.pthNone, Pc.connNone, Pc.connSome, Pc.usesLoc] at hl
          grind
        · simp [Shared] at hsh
          simp [Local, hpc, Pc.locked, Pc.isClose, Pc.starter, Pc.pthNone, Pc.connNone, Pc.connSome, Pc.usesLoc] at hl ⊢
          grind
        · intro i thi hne hlt hli
          simp [Shared] at hsh
          simp [Local, hpc, Pc.locked, Pc.isClose, Pc.starter, Pc.pthNone, Pc.connNone, Pc.connSome, Pc.usesLoc] at hl
          simp [Local] at hli ⊢
          grind [pthNone_locked, usesLoc_locked, connNone_cases, starter_not_locked, starter_not_done, connNone_not_done, locked_not_done, connNone_cases']
      case pRet2 =>
        simp [line, hpc, goto, finish, raise, launch, St.upd, hpend, serverStep] at hs
        subst hs
        refine inv_of_set ⟨hsh, hloc⟩ hth ?_ ?_ ?_
        · simp [Shared] at hsh
          simp [Local, hpc, Pc.locked, Pc.isClose, Pc.starter, Pc.pthNone, Pc.connNone, Pc.connSome, Pc.usesLoc] at hl
          grind
        · simp [Shared] at hsh
          simp [Local, hpc, Pc.locked, Pc.isClose, Pc.starter, Pc.pthNone, Pc.connNone, Pc.connSome, Pc.usesLoc] at hl ⊢
          grind
        · intro i thi hne hlt hli
          simp [Shared] at hsh
          simp [Local, hpc, Pc.locked, Pc.isClose, Pc.starter, Pc.pthNone, Pc.connNone, Pc.connSome, Pc.usesLoc] at hl
          simp [Local] at hli ⊢
          grind [pthNone_locked, usesLoc_locked, connNone_cases, starter_not_locked, starter_not_done, connNone_not_done, locked_not_done, connNone_cases']
      case tTry =>
        simp [line, hpc, goto, finish, raise, launch, St.upd, hpend, serverStep] at hs
        subst hs
        refine inv_of_set ⟨hsh, hloc⟩ hth ?_ ?_ ?_
        · simp [Shared] at hsh
          simp [Local, hpc, Pc.locked, Pc.isClose, Pc.starter, Pc.pthNone, Pc.connNone, Pc.connSome, Pc.usesLoc] at hl
          grind
        · simp [Shared] at hsh
          simp [Local, hpc, Pc.locked, Pc.isClose, Pc.starter, Pc.pthNone, Pc.connNone, Pc.connSome, Pc.usesLoc] at hl ⊢
          grind
        · intro i thi hne hlt hli
          simp [Shared] at hsh
          simp [Local, hpc, Pc.locked, Pc.isClose, Pc.starter, Pc.pthNone, Pc.connNone, Pc.connSome, Pc.usesLoc] at hl
          simp [Local] at hli ⊢
          grind [pthNone_locked, usesLoc_locked, connNone_cases, starter_not_locked, starter_not_done, connNone_not_done, locked_not_done, connNone_cases']
      case cTry =>
        simp [line, hpc, goto, finish, raise, launch, St.upd, hpend, serverStep] at hs
        subst hs
        refine inv_of_set ⟨hsh, hloc⟩ hth ?_ ?_ ?_
        · simp [Shared] at hsh
          simp [Local, hpc, Pc.locked, Pc.isClose, Pc.starter, Pc.pthNone, Pc.connNone, Pc.connSome, Pc.usesLoc] at hl
          grind
        · simp [Shared] at hsh
          simp [Local, hpc, Pc.locked, Pc.isClose, Pc.starter, Pc.pthNone, Pc.connNone, Pc.connSome, Pc.usesLoc] at hl ⊢
          grind
        · intro i thi hne hlt hli
          simp [Shared] at hsh
          simp [Local, hpc, Pc.locked, Pc.isClose, Pc.starter, Pc.pthNone, Pc.connNone, Pc.connSome, Pc.usesLoc] at hl
          simp [Local] at hli ⊢
          grind [pthNone_locked, usesLoc_locked, connNone_cases, starter_not_locked, starter_not_done, connNone_not_done, locked_not_done, connNone_cases']
      case cExcept =>
        simp [line, hpc, goto, finish, raise, launch, St.upd, hpend, serverStep] at hs
        subst hs
        refine inv_of_set ⟨hsh, hloc⟩ hth ?_ ?_ ?_
        · simp [Shared] at hsh
          simp [Local, hpc, Pc.locked, Pc.isClose, Pc.starter, Pc.pthNone, Pc.connNone, Pc.connSome, Pc.usesLoc] at hl
          grind
        · simp [Shared] at hsh
          simp [Local, hpc, Pc.locked, Pc.isClose, Pc.starter, Pc.pthNone, Pc.connNone, Pc.connSome, Pc.usesLoc] at hl ⊢
          grind
        · intro i thi hne hlt hli
          simp [Shared] at hsh
          simp [Local, hpc, Pc.locked, Pc.isClose, Pc.starter, Pc.pthNone, Pc.connNone, Pc.connSome, Pc.usesLoc] at hl
          simp [Local] at hli ⊢
          grind [pthNone_locked, usesLoc_locked, connNone_cases, starter_not_locked, starter_not_done, connNone_not_done, locked_not_done, connNone_cases']
      case cRun =>
        simp [line, hpc, goto, finish, raise, launch, St.upd, hpend, serverStep] at hs
        subst hs
        refine inv_of_set ⟨hsh, hloc⟩ hth ?_ ?_ ?_
        · simp [Shared] at hsh
          simp [Local, hpc, Pc.locked, Pc.isClose, Pc.starter, Pc.pthNone, Pc.connNone, Pc.connSome, Pc.usesLoc] at hl
          grind
        · simp [Shared] at hsh
          simp [Local, hpc, Pc.locked, Pc.isClose, Pc.starter, Pc.pthNone, Pc.connNone, Pc.connSome, Pc.usesLoc] at hl ⊢
          grind
        · intro i thi hne hlt hli
          simp [Shared] at hsh
          simp [Local, hpc, Pc.locked, Pc.isClose, Pc.starter, Pc.pthNone, Pc.connNone, Pc.connSome, Pc.usesLoc] at hl
          simp [Local] at hli ⊢
          grind [pthNone_locked, usesLoc_locked, connNone_cases, starter_not_locked, starter_not_done, connNone_not_done, locked_not_done, connNone_cases']
      case cIf =>
        simp [line, hpc, goto, finish, raise, launch, St.upd, hpend, serverStep] at hs
        subst hs
        refine inv_of_set ⟨hsh, hloc⟩ hth ?_ ?_ ?_
        · simp [Shared] at hsh
          simp [Local, hpc, Pc.locked, Pc.isClose, Pc.starter, Pc.pthNone, Pc.connNone, Pc.connSome, Pc.usesLoc] at hl
          grind
        · simp [Shared] at hsh
          simp [Local, hpc, Pc.locked, Pc.isClose, Pc.starter, Pc.pthNone, Pc.connNone, Pc.connSome, Pc.usesLoc] at hl ⊢
          grind
        · intro i thi hne hlt hli
          simp [Shared] at hsh
          simp [Local, hpc, Pc.locked, Pc.isClose, Pc.starter, Pc.pthNone, Pc.connNone, Pc.connSome, Pc.usesLoc] at hl
          simp [Local] at hli ⊢
          grind [pthNone_locked, usesLoc_locked, connNone_cases, starter_not_locked, starter_not_done, connNone_not_done, locked_not_done, connNone_cases']
      case rRead =>
        simp [line, hpc, goto, finish, raise, launch, St.upd, hpend, serverStep] at hs
        subst hs
        refine inv_of_set ⟨hsh, hloc⟩ hth ?_ ?_ ?_
        · simp [Shared] at hsh
          simp [Local, hpc, Pc.locked, Pc.isClose, Pc.starter, Pc.pthNone, Pc.connNone, Pc.connSome, Pc.usesLoc] at hl
          grind
        · simp [Shared] at hsh
          simp [Local, hpc, Pc.locked, Pc.isClose, Pc.starter, Pc.pthNone, Pc.connNone, Pc.connSome, Pc.usesLoc] at hl ⊢
          grind
        · intro i thi hne hlt hli
          simp [Shared] at hsh
          simp [Local, hpc, Pc.locked, Pc.isClose, Pc.starter, Pc.pthNone, Pc.connNone, Pc.connSome, Pc.usesLoc] at hl
          simp [Local] at hli ⊢
          grind [pthNone_locked, usesLoc_locked, connNone_cases, starter_not_locked, starter_not_done, connNone_not_done, locked_not_done, connNone_cases']
      case pMk =>
        simp [line, hpc, goto, finish, raise, launch, St.upd, hpend, serverStep] at hs
        subst hs
        refine inv_of_set ⟨hsh, hloc⟩ hth ?_ ?_ ?_
        · simp [Shared] at hsh
          simp [Local, hpc, Pc.locked, Pc.isClose, Pc.starter, Pc.pthNone, Pc.connNone, Pc.connSome, Pc.usesLoc] at hl
          grind
        · simp [Shared] at hsh
          simp [Local, hpc, Pc.locked, Pc.isClose, Pc.starter, Pc.pthNone, Pc.connNone, Pc.connSome, Pc.usesLoc] at hl ⊢
          grind
        · intro i thi hne hlt hli
          simp [Shared] at hsh
          simp [Local, hpc, Pc.locked, Pc.isClose, Pc.starter, Pc.pthNone, Pc.connNone, Pc.connSome, Pc.usesLoc] at hl
          simp [Local] at hli ⊢
          grind [pthNone_locked, usesLoc_locked, connNone_cases, starter_not_locked, starter_not_done, connNone_not_done, locked_not_done, connNone_cases']
      case pIfThread =>
        simp [line, hpc, goto, finish, raise, launch, St.upd, hpend, serverStep] at hs
        cases hc : s.pthread <;> simp [hc] at hs <;> subst hs <;> (
  
          refine inv_of_set ⟨hsh, hloc⟩ hth ?_ ?_ ?_
          · simp [Shared] at hsh
            simp [Local, hpc, Pc.locked, Pc.isClose, Pc.starter, Pc.pthNone, Pc.connNone, Pc.connSome, Pc.usesLoc] at hl
            grind
          · simp [Shared] at hsh
            simp [Local, hpc, Pc.locked, Pc.isClose, Pc.starter, Pc.pthNone, Pc.connNone, Pc.connSome, Pc.usesLoc] at hl ⊢
            grind
          · intro i thi hne hlt hli
            simp [Shared] at hsh
            simp [Local, hpc, Pc.locked, Pc.isClose, Pc.starter, Pc.pthNone, Pc.connNone, Pc.connSome, Pc.usesLoc] at hl
            simp [Local] at hli ⊢
            grind [pthNone_locked, usesLoc_locked, connNone_cases, starter_not_locked, starter_not_done, connNone_not_done, locked_not_done, connNone_cases'])
      case pIfConn =>
        simp [line, hpc, goto, finish, raise, launch, St.upd, hpend, serverStep] at hs
        cases hc : s.conn <;> simp [hc] at hs <;> subst hs <;> (
  
          refine inv_of_set ⟨hsh, hloc⟩ hth ?_ ?_ ?_
          · simp [Shared] at hsh
            simp [Local, hpc, Pc.locked, Pc.isClose, Pc.starter, Pc.pthNone, Pc.connNone, Pc.connSome, Pc.usesLoc] at hl
            grind
          · simp [Shared] at hsh
            simp [Local, hpc, Pc.locked, Pc.isClose, Pc.starter, Pc.pthNone, Pc.connNone, Pc.connSome, Pc.usesLoc] at hl ⊢
            grind
          · intro i thi hne hlt hli
            simp [Shared] at hsh
            simp [Local, hpc, Pc.locked, Pc.isClose, Pc.starter, Pc.pthNone, Pc.connNone, Pc.connSome, Pc.usesLoc] at hl
            simp [Local] at hli ⊢
            grind [pthNone_locked, usesLoc_locked, connNone_cases, starter_not_locked, starter_not_done, connNone_not_done, locked_not_done, connNone_cases'])
      case rIfConn =>
        simp [line, hpc, goto, finish, raise, launch, St.upd, hpend, serverStep] at hs
        cases hc : s.conn <;> simp [hc] at hs <;> subst hs <;> (
  
          refine inv_of_set ⟨hsh, hloc⟩ hth ?_ ?_ ?_
          · simp [Shared] at hsh
            simp [Local, hpc, Pc.locked, Pc.isClose, Pc.starter, Pc.pthNone, Pc.connNone, Pc.connSome, Pc.usesLoc] at hl
            grind
          · simp [Shared] at hsh
            simp [Local, hpc, Pc.locked, Pc.isClose, Pc.starter, Pc.pthNone, Pc.connNone, Pc.connSome, Pc.usesLoc] at hl ⊢
            grind
          · intro i thi hne hlt hli
            simp [Shared] at hsh
            simp [Local, hpc, Pc.locked, Pc.isClose, Pc.starter, Pc.pthNone, Pc.connNone, Pc.connSome, Pc.usesLoc] at hl
            simp [Local] at hli ⊢
            grind [pthNone_locked, usesLoc_locked, connNone_cases, starter_not_locked, starter_not_done, connNone_not_done, locked_not_done, connNone_cases'])
      case cConn =>
        simp [line, hpc, goto, finish, raise, launch, St.upd, hpend, serverStep] at hs
        cases hc : s.conn <;> simp [hc] at hs <;> subst hs <;> (
  
          refine inv_of_set ⟨hsh, hloc⟩ hth ?_ ?_ ?_
          · simp [Shared] at hsh
            simp [Local, hpc, Pc.locked, Pc.isClose, Pc.starter, Pc.pthNone, Pc.connNone, Pc.connSome, Pc.usesLoc] at hl
            grind
          · simp [Shared] at hsh
            simp [Local, hpc, Pc.locked, Pc.isClose, Pc.starter, Pc.pthNone, Pc.connNone, Pc.connSome, Pc.usesLoc] at hl ⊢
            grind
          · intro i thi hne hlt hli
            simp [Shared] at hsh
            simp [Local, hpc, Pc.locked, Pc.isClose, Pc.starter, Pc.pthNone, Pc.connNone, Pc.connSome, Pc.usesLoc] at hl
            simp [Local] at hli ⊢
            grind [pthNone_locked, usesLoc_locked, connNone_cases, starter_not_locked, starter_not_done, connNone_not_done, locked_not_done, connNone_cases'])
      case rIf =>
        simp [line, hpc, goto, finish, raise, launch, St.upd, hpend, serverStep] at hs
        cases hc : th.loc <;> simp [hc] at hs <;> subst hs <;> (
  
          refine inv_of_set ⟨hsh, hloc⟩ hth ?_ ?_ ?_
          · simp [Shared] at hsh
            simp [Local, hpc, Pc.locked, Pc.isClose, Pc.starter, Pc.pthNone, Pc.connNone, Pc.connSome, Pc.usesLoc] at hl
            grind
          · simp [Shared] at hsh
            simp [Local, hpc, Pc.locked, Pc.isClose, Pc.starter, Pc.pthNone, Pc.connNone, Pc.connSome, Pc.usesLoc] at hl ⊢
            grind
          · intro i thi hne hlt hli
            simp [Shared] at hsh
            simp [Local, hpc, Pc.locked, Pc.isClose, Pc.starter, Pc.pthNone, Pc.connNone, Pc.connSome, Pc.usesLoc] at hl
            simp [Local] at hli ⊢
            grind [pthNone_locked, usesLoc_locked, connNone_cases, starter_not_locked, starter_not_done, connNone_not_done, locked_not_done, connNone_cases'])
      case pWith =>
        simp [line, hpc, goto, finish, raise, launch, St.upd, hpend, serverStep] at hs
        obtain ⟨hlk, rfl⟩ := hs
        refine inv_of_set ⟨hsh, hloc⟩ hth ?_ ?_ ?_
        · simp [Shared] at hsh
          simp [Local, hpc, Pc.locked, Pc.isClose, Pc.starter, Pc.pthNone, Pc.connNone, Pc.connSome, Pc.usesLoc] at hl
          grind
        · simp [Shared] at hsh
          simp [Local, hpc, Pc.locked, Pc.isClose, Pc.starter, Pc.pthNone, Pc.connNone, Pc.connSome, Pc.usesLoc] at hl ⊢
          grind
        · intro i thi hne hlt hli
          simp [Shared] at hsh
          simp [Local, hpc, Pc.locked, Pc.isClose, Pc.starter, Pc.pthNone, Pc.connNone, Pc.connSome, Pc.usesLoc] at hl
          simp [Local] at hli ⊢
          grind [pthNone_locked, usesLoc_locked, connNone_cases, starter_not_locked, starter_not_done, connNone_not_done, locked_not_done, connNone_cases']
      case rWith =>
        simp [line, hpc, goto, finish, raise, launch, St.upd, hpend, serverStep] at hs
        obtain ⟨hlk, rfl⟩ := hs
        refine inv_of_set ⟨hsh, hloc⟩ hth ?_ ?_ ?_
        · simp [Shared] at hsh
          simp [Local, hpc, Pc.locked, Pc.isClose, Pc.starter, Pc.pthNone, Pc.connNone, Pc.connSome, Pc.usesLoc] at hl
          grind
        · simp [Shared] at hsh
          simp [Local, hpc, Pc.locked, Pc.isClose, Pc.starter, Pc.pthNone, Pc.connNone, Pc.connSome, Pc.usesLoc] at hl ⊢
          grind
        · intro i thi hne hlt hli
          simp [Shared] at hsh
          simp [Local, hpc, Pc.locked, Pc.isClose, Pc.starter, Pc.pthNone, Pc.connNone, Pc.connSome, Pc.usesLoc] at hl
          simp [Local] at hli ⊢
          grind [pthNone_locked, usesLoc_locked, connNone_cases, starter_not_locked, starter_not_done, connNone_not_done, locked_not_done, connNone_cases']
      case rExit =>
        simp [line, hpc, goto, finish, raise, launch, St.upd, hpend, serverStep] at hs
        subst hs
        refine inv_of_set ⟨hsh, hloc⟩ hth ?_ ?_ ?_
        · simp [Shared] at hsh
          simp [Local, hpc, Pc.locked, Pc.isClose, Pc.starter, Pc.pthNone, Pc.connNone, Pc.connSome, Pc.usesLoc] at hl
          grind
        · simp [Shared] at hsh
          simp [Local, hpc, Pc.locked, Pc.isClose, Pc.starter, Pc.pthNone, Pc.connNone, Pc.connSome, Pc.usesLoc] at hl ⊢
          grind
        · intro i thi hne hlt hli
          simp [Shared] at hsh
          simp [Local, hpc, Pc.locked, Pc.isClose, Pc.starter, Pc.pthNone, Pc.connNone, Pc.connSome, Pc.usesLoc] at hl
          simp [Local] at hli ⊢
          grind [pthNone_locked, usesLoc_locked, connNone_cases, starter_not_locked, starter_not_done, connNone_not_done, locked_not_done, connNone_cases']
      case rRun =>
        simp [line, hpc, goto, finish, raise, launch, St.upd, hpend, serverStep] at hs
        subst hs
        refine inv_of_set ⟨hsh, hloc⟩ hth ?_ ?_ ?_
        · simp [Shared] at hsh
          simp [Local, hpc, Pc.locked, Pc.isClose, Pc.starter, Pc.pthNone, Pc.connNone, Pc.connSome, Pc.usesLoc] at hl
          grind
        · simp [Shared] at hsh
          simp [Local, hpc, Pc.locked, Pc.isClose, Pc.starter, Pc.pthNone, Pc.connNone, Pc.connSome, Pc.usesLoc] at hl ⊢
          grind
        · intro i thi hne hlt hli
          simp [Shared] at hsh
          simp [Local, hpc, Pc.locked, Pc.isClose, Pc.starter, Pc.pthNone, Pc.connNone, Pc.connSome, Pc.usesLoc] at hl
          simp [Local] at hli ⊢
          grind [pthNone_locked, usesLoc_locked, connNone_cases, starter_not_locked, starter_not_done, connNone_not_done, locked_not_done, connNone_cases']
      case tRun =>
        simp [line, hpc, goto, finish, raise, launch, St.upd, hpend, serverStep] at hs
        subst hs
        refine inv_of_set ⟨hsh, hloc⟩ hth ?_ ?_ ?_
        · simp [Shared] at hsh
          simp [Local, hpc, Pc.locked, Pc.isClose, Pc.starter, Pc.pthNone, Pc.connNone, Pc.connSome, Pc.usesLoc] at hl
          grind
        · simp [Shared] at hsh
          simp [Local, hpc, Pc.locked, Pc.isClose, Pc.starter, Pc.pthNone, Pc.connNone, Pc.connSome, Pc.usesLoc] at hl ⊢
          grind
        · intro i thi hne hlt hli
          simp [Shared] at hsh
          simp [Local, hpc, Pc.locked, Pc.isClose, Pc.starter, Pc.pthNone, Pc.connNone, Pc.connSome, Pc.usesLoc] at hl
          simp [Local] at hli ⊢
          grind [pthNone_locked, usesLoc_locked, connNone_cases, starter_not_locked, starter_not_done, connNone_not_done, locked_not_done, connNone_cases']
      case pExit =>
        simp [line, hpc, goto, finish, raise, launch, St.upd, hpend, serverStep] at hs
        subst hs
        refine inv_of_set ⟨hsh, hloc⟩ hth ?_ ?_ ?_
        · simp [Shared] at hsh
          simp [Local, hpc, Pc.locked, Pc.isClose, Pc.starter, Pc.pthNone, Pc.connNone, Pc.connSome, Pc.usesLoc] at hl
          grind
        · simp [Shared] at hsh
          simp [Local, hpc, Pc.locked, Pc.isClose, Pc.starter, Pc.pthNone, Pc.connNone, Pc.connSome, Pc.usesLoc] at hl
          apply local_next <;> simp_all
        · intro i thi hne hlt hli
          simp [Shared] at hsh
          simp [Local, hpc, Pc.locked, Pc.isClose, Pc.starter, Pc.pthNone, Pc.connNone, Pc.connSome, Pc.usesLoc] at hl
          simp [Local] at hli ⊢
          grind [pthNone_locked, usesLoc_locked, connNone_cases, starter_not_locked, starter_not_done, connNone_not_done, locked_not_done, connNone_cases']
      case tClear =>
        simp [line, hpc, goto, finish, raise, launch, St.upd, hpend, serverStep] at hs
        subst hs
        refine inv_of_set ⟨hsh, hloc⟩ hth ?_ ?_ ?_
        · simp [Shared] at hsh
          simp [Local, hpc, Pc.locked, Pc.isClose, Pc.starter, Pc.pthNone, Pc.connNone, Pc.connSome, Pc.usesLoc] at hl
          grind
        · simp [Shared] at hsh
          simp [Local, hpc, Pc.locked, Pc.isClose, Pc.starter, Pc.pthNone, Pc.connNone, Pc.connSome, Pc.usesLoc] at hl
          apply local_next <;> simp_all
        · intro i thi hne hlt hli
          simp [Shared] at hsh
          simp [Local, hpc, Pc.locked, Pc.isClose, Pc.starter, Pc.pthNone, Pc.connNone, Pc.connSome, Pc.usesLoc] at hl
          simp [Local] at hli ⊢
          grind [pthNone_locked, usesLoc_locked, connNone_cases, starter_not_locked, starter_not_done, connNone_not_done, locked_not_done, connNone_cases']
      case cRet =>
        simp [line, hpc, goto, finish, raise, launch, St.upd, hpend, serverStep] at hs
        subst hs
        refine inv_of_set ⟨hsh, hloc⟩ hth ?_ ?_ ?_
        · simp [Shared] at hsh
          simp [Local, hpc, Pc.locked, Pc.isClose, Pc.starter, Pc.pthNone, Pc.connNone, Pc.connSome, Pc.usesLoc] at hl
          grind
        · simp [Shared] at hsh
          simp [Local, hpc, Pc.locked, Pc.isClose, Pc.starter, Pc.pthNone, Pc.connNone, Pc.connSome, Pc.usesLoc] at hl
          apply local_next <;> simp_all
        · intro i thi hne hlt hli
          simp [Shared] at hsh
          simp [Local, hpc, Pc.locked, Pc.isClose, Pc.starter, Pc.pthNone, Pc.connNone, Pc.connSome, Pc.usesLoc] at hl
          simp [Local] at hli ⊢
          grind [pthNone_locked, usesLoc_locked, connNone_cases, starter_not_locked, starter_not_done, connNone_not_done, locked_not_done, connNone_cases']
      case clTry =>
        simp [Local, hpc, Pc.locked, Pc.isClose, Pc.starter, Pc.pthNone, Pc.connNone, Pc.connSome, Pc.usesLoc, hrun] at hl
      case clConn =>
        simp [Local, hpc, Pc.locked, Pc.isClose, Pc.starter, Pc.pthNone, Pc.connNone, Pc.connSome, Pc.usesLoc, hrun] at hl
      case clExcept =>
        simp [Local, hpc, Pc.locked, Pc.isClose, Pc.starter, Pc.pthNone, Pc.connNone, Pc.connSome, Pc.usesLoc, hrun] at hl
      case clPass =>
        simp [Local, hpc, Pc.locked, Pc.isClose, Pc.starter, Pc.pthNone, Pc.connNone, Pc.connSome, Pc.usesLoc, hrun] at hl
      case clSend =>
        simp [Local, hpc, Pc.locked, Pc.isClose, Pc.starter, Pc.pthNone, Pc.connNone, Pc.connSome, Pc.usesLoc, hrun] at hl
      case clClose =>
        simp [Local, hpc, Pc.locked, Pc.isClose, Pc.starter, Pc.pthNone, Pc.connNone, Pc.connSome, Pc.usesLoc, hrun] at hl
      case clDel =>
        simp [Local, hpc, Pc.locked, Pc.isClose, Pc.starter, Pc.pthNone, Pc.connNone, Pc.connSome, Pc.usesLoc, hrun] at hl
      case done =>
        simp [Local, hpc, Pc.locked, Pc.isClose, Pc.starter, Pc.pthNone, Pc.connNone, Pc.connSome, Pc.usesLoc, hrun] at hl
      case pStart =>
        have hp : s.pthread = some s.threads.length := by
          simp [Local, hpc, Pc.locked, Pc.isClose, Pc.starter, Pc.pthNone, Pc.connNone, Pc.connSome, Pc.usesLoc] at hl; grind
        simp [line, hpc, goto, finish, raise, launch, St.upd, hpend, serverStep] at hs
        simp [hp] at hs
        subst hs
        refine inv_of_app ⟨hsh, hloc⟩ hth ?_ ?_ ?_ ?_
        · simp [Shared] at hsh
          simp [Local, hpc, Pc.locked, Pc.isClose, Pc.starter, Pc.pthNone, Pc.connNone, Pc.connSome, Pc.usesLoc] at hl
          grind
        · simp [Shared] at hsh
          simp [Local, hpc, Pc.locked, Pc.isClose, Pc.starter, Pc.pthNone, Pc.connNone, Pc.connSome, Pc.usesLoc] at hl ⊢
          grind
        · simp [Shared] at hsh
          simp [Local, hpc, Pc.locked, Pc.isClose, Pc.starter, Pc.pthNone, Pc.connNone, Pc.connSome, Pc.usesLoc] at hl
          simp [Local, starterThr, Pc.locked, Pc.isClose, Pc.starter, Pc.pthNone, Pc.connNone, Pc.connSome, Pc.usesLoc]
          grind
        · intro i thi hne hlt hli
          simp [Shared] at hsh
          simp [Local, hpc, Pc.locked, Pc.isClose, Pc.starter, Pc.pthNone, Pc.connNone, Pc.connSome, Pc.usesLoc] at hl
          simp [Local] at hli ⊢
          cases hpi : thi.pc <;> simp [hpi, Pc.locked, Pc.isClose, Pc.starter, Pc.pthNone, Pc.connNone, Pc.connSome, Pc.usesLoc] at hli ⊢ <;> grind
      case rJoin =>
        simp [line, hpc, goto, finish, raise, launch, St.upd, hpend, serverStep] at hs
        cases hlc : th.loc with
        | none => simp [Local, hpc, Pc.locked, Pc.isClose, Pc.starter, Pc.pthNone, Pc.connNone, Pc.connSome, Pc.usesLoc, hlc] at hl
        | some x =>
          simp [hlc] at hs
          have hx : x < s.threads.length := by
            simp [Local, hpc, Pc.locked, Pc.isClose, Pc.starter, Pc.pthNone, Pc.connNone, Pc.connSome, Pc.usesLoc, hlc] at hl; grind
          cases htx : s.threads[x]? with
          | none => exact absurd hx (by simpa [List.getElem?_eq_none_iff] using htx)
          | some tx =>
            simp [htx] at hs
            obtain ⟨hfin, rfl⟩ := hs
            have hlx := hloc x tx htx
            have hxd : s.pthread ≠ some x := by
              simp [Local] at hlx
              grind [pthNone_locked, usesLoc_locked, connNone_cases, starter_not_locked, starter_not_done, connNone_not_done, locked_not_done, connNone_cases']
            rw [← hlc] at hxd
    
            refine inv_of_set ⟨hsh, hloc⟩ hth ?_ ?_ ?_
            · simp [Shared] at hsh
              simp [Local, hpc, Pc.locked, Pc.isClose, Pc.starter, Pc.pthNone, Pc.connNone, Pc.connSome, Pc.usesLoc] at hl
              grind
            · simp [Shared] at hsh
              simp [Local, hpc, Pc.locked, Pc.isClose, Pc.starter, Pc.pthNone, Pc.connNone, Pc.connSome, Pc.usesLoc] at hl ⊢
              grind
            · intro i thi hne hlt hli
              simp [Shared] at hsh
              simp [Local, hpc, Pc.locked, Pc.isClose, Pc.starter, Pc.pthNone, Pc.connNone, Pc.connSome, Pc.usesLoc] at hl
              simp [Local] at hli ⊢
              grind [pthNone_locked, usesLoc_locked, connNone_cases, starter_not_locked, starter_not_done, connNone_not_done, locked_not_done, connNone_cases']
      case cSend =>
        simp [line, hpc, goto, finish, raise, launch, St.upd, hpend, serverStep] at hs
        cases hc : s.conn with
        | none => simp [Local, hpc, Pc.locked, Pc.isClose, Pc.starter, Pc.pthNone, Pc.connNone, Pc.connSome, Pc.usesLoc, hc] at hl
        | some c =>
          have hcl : c.closed = false ∧ s.live = true := by simp [Shared] at hsh; grind
          simp [hc, hcl.1, hcl.2] at hs
          subst hs
  
          refine inv_of_set ⟨hsh, hloc⟩ hth ?_ ?_ ?_
          · simp [Shared] at hsh
            simp [Local, hpc, Pc.locked, Pc.isClose, Pc.starter, Pc.pthNone, Pc.connNone, Pc.connSome, Pc.usesLoc] at hl
            grind
          · simp [Shared] at hsh
            simp [Local, hpc, Pc.locked, Pc.isClose, Pc.starter, Pc.pthNone, Pc.connNone, Pc.connSome, Pc.usesLoc] at hl ⊢
            grind
          · intro i thi hne hlt hli
            simp [Shared] at hsh
            simp [Local, hpc, Pc.locked, Pc.isClose, Pc.starter, Pc.pthNone, Pc.connNone, Pc.connSome, Pc.usesLoc] at hl
            simp [Local] at hli ⊢
            grind [pthNone_locked, usesLoc_locked, connNone_cases, starter_not_locked, starter_not_done, connNone_not_done, locked_not_done, connNone_cases']
      case cRecv =>
        simp [line, hpc, goto, finish, raise, launch, St.upd, hpend, serverStep] at hs
        cases hc : s.conn with
        | none => simp [Local, hpc, Pc.locked, Pc.isClose, Pc.starter, Pc.pthNone, Pc.connNone, Pc.connSome, Pc.usesLoc, hc] at hl
        | some c =>
          have hcl : c.closed = false ∧ s.live = true := by simp [Shared] at hsh; grind
          simp [hc, hcl.1, hcl.2] at hs
          obtain ⟨hrep, rfl⟩ := hs
  
          refine inv_of_set ⟨hsh, hloc⟩ hth ?_ ?_ ?_
          · simp [Shared] at hsh
            simp [Local, hpc, Pc.locked, Pc.isClose, Pc.starter, Pc.pthNone, Pc.connNone, Pc.connSome, Pc.usesLoc] at hl
            grind
          · simp [Shared] at hsh
            simp [Local, hpc, Pc.locked, Pc.isClose, Pc.starter, Pc.pthNone, Pc.connNone, Pc.connSome, Pc.usesLoc] at hl ⊢
            grind
          · intro i thi hne hlt hli
            simp [Shared] at hsh
            simp [Local, hpc, Pc.locked, Pc.isClose, Pc.starter, Pc.pthNone, Pc.connNone, Pc.connSome, Pc.usesLoc] at hl
            simp [Local] at hli ⊢
            grind [pthNone_locked, usesLoc_locked, connNone_cases, starter_not_locked, starter_not_done, connNone_not_done, locked_not_done, connNone_cases']
    · simp at hs

theorem inv_init (w : List (List Op)) (hw : noClose w = true) : Inv (init w) := by
  refine ⟨by simp [Shared, init], ?_⟩
  intro i th hi
  simp only [init, List.getElem?_map, Option.map_eq_some_iff] at hi
  obtain ⟨ops, hops, rfl⟩ := hi
  have hmem : ops ∈ w := List.mem_of_getElem? hops
  simp only [noClose, List.all_eq_true] at hw
  have hall := hw ops hmem
  simp only [init, mkThr]
  apply local_next <;> simp_all

theorem inv_exec (sched : List Tid) : ∀ s, Inv s → Inv (exec .current false sched s) := by
  induction sched with
  | nil => intro s h; exact h
  | cons t rest ih =>
    intro s h
    simp only [exec]
    cases hs : step .current false s t with
    | none => simpa using ih s h
    | some s' => simpa using ih s' (inv_step h hs)

theorem inv_reach (w : List (List Op)) (hw : noClose w = true) (sched : List Tid) :
    Inv (exec .current false sched (init w)) :=
  inv_exec sched _ (inv_init w hw)

theorem inv_popen {s : St} (h : Inv s) : s.popen ≤ 1 := by
  have := h.1.1
  split at this <;> omega

theorem inv_no_raise {s : St} (h : Inv s) (i : Tid) (th : Thr) (hi : s.threads[i]? = some th) (e : Exc) :
    th.out ≠ .raised e := by
  have := (h.2 i th hi).1
  rcases this with ⟨_, h2⟩ | ⟨_, h2⟩ <;> simp [h2]

theorem inv_mutex {s : St} (h : Inv s) (i j : Tid) (thi thj : Thr)
    (hi : s.threads[i]? = some thi) (hj : s.threads[j]? = some thj)
    (hli : thi.pc.locked = true) (hlj : thj.pc.locked = true) : s.lock = some i ∧ i = j := by
  have h1 := (h.2 i thi hi).2.2.1.mpr hli
  have h2 := (h.2 j thj hj).2.2.1.mpr hlj
  rw [h1] at h2
  exact ⟨h1, by simpa using h2⟩

theorem inv_lock_owner {s : St} (h : Inv s) (o : Tid) (ho : s.lock = some o) :
    ∃ th, s.threads[o]? = some th ∧ th.pc.locked = true := by
  have hlt := h.1.2.2.1 o ho
  refine ⟨s.threads[o], by simp [hlt], ?_⟩
  exact (h.2 o s.threads[o] (by simp [hlt])).2.2.1.mp ho

end SuppModel.Startup
