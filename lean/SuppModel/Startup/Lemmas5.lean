/-
  Startup, proofs V: every line of every thread preserves the second invariant `Inv2`
  (generated from one template, like Lemmas2), and `Inv2` holds initially.
-/
import SuppModel.Startup.Lemmas4
namespace SuppModel.Startup
set_option linter.unusedSimpArgs false
set_option linter.unusedVariables false
set_option maxHeartbeats 400000

theorem inv2_step {w : List (List Op)} {s s' : St} {t : Tid} (h : Inv s) (h2 : Inv2 w s)
    (hs : step .current false s t = some s') : Inv2 w s' := by
  obtain ⟨hsh, hloc⟩ := h
  have hE := h2.1
  have hP := h2.2.1
  have hC := h2.2.2.1
  unfold step at hs
  cases hth : s.threads[t]? with
  | none => simp [hth] at hs
  | some th =>
    simp only [hth] at hs
    split at hs
    · rename_i hrun
      have hl := hloc t th hth
      have hl2 := h2.2.2.2 t th hth
      have htlt : t < s.threads.length := getElem?_lt hth
      have hpend : th.pend = none := hl.2.1
      cases hpc : th.pc
      case pRet1 =>
        simp [line, hpc, goto, finish, raise, launch, St.upd, hpend, serverStep] at hs
        subst hs
        refine inv2_of_set h2 hth ?_ ?_ ?_ ?_
        · intro x hx
          first
            | exact hP x hx
            | (simp at hx; done)
            | (simp at hx; subst hx; exact hE)
            | (simp at hx; subst hx; exact hP _ (by assumption))
        · first
            | (simp [atRecv, hpc]; done)
            | (simp [atRecv, hpc, unread]; done)
            | (simp [atRecv, hpc, unread]; omega)
            | (simp_all [atRecv, unread]; done)
            | (simp_all [atRecv, unread]; omega)
            | (simp [Local, hpc, Pc.locked, Pc.isClose, Pc.starter, Pc.pthNone, Pc.connNone, Pc.connSome, Pc.usesLoc] at hl; simp [atRecv, hpc, unread, hl]; done)
        · simp [Local2, hpc, Pc.starter, Pc.usesLoc, Pc.inCall] at hl2 ⊢
          grind
        · first | exact fun h => h | (simp; done) | (simp_all; done)
      case pRet2 =>
        simp [line, hpc, goto, finish, raise, launch, St.upd, hpend, serverStep] at hs
        subst hs
        refine inv2_of_set h2 hth ?_ ?_ ?_ ?_
        · intro x hx
          first
            | exact hP x hx
            | (simp at hx; done)
            | (simp at hx; subst hx; exact hE)
            | (simp at hx; subst hx; exact hP _ (by assumption))
        · first
            | (simp [atRecv, hpc]; done)
            | (simp [atRecv, hpc, unread]; done)
            | (simp [atRecv, hpc, unread]; omega)
            | (simp_all [atRecv, unread]; done)
            | (simp_all [atRecv, unread]; omega)
            | (simp [Local, hpc, Pc.locked, Pc.isClose, Pc.starter, Pc.pthNone, Pc.connNone, Pc.connSome, Pc.usesLoc] at hl; simp [atRecv, hpc, unread, hl]; done)
        · simp [Local2, hpc, Pc.starter, Pc.usesLoc, Pc.inCall] at hl2 ⊢
          grind
        · first | exact fun h => h | (simp; done) | (simp_all; done)
      case tTry =>
        simp [line, hpc, goto, finish, raise, launch, St.upd, hpend, serverStep] at hs
        subst hs
        refine inv2_of_set h2 hth ?_ ?_ ?_ ?_
        · intro x hx
          first
            | exact hP x hx
            | (simp at hx; done)
            | (simp at hx; subst hx; exact hE)
            | (simp at hx; subst hx; exact hP _ (by assumption))
        · first
            | (simp [atRecv, hpc]; done)
            | (simp [atRecv, hpc, unread]; done)
            | (simp [atRecv, hpc, unread]; omega)
            | (simp_all [atRecv, unread]; done)
            | (simp_all [atRecv, unread]; omega)
            | (simp [Local, hpc, Pc.locked, Pc.isClose, Pc.starter, Pc.pthNone, Pc.connNone, Pc.connSome, Pc.usesLoc] at hl; simp [atRecv, hpc, unread, hl]; done)
        · simp [Local2, hpc, Pc.starter, Pc.usesLoc, Pc.inCall] at hl2 ⊢
          grind
        · first | exact fun h => h | (simp; done) | (simp_all; done)
      case cTry =>
        simp [line, hpc, goto, finish, raise, launch, St.upd, hpend, serverStep] at hs
        subst hs
        refine inv2_of_set h2 hth ?_ ?_ ?_ ?_
        · intro x hx
          first
            | exact hP x hx
            | (simp at hx; done)
            | (simp at hx; subst hx; exact hE)
            | (simp at hx; subst hx; exact hP _ (by assumption))
        · first
            | (simp [atRecv, hpc]; done)
            | (simp [atRecv, hpc, unread]; done)
            | (simp [atRecv, hpc, unread]; omega)
            | (simp_all [atRecv, unread]; done)
            | (simp_all [atRecv, unread]; omega)
            | (simp [Local, hpc, Pc.locked, Pc.isClose, Pc.starter, Pc.pthNone, Pc.connNone, Pc.connSome, Pc.usesLoc] at hl; simp [atRecv, hpc, unread, hl]; done)
        · simp [Local2, hpc, Pc.starter, Pc.usesLoc, Pc.inCall] at hl2 ⊢
          grind
        · first | exact fun h => h | (simp; done) | (simp_all; done)
      case cExcept =>
        simp [line, hpc, goto, finish, raise, launch, St.upd, hpend, serverStep] at hs
        subst hs
        refine inv2_of_set h2 hth ?_ ?_ ?_ ?_
        · intro x hx
          first
            | exact hP x hx
            | (simp at hx; done)
            | (simp at hx; subst hx; exact hE)
            | (simp at hx; subst hx; exact hP _ (by assumption))
        · first
            | (simp [atRecv, hpc]; done)
            | (simp [atRecv, hpc, unread]; done)
            | (simp [atRecv, hpc, unread]; omega)
            | (simp_all [atRecv, unread]; done)
            | (simp_all [atRecv, unread]; omega)
            | (simp [Local, hpc, Pc.locked, Pc.isClose, Pc.starter, Pc.pthNone, Pc.connNone, Pc.connSome, Pc.usesLoc] at hl; simp [atRecv, hpc, unread, hl]; done)
        · simp [Local2, hpc, Pc.starter, Pc.usesLoc, Pc.inCall] at hl2 ⊢
          grind
        · first | exact fun h => h | (simp; done) | (simp_all; done)
      case cRun =>
        simp [line, hpc, goto, finish, raise, launch, St.upd, hpend, serverStep] at hs
        subst hs
        refine inv2_of_set h2 hth ?_ ?_ ?_ ?_
        · intro x hx
          first
            | exact hP x hx
            | (simp at hx; done)
            | (simp at hx; subst hx; exact hE)
            | (simp at hx; subst hx; exact hP _ (by assumption))
        · first
            | (simp [atRecv, hpc]; done)
            | (simp [atRecv, hpc, unread]; done)
            | (simp [atRecv, hpc, unread]; omega)
            | (simp_all [atRecv, unread]; done)
            | (simp_all [atRecv, unread]; omega)
            | (simp [Local, hpc, Pc.locked, Pc.isClose, Pc.starter, Pc.pthNone, Pc.connNone, Pc.connSome, Pc.usesLoc] at hl; simp [atRecv, hpc, unread, hl]; done)
        · simp [Local2, hpc, Pc.starter, Pc.usesLoc, Pc.inCall] at hl2 ⊢
          grind
        · first | exact fun h => h | (simp; done) | (simp_all; done)
      case cIf =>
        simp [line, hpc, goto, finish, raise, launch, St.upd, hpend, serverStep] at hs
        subst hs
        refine inv2_of_set h2 hth ?_ ?_ ?_ ?_
        · intro x hx
          first
            | exact hP x hx
            | (simp at hx; done)
            | (simp at hx; subst hx; exact hE)
            | (simp at hx; subst hx; exact hP _ (by assumption))
        · first
            | (simp [atRecv, hpc]; done)
            | (simp [atRecv, hpc, unread]; done)
            | (simp [atRecv, hpc, unread]; omega)
            | (simp_all [atRecv, unread]; done)
            | (simp_all [atRecv, unread]; omega)
            | (simp [Local, hpc, Pc.locked, Pc.isClose, Pc.starter, Pc.pthNone, Pc.connNone, Pc.connSome, Pc.usesLoc] at hl; simp [atRecv, hpc, unread, hl]; done)
        · simp [Local2, hpc, Pc.starter, Pc.usesLoc, Pc.inCall] at hl2 ⊢
          grind
        · first | exact fun h => h | (simp; done) | (simp_all; done)
      case rRead =>
        simp [line, hpc, goto, finish, raise, launch, St.upd, hpend, serverStep] at hs
        subst hs
        refine inv2_of_set h2 hth ?_ ?_ ?_ ?_
        · intro x hx
          first
            | exact hP x hx
            | (simp at hx; done)
            | (simp at hx; subst hx; exact hE)
            | (simp at hx; subst hx; exact hP _ (by assumption))
        · first
            | (simp [atRecv, hpc]; done)
            | (simp [atRecv, hpc, unread]; done)
            | (simp [atRecv, hpc, unread]; omega)
            | (simp_all [atRecv, unread]; done)
            | (simp_all [atRecv, unread]; omega)
            | (simp [Local, hpc, Pc.locked, Pc.isClose, Pc.starter, Pc.pthNone, Pc.connNone, Pc.connSome, Pc.usesLoc] at hl; simp [atRecv, hpc, unread, hl]; done)
        · simp [Local2, hpc, Pc.starter, Pc.usesLoc, Pc.inCall] at hl2 ⊢
          grind
        · first | exact fun h => h | (simp; done) | (simp_all; done)
      case pMk =>
        simp [line, hpc, goto, finish, raise, launch, St.upd, hpend, serverStep] at hs
        subst hs
        refine inv2_of_set h2 hth ?_ ?_ ?_ ?_
        · intro x hx
          first
            | exact hP x hx
            | (simp at hx; done)
            | (simp at hx; subst hx; exact hE)
            | (simp at hx; subst hx; exact hP _ (by assumption))
        · first
            | (simp [atRecv, hpc]; done)
            | (simp [atRecv, hpc, unread]; done)
            | (simp [atRecv, hpc, unread]; omega)
            | (simp_all [atRecv, unread]; done)
            | (simp_all [atRecv, unread]; omega)
            | (simp [Local, hpc, Pc.locked, Pc.isClose, Pc.starter, Pc.pthNone, Pc.connNone, Pc.connSome, Pc.usesLoc] at hl; simp [atRecv, hpc, unread, hl]; done)
        · simp [Local2, hpc, Pc.starter, Pc.usesLoc, Pc.inCall] at hl2 ⊢
          grind
        · first | exact fun h => h | (simp; done) | (simp_all; done)
      case rExit =>
        simp [line, hpc, goto, finish, raise, launch, St.upd, hpend, serverStep] at hs
        subst hs
        refine inv2_of_set h2 hth ?_ ?_ ?_ ?_
        · intro x hx
          first
            | exact hP x hx
            | (simp at hx; done)
            | (simp at hx; subst hx; exact hE)
            | (simp at hx; subst hx; exact hP _ (by assumption))
        · first
            | (simp [atRecv, hpc]; done)
            | (simp [atRecv, hpc, unread]; done)
            | (simp [atRecv, hpc, unread]; omega)
            | (simp_all [atRecv, unread]; done)
            | (simp_all [atRecv, unread]; omega)
            | (simp [Local, hpc, Pc.locked, Pc.isClose, Pc.starter, Pc.pthNone, Pc.connNone, Pc.connSome, Pc.usesLoc] at hl; simp [atRecv, hpc, unread, hl]; done)
        · simp [Local2, hpc, Pc.starter, Pc.usesLoc, Pc.inCall] at hl2 ⊢
          grind
        · first | exact fun h => h | (simp; done) | (simp_all; done)
      case rRun =>
        simp [line, hpc, goto, finish, raise, launch, St.upd, hpend, serverStep] at hs
        subst hs
        refine inv2_of_set h2 hth ?_ ?_ ?_ ?_
        · intro x hx
          first
            | exact hP x hx
            | (simp at hx; done)
            | (simp at hx; subst hx; exact hE)
            | (simp at hx; subst hx; exact hP _ (by assumption))
        · first
            | (simp [atRecv, hpc]; done)
            | (simp [atRecv, hpc, unread]; done)
            | (simp [atRecv, hpc, unread]; omega)
            | (simp_all [atRecv, unread]; done)
            | (simp_all [atRecv, unread]; omega)
            | (simp [Local, hpc, Pc.locked, Pc.isClose, Pc.starter, Pc.pthNone, Pc.connNone, Pc.connSome, Pc.usesLoc] at hl; simp [atRecv, hpc, unread, hl]; done)
        · simp [Local2, hpc, Pc.starter, Pc.usesLoc, Pc.inCall] at hl2 ⊢
          grind
        · first | exact fun h => h | (simp; done) | (simp_all; done)
      case tRun =>
        simp [line, hpc, goto, finish, raise, launch, St.upd, hpend, serverStep] at hs
        subst hs
        refine inv2_of_set h2 hth ?_ ?_ ?_ ?_
        · intro x hx
          first
            | exact hP x hx
            | (simp at hx; done)
            | (simp at hx; subst hx; exact hE)
            | (simp at hx; subst hx; exact hP _ (by assumption))
        · first
            | (simp [atRecv, hpc]; done)
            | (simp [atRecv, hpc, unread]; done)
            | (simp [atRecv, hpc, unread]; omega)
            | (simp_all [atRecv, unread]; done)
            | (simp_all [atRecv, unread]; omega)
            | (simp [Local, hpc, Pc.locked, Pc.isClose, Pc.starter, Pc.pthNone, Pc.connNone, Pc.connSome, Pc.usesLoc] at hl; simp [atRecv, hpc, unread, hl]; done)
        · simp [Local2, hpc, Pc.starter, Pc.usesLoc, Pc.inCall] at hl2 ⊢
          grind
        · first | exact fun h => h | (simp; done) | (simp_all; done)
      case pIfThread =>
        simp [line, hpc, goto, finish, raise, launch, St.upd, hpend, serverStep] at hs
        cases hc : s.pthread <;> simp [hc] at hs <;> subst hs <;> (
          refine inv2_of_set h2 hth ?_ ?_ ?_ ?_
          · intro x hx
            first
              | exact hP x hx
              | (simp at hx; done)
              | (simp at hx; subst hx; exact hE)
              | (simp at hx; subst hx; exact hP _ (by assumption))
          · first
              | (simp [atRecv, hpc]; done)
              | (simp [atRecv, hpc, unread]; done)
              | (simp [atRecv, hpc, unread]; omega)
              | (simp_all [atRecv, unread]; done)
              | (simp_all [atRecv, unread]; omega)
              | (simp [Local, hpc, Pc.locked, Pc.isClose, Pc.starter, Pc.pthNone, Pc.connNone, Pc.connSome, Pc.usesLoc] at hl; simp [atRecv, hpc, unread, hl]; done)
          · simp [Local2, hpc, Pc.starter, Pc.usesLoc, Pc.inCall] at hl2 ⊢
            grind
          · first | exact fun h => h | (simp; done) | (simp_all; done))
      case pIfConn =>
        simp [line, hpc, goto, finish, raise, launch, St.upd, hpend, serverStep] at hs
        cases hc : s.conn <;> simp [hc] at hs <;> subst hs <;> (
          refine inv2_of_set h2 hth ?_ ?_ ?_ ?_
          · intro x hx
            first
              | exact hP x hx
              | (simp at hx; done)
              | (simp at hx; subst hx; exact hE)
              | (simp at hx; subst hx; exact hP _ (by assumption))
          · first
              | (simp [atRecv, hpc]; done)
              | (simp [atRecv, hpc, unread]; done)
              | (simp [atRecv, hpc, unread]; omega)
              | (simp_all [atRecv, unread]; done)
              | (simp_all [atRecv, unread]; omega)
              | (simp [Local, hpc, Pc.locked, Pc.isClose, Pc.starter, Pc.pthNone, Pc.connNone, Pc.connSome, Pc.usesLoc] at hl; simp [atRecv, hpc, unread, hl]; done)
          · simp [Local2, hpc, Pc.starter, Pc.usesLoc, Pc.inCall] at hl2 ⊢
            grind
          · first | exact fun h => h | (simp; done) | (simp_all; done))
      case rIfConn =>
        simp [line, hpc, goto, finish, raise, launch, St.upd, hpend, serverStep] at hs
        cases hc : s.conn <;> simp [hc] at hs <;> subst hs <;> (
          refine inv2_of_set h2 hth ?_ ?_ ?_ ?_
          · intro x hx
            first
              | exact hP x hx
              | (simp at hx; done)
              | (simp at hx; subst hx; exact hE)
              | (simp at hx; subst hx; exact hP _ (by assumption))
          · first
              | (simp [atRecv, hpc]; done)
              | (simp [atRecv, hpc, unread]; done)
              | (simp [atRecv, hpc, unread]; omega)
              | (simp_all [atRecv, unread]; done)
              | (simp_all [atRecv, unread]; omega)
              | (simp [Local, hpc, Pc.locked, Pc.isClose, Pc.starter, Pc.pthNone, Pc.connNone, Pc.connSome, Pc.usesLoc] at hl; simp [atRecv, hpc, unread, hl]; done)
          · simp [Local2, hpc, Pc.starter, Pc.usesLoc, Pc.inCall] at hl2 ⊢
            grind
          · first | exact fun h => h | (simp; done) | (simp_all; done))
      case cConn =>
        simp [line, hpc, goto, finish, raise, launch, St.upd, hpend, serverStep] at hs
        cases hc : s.conn <;> simp [hc] at hs <;> subst hs <;> (
          refine inv2_of_set h2 hth ?_ ?_ ?_ ?_
          · intro x hx
            first
              | exact hP x hx
              | (simp at hx; done)
              | (simp at hx; subst hx; exact hE)
              | (simp at hx; subst hx; exact hP _ (by assumption))
          · first
              | (simp [atRecv, hpc]; done)
              | (simp [atRecv, hpc, unread]; done)
              | (simp [atRecv, hpc, unread]; omega)
              | (simp_all [atRecv, unread]; done)
              | (simp_all [atRecv, unread]; omega)
              | (simp [Local, hpc, Pc.locked, Pc.isClose, Pc.starter, Pc.pthNone, Pc.connNone, Pc.connSome, Pc.usesLoc] at hl; simp [atRecv, hpc, unread, hl]; done)
          · simp [Local2, hpc, Pc.starter, Pc.usesLoc, Pc.inCall] at hl2 ⊢
            grind
          · first | exact fun h => h | (simp; done) | (simp_all; done))
      case rIf =>
        simp [line, hpc, goto, finish, raise, launch, St.upd, hpend, serverStep] at hs
        cases hc : th.loc <;> simp [hc] at hs <;> subst hs <;> (
          refine inv2_of_set h2 hth ?_ ?_ ?_ ?_
          · intro x hx
            first
              | exact hP x hx
              | (simp at hx; done)
              | (simp at hx; subst hx; exact hE)
              | (simp at hx; subst hx; exact hP _ (by assumption))
          · first
              | (simp [atRecv, hpc]; done)
              | (simp [atRecv, hpc, unread]; done)
              | (simp [atRecv, hpc, unread]; omega)
              | (simp_all [atRecv, unread]; done)
              | (simp_all [atRecv, unread]; omega)
              | (simp [Local, hpc, Pc.locked, Pc.isClose, Pc.starter, Pc.pthNone, Pc.connNone, Pc.connSome, Pc.usesLoc] at hl; simp [atRecv, hpc, unread, hl]; done)
          · simp [Local2, hpc, Pc.starter, Pc.usesLoc, Pc.inCall] at hl2 ⊢
            grind
          · first | exact fun h => h | (simp; done) | (simp_all; done))
      case pWith =>
        simp [line, hpc, goto, finish, raise, launch, St.upd, hpend, serverStep] at hs
        obtain ⟨hlk, rfl⟩ := hs
        refine inv2_of_set h2 hth ?_ ?_ ?_ ?_
        · intro x hx
          first
            | exact hP x hx
            | (simp at hx; done)
            | (simp at hx; subst hx; exact hE)
            | (simp at hx; subst hx; exact hP _ (by assumption))
        · first
            | (simp [atRecv, hpc]; done)
            | (simp [atRecv, hpc, unread]; done)
            | (simp [atRecv, hpc, unread]; omega)
            | (simp_all [atRecv, unread]; done)
            | (simp_all [atRecv, unread]; omega)
            | (simp [Local, hpc, Pc.locked, Pc.isClose, Pc.starter, Pc.pthNone, Pc.connNone, Pc.connSome, Pc.usesLoc] at hl; simp [atRecv, hpc, unread, hl]; done)
        · simp [Local2, hpc, Pc.starter, Pc.usesLoc, Pc.inCall] at hl2 ⊢
          grind
        · first | exact fun h => h | (simp; done) | (simp_all; done)
      case rWith =>
        simp [line, hpc, goto, finish, raise, launch, St.upd, hpend, serverStep] at hs
        obtain ⟨hlk, rfl⟩ := hs
        refine inv2_of_set h2 hth ?_ ?_ ?_ ?_
        · intro x hx
          first
            | exact hP x hx
            | (simp at hx; done)
            | (simp at hx; subst hx; exact hE)
            | (simp at hx; subst hx; exact hP _ (by assumption))
        · first
            | (simp [atRecv, hpc]; done)
            | (simp [atRecv, hpc, unread]; done)
            | (simp [atRecv, hpc, unread]; omega)
            | (simp_all [atRecv, unread]; done)
            | (simp_all [atRecv, unread]; omega)
            | (simp [Local, hpc, Pc.locked, Pc.isClose, Pc.starter, Pc.pthNone, Pc.connNone, Pc.connSome, Pc.usesLoc] at hl; simp [atRecv, hpc, unread, hl]; done)
        · simp [Local2, hpc, Pc.starter, Pc.usesLoc, Pc.inCall] at hl2 ⊢
          grind
        · first | exact fun h => h | (simp; done) | (simp_all; done)
      case pExit =>
        simp [line, hpc, goto, finish, raise, launch, St.upd, hpend, serverStep] at hs
        subst hs
        refine inv2_of_set h2 hth ?_ ?_ ?_ ?_
        · intro x hx
          first
            | exact hP x hx
            | (simp at hx; done)
            | (simp at hx; subst hx; exact hE)
            | (simp at hx; subst hx; exact hP _ (by assumption))
        · first
            | (simp [atRecv, hpc]; done)
            | (simp [atRecv, hpc, unread]; done)
            | (simp [atRecv, hpc, unread]; omega)
            | (simp_all [atRecv, unread]; done)
            | (simp_all [atRecv, unread]; omega)
            | (simp [Local, hpc, Pc.locked, Pc.isClose, Pc.starter, Pc.pthNone, Pc.connNone, Pc.connSome, Pc.usesLoc] at hl; simp [atRecv, hpc, unread, hl]; done)
        · simp [Local2, hpc, Pc.starter, Pc.usesLoc, Pc.inCall] at hl2
          apply local2_next <;> grind
        · first | exact fun h => h | (simp; done) | (simp_all; done)
      case tClear =>
        simp [line, hpc, goto, finish, raise, launch, St.upd, hpend, serverStep] at hs
        subst hs
        refine inv2_of_set h2 hth ?_ ?_ ?_ ?_
        · intro x hx
          first
            | exact hP x hx
            | (simp at hx; done)
            | (simp at hx; subst hx; exact hE)
            | (simp at hx; subst hx; exact hP _ (by assumption))
        · first
            | (simp [atRecv, hpc]; done)
            | (simp [atRecv, hpc, unread]; done)
            | (simp [atRecv, hpc, unread]; omega)
            | (simp_all [atRecv, unread]; done)
            | (simp_all [atRecv, unread]; omega)
            | (simp [Local, hpc, Pc.locked, Pc.isClose, Pc.starter, Pc.pthNone, Pc.connNone, Pc.connSome, Pc.usesLoc] at hl; simp [atRecv, hpc, unread, hl]; done)
        · simp [Local2, hpc, Pc.starter, Pc.usesLoc, Pc.inCall] at hl2
          apply local2_next <;> grind
        · first | exact fun h => h | (simp; done) | (simp_all; done)
      case cRet =>
        simp [line, hpc, goto, finish, raise, launch, St.upd, hpend, serverStep] at hs
        subst hs
        refine inv2_of_set h2 hth ?_ ?_ ?_ ?_
        · intro x hx
          first
            | exact hP x hx
            | (simp at hx; done)
            | (simp at hx; subst hx; exact hE)
            | (simp at hx; subst hx; exact hP _ (by assumption))
        · first
            | (simp [atRecv, hpc]; done)
            | (simp [atRecv, hpc, unread]; done)
            | (simp [atRecv, hpc, unread]; omega)
            | (simp_all [atRecv, unread]; done)
            | (simp_all [atRecv, unread]; omega)
            | (simp [Local, hpc, Pc.locked, Pc.isClose, Pc.starter, Pc.pthNone, Pc.connNone, Pc.connSome, Pc.usesLoc] at hl; simp [atRecv, hpc, unread, hl]; done)
        · simp [Local2, hpc, Pc.starter, Pc.usesLoc, Pc.inCall] at hl2
          apply local2_next <;> grind
        · first | exact fun h => h | (simp; done) | (simp_all; done)
      case clTry =>
        simp [Local, hpc, Pc.locked, Pc.isClose, Pc.starter, Pc.pthNone, Pc.connNone, Pc.connSome, Pc.usesLoc, hrun] at hl
      case clConn =>
        simp [Local, hpc, Pc.locked, Pc.isClose, Pc.starter, Pc.pthNone, Pc.connNone, Pc.connSome, Pc.usesLoc, hrun] at hl
      case clExcept =>
        simp [Local, hpc, Pc.locked, Pc.isClose, Pc.starter, Pc.pthNone, Pc.connNone, Pc.connSome, Pc.usesLoc, hrun] at hl
      case clPass =>
        simp [Local, hpc, Pc.locked, Pc.isClose, Pc.starter, Pc.pthNone, Pc.connNone, Pc.connSome, Pc.usesLoc, hrun] at hl
      case clSend =>
        simp [Local, hpc, Pc.locked, Pc.isClose, Pc.starter, Pc.pthNone, Pc.connNone, Pc.connSome, Pc.usesLoc, hrun] at hl
      case clClose =>
        simp [Local, hpc, Pc.locked, Pc.isClose, Pc.starter, Pc.pthNone, Pc.connNone, Pc.connSome, Pc.usesLoc, hrun] at hl
      case clDel =>
        simp [Local, hpc, Pc.locked, Pc.isClose, Pc.starter, Pc.pthNone, Pc.connNone, Pc.connSome, Pc.usesLoc, hrun] at hl
      case done =>
        simp [Local, hpc, Pc.locked, Pc.isClose, Pc.starter, Pc.pthNone, Pc.connNone, Pc.connSome, Pc.usesLoc, hrun] at hl
      case pStart =>
        have hp : s.pthread = some s.threads.length := by
          simp [Local, hpc, Pc.locked, Pc.isClose, Pc.starter, Pc.pthNone, Pc.connNone, Pc.connSome, Pc.usesLoc] at hl; grind
        simp [line, hpc, goto, finish, raise, launch, St.upd, hpend, serverStep] at hs
        simp [hp] at hs
        subst hs
        refine inv2_of_app h2 hth ?_ ?_ ?_ ?_
        · intro x hx
          first
            | exact hP x hx
            | (simp at hx; done)
            | (simp at hx; subst hx; exact hE)
            | (simp at hx; subst hx; exact hP _ (by assumption))
        · first
            | (simp [atRecv, hpc]; done)
            | (simp [atRecv, hpc, unread]; done)
            | (simp [atRecv, hpc, unread]; omega)
            | (simp_all [atRecv, unread]; done)
            | (simp_all [atRecv, unread]; omega)
            | (simp [Local, hpc, Pc.locked, Pc.isClose, Pc.starter, Pc.pthNone, Pc.connNone, Pc.connSome, Pc.usesLoc] at hl; simp [atRecv, hpc, unread, hl]; done)
        · simp [Local2, hpc, Pc.starter, Pc.usesLoc, Pc.inCall] at hl2 ⊢
          grind
        · first | exact fun h => h | (simp; done) | (simp_all; done)
      case rJoin =>
        simp [line, hpc, goto, finish, raise, launch, St.upd, hpend, serverStep] at hs
        cases hlc : th.loc with
        | none => simp [Local, hpc, Pc.locked, Pc.isClose, Pc.starter, Pc.pthNone, Pc.connNone, Pc.connSome, Pc.usesLoc, hlc] at hl
        | some x =>
          simp [hlc] at hs
          have hx : x < s.threads.length := by
            simp [Local, hpc, Pc.locked, Pc.isClose, Pc.starter, Pc.pthNone, Pc.connNone, Pc.connSome, Pc.usesLoc, hlc] at hl; grind
          cases htx : s.threads[x]? with
          | none => exact absurd hx (by simpa [List.getElem?_eq_none_iff] using htx)
          | some tx =>
            simp [htx] at hs
            obtain ⟨hfin, rfl⟩ := hs
            refine inv2_of_set h2 hth ?_ ?_ ?_ ?_
            · intro x hx
              first
                | exact hP x hx
                | (simp at hx; done)
                | (simp at hx; subst hx; exact hE)
                | (simp at hx; subst hx; exact hP _ (by assumption))
            · first
                | (simp [atRecv, hpc]; done)
                | (simp [atRecv, hpc, unread]; done)
                | (simp [atRecv, hpc, unread]; omega)
                | (simp_all [atRecv, unread]; done)
                | (simp_all [atRecv, unread]; omega)
                | (simp [Local, hpc, Pc.locked, Pc.isClose, Pc.starter, Pc.pthNone, Pc.connNone, Pc.connSome, Pc.usesLoc] at hl; simp [atRecv, hpc, unread, hl]; done)
            · simp [Local2, hpc, Pc.starter, Pc.usesLoc, Pc.inCall] at hl2 ⊢
              grind
            · first | exact fun h => h | (simp; done) | (simp_all; done)
      case cSend =>
        simp [line, hpc, goto, finish, raise, launch, St.upd, hpend, serverStep] at hs
        cases hc : s.conn with
        | none => simp [Local, hpc, Pc.locked, Pc.isClose, Pc.starter, Pc.pthNone, Pc.connNone, Pc.connSome, Pc.usesLoc, hc] at hl
        | some c =>
          have hcl : c.closed = false ∧ s.live = true := by simp [Shared] at hsh; grind
          simp [hc, hcl.1, hcl.2] at hs
          subst hs
          simp only [hc] at hl2 hC
          refine inv2_of_set h2 hth ?_ ?_ ?_ ?_
          · intro x hx
            first
              | exact hP x hx
              | (simp at hx; done)
              | (simp at hx; subst hx; exact hE)
              | (simp at hx; subst hx; exact hP _ (by assumption))
          · first
              | (simp [atRecv, hpc]; done)
              | (simp [atRecv, hpc, unread]; done)
              | (simp [atRecv, hpc, unread]; omega)
              | (simp_all [atRecv, unread]; done)
              | (simp_all [atRecv, unread]; omega)
              | (simp [Local, hpc, Pc.locked, Pc.isClose, Pc.starter, Pc.pthNone, Pc.connNone, Pc.connSome, Pc.usesLoc] at hl; simp [atRecv, hpc, unread, hl]; done)
          · simp [Local2, hpc, Pc.starter, Pc.usesLoc, Pc.inCall] at hl2 ⊢
            grind
          · first | exact fun h => h | (simp; done) | (simp_all; done)
      case cRecv =>
        simp [line, hpc, goto, finish, raise, launch, St.upd, hpend, serverStep] at hs
        cases hc : s.conn with
        | none => simp [Local, hpc, Pc.locked, Pc.isClose, Pc.starter, Pc.pthNone, Pc.connNone, Pc.connSome, Pc.usesLoc, hc] at hl
        | some c =>
          have hcl : c.closed = false ∧ s.live = true := by simp [Shared] at hsh; grind
          simp [hc, hcl.1, hcl.2] at hs
          obtain ⟨hrep, rfl⟩ := hs
          simp only [hc] at hl2 hC
          refine inv2_of_set h2 hth ?_ ?_ ?_ ?_
          · intro x hx
            first
              | exact hP x hx
              | (simp at hx; done)
              | (simp at hx; subst hx; exact hE)
              | (simp at hx; subst hx; exact hP _ (by assumption))
          · first
              | (simp [atRecv, hpc]; done)
              | (simp [atRecv, hpc, unread]; done)
              | (simp [atRecv, hpc, unread]; omega)
              | (simp_all [atRecv, unread]; done)
              | (simp_all [atRecv, unread]; omega)
              | (simp [Local, hpc, Pc.locked, Pc.isClose, Pc.starter, Pc.pthNone, Pc.connNone, Pc.connSome, Pc.usesLoc] at hl; simp [atRecv, hpc, unread, hl]; done)
          · simp [Local2, hpc, Pc.starter, Pc.usesLoc, Pc.inCall] at hl2 ⊢
            grind
          · first | exact fun h => h | (simp; done) | (simp_all; done)
    · simp at hs
end SuppModel.Startup
