/-
  Helper lemmas for property C16 (start-up protocol).  Layout:
    Lemmas1  the inductive invariant `Inv` (thread-local facts + shared facts) and the frame rules
    Lemmas2  `inv_step`: every line of every thread preserves `Inv`; consequences on reachable states
    Lemmas3  ranking function (every schedule terminates), sequential close / restart, server loop
-/
import SuppModel.Startup.Lemmas3
