/-
  Helper lemmas for property C16 (start-up protocol).  Layout:
    Lemmas1  the inductive invariant `Inv` (thread-local facts + shared facts) and the frame rules
    Lemmas2  `inv_step`: every line of every thread preserves `Inv`; consequences on reachable states
    Lemmas3  ranking function (every schedule terminates), sequential close / restart, server loop
    Lemmas4  second invariant `Inv2` (starters are the threads beyond the workload, threads waiting at
             `cRecv` = unread replies, bookkeeping of answered calls) and its frame rules
    Lemmas5  `inv2_step`: every line preserves `Inv2`
    Lemmas6  `no_deadlock`, `exactly_one`
-/
import SuppModel.Startup.Lemmas6
