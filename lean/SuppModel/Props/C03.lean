/- C03 — no phantom definitions; "possibly undefined" exact; never-bound names flagged.
   Statements only; proofs in Den/Lemmas*.lean (`real`: every syntactic path of the fragment is an execution;
   `exec_good`: every execution is covered by the closed form of supp's tables). -/
import SuppModel.Den.Lemmas4
namespace SuppModel.Props.C03
open SuppModel.Den

/-- origin: every alternative supp lists at `r` is either produced by a binding event of `s` that lies on a syntactic
    path to `r` (`genAt`) or inherited from the entry table along a path that does not rebind `x` -/
theorem C03_origin (ks : List Ident) (s : Stmt) (r : RId) (x : Ident) (T F : Tbl) (v : Option Site)
    (hown : r ∉ nestedReads s) (h : v ∈ (at_ ks s r T F).get x) :
    genAt s r x v ∨ (passAt s r x ∧ v ∈ T.get x) :=
  (at_normal ks s r T F x v hown).1 h

/-- C03, no phantom definitions (full strength on the C03 fragment; `x` not an except-clause name of `s`): every
    alternative `v` (a definition `some d`, or `none` = "possibly undefined") supp lists for `x` at read `r` is realised:
    either from EVERY entry state some execution reaches `r` with `x` holding `v` (the alternative is produced by `s`),
    or `v` is inherited from the entry table and from every entry state in which `x` holds `v` some execution reaches
    `r` with `x` still holding `v`. -/
theorem C03_precise (ks : List Ident) (s : Stmt) (r : RId) (x : Ident) (T F : Tbl) (v : Option Site)
    (hfrag : inC03 s = true) (hown : r ∉ nestedReads s) (hx : x ∉ exNames s)
    (h : v ∈ (at_ ks s r T F).get x) :
    (∀ σ : State, ∃ σr, Reach s σ r σr ∧ σr x = v) ∨
    (v ∈ T.get x ∧ ∀ σ : State, σ x = v → ∃ σr, Reach s σ r σr ∧ σr x = v) := by
  have hr := ((real x s).1 hfrag hx).2.2
  rcases C03_origin ks s r x T F v hown h with hg | ⟨hp, ht⟩
  · exact .inl fun σ => hr r σ v (.inl hg)
  · exact .inr ⟨ht, fun σ e => hr r σ v (.inr ⟨hp, e⟩)⟩

/-- C03, exactness: let `S` be a non-empty set of entry states that the entry table `T` describes exactly for `x`
    (every state of `S` holds one of `T`'s alternatives, every alternative is held by a state of `S`).  Then supp's
    alternatives for `x` at `r` are EXACTLY the values `x` holds when some execution from `S` evaluates `r` —
    definitions and "unbound" alike. -/
theorem C03_exact (ks : List Ident) (s : Stmt) (r : RId) (x : Ident) (T F : Tbl) (S : State → Prop)
    (hfrag : inC03 s = true) (hown : r ∉ nestedReads s) (hx : x ∉ exNames s)
    (hne : ∃ σ, S σ) (hS1 : ∀ σ, S σ → σ x ∈ T.get x) (hS2 : ∀ v, v ∈ T.get x → ∃ σ, S σ ∧ σ x = v)
    (v : Option Site) :
    v ∈ (at_ ks s r T F).get x ↔ ∃ σ σr, S σ ∧ Reach s σ r σr ∧ σr x = v := by
  constructor
  · intro h
    rcases C03_precise ks s r x T F v hfrag hown hx h with h1 | ⟨ht, h2⟩
    · obtain ⟨σ, hs⟩ := hne
      obtain ⟨σr, hr, e⟩ := h1 σ
      exact ⟨σ, σr, hs, hr, e⟩
    · obtain ⟨σ, hs, e⟩ := hS2 v ht
      obtain ⟨σr, hr, e'⟩ := h2 σ e
      exact ⟨σ, σr, hs, hr, e'⟩
  · rintro ⟨σ, σr, hs, hreach, e⟩
    rw [at_normal ks s r T F x v hown]
    rcases (exec_good false true x hreach).1 hfrag (.inr hx) with ⟨h, _⟩ | ⟨r', h, hst⟩
    · cases h
    · cases h
      rcases hst v (by simp) e with h | h | ⟨h1, h2⟩
      · rw [(late_false r x s).1 hfrag] at h; cases h
      · exact .inl h
      · exact .inr ⟨h1, h2 ▸ hS1 σ hs⟩

/-- "possibly undefined" is listed exactly when some execution reaches the read with the name unbound -/
theorem C03_possibly_undefined (ks : List Ident) (s : Stmt) (r : RId) (x : Ident) (T F : Tbl) (S : State → Prop)
    (hfrag : inC03 s = true) (hown : r ∉ nestedReads s) (hx : x ∉ exNames s)
    (hne : ∃ σ, S σ) (hS1 : ∀ σ, S σ → σ x ∈ T.get x) (hS2 : ∀ v, v ∈ T.get x → ∃ σ, S σ ∧ σ x = v) :
    none ∈ (at_ ks s r T F).get x ↔ ∃ σ σr, S σ ∧ Reach s σ r σr ∧ σr x = none :=
  C03_exact ks s r x T F S hfrag hown hx hne hS1 hS2 none

/-- never-bound names: supp lists no definition at all for `x` at `r` (the key is absent or only "undefined":
    lint reports E02) exactly when no execution reaches `r` with `x` bound -/
theorem C03_undefined (ks : List Ident) (s : Stmt) (r : RId) (x : Ident) (T F : Tbl) (S : State → Prop)
    (hfrag : inC03 s = true) (hown : r ∉ nestedReads s) (hx : x ∉ exNames s)
    (hne : ∃ σ, S σ) (hS1 : ∀ σ, S σ → σ x ∈ T.get x) (hS2 : ∀ v, v ∈ T.get x → ∃ σ, S σ ∧ σ x = v) :
    (∀ d, some d ∉ (at_ ks s r T F).get x) ↔ ¬ ∃ σ σr d, S σ ∧ Reach s σ r σr ∧ σr x = some d := by
  constructor
  · rintro h ⟨σ, σr, d, hs, hr, e⟩
    exact h d ((C03_exact ks s r x T F S hfrag hown hx hne hS1 hS2 (some d)).2 ⟨σ, σr, hs, hr, e⟩)
  · intro h d hd
    obtain ⟨σ, σr, hs, hr, e⟩ := (C03_exact ks s r x T F S hfrag hown hx hne hS1 hS2 (some d)).1 hd
    exact h ⟨σ, σr, d, hs, hr, e⟩

/-- "possibly undefined" is never invented: `none` is listed only if the entry table lists it and some syntactic path
    to `r` does not bind `x` -/
theorem C03_undefined_only_from_entry (ks : List Ident) (s : Stmt) (r : RId) (x : Ident) (T F : Tbl)
    (hown : r ∉ nestedReads s) (h : none ∈ (at_ ks s r T F).get x) :
    passAt s r x ∧ none ∈ T.get x := by
  rcases (at_normal ks s r T F x none hown).1 h with h | h
  · exact absurd h (genAt_some s r x)
  · exact h
where
  gen_some (s : Stmt) (x : Ident) : ¬ gen s x none := by
    induction s <;> simp_all [gen]
  genAt_some (s : Stmt) (r : RId) (x : Ident) : ¬ genAt s r x none := by
    induction s <;> simp_all [genAt, gen_some]

/-! non-vacuity: a try whose body may raise at both ends, a handler, and a read after it; module entry (everything
    unbound) as the set of entry states -/
def exTry : Stmt :=
  .seq (.tryx true true (.bind "a" 1) (.hcons .skip .skip (.bind "a" 2) .hnil) .skip) (.read "a" 5)

example : inC03 exTry = true := by decide
example : (at_ [] exTry 5 Tbl.empty Tbl.empty).get "a" = [some 1, some 2] := by decide
example : ∀ v, v ∈ (at_ [] exTry 5 Tbl.empty Tbl.empty).get "a" ↔
    ∃ σ σr, σ = State.init ∧ Reach exTry σ 5 σr ∧ σr "a" = v :=
  fun v => C03_exact [] exTry 5 "a" Tbl.empty Tbl.empty (· = State.init) (by decide) (by decide) (by decide)
    ⟨_, rfl⟩ (by rintro σ rfl; simp [State.init, Tbl.empty]) (by intro v hv; exact ⟨_, rfl, by simpa [Tbl.empty, State.init, eq_comm] using hv⟩) v
example : (at_ [] (.seq (.ite .skip (.bind "a" 1) .skip) (.read "a" 2)) 2 Tbl.empty Tbl.empty).get "a" = [some 1, none] := by
  decide

end SuppModel.Props.C03
