/- C03 — no phantom definitions; "possibly undefined" exact; never-bound names flagged.
   Statements only; proofs in Den/Lemmas*.lean. -/
import SuppModel.Den.Lemmas2
namespace SuppModel.Props.C03
open SuppModel.Den

/-- the full-strength statement: on the C03 fragment every alternative supp lists for `x` at read `r` that does not
    come from the entry table is realised by an execution, and an alternative inherited from the entry table is
    realised from every entry state that realises it -/
def C03_precise_stmt : Prop :=
  ∀ (ks : List Ident) (s : Stmt) (r : RId) (x : Ident) (T F : Tbl) (v : Option Site),
    inC03 s = true → r ∉ nestedReads s → x ∉ exNames s → v ∈ (at_ ks s r T F).get x →
      (∀ σ : State, ∃ σr, Reach s σ r σr ∧ σr x = v) ∨
      (v ∈ T.get x ∧ ∀ σ : State, σ x = v → ∃ σr, Reach s σ r σr ∧ σr x = v)

/-- proved part 1 (origin): every alternative supp lists at `r` is either produced by a binding event of `s` that lies
    on a syntactic path to `r` (`genAt`) or inherited from the entry table along a path that does not rebind `x` -/
theorem C03_origin (ks : List Ident) (s : Stmt) (r : RId) (x : Ident) (T F : Tbl) (v : Option Site)
    (hown : r ∉ nestedReads s) (h : v ∈ (at_ ks s r T F).get x) :
    genAt s r x v ∨ (passAt s r x ∧ v ∈ T.get x) :=
  (at_normal ks s r T F x v hown).1 h

/-- proved part 2: "possibly undefined" is never invented — `none` is listed only if the entry table lists it and some
    syntactic path to `r` does not bind `x` -/
theorem C03_undefined_only_from_entry (ks : List Ident) (s : Stmt) (r : RId) (x : Ident) (T F : Tbl)
    (hown : r ∉ nestedReads s) (h : none ∈ (at_ ks s r T F).get x) :
    passAt s r x ∧ none ∈ T.get x := by
  rcases (at_normal ks s r T F x none hown).1 h with h | h
  · exact absurd h (genAt_some s r x)
  · exact h
where
  gen_some (s : Stmt) (x : Ident) : ¬ gen s x none := by
    induction s <;> simp_all [gen]
  genAt_some (s : Stmt) (r : RId) (x : Ident) : ¬ genAt s r x none := by
    induction s <;> simp_all [genAt, gen_some]

/-- proved part 3 (never-bound names): if no binding event for `x` lies before `r` and the entry table has no binding
    for `x`, supp's answer has no definition at all (`lint` then reports E02) -/
theorem C03_undefined (ks : List Ident) (s : Stmt) (r : RId) (x : Ident) (T F : Tbl) (d : Site)
    (hown : r ∉ nestedReads s) (hT : ∀ d', some d' ∉ T.get x) (hg : ¬ genAt s r x (some d)) :
    some d ∉ (at_ ks s r T F).get x := by
  intro h
  rcases (at_normal ks s r T F x (some d) hown).1 h with h | h
  · exact hg h
  · exact hT d h.2

example : inC03 (.tryx true true (.bind "a" 1) (.hcons .skip .skip (.read "a" 3) .hnil) .skip) = true := by decide
example : (at_ [] (.seq (.ite .skip (.bind "a" 1) .skip) (.read "a" 2)) 2 Tbl.empty Tbl.empty).get "a" = [some 1, none] := by
  decide

end SuppModel.Props.C03
