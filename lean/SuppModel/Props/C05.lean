/-
  C05 — names resolve in the scope CPython's compiler assigns them to (graph-level part).
  Property theorems ONLY, about the evaluator of SuppModel/Flow/Graph.lean for every
  well-formed graph.  (That the extractor builds, for every program, the regions/scopes the
  compiler's symbol table implies is checked by the harness against `symtable`.)
-/
import SuppModel.Flow.LemmasScoping

namespace SuppModel.Props.C05
open SuppModel.Flow

/-- every binding a flow's table can contain is owned by the flow's own scope or by a scope
    on its lookup chain: enclosing functions and the module, never a class body in between
    (names assigned under `global` count as the module's) -/
theorem C05_chain (g : Graph) (hwf : g.wf = true) (n : Nat) (R : List Nat) (f : Nat) (fr : FlowRec)
    (t : Tbl) (hf : g.flow? f = some fr) (ht : flowNames g n R f = some t) :
    t.ownedBy g (lookupChain g fr.scope) :=
  ownedBy_of_all ((chainInv (WF.of g hwf) n).fl R f fr t hf ht)

/-- the same at a query position -/
theorem C05_chain_at (g : Graph) (hwf : g.wf = true) (n : Nat) (f : Nat) (fr : FlowRec) (pos : Pos)
    (t : Tbl) (hf : g.flow? f = some fr) (ht : namesAt g n [] f pos = some t) :
    t.ownedBy g (lookupChain g fr.scope) :=
  ownedBy_of_all (namesAt_chain (WF.of g hwf) n [] f fr pos t hf ht)

/-- class-body bindings are never visible as bare names inside the class's methods: the
    lookup chain of a function defined in a class body does not contain the class -/
theorem C05_class_hidden (g : Graph) (hwf : g.wf = true) (m c : Nat) (sm sc : ScopeRec)
    (hm : g.scope? m = some sm) (hk : sm.kind = .func) (hp : sm.parent = some c)
    (hc : g.scope? c = some sc) (hck : sc.kind = .cls) :
    c ∉ lookupChain g m :=
  -- (holds without `hwf`: every scope on an outer chain is a function or module scope)
  (fun _ => class_hidden hm hk hp hc hck) hwf

/-- a name local to a function is never satisfied by an outer or builtin binding: in every
    flow of a function scope, the alternatives under a key the function binds itself
    (`x ∈ locals`) are bindings of that function, or "undefined" -/
theorem C05_local_not_outer (g : Graph) (hwf : g.wf = true) (n : Nat) (R : List Nat) (f : Nat)
    (fr : FlowRec) (sc : ScopeRec) (t : Tbl) (x : String) (v : Val)
    (hf : g.flow? f = some fr) (hs : g.scope? fr.scope = some sc) (hk : sc.kind = .func)
    (hx : x ∈ sc.locals) (ht : flowNames g n R f = some t) (hv : t.get? x = some v) :
    ∀ a ∈ v, (a = Alt.undef x) ∨ (∃ id nr, a = Alt.nm id ∧ g.name? id = some nr ∧ nr.scope = fr.scope ∧ ¬ g.isGlobal id) :=
  fun a ha =>
    (locInv (WF.of g hwf) hs hk n).fl R f fr t hf rfl ht x v (Tbl.get?_mem hv) a ha hx

/-! ### non-vacuity

    y = 0; x = 1                  module (scope 1): flow 10 binds y (101), x (100)
    class C:                      class body (scope 2): flow 20 binds attr (200)
        attr = 2
        def m(self):              method (scope 3, parent = the class, locals y, G):
            global G; G = 3           G (400) goes to the module's `_global_names`
            y = 4                     flow 30 binds y (300)
            ...                       flow 31 (final), predecessor flow 30
    scope 0 is the builtin scope (`len`).
-/

private def nmS (i : Nat) (s : String) (sc : Nat) : NameRec := { id := i, name := s, loc := (1, 0), scope := sc }

def exScopes : Graph :=
  Graph.mk
    [FlowRec.mk 10 1 [nmS 101 "y" 1, nmS 100 "x" 1] [],
     FlowRec.mk 20 2 [nmS 200 "attr" 2] [],
     FlowRec.mk 30 3 [nmS 300 "y" 3] [],
     FlowRec.mk 31 3 [] [Parent.flow 30]]
    [ScopeRec.mk 0 .builtin none [] 0 [],
     ScopeRec.mk 1 .module (some 0) ["y", "x", "C"] 10 [nmS 400 "G" 3],
     ScopeRec.mk 2 .cls (some 1) ["attr", "m"] 20 [],
     ScopeRec.mk 3 .func (some 2) ["y"] 31 []]
    ["len"]

/-- the graph is well-formed; the method's lookup chain is [method, module] - no class; its final
    flow sees the module's `x` and `G`, the builtin `len`, its own `y` (NOT the module's `y`), and
    not `attr` -/
example :
    exScopes.wf = true ∧ lookupChain exScopes 3 = [3, 1] ∧ lookupChain exScopes 2 = [2, 1] ∧
    flowNames exScopes 12 [] 31 =
      some [("y", [.nm 300]), ("x", [.nm 100]), ("G", [.nm 400]), ("len", [.rt "len"]), ("G", [.nm 400])] ∧
    exScopes.owner? 400 = some 1 ∧ exScopes.owner? 300 = some 3 ∧ exScopes.owner? 200 = some 2 := by
  decide +kernel

/-- hypotheses of `C05_chain` / `C05_chain_at` / `C05_local_not_outer` at flow 31, and of
    `C05_class_hidden` for the method in the class -/
example :
    exScopes.flow? 31 = some (FlowRec.mk 31 3 [] [Parent.flow 30]) ∧
    (namesAt exScopes 12 [] 31 (9, 9)).isSome = true ∧
    (exScopes.scope? 3).map (fun s => (s.kind, s.parent, s.locals)) = some (.func, some 2, ["y"]) ∧
    (exScopes.scope? 2).map (·.kind) = some .cls ∧
    ((flowNames exScopes 12 [] 31).bind (fun t => t.get? "y")) = some [.nm 300] := by
  decide +kernel

end SuppModel.Props.C05
