/-
  C09 — a long-lived project answers exactly like a fresh one (cache transparency).
  Property theorems ONLY (the invariant and its preservation live in SuppModel/Proj/Lemmas*.lean).
  Every statement is about the executable model of SuppModel/Proj/Model.lean (`run`, `request`, `fresh`),
  the one the driver `drv_proj` runs against supp's `Project` on the same histories.

  `Transparent v` is the full-strength statement for the behaviour `v` of `check_changes`/`norm_package`:
  histories with absolute AND relative imports, any length, any initial disk.
  * For the code as it is (`.current`, /repo at a1df565) it is PROVED: `C09`.
  * "each edit changes the file's modification time" is `freshMtimes`: a write or touch gives the file an
    mtime that file has not had before in the history — older or newer, no clock is assumed.
  * Earlier behaviours are refuted in SuppModel/Witness/C09.lean: `C09_pinned_false`, `C09_coarseOnly_false`
    (repaired by b5a1370, 07fdbb8), `C09_norm_false` (`.noRenorm`: `_norm_cache` never dropped; repaired by
    a1df565), and the seeded change `C09_lt_false` (`changed` written with `<`).
-/
import SuppModel.Proj.Lemmas

namespace SuppModel.Props.C09
open SuppModel.Proj

/-- the property at full strength: for every history of any length (writes that create or rewrite modules —
    absolute or relative imports —, touches, requests; every edit gives its file a fresh mtime) from an empty
    project on any initial disk, every request's answer equals the answer of a brand-new project on the disk
    of that moment -/
def C09_stmt : Prop := Transparent .current

/-- … holds of the code as it is.  `fuel` is Python's recursion limit: the two answers are compared when
    neither computation hit it (on acyclic import graphs with `fuel` above the chain length none does;
    the driver reports both flags for every request of every run). -/
theorem C09 : C09_stmt :=
  fun _ D0 ops hfr => run_transparent ops (inv_init D0) hfr

/-- the same, spelled out -/
theorem C09_transparent (fuel : Nat) (D0 : Disk) (ops : List Op)
    (hfr : freshMtimes (seenOf D0) ops = true) :
    ∀ r, r ∈ run .current fuel (World.init .current D0) ops →
      r.2.2 ≠ .recursion → fresh fuel r.1 r.2.1 ≠ .recursion → r.2.2 = fresh fuel r.1 r.2.1 :=
  C09 fuel D0 ops hfr

/-- the absolute-imports instance (the statement the earlier variants are refuted against) -/
theorem C09_partial : TransparentAbs .current :=
  fun fuel D0 _ ops hfr _ => C09 fuel D0 ops hfr

/-- repeating a request without an intervening write gives the same answer, and afterwards every request
    is answered as it would have been after the first one -/
theorem C09_idempotent (fuel : Nat) (D0 : Disk) (ops : List Op)
    (hfr : freshMtimes (seenOf D0) ops = true) (q : Query) :
    let w := exec .current fuel (World.init .current D0) ops
    let r1 := request .current fuel w.disk w.st q
    let r2 := request .current fuel w.disk r1.2 q
    (r1.1 ≠ .recursion → r2.1 ≠ .recursion → fresh fuel w.disk q ≠ .recursion → r2.1 = r1.1) ∧
    ∀ q', (request .current fuel w.disk r1.2 q').1 ≠ .recursion →
      (request .current fuel w.disk r2.2 q').1 ≠ .recursion → fresh fuel w.disk q' ≠ .recursion →
      (request .current fuel w.disk r2.2 q').1 = (request .current fuel w.disk r1.2 q').1 := by
  intro w r1 r2
  obtain ⟨_, ⟨R, hg, hs, _⟩, _⟩ := inv_exec (fuel := fuel) ops (inv_init D0) hfr
  have s1 := request_spec fuel q hg hs
  have s2 := request_spec fuel q s1.1 (sameByMtime_refl w.disk)
  refine ⟨fun h1 h2 hf => (s2.2 h2 hf).trans (s1.2 h1 hf).symm, fun q' h1 h2 hf => ?_⟩
  have t1 := request_spec fuel q' s1.1 (sameByMtime_refl w.disk)
  have t2 := request_spec fuel q' s2.1 (sameByMtime_refl w.disk)
  exact (t2.2 h2 hf).trans (t1.2 h1 hf).symm

/-- the invariant: after any such history the project's caches (module cache, `_ref` memos, `_missing`,
    `_norm_cache`) are correct for every disk that has the same files wherever the project has looked and the
    same package path for every directory in `_norm_cache` (so an edit elsewhere cannot matter, and an edit
    there is seen by `check_changes`) -/
theorem C09_invariant (fuel : Nat) (D0 : Disk) (ops : List Op)
    (hfr : freshMtimes (seenOf D0) ops = true) :
    ∃ seen, Inv (exec .current fuel (World.init .current D0) ops) seen :=
  inv_exec ops (inv_init D0) hfr

/-! non-vacuity: a project with a star import through an unchanged importer (a = [1]: `from b import *`,
    `from b import K as M`; b = [2]: `from c import K`, own `L`; c = [3]: own `K`), an edit of the far end
    `c` (given an older mtime) between two requests through `a`, then the creation of a module that `a`'s rewritten source had
    already failed to import; the hypotheses hold, no answer is `recursion`, and the answers change with
    the disk -/
def exDisk : Disk :=
  [([1], ⟨50, [.star [2], .frm [2] 10 12]⟩), ([2], ⟨50, [.frm [3] 10 10, .bind 11 3]⟩), ([3], ⟨50, [.bind 10 7]⟩)]

def exOps : List Op :=
  [.request (.attr [1] none 10), .request (.names [1] none),
   .write [3] 30 [.bind 10 9], .request (.attr [1] none 10),       -- an OLDER mtime than the cached one
   .write [1] 70 [.star [2], .star [4]], .request (.lint [1] [10, 13]),
   .write [4] 10 [.bind 13 1], .request (.lint [1] [10, 13]), .request (.loc [1] none 13)]

example : freshMtimes (seenOf exDisk) exOps = true := by decide

-- a history with relative imports in which `zq_p8/__init__.py` appears after the relative name was resolved
-- (the one on which the previous code was stale): fresh mtimes, no `recursion`, answers follow the disk
example :
    let D : Disk := [([8, 9], ⟨1, []⟩), ([8, 9, 2], ⟨2, [.bind 10 1]⟩), ([8, 9, 1], ⟨3, [.rfrm 0 [2] 10 10]⟩)]
    let ops : List Op := [.request (.attr [8, 9] (some 1) 10), .write [8] 4 [], .request (.attr [8, 9] (some 1) 10)]
    freshMtimes (seenOf D) ops = true ∧
    (run .current 10 (World.init .current D) ops).map (·.2.2) = [.nothing, .payload 1] := by decide

example : (run .current 10 (World.init .current exDisk) exOps).map (·.2.2) =
    [.payload 7, .names [10, 11, 12], .payload 9, .undefined [13], .undefined [], .locs [(some [1], 2), (some [4], 1)]] ∧
    ((run .current 10 (World.init .current exDisk) exOps).all
      (fun r => r.2.2.defined && (fresh 10 r.1 r.2.1).defined)) = true := by decide

-- `C09_idempotent`: its three side conditions hold on that history for a request through the importer
example :
    let w := exec .current 10 (World.init .current exDisk) exOps
    let r1 := request .current 10 w.disk w.st (.attr [1] none 10)
    let r2 := request .current 10 w.disk r1.2 (.attr [1] none 10)
    r1.1 = .payload 9 ∧ r2.1 = .payload 9 ∧ fresh 10 w.disk (.attr [1] none 10) = .payload 9 := by decide

end SuppModel.Props.C09
