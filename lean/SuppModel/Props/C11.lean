/-
  C11 — `find_id_loc`: the reported declaration position points at the name in the file.
  Property theorems ONLY (specification definitions `OccAt`, `lineCol`, `siteOk` and all helper lemmas
  live in SuppModel/Text/LemmasC11.lean, proved there for arbitrary delimiter sets).
  Every statement is about the executable model `findIdLoc` / `declaredAt` of SuppModel/Text/Model.lean,
  whose delimiter sets, window size and call sites are regenerated from supp/scope.py and supp/nast.py.
-/
import SuppModel.Text.LemmasC11

namespace SuppModel.Props.C11
open SuppModel.Text

/-- line level: when the search succeeds, the text of the FILE at the reported line and column
    (minus the shift) is exactly `id`; the line lies inside the file and inside the window, never before
    the start position; in delimiter mode the occurrence is delimited within its line (start / end of
    line count as delimiters) -/
theorem C11_found (lines : List Str) (id : Str) (start : Nat × Nat) (shift : Nat) (delims : Bool)
    (hl : ∀ l ∈ lines, '\n' ∉ l) (hid : '\n' ∉ id) (hs : 1 ≤ start.1)
    (h : findIdLoc lines id start shift delims ≠ start) :
    let r := findIdLoc lines id start shift delims
    start.1 ≤ r.1 ∧ r.1 ≤ lines.length ∧ r.1 ≤ start.1 + Generated.windowAfter ∧ shift ≤ r.2 ∧
    (r.1 = start.1 → start.2 + shift < r.2) ∧
    ∃ l, lines[r.1 - 1]? = some l ∧ (l.drop (r.2 - shift)).take id.length = id ∧
      (delims = true →
        (r.2 - shift = 0 ∨ ∃ c, l[r.2 - shift - 1]? = some c ∧ c ∈ Generated.importDelims) ∧
        (l.length ≤ r.2 - shift + id.length ∨
          ∃ c, l[r.2 - shift + id.length]? = some c ∧ c ∈ Generated.importEndDelims)) :=
  findIdLocWith_found _ _ lines id start shift delims hl hid hs h

-- non-vacuity: `import os#c`, searching `os` from the keyword position
example : (∀ l ∈ ["import os#c".toList], '\n' ∉ l) ∧ '\n' ∉ "os".toList ∧ 1 ≤ ((1, 0) : Nat × Nat).1 ∧
    findIdLoc ["import os#c".toList] "os".toList (1, 0) 0 true ≠ (1, 0) := by decide

-- non-vacuity: a hit on a later line of a multi-line import, with a shift
example : (∀ l ∈ ["from a import (".toList, "  b, c)".toList], '\n' ∉ l) ∧ '\n' ∉ "c".toList ∧
    findIdLoc ["from a import (".toList, "  b, c)".toList] "c".toList (1, 0) 1 true = (2, 6) ∧
    findIdLoc ["from a import (".toList, "  b, c)".toList] "c".toList (1, 0) 1 true ≠ (1, 0) := by decide

/-- the lines supp searches are `util.splitlines(source)`: split at `\n`, `\r\n`, `\r` as the parser does, so they satisfy
    the hypothesis `hl` of `C11_found` (no line break inside a line) for every source text -/
theorem C11_lines_ok (source : Str) : ∀ l ∈ splitlines source, '\n' ∉ l ∧ '\r' ∉ l :=
  splitlines_no_newline source

-- a form feed is not a line boundary (it was for str.splitlines, `Witness.C11.C11_formfeed_legacy`); \r\n is one boundary
example : splitlines "x = 1\n\x0c\nimport os\r\ndef f(): pass\n".toList =
    ["x = 1".toList, ['\x0c'], "import os".toList, "def f(): pass".toList] := by decide

/-- every generated binding site calls `find_id_loc` with a shift that compensates the blank it
    prepends to the name -/
theorem C11_sites_ok :
    siteOk Generated.funcSite = true ∧ siteOk Generated.classSite = true ∧
    siteOk Generated.importSite = true ∧ siteOk Generated.importFromSite = true :=
  generated_sites_ok

/-- for such a site (`siteOk site`: `site.shift = if site.spacePrefixed then 1 else 0`), a successful
    `declared_at` is the position of the name itself in the file -/
theorem C11_site (site : Generated.CallSite) (lines : List Str) (name : Str) (start : Nat × Nat)
    (hsite : siteOk site = true)
    (hl : ∀ l ∈ lines, '\n' ∉ l) (hname : '\n' ∉ name) (hs : 1 ≤ start.1)
    (h : declaredAt site lines name start ≠ start) :
    let r := declaredAt site lines name start
    ∃ l, lines[r.1 - 1]? = some l ∧ (l.drop r.2).take name.length = name ∧ 1 ≤ r.1 ∧ r.1 ≤ lines.length :=
  declaredAt_found site lines name start hsite hl hname hs h

-- non-vacuity: the generated def site on `async def d(): pass`
example : siteOk Generated.funcSite = true ∧ (∀ l ∈ ["async def d(): pass".toList], '\n' ∉ l) ∧
    '\n' ∉ "d".toList ∧
    declaredAt Generated.funcSite ["async def d(): pass".toList] "d".toList (1, 0) ≠ (1, 0) := by decide

-- non-vacuity: a space-prefixed site (the legacy def / class call) also satisfies `siteOk`
example : siteOk { spacePrefixed := true, shift := 1, delims := false } = true ∧
    declaredAt { spacePrefixed := true, shift := 1, delims := false }
      ["class A: pass".toList] "A".toList (1, 0) = (1, 6) := by decide

/-- window level: the search falls back to `start` exactly when the window has no (delimited)
    occurrence after the start offset -/
theorem C11_found_iff (lines : List Str) (id : Str) (start : Nat × Nat) (shift : Nat) (delims : Bool) :
    findIdLoc lines id start shift delims = start ↔
      ∀ p, start.2 < p →
        ¬ OccAt Generated.importDelims Generated.importEndDelims (window lines start.1) id delims p :=
  findIdLocWith_eq_start_iff _ _ lines id start shift delims

-- non-vacuity: both sides occur (`osx` does not contain a delimited `os`; `os, osx` does)
example : findIdLoc ["import osx".toList] "os".toList (1, 0) 0 true = (1, 0) ∧
    findIdLoc ["import os, osx".toList] "os".toList (1, 0) 0 true ≠ (1, 0) ∧
    OccAt Generated.importDelims Generated.importEndDelims (window ["import os, osx".toList] 1)
      "os".toList true 7 := by decide

/-- it returns the FIRST delimited occurrence after the start offset, reported as line / column of
    the window -/
theorem C11_first (lines : List Str) (id : Str) (start : Nat × Nat) (shift : Nat) (delims : Bool)
    (h : findIdLoc lines id start shift delims ≠ start) :
    ∃ p, start.2 < p ∧
      OccAt Generated.importDelims Generated.importEndDelims (window lines start.1) id delims p ∧
      (∀ q, start.2 < q → q < p →
        ¬ OccAt Generated.importDelims Generated.importEndDelims (window lines start.1) id delims q) ∧
      findIdLoc lines id start shift delims =
        (start.1 + (lineCol (window lines start.1) p).1, (lineCol (window lines start.1) p).2 + shift) :=
  findIdLocWith_first _ _ lines id start shift delims h

-- non-vacuity: two delimited occurrences, the first one (offset 7, not 20) is reported
example : findIdLoc ["import os, osx, os2 as os".toList] "os".toList (1, 0) 0 true ≠ (1, 0) ∧
    OccAt Generated.importDelims Generated.importEndDelims
      (window ["import os, osx, os2 as os".toList] 1) "os".toList true 7 ∧
    OccAt Generated.importDelims Generated.importEndDelims
      (window ["import os, osx, os2 as os".toList] 1) "os".toList true 23 := by decide

/-- lint and location report the same position for the same binding.  `lint` analyses the text as it is and reports
    `b.declaredAt`; `location` analyses the text with the mark inserted at `cursor`, where the same binding stands at
    `markedPos cursor b.declaredAt`, and un-shifts it: the two reports coincide (and the file is handed through) -/
theorem C11_same (b : Binding) (cursor : Nat × Nat) (code msg : Str) :
    (locationEntry b.filename cursor { b with declaredAt := markedPos cursor b.declaredAt }).loc =
        ((lintEntry code msg b).line, (lintEntry code msg b).col) ∧
      (locationEntry b.filename cursor { b with declaredAt := markedPos cursor b.declaredAt }).file = b.filename :=
  ⟨unshift_markedPos b.filename cursor b.declaredAt b rfl, rfl⟩

-- `x = 1\n[nn for nn in x]`, cursor at (2, 3): the binding `nn` at (2, 8) is seen at (2, 21) and reported at (2, 8)
example : markedPos (2, 3) (2, 8) = (2, 21) ∧
    (locationEntry "m.py".toList (2, 3) { name := "nn".toList, declaredAt := (2, 21), filename := "m.py".toList }).loc = (2, 8) ∧
    (lintEntry "W01".toList "Unused name: ".toList
      { name := "nn".toList, declaredAt := (2, 8), filename := "m.py".toList }).col = 8 := by decide

/-- the marked analysis sees a binding of the unmarked text `|MARK|` columns further right exactly when it lies on the
    cursor's line at or right of the cursor column -/
theorem C11_mark_shift (cursor p : Nat × Nat) :
    markedPos cursor p = (p.1, p.2 + Generated.sourceMark.length) ∧ markedPos cursor p ≠ p ↔
      p.1 = cursor.1 ∧ cursor.2 ≤ p.2 :=
  markedPos_ne_iff cursor p

example : markedPos (2, 3) (2, 3) = (2, 16) ∧ markedPos (2, 3) (2, 1) = (2, 1) ∧ markedPos (2, 3) (1, 8) = (1, 8) := by decide

/-- ... which is what inserting the mark does to the text: from the cursor column on, the characters of the line stand
    `|MARK|` columns further right; left of it nothing moves -/
theorem C11_mark_text (line : Str) (col c : Nat) (hcol : col ≤ line.length) :
    (col ≤ c → (markLine line col).drop (c + Generated.sourceMark.length) = line.drop c) ∧
    (c ≤ col → (markLine line col).take c = line.take c) :=
  ⟨markLine_drop line col c hcol, markLine_take line col c hcol⟩

example : (markLine "[nn for nn in x]".toList 3).drop (8 + 13) = "nn in x]".toList := by decide

/-- positions the mark does not move (another file, another line, left of or at the cursor) are reported as they are -/
theorem C11_location_unmoved (f : Str) (cursor : Nat × Nat) (b : Binding)
    (h : b.filename ≠ f ∨ b.declaredAt.1 ≠ cursor.1 ∨ b.declaredAt.2 ≤ cursor.2) :
    (locationEntry f cursor b).loc = b.declaredAt :=
  unshift_id f cursor b h

example : (locationEntry "m.py".toList (2, 3) { name := "x".toList, declaredAt := (1, 0), filename := "m.py".toList }).loc = (1, 0) ∧
    (locationEntry "m.py".toList (2, 3) { name := "j".toList, declaredAt := (2, 40), filename := "os.py".toList }).loc = (2, 40) := by
  decide

/-! ### the full-strength statement is FALSE of the code (open findings)

`C11_found` / `C11_site` say: IF the search succeeds, the position is right.  The property also needs the search
to succeed whenever the bound name stands in the file after the statement start as a token of its own.
That is false today (`Witness.C11.C11_stmt_false`): a name more than `windowAfter` lines below the statement
start is not found (finding C11-window-51-lines).  (A name directly followed by `[`, `class A[T]:`, was a second
counterexample until commit 50717df added `[` to the end delimiters.)
`C11_found_iff` is the exact partial statement: the search succeeds iff a
DELIMITED occurrence lies INSIDE THE WINDOW. -/

/-- ASCII identifier characters -/
def identChar (c : Char) : Bool := c.isAlphanum || c == '_'

/-- whenever `id` stands at line `k ≥ start.1`, column `c` of the file (after the start offset if on the start
    line), with no identifier character on either side, the search does not fall back -/
def C11_stmt : Prop :=
  ∀ (lines : List Str) (id : Str) (start : Nat × Nat) (k c : Nat) (l : Str),
    1 ≤ start.1 → start.1 ≤ k → lines[k - 1]? = some l → (l.drop c).take id.length = id → id ≠ [] →
    (k = start.1 → start.2 < c) →
    (c = 0 ∨ ∃ x, l[c - 1]? = some x ∧ identChar x = false) →
    (l.length ≤ c + id.length ∨ ∃ x, l[c + id.length]? = some x ∧ identChar x = false) →
    findIdLoc lines id start 0 true ≠ start

end SuppModel.Props.C11
