/-
  C14 — MessagePack codec: lossless, spec-conformant, rejects truncation.
  Property theorems ONLY (helper lemmas live in SuppModel/Msgpack/Lemmas*.lean).
  Every statement is about the executable model `dumps`/`loads` of SuppModel/Msgpack/Model.lean,
  whose format-selection chains and dispatch table are regenerated from supp/umsgpack.py on every run.
-/
import SuppModel.Msgpack.Lemmas

namespace SuppModel.Props.C14
open SuppModel.Msgpack

/-- every first byte is routed to the decoder family the specification assigns to it -/
theorem C14_dispatch : ∀ b, b < 256 → Generated.dispatch b = specFamily b :=
  dispatch_eq

/-- the encoder accepts every value of the data model and emits a legal encoding of it -/
theorem C14_valid (v : Value) (h : wf v = true) :
    ∃ bs, dumps v = .ok bs ∧ Encodes v bs ∧ BytesOK bs :=
  dumps_valid v h

/-- the decoder accepts every legal encoding (any format, minimal or not) of a data-model
    value, whatever follows it, and returns that value (tuples as lists) -/
theorem C14_accepts (v : Value) (bs extra : Bytes) (he : Encodes v bs) (h : wf v = true) :
    loads (bs ++ extra) = .ok (normV v) :=
  loads_ok v bs extra he h

/-- round trip -/
theorem C14_roundtrip (v : Value) (h : wf v = true) :
    ∃ bs, dumps v = .ok bs ∧ loads bs = .ok (normV v) := by
  obtain ⟨bs, hd, he, _⟩ := dumps_valid v h
  exact ⟨bs, hd, by simpa using loads_ok v bs [] he h⟩

/-- on the MessagePack data model proper (no tuples outside dict keys) the round trip is the identity -/
theorem C14_roundtrip_id (v : Value) (h : wf v = true) (ht : tupFree v = true) :
    ∃ bs, dumps v = .ok bs ∧ loads bs = .ok v := by
  obtain ⟨bs, hd, he, _⟩ := dumps_valid v h
  exact ⟨bs, hd, by simpa [normV_of_tupFree v ht] using loads_ok v bs [] he h⟩

/-- every proper prefix of a legal encoding is rejected as insufficient data -/
theorem C14_prefix (v : Value) (bs p : Bytes) (he : Encodes v bs) (h : wf v = true)
    (hp : p <+: bs) (hne : p ≠ bs) : loads p = .error .insufficient :=
  loads_prefix v bs p he h hp hne

/-- integers outside [-2^63, 2^64) are refused, not wrapped -/
theorem C14_range (n : Int) (h : n < -(2 : Int) ^ 63 ∨ (2 : Int) ^ 64 ≤ n) :
    dumps (.int n) = .error .unsupported :=
  dumps_int_range n h

/-- and the decoder never produces one -/
theorem C14_loads_range (bs : Bytes) (v : Value) (hb : BytesOK bs) (h : loads bs = .ok v) :
    intsInRange v = true :=
  loads_range bs v hb h

/-- smallest-format selection: the encoder's output is no longer than ANY legal encoding of the
    value, except that a float is always written as float64 (9 bytes) where the specification also
    allows float32 (5 bytes): at most 4 bytes of slack per float contained in the value -/
theorem C14_minimal (v : Value) (bs : Bytes) (he : Encodes v bs) (h : wf v = true) :
    ∃ ds, dumps v = .ok ds ∧ ds.length ≤ bs.length + 4 * floatCount v :=
  dumps_minimal v bs he h

/-- in particular, for values without floats the encoder emits a shortest legal encoding -/
theorem C14_minimal_nofloat (v : Value) (bs : Bytes) (he : Encodes v bs) (h : wf v = true)
    (hf : floatCount v = 0) : ∃ ds, dumps v = .ok ds ∧ ds.length ≤ bs.length := by
  simpa [hf] using dumps_minimal v bs he h

/-- on a byte string the decoder can only fail with one of its six documented exceptions -/
theorem C14_loads_errors (bs : Bytes) (hb : BytesOK bs) (e : Err) (h : loads bs = .error e) :
    e = .insufficient ∨ e = .invalidString ∨ e = .reserved ∨ e = .unhashable ∨ e = .duplicate ∨
      e = .typeError :=
  (decErr_iff e).mp (loads_errors bs hb e h)

/-- i.e. the "logic error" branches (and `struct.error`, `UnsupportedTypeException`) are
    unreachable through the dispatch table -/
theorem C14_loads_no_logic (bs : Bytes) (hb : BytesOK bs) :
    loads bs ≠ .error .logic ∧ loads bs ≠ .error .structError ∧ loads bs ≠ .error .unsupported := by
  refine ⟨fun h => ?_, fun h => ?_, fun h => ?_⟩ <;>
    simpa [decErr] using loads_errors bs hb _ h

/-- the encoder succeeds or raises `UnsupportedTypeException`; it never raises `struct.error`
    (every `struct.pack` argument is put in range by the guard of its branch) -/
theorem C14_dumps_errors (v : Value) :
    (∃ bs, dumps v = .ok bs) ∨ dumps v = .error .unsupported :=
  dumps_errors v

/-! non-vacuity: a nested value with a tuple key, a float key and an ext satisfies `wf` -/
example : wf (.map [(.tup [.int 1, .str [0x61]], .arr [.nil, .float 0x3ff8000000000000]),
                    (.int (-(2:Int)^63), .ext 5 [1,2,3]),
                    (.bin [], .map [])]) = true := by decide

/-! non-vacuity of the remaining hypotheses -/

-- `C14_roundtrip_id`: a `wf`, tuple-free value with nested containers exists
example : wf (.map [(.int 1, .arr [.nil, .str [0x61], .map [(.bool true, .bin [255])]])]) = true ∧
    tupFree (.map [(.int 1, .arr [.nil, .str [0x61], .map [(.bool true, .bin [255])]])]) = true := by
  decide

-- `C14_accepts`: a non-minimal encoding (uint16 for 1) of a `wf` value inside a fixarray
example : Encodes (.arr [.int 1]) [0x91, 0xcd, 0, 1] ∧ wf (.arr [.int 1]) = true :=
  ⟨Encodes.fixarr [.int 1] [0xcd, 0, 1] (by decide)
      (EncodesList.cons (.int 1) [] [0xcd, 0, 1] []
        (Encodes.uint16 [0, 1] rfl (by decide)) EncodesList.nil),
   by decide⟩

-- `C14_prefix`: that encoding has proper prefixes
example : ([0x91, 0xcd, 0] : Bytes) <+: [0x91, 0xcd, 0, 1] ∧ ([0x91, 0xcd, 0] : Bytes) ≠ [0x91, 0xcd, 0, 1] :=
  ⟨⟨[1], rfl⟩, by decide⟩

-- `C14_loads_range`: a well-formed byte string that `loads` accepts
example : BytesOK [0x91, 0xcd, 0, 1] ∧ loads [0x91, 0xcd, 0, 1] = .ok (.arr [.int 1]) := by
  refine ⟨by decide, ?_⟩
  have he : Encodes (.arr [.int 1]) [0x91, 0xcd, 0, 1] :=
    Encodes.fixarr [.int 1] [0xcd, 0, 1] (by decide)
      (EncodesList.cons (.int 1) [] [0xcd, 0, 1] []
        (Encodes.uint16 [0, 1] rfl (by decide)) EncodesList.nil)
  simpa [normV, normList] using loads_ok (.arr [.int 1]) [0x91, 0xcd, 0, 1] [] he (by decide)

-- `C14_range`: both sides of the disjunction are inhabited
example : (-(2 : Int) ^ 63 - 1 < -(2 : Int) ^ 63) ∧ ((2 : Int) ^ 64 ≤ (2 : Int) ^ 64) := by decide

-- `C14_minimal`: the float term is needed — float32 is a legal, strictly shorter encoding
example : ∃ v bs, Encodes v bs ∧ wf v = true ∧ floatCount v = 1 ∧
    ∃ ds, dumps v = .ok ds ∧ ds.length = bs.length + 4 :=
  ⟨.float (f32to64 (beVal [0, 0, 0, 0])), 0xca :: [0, 0, 0, 0],
    Encodes.float32 [0, 0, 0, 0] rfl (by decide), by decide, by simp [floatCount],
    _, rfl, by simp [beBytes_length]⟩

-- `C14_loads_errors`: the decoder does fail on some byte strings
example : BytesOK [] ∧ loads [] = .error .insufficient :=
  ⟨by decide, by unfold loads; rw [show ([] : Bytes).length + 1 = 0 + 1 from rfl, unpack_nil]; rfl⟩

-- `C14_dumps_errors`: both outcomes occur
example : dumps .nil = .ok [0xc0] ∧ dumps .opaque = .error .unsupported := by
  simp [dumps, pack]

end SuppModel.Props.C14
