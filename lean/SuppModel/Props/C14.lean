/-
  C14 — MessagePack codec: lossless, spec-conformant, rejects truncation.
  Property theorems ONLY (helper lemmas live in SuppModel/Msgpack/Lemmas*.lean).
  Every statement is about the executable model `dumps`/`loads` of SuppModel/Msgpack/Model.lean,
  whose format-selection chains and dispatch table are regenerated from supp/umsgpack.py on every run.
-/
import SuppModel.Msgpack.Lemmas

namespace SuppModel.Props.C14
open SuppModel.Msgpack

/-- every first byte is routed to the decoder family the specification assigns to it -/
theorem C14_dispatch : ∀ b, b < 256 → Generated.dispatch b = specFamily b :=
  dispatch_eq

/-- the encoder accepts every value of the data model and emits a legal encoding of it -/
theorem C14_valid (v : Value) (h : wf v = true) :
    ∃ bs, dumps v = .ok bs ∧ Encodes v bs ∧ BytesOK bs :=
  dumps_valid v h

/-- the decoder accepts every legal encoding (any format, minimal or not) of a data-model
    value, whatever follows it, and returns that value (tuples as lists) -/
theorem C14_accepts (v : Value) (bs extra : Bytes) (he : Encodes v bs) (h : wf v = true) :
    loads (bs ++ extra) = .ok (normV v) :=
  loads_ok v bs extra he h

/-- round trip -/
theorem C14_roundtrip (v : Value) (h : wf v = true) :
    ∃ bs, dumps v = .ok bs ∧ loads bs = .ok (normV v) := by
  obtain ⟨bs, hd, he, _⟩ := dumps_valid v h
  exact ⟨bs, hd, by simpa using loads_ok v bs [] he h⟩

/-- on the MessagePack data model proper (no tuples outside dict keys) the round trip is the identity -/
theorem C14_roundtrip_id (v : Value) (h : wf v = true) (ht : tupFree v = true) :
    ∃ bs, dumps v = .ok bs ∧ loads bs = .ok v := by
  obtain ⟨bs, hd, he, _⟩ := dumps_valid v h
  exact ⟨bs, hd, by simpa [normV_of_tupFree v ht] using loads_ok v bs [] he h⟩

/-- every proper prefix of a legal encoding is rejected as insufficient data -/
theorem C14_prefix (v : Value) (bs p : Bytes) (he : Encodes v bs) (h : wf v = true)
    (hp : p <+: bs) (hne : p ≠ bs) : loads p = .error .insufficient :=
  loads_prefix v bs p he h hp hne

/-- integers outside [-2^63, 2^64) are refused, not wrapped -/
theorem C14_range (n : Int) (h : n < -(2 : Int) ^ 63 ∨ (2 : Int) ^ 64 ≤ n) :
    dumps (.int n) = .error .unsupported :=
  dumps_int_range n h

/-- and the decoder never produces one -/
theorem C14_loads_range (bs : Bytes) (v : Value) (hb : BytesOK bs) (h : loads bs = .ok v) :
    intsInRange v = true :=
  loads_range bs v hb h

/-! non-vacuity: a nested value with a tuple key, a float key and an ext satisfies `wf` -/
example : wf (.map [(.tup [.int 1, .str [0x61]], .arr [.nil, .float 0x3ff8000000000000]),
                    (.int (-(2:Int)^63), .ext 5 [1,2,3]),
                    (.bin [], .map [])]) = true := by decide

/-! non-vacuity of the remaining hypotheses -/

-- `C14_roundtrip_id`: a `wf`, tuple-free value with nested containers exists
example : wf (.map [(.int 1, .arr [.nil, .str [0x61], .map [(.bool true, .bin [255])]])]) = true ∧
    tupFree (.map [(.int 1, .arr [.nil, .str [0x61], .map [(.bool true, .bin [255])]])]) = true := by
  decide

-- `C14_accepts`: a non-minimal encoding (uint16 for 1) of a `wf` value inside a fixarray
example : Encodes (.arr [.int 1]) [0x91, 0xcd, 0, 1] ∧ wf (.arr [.int 1]) = true :=
  ⟨Encodes.fixarr [.int 1] [0xcd, 0, 1] (by decide)
      (EncodesList.cons (.int 1) [] [0xcd, 0, 1] []
        (Encodes.uint16 [0, 1] rfl (by decide)) EncodesList.nil),
   by decide⟩

-- `C14_prefix`: that encoding has proper prefixes
example : ([0x91, 0xcd, 0] : Bytes) <+: [0x91, 0xcd, 0, 1] ∧ ([0x91, 0xcd, 0] : Bytes) ≠ [0x91, 0xcd, 0, 1] :=
  ⟨⟨[1], rfl⟩, by decide⟩

-- `C14_loads_range`: a well-formed byte string that `loads` accepts
example : BytesOK [0x91, 0xcd, 0, 1] ∧ loads [0x91, 0xcd, 0, 1] = .ok (.arr [.int 1]) := by
  refine ⟨by decide, ?_⟩
  have he : Encodes (.arr [.int 1]) [0x91, 0xcd, 0, 1] :=
    Encodes.fixarr [.int 1] [0xcd, 0, 1] (by decide)
      (EncodesList.cons (.int 1) [] [0xcd, 0, 1] []
        (Encodes.uint16 [0, 1] rfl (by decide)) EncodesList.nil)
  simpa [normV, normList] using loads_ok (.arr [.int 1]) [0x91, 0xcd, 0, 1] [] he (by decide)

-- `C14_range`: both sides of the disjunction are inhabited
example : (-(2 : Int) ^ 63 - 1 < -(2 : Int) ^ 63) ∧ ((2 : Int) ^ 64 ≤ (2 : Int) ^ 64) := by decide

end SuppModel.Props.C14
