/- C02 — the definition actually read is reported.
   Statements only; proofs are in Den/Lemmas*.lean.  Model: Den/Model.lean (`A`, `at_`: supp's tables),
   Den/Sem.lean (`Exec`, `Reach`: Python's binding semantics, tests and raise points as oracle decisions). -/
import SuppModel.Den.Lemmas6
namespace SuppModel.Props.C02
open SuppModel.Den

/-- C02 (full strength on the C02 fragment, for every table memo parameter `ks`, every entry table `T`, every final
    table `F`): if some execution of the scope body `s` from `σ` evaluates read `r` in a state where name `x` holds the
    binding made at site `d`, and `T` lists the binding `x` holds on entry (if any), then `d` is among the
    definitions supp associates with `x` at `r` — reads in loop bodies, loop tests (evaluated again after the body),
    handlers, else / finally branches included. -/
theorem C02_sound (ks : List Ident) (s : Stmt) (σ σr : State) (r : RId) (x : Ident) (T F : Tbl) (d : Site)
    (hfrag : inC02 s = true) (hown : r ∉ nestedReads s) (hlate : lateRead s r x = false)
    (hreach : Reach s σ r σr)
    (hT : ∀ d', σ x = some d' → some d' ∈ T.get x)
    (hx : σr x = some d) :
    some d ∈ (at_ ks s r T F).get x := by
  rcases (exec_good true false x hreach).1 hfrag (.inl rfl) with ⟨h, _⟩ | ⟨r', h, hs⟩
  · cases h
  · cases h
    rw [at_normal ks s r T F x (some d) hown]
    rcases hs (some d) (by simp) hx with h | h | ⟨h1, h2⟩
    · rw [hlate] at h; cases h
    · exact .inl h
    · exact .inr ⟨h1, hT d h2⟩

example : inC02 (.while_ (.read "c" 1) (.bind "c" 2) .skip) = true := by decide

/-- the table after a scope body that ran to completion lists the binding every name holds -/
theorem C02_table_sound (ks : List Ident) (s : Stmt) (σ σ' : State) (x : Ident) (T : Tbl) (d : Site)
    (hfrag : inC02 s = true) (hexec : Exec s σ .normal σ')
    (hT : ∀ d', σ x = some d' → some d' ∈ T.get x) (hx : σ' x = some d) :
    some d ∈ (A ks s T).get x := by
  rcases (exec_good true false x hexec).1 hfrag (.inl rfl) with ⟨_, hs⟩ | ⟨r', h, _⟩
  · rw [A_normal]
    rcases hs (some d) (by simp) hx with h | ⟨h1, h2⟩
    · exact .inl h
    · exact .inr ⟨h1, hT d h2⟩
  · cases h

/-- executions of the fragment never end in a jump or an uncaught exception -/
theorem C02_outcomes (s : Stmt) (σ σ' : State) (o : Outcome) (hfrag : inC02 s = true) (hexec : Exec s σ o σ') :
    o = .normal ∨ ∃ r, o = .stop r := by
  rcases (exec_good true false "" hexec).1 hfrag (.inl rfl) with ⟨h, _⟩ | ⟨r', h, _⟩
  · exact .inl h
  · exact .inr ⟨r', h⟩

/-- abstract lint layer: `lint` marks every alternative of every read as used (`use_name`) -/
def markedUsed (ks : List Ident) (s : Stmt) (T F : Tbl) (d : Site) : Prop :=
  ∃ r x, (r, x) ∈ readsOf s ∧ some d ∈ (at_ ks s r T F).get x

/-- a binding some execution reads is marked used: never reported as 'Unused name' / 'Unused import' -/
theorem C02_no_false_unused (ks : List Ident) (s : Stmt) (σ σr : State) (r : RId) (x : Ident) (T F : Tbl) (d : Site)
    (hfrag : inC02 s = true) (hown : r ∉ nestedReads s) (hlate : lateRead s r x = false) (hread : (r, x) ∈ readsOf s)
    (hreach : Reach s σ r σr) (hT : ∀ d', σ x = some d' → some d' ∈ T.get x) (hx : σr x = some d) :
    markedUsed ks s T F d :=
  ⟨r, x, hread, C02_sound ks s σ σr r x T F d hfrag hown hlate hreach hT hx⟩

/-! ## the executable semantics

`run` is what the driver evaluates and what the harness compares, decision sequence by decision sequence, with the
instrumented CPython execution (stream 'Sem = CPython').  It is sound for the relational semantics the theorems above
are about, so "the model's run agrees with CPython on this decision sequence" + `run_sound` + `C02_sound` give: the site
CPython observed is among supp's definitions. -/

/-- whenever `run` returns (not out of fuel) on a statement it is defined for (`runWf`), there is an `Exec` derivation
    with that outcome and final state, and every new trace event `(r, v)` is a reachable read: some execution evaluates
    `r` in a state where the read's name holds `v` -/
theorem run_sound (n : Nat) (s : Stmt) (st : RunSt) (o : Outcome) (st' : RunSt)
    (hw : runWf s = true) (h : run n s st = some (o, st')) :
    Exec s st.σ o st'.σ ∧ ∃ evs, st'.tr = evs ++ st.tr ∧
      ∀ r v, (r, v) ∈ evs → ∃ x σr, (r, x) ∈ readsOf s ∧ Reach s st.σ r σr ∧ σr x = v := by
  obtain ⟨_, he, evs, ht, hev⟩ := (runOK n).1 s st o st' hw h
  exact ⟨he, evs, ht, fun r v hm => hev (r, v) hm⟩

/-- the same for a whole program run by the driver (`runProg`: from the all-unbound state, empty trace) -/
theorem runProg_sound (prog : Stmt) (ds : List Bool) (o : Outcome) (trace : List (RId × Option Site))
    (hw : runWf prog = true) (h : runProg prog ds = some (o, trace)) :
    ∀ r v, (r, v) ∈ trace → ∃ x σr, (r, x) ∈ readsOf prog ∧ Reach prog State.init r σr ∧ σr x = v := by
  unfold runProg at h
  rcases hr : run 400 prog { σ := State.init, ds := ds, tr := [] } with _ | ⟨o', st'⟩
  · simp [hr] at h
  · simp only [hr, Option.some.injEq, Prod.mk.injEq] at h
    obtain ⟨_, rfl⟩ := h
    obtain ⟨_, evs, ht, hev⟩ := run_sound 400 prog _ o' st' hw hr
    intro r v hm
    simp only [List.append_nil] at ht
    exact hev r v (by rw [← ht]; simpa using hm)

/-- executable run ⇒ supp's answer: a site the model's run observes at a read of this program is among the definitions
    supp lists for that read's name (module level: everything unbound on entry) -/
theorem run_observed_listed (ks : List Ident) (prog : Stmt) (ds : List Bool) (o : Outcome)
    (trace : List (RId × Option Site)) (F : Tbl) (r : RId) (d : Site)
    (hw : runWf prog = true) (hfrag : inC02 prog = true) (h : runProg prog ds = some (o, trace))
    (hm : (r, some d) ∈ trace) (hown : r ∉ nestedReads prog) :
    ∃ x, (r, x) ∈ readsOf prog ∧ (lateRead prog r x = false → some d ∈ (at_ ks prog r Tbl.empty F).get x) := by
  obtain ⟨x, σr, hx, hreach, hv⟩ := runProg_sound prog ds o trace hw h r (some d) hm
  exact ⟨x, hx, fun hl => C02_sound ks prog State.init σr r x Tbl.empty F d hfrag hown hl hreach
    (by intro d' hd; simp [State.init] at hd) hv⟩

/-! non-vacuity -/

/-- `c = …; while c: c = …` : the test read (id 1) is evaluated again after the body and then sees site 2 -/
def exWhile : Stmt := .seq (.bind "c" 1) (.while_ (.read "c" 1) (.bind "c" 2) .skip)

example : Reach exWhile State.init 1 ((State.init.upd "c" 1).upd "c" 2) :=
  .seqN .bind (.whileStep .read .bind (.inl rfl) (.whileS .readStop))
example : inC02 exWhile = true := by decide
example : runWf exWhile = true := by decide
example : (runProg exWhile [true, false]).map (·.2) = some [(1, some 1), (1, some 2)] := by decide
example : some 2 ∈ (at_ [] exWhile 1 Tbl.empty Tbl.empty).get "c" := by decide
example : some 1 ∈ (at_ [] exWhile 1 Tbl.empty Tbl.empty).get "c" := by decide

/-- the loop-carried read inside a branch: `for a in …: (if …: read b); b = …` -/
def exLoop : Stmt :=
  .for_ .skip (.bind "a" 1) (.seq (.ite .skip (.read "b" 7) .skip) (.bind "b" 2)) .skip

example : inC02 exLoop = true := by decide
example : (at_ [] exLoop 7 Tbl.empty Tbl.empty).get "b" = [none, some 2] := by decide
example : Reach exLoop State.init 7 ((State.init.upd "a" 1).upd "b" 2 |>.upd "a" 1) :=
  .for_ (.seqN .skip (.whileStep .skip (.seqN .bind (.seqN (.iteF .skip .skip) .bind)) (.inl rfl)
    (.whileAbort .skip (.seqN .bind (.seqA (.iteT .skip .readStop) (by simp))) (.inr (.inr ⟨7, rfl⟩)))))

/-- a read in a handler sees what the try body bound before the raise point at its end -/
def exTry : Stmt := .tryx false true (.bind "a" 1) (.hcons .skip .skip (.read "a" 3) .hnil) .skip
example : inC02 exTry = true := by decide
example : Reach exTry State.init 3 (State.init.upd "a" 1) := .tryX2 .bind (.hMatchS .skip .skip .readStop)
example : (at_ [] exTry 3 Tbl.empty Tbl.empty).get "a" = [none, some 1] := by decide

/-- a comprehension `[… i … for i in a]`: the element's read of the comprehension variable -/
def exComp : Stmt := .comp (.read "a" 1) (.cfor (.bind "i" 1) .skip (.read "i" 2))
example : inC02 exComp = true := by decide
example : lateRead exComp 2 "i" = false := by decide
example : Reach exComp State.init 2 ((State.hide ["i"] State.init).upd "i" 1) :=
  .compS2 .read (.iterS2 .bind .skip .readStop)
example : (at_ [] exComp 2 Tbl.empty Tbl.empty).get "i" = [some 1] := by decide

end SuppModel.Props.C02
