/- C02 — the definition actually read is reported.
   Statements only; proofs are in Den/Lemmas*.lean.  Model: Den/Model.lean (`A`, `at_`: supp's tables),
   Den/Sem.lean (`Exec`, `Reach`: Python's binding semantics, tests and raise points as oracle decisions). -/
import SuppModel.Den.Lemmas2
namespace SuppModel.Props.C02
open SuppModel.Den

/-- C02 (full strength on the C02 fragment, for every table memo parameter `ks`, every entry table `T`, every final
    table `F`): if some execution of the scope body `s` from `σ` evaluates read `r` in a state where name `x` holds the
    binding made at site `d`, and `T` lists the binding `x` holds on entry (if any), then `d` is among the
    definitions supp associates with `x` at `r` — reads in loop bodies, loop tests (evaluated again after the body),
    handlers, else / finally branches included. -/
theorem C02_sound (ks : List Ident) (s : Stmt) (σ σr : State) (r : RId) (x : Ident) (T F : Tbl) (d : Site)
    (hfrag : inC02 s = true) (hown : r ∉ nestedReads s) (hlate : lateRead s r x = false)
    (hreach : Reach s σ r σr)
    (hT : ∀ d', σ x = some d' → some d' ∈ T.get x)
    (hx : σr x = some d) :
    some d ∈ (at_ ks s r T F).get x := by
  rcases (exec_good true false x hreach).1 hfrag (.inl rfl) with ⟨h, _⟩ | ⟨r', h, hs⟩
  · cases h
  · cases h
    rw [at_normal ks s r T F x (some d) hown]
    rcases hs (some d) (by simp) hx with h | h | ⟨h1, h2⟩
    · rw [hlate] at h; cases h
    · exact .inl h
    · exact .inr ⟨h1, hT d h2⟩

example : inC02 (.while_ (.read "c" 1) (.bind "c" 2) .skip) = true := by decide

/-- the table after a scope body that ran to completion lists the binding every name holds -/
theorem C02_table_sound (ks : List Ident) (s : Stmt) (σ σ' : State) (x : Ident) (T : Tbl) (d : Site)
    (hfrag : inC02 s = true) (hexec : Exec s σ .normal σ')
    (hT : ∀ d', σ x = some d' → some d' ∈ T.get x) (hx : σ' x = some d) :
    some d ∈ (A ks s T).get x := by
  rcases (exec_good true false x hexec).1 hfrag (.inl rfl) with ⟨_, hs⟩ | ⟨r', h, _⟩
  · rw [A_normal]
    rcases hs (some d) (by simp) hx with h | ⟨h1, h2⟩
    · exact .inl h
    · exact .inr ⟨h1, hT d h2⟩
  · cases h

/-- executions of the fragment never end in a jump or an uncaught exception -/
theorem C02_outcomes (s : Stmt) (σ σ' : State) (o : Outcome) (hfrag : inC02 s = true) (hexec : Exec s σ o σ') :
    o = .normal ∨ ∃ r, o = .stop r := by
  rcases (exec_good true false "" hexec).1 hfrag (.inl rfl) with ⟨h, _⟩ | ⟨r', h, _⟩
  · exact .inl h
  · exact .inr ⟨r', h⟩

/-- abstract lint layer: `lint` marks every alternative of every read as used (`use_name`) -/
def markedUsed (ks : List Ident) (s : Stmt) (T F : Tbl) (d : Site) : Prop :=
  ∃ r x, (r, x) ∈ readsOf s ∧ some d ∈ (at_ ks s r T F).get x

/-- a binding some execution reads is marked used: never reported as 'Unused name' / 'Unused import' -/
theorem C02_no_false_unused (ks : List Ident) (s : Stmt) (σ σr : State) (r : RId) (x : Ident) (T F : Tbl) (d : Site)
    (hfrag : inC02 s = true) (hown : r ∉ nestedReads s) (hlate : lateRead s r x = false) (hread : (r, x) ∈ readsOf s)
    (hreach : Reach s σ r σr) (hT : ∀ d', σ x = some d' → some d' ∈ T.get x) (hx : σr x = some d) :
    markedUsed ks s T F d :=
  ⟨r, x, hread, C02_sound ks s σ σr r x T F d hfrag hown hlate hreach hT hx⟩

/-! non-vacuity -/

/-- `c = …; while c: c = …` : the test read (id 1) is evaluated again after the body and then sees site 2 -/
def exWhile : Stmt := .seq (.bind "c" 1) (.while_ (.read "c" 1) (.bind "c" 2) .skip)

example : Reach exWhile State.init 1 ((State.init.upd "c" 1).upd "c" 2) :=
  .seqN .bind (.whileStep .read .bind (.inl rfl) (.whileS .readStop))
example : inC02 exWhile = true := by decide
example : some 2 ∈ (at_ [] exWhile 1 Tbl.empty Tbl.empty).get "c" := by decide
example : some 1 ∈ (at_ [] exWhile 1 Tbl.empty Tbl.empty).get "c" := by decide

/-- the loop-carried read inside a branch: `for a in …: (if …: read b); b = …` -/
def exLoop : Stmt :=
  .for_ .skip (.bind "a" 1) (.seq (.ite .skip (.read "b" 7) .skip) (.bind "b" 2)) .skip

example : inC02 exLoop = true := by decide
example : (at_ [] exLoop 7 Tbl.empty Tbl.empty).get "b" = [none, some 2] := by decide
example : Reach exLoop State.init 7 ((State.init.upd "a" 1).upd "b" 2 |>.upd "a" 1) :=
  .for_ (.seqN .skip (.whileStep .skip (.seqN .bind (.seqN (.iteF .skip .skip) .bind)) (.inl rfl)
    (.whileAbort .skip (.seqN .bind (.seqA (.iteT .skip .readStop) (by simp))) (.inr (.inr ⟨7, rfl⟩)))))

/-- a read in a handler sees what the try body bound before the raise point at its end -/
def exTry : Stmt := .tryx false true (.bind "a" 1) (.hcons .skip .skip (.read "a" 3) .hnil) .skip
example : inC02 exTry = true := by decide
example : Reach exTry State.init 3 (State.init.upd "a" 1) := .tryX2 .bind (.hMatch .skip .skip .readStop)
example : (at_ [] exTry 3 Tbl.empty Tbl.empty).get "a" = [none, some 1] := by decide

/-- a comprehension `[… i … for i in a]`: the element's read of the comprehension variable -/
def exComp : Stmt := .comp (.read "a" 1) (.cfor (.bind "i" 1) .skip (.read "i" 2))
example : inC02 exComp = true := by decide
example : lateRead exComp 2 "i" = false := by decide
example : Reach exComp State.init 2 ((State.hide ["i"] State.init).upd "i" 1) :=
  .compS2 .read (.iterS2 .bind .skip .readStop)
example : (at_ [] exComp 2 Tbl.empty Tbl.empty).get "i" = [some 1] := by decide

end SuppModel.Props.C02
