/- C01 — names bound at run time are visible.  Statements only; proofs in Den/Lemmas*.lean. -/
import SuppModel.Den.Lemmas3
import SuppModel.Props.C02
namespace SuppModel.Props.C01
open SuppModel.Den

/-- the full-strength statement (full grammar of one scope body: jumps and raise points anywhere): if some execution
    evaluates read `r` in a state where `x` is bound — by an earlier event of the same scope body, or already on entry
    with the entry table listing a definition — supp's answer for `x` at `r` contains a definition.
    NOT proved in this development (the induction over executions with jumps is missing); it is exercised by the CPython
    oracle of harness/c01.py on the full grammar.  Proved: the same statement on the C02 fragment
    (`C01_visible_partial`), the table-level monotonicity for the full grammar (`C01_keys_grow`) and the entry table of
    nested function scopes (`C01_outer`). -/
def C01_visible_stmt : Prop :=
  ∀ (ks : List Ident) (s : Stmt) (σ σr : State) (r : RId) (x : Ident) (T F : Tbl) (d : Site),
    wf s = true → r ∉ nestedReads s → Reach s σ r σr → σr x = some d →
    ((∃ d', σ x = some d') → HasDef (T.get x)) → HasDef ((at_ ks s r T F).get x)

/-- C01 on the structured fragment (no jumps): a read that finds `x` bound is never answered "undefined" -/
theorem C01_visible_partial (ks : List Ident) (s : Stmt) (σ σr : State) (r : RId) (x : Ident) (T F : Tbl) (d : Site)
    (hfrag : inC02 s = true) (hown : r ∉ nestedReads s) (hreach : Reach s σ r σr) (hx : σr x = some d)
    (hT : ∀ d', σ x = some d' → some d' ∈ T.get x) :
    HasDef ((at_ ks s r T F).get x) :=
  ⟨d, C02.C02_sound ks s σ σr r x T F d hfrag hown hreach hT hx⟩

/-- key sets only grow along a region, whatever jumps and raise points the statement contains (supp ignores them):
    a name that has a definition before `s` has one after `s` -/
theorem C01_keys_grow (ks : List Ident) (s : Stmt) (T : Tbl) (x : Ident) (hwf : wf s = true)
    (h : HasDef (T.get x)) : HasDef ((A ks s T).get x) :=
  keys_grow ks s T x hwf h

/-- outer names: the entry table of a function / lambda body gives a name the function does not bind itself exactly
    the enclosing scope's FINAL table (comprehension variables of the body are not locals) -/
theorem C01_outer (ks : List Ident) (F : Tbl) (params body : Stmt) (x : Ident) (v : Option Site)
    (hp : isBinds params = true) (hx : x ∉ localsOf params ++ localsOf body) :
    v ∈ (funcEntry ks F params body).get x ↔ v ∈ F.get x := by
  simp only [List.mem_append, not_or] at hx
  unfold funcEntry
  rw [A_normal]
  simp [isBinds_pass params hp x hx.1, isBinds_gen params hp x v hx.1, hx.1, hx.2]

/-- … hence a read inside the body, on a path that does not rebind `x`, sees every definition the enclosing scope's
    final table has for `x` -/
theorem C01_outer_read (ks : List Ident) (F : Tbl) (params body : Stmt) (r : RId) (x : Ident) (d : Site)
    (hp : isBinds params = true) (hx : x ∉ localsOf params ++ localsOf body)
    (hown : r ∉ nestedReads body) (hpath : passAt body r x) (hF : some d ∈ F.get x) :
    let E := funcEntry ks F params body
    some d ∈ (at_ ks body r E (A ks body E)).get x := by
  intro E
  rw [at_normal ks body r E _ x (some d) hown]
  exact .inr ⟨hpath, (C01_outer ks F params body x (some d) hp hx).2 hF⟩

/-- class bodies start from ALL of the enclosing final table -/
theorem C01_class_entry (ks : List Ident) (pre body : Stmt) (c : Ident) (d : Site) (r : RId) (T F : Tbl) (x : Ident)
    (v : Option Site) (hpre : r ∉ (readsOf pre).map (·.1)) :
    v ∈ (at_ ks (.cls pre c d body) r T F).get x ↔ v ∈ (at_ ks body r F F).get x := by
  simp [at_, mem_join, at_none ks pre r T F x hpre]

/-! non-vacuity -/
example : wf (.seq (.while_ .skip (.seq (.bind "a" 1) .brk) .skip) (.read "a" 2)) = true := by decide
example : HasDef ((at_ [] (.seq (.while_ .skip (.seq (.bind "a" 1) .brk) .skip) (.read "a" 2)) 2 Tbl.empty Tbl.empty).get "a") :=
  ⟨1, by decide⟩
/-- module `x = …; def f(): read x` : the body's read of `x` sees the module binding -/
example : some 1 ∈ (answer (.seq (.bind "x" 1) (.def_ .skip "f" 2 .skip (.read "x" 7))) 7 "x") := by decide

end SuppModel.Props.C01
