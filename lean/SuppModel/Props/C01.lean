/- C01 — names bound at run time are visible.  Statements only; proofs in Den/Lemmas*.lean. -/
import SuppModel.Den.Lemmas5
import SuppModel.Props.C02
namespace SuppModel.Props.C01
open SuppModel.Den

/-- C01 (full grammar of one scope body: jumps — break / continue / return / raise — and raise points anywhere, loops,
    try / except / else / finally, definitions): if some execution evaluates read `r` in a state where `x` is bound — by
    an earlier event of the same scope body, or already on entry with the entry table listing a definition — then
    supp's answer for `x` at `r` contains a definition (supp does not answer "undefined").
    `wf s`: handler chains only inside `tryx`, for-targets are bindings, no binding of a name declared `global`
    (comprehensions have no execution rule: reads inside them are not covered, see the harness evidence).
    Proof: `exec_vis` (induction over executions: every binding that can precede `r` on any path — jumps only go
    forward / outward, `finally` runs on every outcome — is in the part of `s` supp puts before `r`, `GA1`) and
    `pass_or_gen` (a region never loses a name). -/
theorem C01_visible (ks : List Ident) (s : Stmt) (σ σr : State) (r : RId) (x : Ident) (T F : Tbl) (d : Site)
    (hwf : wf s = true) (hown : r ∉ nestedReads s) (hreach : Reach s σ r σr) (hx : σr x = some d)
    (hT : (∃ d', σ x = some d') → HasDef (T.get x)) :
    HasDef ((at_ ks s r T F).get x) := by
  rcases ((exec_vis x hreach).1 hwf).2 r rfl ⟨d, hx⟩ with ⟨d', hg⟩ | ⟨hp, hb⟩
  · exact ⟨d', (at_normal ks s r T F x (some d') hown).2 (.inl hg)⟩
  · obtain ⟨d', hd⟩ := hT hb
    exact ⟨d', (at_normal ks s r T F x (some d') hown).2 (.inr ⟨hp, hd⟩)⟩

/-- the same for the table after a statement, whatever way it is left (normally, by a jump, by an exception) -/
theorem C01_visible_after (ks : List Ident) (s : Stmt) (σ σ' : State) (o : Outcome) (x : Ident) (T : Tbl) (d : Site)
    (hwf : wf s = true) (hexec : Exec s σ o σ') (ho : ∀ r, o ≠ .stop r) (hx : σ' x = some d)
    (hT : (∃ d', σ x = some d') → HasDef (T.get x)) :
    HasDef ((A ks s T).get x) := by
  rcases ((exec_vis x hexec).1 hwf).1 ho ⟨d, hx⟩ with ⟨d', hg⟩ | ⟨hp, hb⟩
  · exact ⟨d', (A_normal ks s T x (some d')).2 (.inl hg)⟩
  · obtain ⟨d', hd⟩ := hT hb
    exact ⟨d', (A_normal ks s T x (some d')).2 (.inr ⟨hp, hd⟩)⟩

/-- non-vacuity: `while …: a = …; break` then a read of `a`; the execution leaves the loop by the jump -/
def exBreak : Stmt := .seq (.while_ .skip (.seq (.bind "a" 1) .brk) .skip) (.read "a" 2)
example : wf exBreak = true := by decide
example : Reach exBreak State.init 2 (State.init.upd "a" 1) :=
  .seqN (.whileBrk .skip (.seqN .bind .brk)) .readStop
example : HasDef ((at_ [] exBreak 2 Tbl.empty Tbl.empty).get "a") :=
  C01_visible [] exBreak State.init _ 2 "a" Tbl.empty Tbl.empty 1 (by decide) (by decide)
    (.seqN (.whileBrk .skip (.seqN .bind .brk)) .readStop) (by simp [State.upd]) (by simp [State.init])

/-- non-vacuity: an exception raised in the middle of a try body, read in the handler -/
def exRaise : Stmt :=
  .tryx false false (.seq (.bind "a" 1) (.seq .raise_ (.bind "a" 2))) (.hcons .skip .skip (.read "a" 3) .hnil) .skip
example : wf exRaise = true := by decide
example : Reach exRaise State.init 3 (State.init.upd "a" 1) :=
  .tryX (.seqN .bind (.seqA .raise_ (by simp))) (.hMatchS .skip .skip .readStop)

/-- on the structured fragment (no jumps) the answer even contains the very definition that is read (from C02) -/
theorem C01_visible_partial (ks : List Ident) (s : Stmt) (σ σr : State) (r : RId) (x : Ident) (T F : Tbl) (d : Site)
    (hfrag : inC02 s = true) (hown : r ∉ nestedReads s) (hlate : lateRead s r x = false) (hreach : Reach s σ r σr)
    (hx : σr x = some d) (hT : ∀ d', σ x = some d' → some d' ∈ T.get x) :
    HasDef ((at_ ks s r T F).get x) :=
  ⟨d, C02.C02_sound ks s σ σr r x T F d hfrag hown hlate hreach hT hx⟩

/-- key sets only grow along a region, whatever jumps and raise points the statement contains (supp ignores them):
    a name that has a definition before `s` has one after `s` -/
theorem C01_keys_grow (ks : List Ident) (s : Stmt) (T : Tbl) (x : Ident) (hwf : wf s = true)
    (h : HasDef (T.get x)) : HasDef ((A ks s T).get x) :=
  keys_grow ks s T x hwf h

/-- outer names: the entry table of a function / lambda body gives a name the function does not bind itself exactly
    the enclosing scope's FINAL table (comprehension variables of the body are not locals) -/
theorem C01_outer (ks : List Ident) (F : Tbl) (params body : Stmt) (x : Ident) (v : Option Site)
    (hp : isBinds params = true) (hx : x ∉ localsOf params ++ localsOf body) :
    v ∈ (funcEntry ks F params body).get x ↔ v ∈ F.get x := by
  simp only [List.mem_append, not_or] at hx
  unfold funcEntry
  rw [A_normal]
  simp [isBinds_pass params hp x hx.1, isBinds_gen params hp x v hx.1, hx.1, hx.2]

/-- … hence a read inside the body, on a path that does not rebind `x`, sees every definition the enclosing scope's
    final table has for `x` -/
theorem C01_outer_read (ks : List Ident) (F : Tbl) (params body : Stmt) (r : RId) (x : Ident) (d : Site)
    (hp : isBinds params = true) (hx : x ∉ localsOf params ++ localsOf body)
    (hown : r ∉ nestedReads body) (hpath : passAt body r x) (hF : some d ∈ F.get x) :
    let E := funcEntry ks F params body
    some d ∈ (at_ ks body r E (A ks body E)).get x := by
  intro E
  rw [at_normal ks body r E _ x (some d) hown]
  exact .inr ⟨hpath, (C01_outer ks F params body x (some d) hp hx).2 hF⟩

/-- class bodies start from ALL of the enclosing final table -/
theorem C01_class_entry (ks : List Ident) (pre body : Stmt) (c : Ident) (d : Site) (r : RId) (T F : Tbl) (x : Ident)
    (v : Option Site) (hpre : r ∉ (readsOf pre).map (·.1)) :
    v ∈ (at_ ks (.cls pre c d body) r T F).get x ↔ v ∈ (at_ ks body r F F).get x := by
  simp [at_, mem_join, at_none ks pre r T F x hpre]

/-! non-vacuity -/
example : wf (.seq (.while_ .skip (.seq (.bind "a" 1) .brk) .skip) (.read "a" 2)) = true := by decide
example : HasDef ((at_ [] (.seq (.while_ .skip (.seq (.bind "a" 1) .brk) .skip) (.read "a" 2)) 2 Tbl.empty Tbl.empty).get "a") :=
  ⟨1, by decide⟩
/-- module `x = …; def f(): read x` : the body's read of `x` sees the module binding -/
example : some 1 ∈ (answer (.seq (.bind "x" 1) (.def_ .skip "f" 2 .skip (.read "x" 7))) 7 "x") := by decide

end SuppModel.Props.C01
