/-
  C12 — completion: the prefix is exactly the identifier run left of the cursor; the proposals are a
  sorted, duplicate-free list that never contains the cursor marker; inserting the mark inside an
  identifier and unmarking gives the identifier back.
  Property theorems ONLY (helper lemmas live in SuppModel/Text/LemmasC12.lean).
  Every statement is about the executable model of SuppModel/Text/Model.lean; `isWord` (Python's `\w`)
  is an abstract parameter.
-/
import SuppModel.Text.LemmasC12

namespace SuppModel.Props.C12
open SuppModel.Text

/-! ## the prefix -/

/-- `re.split(r'\W', line)[-1]` is the longest run of word characters that ends at the cursor -/
theorem C12_prefix (isWord : Char → Bool) (line : Str) :
    prefixOf isWord line = identSuffix isWord line :=
  prefixOf_eq isWord line

example : prefixOf asciiWord ['x', '=', 'f', 'o'] = ['f', 'o'] ∧
    identSuffix asciiWord ['x', '=', 'f', 'o'] = ['f', 'o'] := by decide

/-- `identSuffix` is what its name says: a suffix, made of word characters, and the longest such -/
theorem C12_prefix_spec (isWord : Char → Bool) (line : Str) :
    identSuffix isWord line <:+ line ∧ (identSuffix isWord line).all isWord = true ∧
      ∀ s, s <:+ line → s.all isWord = true → s.length ≤ (identSuffix isWord line).length :=
  ⟨identSuffix_suffix isWord line, identSuffix_all isWord line,
   fun s hs ha => identSuffix_longest isWord line s hs ha⟩

-- a word suffix that is strictly shorter than the prefix exists (the bound is not trivially tight)
example : (['o'] : Str) <:+ ['x', '=', 'f', 'o'] ∧ (['o'] : Str).all asciiWord = true ∧
    (['o'] : Str).length < (identSuffix asciiWord ['x', '=', 'f', 'o']).length := by
  refine ⟨⟨['x', '=', 'f'], rfl⟩, by decide, by decide⟩

/-- it cannot be extended to the left: the line is all of it, or the character before it is not a
    word character -/
theorem C12_prefix_maximal (isWord : Char → Bool) (line : Str) :
    identSuffix isWord line = line ∨
      ∃ pre c, line = pre ++ c :: identSuffix isWord line ∧ isWord c = false :=
  identSuffix_maximal isWord line

-- both sides occur
example : identSuffix asciiWord ['f', 'o'] = ['f', 'o'] ∧
    (['x', '=', 'f', 'o'] : Str) = ['x'] ++ '=' :: identSuffix asciiWord ['x', '=', 'f', 'o'] ∧
    asciiWord '=' = false := by decide

/-! ## the `from` branch: `from_module = re.match(r'\s*from\s+([\w.]*)$', line)` -/

/-- when the pattern matches, the module text ends the line, consists of word characters and dots, and follows a
    whitespace character -/
theorem C12_from_match (isWord : Char → Bool) (line m : Str) (h : fromMatch isWord line = some m) :
    (∃ pre w, line = pre ++ w :: m ∧ pyIsSpace w = true) ∧ m.all (fun c => isWord c || c == '.') = true :=
  fromMatch_shape isWord line m h

example : fromMatch asciiWord "  from\t os.pa".toList = some "os.pa".toList ∧
    fromMatch asciiWord "from os import(pa".toList = none ∧ fromMatch asciiWord "fromage".toList = none ∧
    fromMatch asciiWord "from ".toList = some [] := by decide

/-- the full statement for the `from` branch (false of the code before ab8463e, `Witness.C12.C12_from_legacy_false`):
    the returned prefix, the text after the last dot of the module text, IS the longest run of word characters left of
    the cursor.  Hypotheses on the abstract word class: no whitespace character and not the dot (true of `\w`). -/
theorem C12_from_stmt (isWord : Char → Bool) (line m : Str)
    (hsp : ∀ c, pyIsSpace c = true → isWord c = false) (hdot : isWord Generated.fromSep2 = false)
    (h : fromMatch isWord line = some m) : fromPrefixOf m = identSuffix isWord line :=
  fromPrefixOf_eq_identSuffix isWord line m hsp hdot h

-- the hypotheses hold for the ASCII word class; `from os.pa|` is in the branch and gives `pa`
example : (∀ c, pyIsSpace c = true → asciiWord c = false) ∧ asciiWord Generated.fromSep2 = false ∧
    fromMatch asciiWord "from os.pa".toList = some "os.pa".toList ∧ fromPrefixOf "os.pa".toList = "pa".toList :=
  ⟨asciiWord_not_space, by decide, by decide, by decide⟩

/-- so on EVERY line (all three prefix sites of assist: `from` branch, marked import, generic) the first component of
    assist's result is the longest run of word characters left of the cursor -/
theorem C12_assist_prefix (isWord : Char → Bool) (line : Str)
    (hsp : ∀ c, pyIsSpace c = true → isWord c = false) (hdot : isWord Generated.fromSep2 = false) :
    assistPrefix isWord line = identSuffix isWord line :=
  assistPrefix_eq isWord line hsp hdot

-- the lines that used to go wrong
example : assistPrefix asciiWord "from os import(pa".toList = "pa".toList ∧
    assistPrefix asciiWord "from os\timpo".toList = "impo".toList ∧
    assistPrefix asciiWord "from \tr".toList = "r".toList ∧
    assistPrefix asciiWord "from os.pa".toList = "pa".toList := by decide

/-! ## the proposals -/

/-- `<=` on str is a total order (reflexive, transitive, total, antisymmetric): "sorted" determines
    the list -/
theorem C12_order :
    (∀ a, strLe a a = true) ∧
    (∀ a b c, strLe a b = true → strLe b c = true → strLe a c = true) ∧
    (∀ a b, strLe a b = true ∨ strLe b a = true) ∧
    (∀ a b, strLe a b = true → strLe b a = true → a = b) :=
  ⟨strLe_refl, strLe_trans, strLe_total, strLe_antisymm⟩

example : strLe ['a', 'b'] ['a', 'c'] = true ∧ strLe ['a', 'c'] ['a', 'b'] = false ∧
    strLe ['a'] ['a', 'b'] = true := by decide

/-- the proposals are strictly sorted: sorted and free of duplicates -/
theorem C12_sorted_nodup {α} (t : List (Str × α)) :
    (proposals t).Pairwise (fun a b => strLe a b = true ∧ a ≠ b) :=
  proposals_sorted_nodup t

/-- they are the unmarked keys of the table -/
theorem C12_proposals_mem {α} (t : List (Str × α)) (n : Str) :
    n ∈ proposals t ↔ (∃ v, (n, v) ∈ t) ∧ marked n = false :=
  proposals_mem t n

-- a table with a repeated key, unsorted
example : proposals [(['b'], 1), (['a'], 2), (['b'], 3), (['a', 'b'], 4)] = [['a'], ['a', 'b'], ['b']] := by
  decide

/-- `SOURCE_MARK in s` is: the mark is a contiguous sublist of `s` -/
theorem C12_marked_iff (n : Str) : marked n = true ↔ Generated.sourceMark <:+: n :=
  contains_iff n Generated.sourceMark

example : marked (['b', 'a'] ++ Generated.sourceMark ++ ['r']) = true ∧ marked ['b', 'a', 'r'] = false := by
  decide

/-- no proposal contains the cursor marker -/
theorem C12_no_mark {α} (t : List (Str × α)) :
    ∀ n ∈ proposals t, ¬ (Generated.sourceMark <:+: n) := by
  intro n hn hi
  have h := ((proposals_mem t n).mp hn).2
  have h2 : marked n = true := (contains_iff n Generated.sourceMark).mpr hi
  rw [h2] at h
  cases h

-- the marked key (the name under the cursor) is dropped, the others stay
example : proposals [(['b', 'a'] ++ Generated.sourceMark ++ ['r'], ()), (['b', 'a', 'r'], ())] =
    [['b', 'a', 'r']] := by decide

/-! ## the mark -/

/-- specification of `str.find` as the model computes it: the first offset at which `sub` is a prefix -/
theorem C12_find_spec (sub s : Str) (i k : Nat) :
    (findAux sub s i = some (i + k) ↔
      k ≤ s.length ∧ sub <+: s.drop k ∧ ∀ j, j < k → ¬ sub <+: s.drop j) ∧
    (findAux sub s i = none ↔ ∀ k, k ≤ s.length → ¬ sub <+: s.drop k) :=
  ⟨findAux_eq_some sub s i k, findAux_eq_none sub s i⟩

example : pyFind ['a', 'b', 'c', 'b', 'c'] ['b', 'c'] 0 = some 1 ∧
    pyFind ['a', 'b', 'c', 'b', 'c'] ['b', 'c'] 2 = some 3 ∧
    pyFind ['a', 'b', 'c', 'b', 'c'] ['c', 'a'] 0 = none := by decide

/-- `noEarlyMark a`: no occurrence of the mark starts inside `a` once the mark is appended -/
theorem C12_noEarlyMark_iff (a : Str) :
    noEarlyMark a = true ↔
      ∀ i, i < a.length → ¬ Generated.sourceMark <+: (a ++ Generated.sourceMark).drop i :=
  noEarlyMark_iff a

/-- in particular when there is no underscore left of the cursor -/
theorem C12_noEarlyMark_of_no_underscore (a : Str) (h : '_' ∉ a) : noEarlyMark a = true :=
  noEarlyMark_of_no_underscore a h

example : noEarlyMark ['o', 's', '.', 'p', 'a'] = true ∧ noEarlyMark ['_', '_', 'i', 'n'] = true ∧
    noEarlyMark ['_', '_', 's', 'u', 'p', 'p', '_', 'm', 'a', 'r', 'k'] = false := by decide

/-- unmarking removes the inserted mark and cuts at the first `'.'` right of it, provided the inserted
    mark is the first occurrence of the mark -/
theorem C12_unmark (a b : Str)
    (h : ∀ i, i < a.length → ¬ Generated.sourceMark <+: (a ++ Generated.sourceMark).drop i) :
    unmark (a ++ Generated.sourceMark ++ b) = a ++ b.takeWhile (· != '.') :=
  unmark_insert a b h

/-- the same with the decidable hypothesis -/
theorem C12_unmark_bool (a b : Str) (h : noEarlyMark a = true) :
    unmark (a ++ Generated.sourceMark ++ b) = a ++ b.takeWhile (· != '.') :=
  unmark_insert a b ((noEarlyMark_iff a).mp h)

example : unmark (['o', 's', '.', 'p', 'a'] ++ Generated.sourceMark ++ ['t', 'h', '.', 'x']) =
    ['o', 's', '.', 'p', 'a', 't', 'h'] := by decide

/-- a marked line is marked, wherever the cursor is -/
theorem C12_marked_markLine (line : Str) (col : Nat) : marked (markLine line col) = true :=
  marked_insert _ _

example : markLine ['f', 'o', 'o'] 7 = ['f', 'o', 'o'] ++ Generated.sourceMark := by decide

/-- the cursor is transparent: marking inside an identifier (no `'.'` right of the cursor) and
    unmarking gives the identifier back -/
theorem C12_unmark_ident (ident : Str) (col : Nat) (hdot : '.' ∉ ident.drop col)
    (h : noEarlyMark (ident.take col) = true) : unmark (markLine ident col) = ident := by
  rw [markLine, unmark_insert _ _ ((noEarlyMark_iff _).mp h), takeWhile_ne_dot_of_not_mem _ hdot,
    List.take_append_drop]

example : '.' ∉ (['p', 'a', 't', 'h'] : Str).drop 2 ∧
    noEarlyMark ((['p', 'a', 't', 'h'] : Str).take 2) = true ∧
    unmark (markLine ['p', 'a', 't', 'h'] 2) = ['p', 'a', 't', 'h'] := by decide

/-- dotted import names: unmarking keeps the components up to the one under the cursor -/
theorem C12_unmark_dotted (a b c : Str) (hb : '.' ∉ b) (h : noEarlyMark a = true) :
    unmark (a ++ Generated.sourceMark ++ b ++ '.' :: c) = a ++ b := by
  rw [List.append_assoc (a ++ Generated.sourceMark), unmark_insert _ _ ((noEarlyMark_iff a).mp h),
    takeWhile_ne_dot_append b c hb]

example : '.' ∉ (['t', 'h'] : Str) ∧ noEarlyMark ['o', 's', '.', 'p', 'a'] = true ∧
    unmark (['o', 's', '.', 'p', 'a'] ++ Generated.sourceMark ++ ['t', 'h'] ++ '.' :: ['j', 'o', 'i', 'n']) =
      ['o', 's', '.', 'p', 'a', 't', 'h'] := by decide

end SuppModel.Props.C12
