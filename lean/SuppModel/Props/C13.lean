/-
  C13 — the analysis depends on program structure, not on layout (graph-level part).
  Property theorems ONLY.  Two layouts of one program give flow graphs that differ only in
  the positions they carry; the harness checks, for every layout pair, that the two REAL
  graphs are the same up to a position map that preserves order within every region
  (decidable, evaluated by the driver).  These theorems say that such a map cannot change
  any answer: the evaluator compares positions, never computes with them.
-/
import SuppModel.Flow.LemmasScoping

namespace SuppModel.Props.C13
open SuppModel.Flow

/-- `bisect_right` only compares: an order-preserving map of the positions involved leaves
    the index unchanged -/
theorem C13_bisect (φ : Pos → Pos) (names : List NameRec) (pos : Pos)
    (h : OrderPreserving φ (pos :: names.map (·.loc))) :
    bisectRight (names.map (NameRec.mapLoc φ)) (φ pos) = bisectRight names pos :=
  bisectRight_map φ names pos h

/-- `insert_loc` commutes with an order-preserving map -/
theorem C13_insert (φ : Pos → Pos) (names : List NameRec) (n : NameRec)
    (h : OrderPreserving φ (n.loc :: names.map (·.loc))) :
    insertLoc (names.map (NameRec.mapLoc φ)) (NameRec.mapLoc φ n) = (insertLoc names n).map (NameRec.mapLoc φ) :=
  insertLoc_map φ names n h

/-- LAYOUT INDEPENDENCE of a query: re-positioning a graph by a map that preserves the order
    of the positions of the queried region (its bindings and the query position) does not
    change the table — same keys, same alternatives (bindings are identified by identity,
    not by position) -/
theorem C13_names_at (φ : Pos → Pos) (g : Graph) (n : Nat) (R : List Nat) (f : Nat) (pos : Pos)
    (h : OrderPreserving φ (g.flowPositions f pos)) :
    namesAt (g.mapLoc φ) n R f (φ pos) = namesAt g n R f pos :=
  namesAt_mapLoc φ g n R f pos h

/-- and of a whole history on the memoised evaluator -/
theorem C13_history (φ : Pos → Pos) (g : Graph) (n : Nat) (qs : List Query)
    (h : ∀ q ∈ qs, OrderPreserving φ (g.flowPositions q.flow q.pos)) :
    runQueries (g.mapLoc φ) n {} (qs.map (fun q => { q with pos := φ q.pos })) = runQueries g n {} qs :=
  runQueries_mapLoc φ g n qs {} h

/-- LAYOUT INDEPENDENCE, two-graph form (what the harness's layout pairs instantiate): two graphs
    that are equal once positions are erased (`sameShape`, evaluated by the driver) give the same
    table - literally: bindings are identified by id - for two query positions that make the same
    comparisons with the bindings of the queried region (`queryIsoAt`, evaluated by the driver:
    exactly what `bisect_right` observes - for each binding, whether the position is strictly
    before it) -/
theorem C13_layouts (g1 g2 : Graph) (n : Nat) (R : List Nat) (f : Nat) (pos1 pos2 : Pos)
    (hs : sameShape g1 g2 = true) (ho : queryIsoAt g1 g2 f pos1 pos2 = true) :
    namesAt g2 n R f pos2 = namesAt g1 n R f pos1 :=
  namesAt_core (sameShape_eq hs) n R f pos1 pos2 (bisect_of_queryIso ho)

/-- and of a whole history on the memoised evaluator: two histories with the same flows and keys
    whose queries pairwise make the same comparisons (`historiesQueryIso`) get the same answers -/
theorem C13_layouts_history (g1 g2 : Graph) (n : Nat) (qs1 qs2 : List Query)
    (hs : sameShape g1 g2 = true) (hq : historiesQueryIso g1 g2 qs1 qs2 = true) :
    runQueries g2 n {} qs2 = runQueries g1 n {} qs1 :=
  runQueries_layouts g1 g2 n hs qs1 qs2 {} hq

/-- the stronger test "all positions involved are ordered alike" (`orderIsoAt`) implies it -/
theorem C13_order_implies_query (g1 g2 : Graph) (f : Nat) (pos1 pos2 : Pos)
    (ho : orderIsoAt g1 g2 f pos1 pos2 = true) : queryIsoAt g1 g2 f pos1 pos2 = true :=
  queryIsoAt_of_orderIsoAt ho

/-- corollary: the two-graph form under `orderIsoAt` -/
theorem C13_layouts_order (g1 g2 : Graph) (n : Nat) (R : List Nat) (f : Nat) (pos1 pos2 : Pos)
    (hs : sameShape g1 g2 = true) (ho : orderIsoAt g1 g2 f pos1 pos2 = true) :
    namesAt g2 n R f pos2 = namesAt g1 n R f pos1 :=
  C13_layouts g1 g2 n R f pos1 pos2 hs (queryIsoAt_of_orderIsoAt ho)

/-- corollary: histories under `historiesIso` -/
theorem C13_layouts_history_order (g1 g2 : Graph) (n : Nat) (qs1 qs2 : List Query)
    (hs : sameShape g1 g2 = true) (hq : historiesIso g1 g2 qs1 qs2 = true) :
    runQueries g2 n {} qs2 = runQueries g1 n {} qs1 :=
  C13_layouts_history g1 g2 n qs1 qs2 hs (historiesQueryIso_of_historiesIso g1 g2 qs1 qs2 hq)

/-- on a region kept sorted by `insert_loc`, `bisect_right` + "last binding wins" is
    "the bindings whose location is ≤ the query position": what `names_at` means -/
theorem C13_bisect_sorted (names : List NameRec) (pos : Pos) (h : sortedByLoc names = true) :
    names.take (bisectRight names pos) = names.filter (fun n => Pos.le n.loc pos) :=
  take_bisect_eq_filter names pos (sortedLoc_of names h)

/-- `insert_loc` keeps a region sorted -/
theorem C13_insert_sorted (names : List NameRec) (n : NameRec) (h : sortedByLoc names = true) :
    sortedByLoc (insertLoc names n) = true :=
  sortedByLoc_of _ (insertLoc_sorted names n (sortedLoc_of names h))

/-! ### non-vacuity -/

private def nmAt (i : Nat) (s : String) (l : Pos) : NameRec := { id := i, name := s, loc := l, scope := 0 }

/-- a region with three bindings, and a layout change: every line doubled plus one, every column
    shifted by three -/
def exNames : List NameRec := [nmAt 1 "x" (1, 0), nmAt 2 "y" (3, 4), nmAt 3 "x" (3, 9)]
def exPhi : Pos → Pos := fun p => (2 * p.1 + 1, p.2 + 3)

theorem exPhi_preserves (ps : List Pos) : OrderPreserving exPhi ps := by
  intro a _ b _
  rw [Bool.eq_iff_iff, Pos.lt_iff, Pos.lt_iff]
  simp only [exPhi]
  omega

/-- `C13_bisect`, `C13_insert`, `C13_bisect_sorted`, `C13_insert_sorted`: hypotheses met, with a
    query position in the middle of the region and an insertion that is not an append -/
example :
    OrderPreserving exPhi ((3, 5) :: exNames.map (·.loc)) ∧ bisectRight exNames (3, 5) = 2 ∧
    bisectRight (exNames.map (NameRec.mapLoc exPhi)) (exPhi (3, 5)) = 2 ∧
    sortedByLoc exNames = true ∧
    (insertLoc exNames (nmAt 4 "z" (2, 7))).map (·.id) = [1, 4, 2, 3] ∧
    exNames.filter (fun n => Pos.le n.loc (3, 5)) = exNames.take 2 :=
  ⟨exPhi_preserves _, by decide, by decide, by decide, by decide, by decide⟩

/-- a module with a loop (the graph of Props/C04.lean, with real positions), re-laid out by `exPhi`
    and, independently, as a second graph `exGraph2` with other positions in the same order -/
def exGraph : Graph :=
  Graph.mk
    [FlowRec.mk 0 0 [nmAt 100 "x" (1, 0)] [],
     FlowRec.mk 1 0 [nmAt 101 "i" (2, 4)] [Parent.flow 0, Parent.loop 0 3],
     FlowRec.mk 2 0 [nmAt 102 "y" (3, 14)] [Parent.flow 1],
     FlowRec.mk 3 0 [nmAt 103 "z" (4, 8), nmAt 105 "y" (4, 15)] [Parent.flow 2, Parent.flow 1],
     FlowRec.mk 4 0 [nmAt 104 "w" (5, 0)] [Parent.flow 1]]
    [ScopeRec.mk 0 .module none [] 4 [nmAt 200 "G" (9, 9)]] []

def exGraph2 : Graph :=
  Graph.mk
    [FlowRec.mk 0 0 [nmAt 100 "x" (10, 1)] [],
     FlowRec.mk 1 0 [nmAt 101 "i" (11, 1)] [Parent.flow 0, Parent.loop 0 3],
     FlowRec.mk 2 0 [nmAt 102 "y" (11, 30)] [Parent.flow 1],
     FlowRec.mk 3 0 [nmAt 103 "z" (12, 0), nmAt 105 "y" (20, 0)] [Parent.flow 2, Parent.flow 1],
     FlowRec.mk 4 0 [nmAt 104 "w" (21, 2)] [Parent.flow 1]]
    [ScopeRec.mk 0 .module none [] 4 [nmAt 200 "G" (0, 0)]] []

def exQs : List Query := [⟨3, (4, 10), "y"⟩, ⟨4, (9, 9), "z"⟩, ⟨3, (4, 20), "y"⟩]
def exQs2 : List Query := [⟨3, (12, 5), "y"⟩, ⟨4, (30, 0), "z"⟩, ⟨3, (20, 1), "y"⟩]

/-- `C13_names_at` / `C13_history`: hypotheses met (by `exPhi_preserves`) and the conclusion is
    about a table that depends on the query position: between the two bindings of flow 3 `y` is
    the `if` branch's binding, the previous iteration's, or undefined; after them it is flow 3's own -/
example :
    (∀ q ∈ exQs, OrderPreserving exPhi (exGraph.flowPositions q.flow q.pos)) ∧
    runQueries exGraph 20 {} exQs =
      [some (some [.undef "y", .nm 102, .nm 105]), some (some [.undef "z", .nm 103]),
       some (some [.nm 105])] ∧
    runQueries (exGraph.mapLoc exPhi) 20 {} (exQs.map (fun q => { q with pos := exPhi q.pos })) =
      runQueries exGraph 20 {} exQs ∧
    (namesAt (exGraph.mapLoc exPhi) 20 [] 3 (exPhi (4, 10))).map (fun t => t.get? "y") =
      some (some [.undef "y", .nm 102, .nm 105]) :=
  ⟨fun _ _ => exPhi_preserves _, by decide +kernel, by decide +kernel, by decide +kernel⟩

/-- `C13_layouts` / `C13_layouts_history` and their `order` corollaries: the driver's tests succeed
    on the pair, fail when the query position moves across a binding, and the answers are the
    ones above -/
example :
    sameShape exGraph exGraph2 = true ∧ orderIsoAt exGraph exGraph2 3 (4, 10) (12, 5) = true ∧
    queryIsoAt exGraph exGraph2 3 (4, 10) (12, 5) = true ∧
    orderIsoAt exGraph exGraph2 3 (4, 10) (20, 0) = false ∧
    queryIsoAt exGraph exGraph2 3 (4, 10) (12, 0) = true ∧
    queryIsoAt exGraph exGraph2 3 (4, 10) (11, 9) = false ∧
    historiesIso exGraph exGraph2 exQs exQs2 = true ∧
    historiesQueryIso exGraph exGraph2 exQs exQs2 = true ∧
    runQueries exGraph2 20 {} exQs2 =
      [some (some [.undef "y", .nm 102, .nm 105]), some (some [.undef "z", .nm 103]),
       some (some [.nm 105])] := by
  decide +kernel

/-- the pair found on stdlib `symtable.py` vs its `ast.unparse` normal form:
    `lambda x: ((x >> …` (parameter at the start of the body, col 29; `x` read at col 31) against
    `lambda x: x >> …` (both at col 29).  "Binding before the position" vs "binding AT the
    position": `orderIsoAt` fails, `queryIsoAt` holds - `bisect_right` treats both alike - and the
    answers agree -/
def exLam1 : Graph :=
  Graph.mk [FlowRec.mk 0 0 [nmAt 1 "x" (1, 29)] []] [ScopeRec.mk 0 .module none [] 0 []] []
def exLam2 : Graph :=
  Graph.mk [FlowRec.mk 0 0 [nmAt 1 "x" (1, 29)] []] [ScopeRec.mk 0 .module none [] 0 []] []

example :
    sameShape exLam1 exLam2 = true ∧
    orderIsoAt exLam1 exLam2 0 (1, 31) (1, 29) = false ∧
    queryIsoAt exLam1 exLam2 0 (1, 31) (1, 29) = true ∧
    historiesIso exLam1 exLam2 [⟨0, (1, 31), "x"⟩] [⟨0, (1, 29), "x"⟩] = false ∧
    historiesQueryIso exLam1 exLam2 [⟨0, (1, 31), "x"⟩] [⟨0, (1, 29), "x"⟩] = true ∧
    runQueries exLam2 5 {} [⟨0, (1, 29), "x"⟩] = [some (some [.nm 1])] ∧
    runQueries exLam1 5 {} [⟨0, (1, 31), "x"⟩] = [some (some [.nm 1])] := by
  decide +kernel

end SuppModel.Props.C13
