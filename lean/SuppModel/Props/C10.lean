/-
  C10 — Unused-name diagnostics follow the exemption rules exactly.
  Property theorems ONLY (lemmas live in SuppModel/Lint/Lemmas.lean).

  `Generated.reportFull / reportDecision / reportMsgArg / reportLine / reportCol` are regenerated from the body
  of `for flow, name in scope.all_names:` in supp/linter.py on every run; `lintModel` (SuppModel/Lint/Model.lean)
  is the usage loop followed by that report loop over an abstract analysed module; `spec` (SuppModel/Lint/Spec.lean)
  is the property's sentence.
-/
import SuppModel.Lint.Lemmas
import SuppModel.Witness.C10

namespace SuppModel.Props.C10
open SuppModel.Lint

/-- the exemption chain of the code IS the sentence: for a name object without `used`, the chain reports
    exactly the code the sentence demands, with the wording of that kind -/
theorem C10_rule (s : SpecFacts) (h : s.Valid) :
    Generated.reportFull (s.toFacts false) = (spec s).map (fun c => (c, specMsg c)) ∧
    Generated.reportDecision (s.toFacts false) = spec s := by
  have h1 := rule_unused s h
  refine ⟨h1, ?_⟩
  unfold Generated.reportDecision
  rw [h1]
  cases spec s <;> rfl

/-- a name object marked `used` is never reported, whatever its other facts -/
theorem C10_rule_used (f : Facts) (h : f.used = true) :
    Generated.reportFull f = none ∧ Generated.reportDecision f = none := by
  have h1 := rule_used f h
  exact ⟨h1, by unfold Generated.reportDecision; rw [h1]; rfl⟩

/-- in `lint`, a binding whose identifier is the id of no read, in a scope without a read of the builtin
    `locals`, is never marked used, and its name never enters `qualified_imports` -/
theorem C10_never_read_unused (m : Module) (b : Binding) (st : St)
    (hb : b ∈ m.allNames) (hk : TableWellKeyed m) (hs : RefsScoped m) (hn : NeverRead m b)
    (hrun : usage m = .ok st) :
    st.used.contains b.id = false ∧ st.qualified.contains b.name = false :=
  never_read_unused m b st hb hk hs hn hrun

/-- hence it is reported if and only if the sentence says so -- with that code, the wording of its kind, its own
    name and its own `declared_at` -/
theorem C10_report_fields (m : Module) (b : Binding) (st : St)
    (hb : b ∈ m.allNames) (hk : TableWellKeyed m) (hs : RefsScoped m) (hn : NeverRead m b)
    (hrun : usage m = .ok st) (hv : (specFactsOf b false).Valid) :
    reportOf st b = (spec (specFactsOf b false)).map (ownDiag b) :=
  reportOf_never_read m b st hb hk hs hn hrun hv

/-- the answer of `lint` is the E-diagnostics of the usage loop followed by the reports; the W-diagnostics are
    exactly the reports of a sub-list of `all_names`, in order, each with the fields of its own binding -- nothing
    else is reported as unused -- and a binding listed once is reported at most once -/
theorem C10_once (m : Module) (ds : List Diag) (h : lintModel m = .ok ds) :
    ∃ st, usage m = .ok st ∧
      ds = st.diags ++ m.allNames.filterMap (reportOf st) ∧
      ds.filter Diag.isW = (reported st m.allNames).map (fun p => mkDiag p.1 p.2.1 p.2.2) ∧
      ((reported st m.allNames).map (·.1)).Sublist m.allNames ∧
      (NoDupIds m → ((reported st m.allNames).map (·.1.id)).Nodup) := by
  obtain ⟨st, hu, h1, h2, h3⟩ := once m ds h
  obtain ⟨st', hu', hds⟩ := lintModel_ok h
  have : st' = st := by rw [hu] at hu'; cases hu'; rfl
  subst this
  exact ⟨st', hu, hds, h1, h2, h3⟩

/-- `lint` answers on every analysed module: no path of the usage loop or of the report loop raises -/
theorem C10_total : C10_total_stmt :=
  total

/-- legacy (finding `lint-raises-multiname-locals`, fixed by f39595c): the previous usage loop raised on a module
    satisfying every hypothesis above, so its never-read local was not reported; the current loop reports it -/
theorem C10_legacy_witness :
    SuppModel.Witness.C10.Legacy.lintModel SuppModel.Witness.C10.crashModule = .error .attributeError ∧
    lintModel SuppModel.Witness.C10.crashModule = .ok [⟨"W01", "Unused name: zz", 2, 4⟩] :=
  ⟨SuppModel.Witness.C10.legacy_crash, SuppModel.Witness.C10.fixed_answer⟩

/-! ### non-vacuity -/

/-- a module exercising W01, W02, a method parameter, an underscore name, a dotted import used through its
    top-level name, a `__future__` import, and a read: all hypotheses hold and `lint` answers -/
def demo : Module where
  allNames := [
    ⟨0, "annotations", .imported "__future__" false false, .module, 0, false, (1, 23), (1, 34)⟩,
    ⟨1, "os", .imported "os" false true, .module, 0, false, (2, 7), (2, 14)⟩,
    ⟨2, "sys", .imported "sys" false false, .module, 0, false, (3, 7), (3, 10)⟩,
    ⟨3, "C", .classdef, .module, 0, false, (4, 6), (5, 4)⟩,
    ⟨4, "m", .funcdef, .cls, 1, false, (5, 8), (6, 8)⟩,
    ⟨5, "self", .argument, .function, 2, true, (5, 10), (6, 8)⟩,
    ⟨6, "y", .assigned, .function, 2, true, (6, 8), (6, 13)⟩,
    ⟨7, "_z", .assigned, .function, 2, true, (7, 8), (7, 14)⟩,
    ⟨8, "os", .imported "os" false true, .module, 0, false, (8, 7), (8, 17)⟩]
  reads := [
    ⟨"os", (9, 0), some ⟨0, [("os", .single ⟨some 8, "os", false, some 0, true⟩),
                            ("sys", .single ⟨some 2, "sys", false, some 0, false⟩),
                            ("C", .single ⟨some 3, "C", false, some 0, false⟩),
                            ("len", .single ⟨none, "len", true, none, false⟩)]⟩⟩,
    ⟨"undefined_thing", (9, 10), some ⟨0, []⟩⟩]

def demoY : Binding := ⟨6, "y", .assigned, .function, 2, true, (6, 8), (6, 13)⟩
def demoSys : Binding := ⟨2, "sys", .imported "sys" false false, .module, 0, false, (3, 7), (3, 10)⟩

-- `C10_rule`: valid facts exist on both sides of the rule (a star import, a plain local)
example : (⟨.module, .import_, false, false, false, true, false⟩ : SpecFacts).Valid ∧
    spec ⟨.module, .import_, false, false, false, true, false⟩ = none ∧
    (⟨.lambda, .parameter, false, false, false, false, false⟩ : SpecFacts).Valid ∧
    spec ⟨.lambda, .parameter, false, false, false, false, false⟩ = some .W01 ∧
    spec ⟨.function, .parameter, false, true, false, false, false⟩ = none ∧
    spec ⟨.cls, .import_, false, false, false, false, false⟩ = some .W02 := by decide

-- `C10_never_read_unused`, `C10_report_fields`: the hypotheses hold of `demo` for a W01 and a W02 binding
example : demoY ∈ demo.allNames ∧ demoSys ∈ demo.allNames ∧ TableWellKeyed demo ∧ RefsScoped demo ∧
    NeverRead demo demoY ∧ NeverRead demo demoSys ∧
    (specFactsOf demoY false).Valid ∧ (specFactsOf demoSys false).Valid ∧
    spec (specFactsOf demoY false) = some .W01 ∧ spec (specFactsOf demoSys false) = some .W02 := by decide

-- `C10_once`, `C10_total`: `lint` answers on `demo`; the first `os` is unused but exempt (dotted use)
example : NoDupIds demo := by decide
example : lintModel demo = .ok [
    ⟨"E02", "Undefined name: undefined_thing", 9, 10⟩,
    ⟨"W02", "Unused import: sys", 3, 7⟩,
    ⟨"W01", "Unused name: y", 6, 8⟩] := by rfl

end SuppModel.Props.C10
