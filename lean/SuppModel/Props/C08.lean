/-
  C08 — the API is total: every text and cursor position gets an answer.
  Property theorems ONLY.  Two kinds:
    * the SHAPE of the three entry points over their components (SuppModel/Api/Model.lean):
      E01 exactly when the text does not parse, SyntaxError exactly when the marked text
      does not parse — for every parser, marking and analysis;
    * TOTALITY of the modelled components, re-exported from their families: the lint report
      loop answers for every module (C10), attribute tables terminate for every class
      hierarchy, cyclic ones included (C06), the memoised table evaluator answers whenever the
      pure one does, for every graph and history (C04).
  What no model exhibits — CPython's parser, the interpreter's recursion limit, memory — is
  exercised by the crash search of harness/c08.py only.
-/
import SuppModel.Api.Model
import SuppModel.Props.C04
import SuppModel.Props.C06
import SuppModel.Props.C10

namespace SuppModel.Props.C08
open SuppModel.Api

/-- `lint` reports E01 if and only if the text does not parse — and then it is the ONLY
    diagnostic and carries the parser's message and position — provided the analysis itself
    never emits E01 -/
theorem C08_lint_shape {Tree : Type} (parse : String → Except SynErr Tree) (analyse : Tree → List Diag)
    (hE : ∀ t d, d ∈ analyse t → d.code ≠ .E01) (src : String) :
    ((∃ d ∈ lint parse analyse src, d.code = .E01) ↔ ∃ e, parse src = .error e) ∧
    (∀ e, parse src = .error e → lint parse analyse src = [⟨.E01, e.msg, e.line, e.off⟩]) := by
  constructor
  · constructor
    · rintro ⟨d, hd, hc⟩
      unfold lint at hd
      cases h : parse src with
      | error e => exact ⟨e, rfl⟩
      | ok t => rw [h] at hd; exact absurd hc (hE t d hd)
    · rintro ⟨e, he⟩
      refine ⟨⟨.E01, e.msg, e.line, e.off⟩, ?_, rfl⟩
      simp [lint, he]
  · intro e he
    simp [lint, he]

/-- exactly one E01, never two -/
theorem C08_lint_one_E01 {Tree : Type} (parse : String → Except SynErr Tree) (analyse : Tree → List Diag)
    (hE : ∀ t d, d ∈ analyse t → d.code ≠ .E01) (src : String) :
    ((lint parse analyse src).filter (fun d => d.code = .E01)).length ≤ 1 := by
  unfold lint
  cases h : parse src with
  | error e => simp
  | ok t =>
    have : (analyse t).filter (fun d => d.code = .E01) = [] := by
      apply List.filter_eq_nil_iff.mpr
      intro d hd
      simpa using hE t d hd
    simp [this]

/-- `assist` / `location` raise SyntaxError if and only if the cursor-marked text does not
    parse; otherwise they answer -/
theorem C08_cursor_shape {Tree α : Type} (parse : String → Except SynErr Tree)
    (mark : String → Nat × Nat → String) (compute : Tree → Nat × Nat → α) (src : String) (pos : Nat × Nat) :
    (∀ e, atCursor parse mark compute src pos = .syntaxError e ↔ parse (mark src pos) = .error e) ∧
    ((∃ a, atCursor parse mark compute src pos = .answer a) ↔ ∃ t, parse (mark src pos) = .ok t) := by
  unfold atCursor
  cases h : parse (mark src pos) with
  | error e => simp
  | ok t => simp

/-- the lint report loop answers for every analysed module -/
theorem C08_lint_model_total : ∀ m : SuppModel.Lint.Module, ∃ ds, SuppModel.Lint.lintModel m = .ok ds := SuppModel.Props.C10.C10_total

/-- attribute tables terminate for every class hierarchy, cyclic ones included: the fuel
    `fuel h` always suffices and more fuel never changes a table -/
theorem C08_attrs_total (h : SuppModel.Attrs.Hier) (c : SuppModel.Attrs.ClassId) (k : Nat) :
    SuppModel.Attrs.classAttrsG (SuppModel.Attrs.fuel h + k) [] h c = SuppModel.Attrs.classAttrs h c ∧
    SuppModel.Attrs.instOnlyG (SuppModel.Attrs.fuel h + k) [] h c = SuppModel.Attrs.instOnly h c :=
  SuppModel.Props.C06.C06_total h c k

/-- the memoised name-table evaluator answers whenever the pure one does -/
theorem C08_tables_total (g : SuppModel.Flow.Graph) (n : Nat) (qs : List SuppModel.Flow.Query) (i : Nat)
    (q : SuppModel.Flow.Query) (hq : qs[i]? = some q)
    (hall : ∀ q' ∈ qs, (SuppModel.Flow.lookupAt g n q'.flow q'.pos q'.key).isSome) :
    ((SuppModel.Flow.runQueries g n {} qs)[i]?.bind id).isSome :=
  SuppModel.Props.C04.C04_memo_total g n qs i q hq hall

/-! non-vacuity: a parser that rejects texts containing '(' alone -/
example : lint (Tree := Unit) (fun s => if s = "(" then .error ⟨"'(' was never closed", some 1, some 1⟩ else .ok ())
    (fun _ => [⟨.E02, "Undefined name: x", some 1, some 0⟩]) "(" = [⟨.E01, "'(' was never closed", some 1, some 1⟩] := by
  decide

end SuppModel.Props.C08
