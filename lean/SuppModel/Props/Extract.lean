/-
  Extract — theorems about the Lean transliteration of supp's extractor (`nast.extract_visitor`,
  `scope.py`'s constructors): property statements ONLY; lemmas are in SuppModel/Extract/Lemmas*.lean.

  `extract lines mods tree : Except Err St` is the function the driver `drv_extract` runs and the
  correspondence (harness/extractcorr.py) compares, field by field, with the graph the real extractor
  builds for the same file.  Hypotheses are decidable predicates on the serialised tree, evaluated by
  the driver on every real tree of every run (`wellShaped`, `noTypeParams`).
-/
import SuppModel.Extract.LemmasTotal
import SuppModel.Extract.LemmasCover
import SuppModel.Extract.LemmasWf
import SuppModel.Extract.LemmasWfFull
import SuppModel.Flow.Scoping
import SuppModel.Props.C05
import SuppModel.Extract.LemmasLayoutGraph
import SuppModel.Extract.LemmasLayoutPair
import SuppModel.Props.C13
import SuppModel.Extract.LemmasRank
import SuppModel.Props.C08Flow
import SuppModel.Extract.LemmasMark
import SuppModel.Extract.LemmasMarkAttr
import SuppModel.Extract.LemmasMark2

namespace SuppModel.Props.Extract
open SuppModel.Flow SuppModel.Extract

/-- TOTALITY: on a well-shaped tree (every node has the fields its class has in the interpreter's grammar,
    with values of the kind the visit methods read) the extractor raises nothing - no AttributeError, no
    IndexError - and the recursion budget `extract` supplies (the size of the tree) is never exhausted:
    it returns a graph, whatever the source lines and whatever the project resolves star imports to. -/
theorem extract_total (lines : List Text.Str) (mods : List (String × List String)) (t : Ast)
    (h : wellShaped t = true) : ∃ st, extract lines mods t = .ok st :=
  extract_total' lines mods t h

/-- NO E42 (C01): every `Name` node with `ctx = Load()` of a well-shaped tree whose `def`s and `class`es
    have no PEP 695 type parameters is given a flow by the extractor (`name.flow` is set), so the linter
    never reports "UNKNOWN NAME" for it.  By induction over ALL node classes: each visit method visits,
    directly or through `generic_visit`, every child that can contain an expression. -/
theorem extract_every_load_has_flow (lines : List Text.Str) (mods : List (String × List String)) (t : Ast) (st : St)
    (hw : wellShaped t = true) (ht : noTypeParams t = true) (h : extract lines mods t = .ok st) :
    ∀ k ∈ loads t, st.hasFlow k :=
  extract_loads' lines mods t st hw ht h

/-- the statement without the restriction on type parameters: FALSE of the current code
    (`visit_FunctionDef` / `visit_ClassDef` never look at `node.type_params`), refuted in
    SuppModel/Witness/Extract.lean on `def f[T: b](): pass` -/
def extract_every_load_has_flow_stmt : Prop :=
  ∀ (lines : List Text.Str) (mods : List (String × List String)) (t : Ast) (st : St),
    wellShaped t = true → extract lines mods t = .ok st → ∀ k ∈ loads t, st.hasFlow k

/-- SORTED REGIONS: every flow's `_names` in the extracted graph is sorted by location - for EVERY tree the
    extractor returns a graph for (no shape hypothesis).  This is the hypothesis of `C13_bisect_sorted`:
    `names_at` = "the bindings located at or before the query position". -/
theorem extract_names_sorted (lines : List Text.Str) (mods : List (String × List String)) (t : Ast) (st : St)
    (h : extract lines mods t = .ok st) : ∀ f ∈ (st.toGraph []).flows, sortedByLoc f.names = true :=
  extract_sorted' lines mods t st h

/-- the induction principle behind it, usable for any invariant: what holds initially and is kept by each of
    the 14 primitive actions of the extractor holds of every extracted state -/
theorem extract_invariant (P : St → Prop) (hP : Preserved P) (h0 : P St.init) (lines : List Text.Str)
    (mods : List (String × List String)) (t : Ast) (st : St) (h : extract lines mods t = .ok st) : P st :=
  extract_preserves hP h0 lines mods t st h

/-- WELL-FORMEDNESS: the graph of EVERY tree the extractor returns a state for (no shape hypothesis) satisfies the
    decidable `Graph.wf` of SuppModel/Flow/Scoping.lean - name ids, flow ids and scope ids are unique, the names of a
    flow carry its scope, a flow's predecessors (loop edges included) exist and lie in the same scope, every scope's
    final flow belongs to it, there is one module scope, scope parent chains are finite, the scope of every flow
    exists.  Proved from an invariant of the extractor's state kept by each action of the interpreter, the key
    ingredient being what a visit method's local variables can hold: an EXISTING flow of the CURRENT scope. -/
theorem extract_wf (lines : List Text.Str) (mods : List (String × List String)) (t : Ast) (st : St)
    (builtins : List String) (h : extract lines mods t = .ok st) : (st.toGraph builtins).wf = true :=
  good_wf (extract_good lines mods t st h) builtins

/-- so the C05 theorems hold of every extracted graph outright (their `wf` hypothesis is discharged):
    every binding a flow's table can contain is owned by a scope on the flow's lookup chain -/
theorem extract_C05_chain (lines : List Text.Str) (mods : List (String × List String)) (t : Ast) (st : St)
    (builtins : List String) (h : extract lines mods t = .ok st) (n : Nat) (R : List Nat) (f : Nat) (fr : FlowRec)
    (tbl : Tbl) (hf : (st.toGraph builtins).flow? f = some fr) (ht : flowNames (st.toGraph builtins) n R f = some tbl) :
    tbl.ownedBy (st.toGraph builtins) (lookupChain (st.toGraph builtins) fr.scope) :=
  SuppModel.Props.C05.C05_chain _ (extract_wf lines mods t st builtins h) n R f fr tbl hf ht

/-- the same at a query position (`names_at`) -/
theorem extract_C05_chain_at (lines : List Text.Str) (mods : List (String × List String)) (t : Ast) (st : St)
    (builtins : List String) (h : extract lines mods t = .ok st) (n : Nat) (f : Nat) (fr : FlowRec) (pos : Pos)
    (tbl : Tbl) (hf : (st.toGraph builtins).flow? f = some fr) (ht : namesAt (st.toGraph builtins) n [] f pos = some tbl) :
    tbl.ownedBy (st.toGraph builtins) (lookupChain (st.toGraph builtins) fr.scope) :=
  SuppModel.Props.C05.C05_chain_at _ (extract_wf lines mods t st builtins h) n f fr pos tbl hf ht

/-- a name local to a function is never satisfied by an outer or builtin binding, in every extracted graph -/
theorem extract_C05_local_not_outer (lines : List Text.Str) (mods : List (String × List String)) (t : Ast) (st : St)
    (builtins : List String) (h : extract lines mods t = .ok st) (n : Nat) (R : List Nat) (f : Nat)
    (fr : FlowRec) (sc : ScopeRec) (tbl : Tbl) (x : String) (v : Val)
    (hf : (st.toGraph builtins).flow? f = some fr) (hs : (st.toGraph builtins).scope? fr.scope = some sc)
    (hk : sc.kind = .func) (hx : x ∈ sc.locals) (ht : flowNames (st.toGraph builtins) n R f = some tbl)
    (hv : tbl.get? x = some v) :
    ∀ a ∈ v, (a = Alt.undef x) ∨
      (∃ id nr, a = Alt.nm id ∧ (st.toGraph builtins).name? id = some nr ∧ nr.scope = fr.scope ∧
        ¬ (st.toGraph builtins).isGlobal id) :=
  SuppModel.Props.C05.C05_local_not_outer _ (extract_wf lines mods t st builtins h) n R f fr sc tbl x v hf hs hk hx ht hv

/-- RANKED: every extracted graph is `Graph.ranked` (acyclic once loop back edges are ignored, closed under
    reference) - the rank  (index of the flow's scope) * (#flows + 1) + (creation index of the flow)  decreases along
    every non-loop call of the evaluator: an ordinary predecessor is an earlier flow of the same scope; a root flow
    depends on the final flow of the scope its scope's parent chain resolves to (class scopes delegate upwards), a
    scope with a smaller index since scope parents are earlier scopes, and a final flow belongs to its scope
    (`good_validRankU`, then `C08_ranked_complete_unbounded`). -/
theorem extract_ranked (lines : List Text.Str) (mods : List (String × List String)) (t : Ast) (st : St)
    (builtins : List String) (h : extract lines mods t = .ok st) : (st.toGraph builtins).ranked = true :=
  SuppModel.Props.C08Flow.C08_ranked_complete_unbounded _ (rankArr st)
    (good_validRankU (extract_good lines mods t st h) builtins)

/-- C08 AT EXTRACTOR LEVEL: on every extracted graph the table evaluator terminates - the table of every existing
    flow is computed whatever loops are cut, and every query of every history (on existing flows) is answered by the
    memoised evaluator - with any fuel ≥ `rankFuel` -/
theorem extract_C08 (lines : List Text.Str) (mods : List (String × List String)) (t : Ast) (st : St)
    (builtins : List String) (h : extract lines mods t = .ok st) (n : Nat) (hn : (st.toGraph builtins).rankFuel ≤ n) :
    (∀ (f : Nat) (fr : FlowRec), (st.toGraph builtins).flow? f = some fr → ∀ R : List Nat,
        (flowNames (st.toGraph builtins) n R f).isSome) ∧
    (∀ (qs : List Query), (∀ q ∈ qs, ((st.toGraph builtins).flow? q.flow).isSome) →
        ∀ (i : Nat) (q : Query), qs[i]? = some q → ((runQueries (st.toGraph builtins) n {} qs)[i]?.bind id).isSome) :=
  have hr := extract_ranked lines mods t st builtins h
  ⟨fun f fr hf R => SuppModel.Props.C08Flow.C08_eval_terminates _ hr f fr hf R n hn,
   fun qs hq i q hi => SuppModel.Props.C08Flow.C08_history_answers _ hr n hn qs hq i q hi⟩

/-- FORWARD EDGES: in every extracted graph a flow's ordinary predecessors (`.flow q`; loop edges excepted) were
    created before it, and a scope's parent before the scope: creation index is a rank for the edges inside a
    scope.  (Creation index alone is not a rank: a root flow also depends on the FINAL flow of the enclosing function /
    module scope, created later than the inner scope's flows; `extract_ranked` orders by scope index first.) -/
theorem extract_forward_edges (lines : List Text.Str) (mods : List (String × List String)) (t : Ast) (st : St)
    (h : extract lines mods t = .ok st) :
    (∀ (i : Nat) (f : FlowRec), st.flows[i]? = some f → ∀ q, Parent.flow q ∈ f.parents → q < i) ∧
    (∀ (i : Nat) (s : ScopeSt), st.scopes[i]? = some s → s.parent = none ∨ ∃ p, s.parent = some p ∧ p < i) := by
  have hg := extract_good lines mods t st h
  constructor
  · intro i f hf q hq
    exact hg.struct.fwd i (f.scope, f.parents) (by simp [St.fsk, hf]) q hq
  · intro i s hs
    exact hg.struct.parent i (s.kind, s.parent, s.flow) (by simp [St.ssk, hs])

/-- the part of it that is proved, for EVERY tree the extractor returns a graph for: flow ids and scope ids
    are creation indices (so they are unique and `Graph.flow?` / `Graph.scope?` are list indexing), and every
    name of a flow carries that flow's scope -/
theorem extract_wf_partial (lines : List Text.Str) (mods : List (String × List String)) (t : Ast) (st : St)
    (h : extract lines mods t = .ok st) :
    (∀ (i : Nat) (f : FlowRec), (st.toGraph []).flows[i]? = some f → f.id = i) ∧
    (∀ (i : Nat) (s : ScopeSt), st.scopes[i]? = some s → s.id = i) ∧
    (∀ f ∈ (st.toGraph []).flows, ∀ n ∈ f.names, n.scope = f.scope) :=
  let b := extract_basic lines mods t st h
  ⟨b.flowIds, b.scopeIds, b.nameScope⟩

/-- LAYOUT INDEPENDENCE at extractor level, layer 1 (the interpreter), for an arbitrary per-node predicate `Q`:
    if `compile` commutes with re-positioning on `Q`-trees (`CompileComm`; proved for `Q := layoutQ φ ψ S` as
    `compileComm_layoutQ`, see `extract_layout`) and `ψ` preserves the order of the stored locations `S`, the two
    runs of the extractor stay in correspondence (`Sim`): the second graph is the first with locations mapped by `ψ`,
    same shape, `.flow` attributes at `φ`-mapped positions with the same flows, `orderIsoAt` for every query position
    of `S` with `ψ pos = φ pos`.  `declared_at` (a text search over different texts) is not related. -/
theorem extract_layout_partial (φ ψ : Pos → Pos) (S : List Pos) (Q : Ast → Bool)
    (hop : OrderPreserving ψ S) (hQ : CompileComm φ ψ S Q)
    (lines lines' : List Text.Str) (mods : List (String × List String)) (t : Ast) (ht : t.all Q = true)
    (st : St) (builtins : List String) (h : extract lines mods t = .ok st) :
    ∃ st', extract lines' mods (t.mapPos φ) = .ok st' ∧
      st'.toGraph builtins = (st.toGraph builtins).mapLoc ψ ∧
      sameShape (st.toGraph builtins) (st'.toGraph builtins) = true ∧
      st'.flowAttrs = st.flowAttrs.map (fun x => (x.1.map φ, x.2.1, x.2.2)) ∧
      ∀ pos id f, (some pos, id, f) ∈ st.flowAttrs → pos ∈ S → ψ pos = φ pos →
        orderIsoAt (st.toGraph builtins) (st'.toGraph builtins) f pos (φ pos) = true := by
  obtain ⟨st', e, hs, hl⟩ := extract_sim hop lines lines' mods hQ t ht st h
  have hg := hs.toGraph builtins
  refine ⟨st', e, hg, by rw [hg]; exact sameShape_mapLoc _, hs.flowAttrs, ?_⟩
  intro pos id f _ hpos hψ
  rw [hg, ← hψ]
  apply orderIsoAt_mapLoc
  apply OrderPreserving.sub hop
  intro p hp
  rcases List.mem_cons.mp hp with rfl | hp
  · exact hpos
  · exact locsOf_in hl builtins f p hp

/-- LAYOUT INDEPENDENCE at extractor level, for EVERY tree and every visit method (layer 2 proved: `compile_comm`,
    one commutation lemma per visit method).  Hypotheses, all decidable: every node of the tree satisfies `layoutQ`
    (`ψ = φ` at its position, `ψ` commutes with the "+ (0, 1)" of `get_expr_end` at the end of the expression it roots
    and with the decorator-line / statement-column mix of `get_first_body_node_loc`; the locations its visit method
    stores are in `S`), and `ψ` preserves the order of `S`.  No well-shapedness is needed: if the first extraction
    succeeds so does the second.  A query position `pos` that makes the same comparisons with the locations of `S` on
    both layouts (`Pos.lt pos' (ψ l) = Pos.lt pos l`, with `pos'` its counterpart) satisfies `queryIsoAt` in every flow. -/
theorem extract_layout (φ ψ : Pos → Pos) (S : List Pos) (hop : OrderPreserving ψ S)
    (lines lines' : List Text.Str) (mods : List (String × List String)) (t : Ast)
    (ht : t.all (layoutQ φ ψ S) = true) (st : St) (builtins : List String) (h : extract lines mods t = .ok st) :
    ∃ st', extract lines' mods (t.mapPos φ) = .ok st' ∧
      st'.toGraph builtins = (st.toGraph builtins).mapLoc ψ ∧
      sameShape (st.toGraph builtins) (st'.toGraph builtins) = true ∧
      st'.flowAttrs = st.flowAttrs.map (fun x => (x.1.map φ, x.2.1, x.2.2)) ∧
      ∀ pos pos' f, (∀ l ∈ S, Pos.lt pos' (ψ l) = Pos.lt pos l) →
        queryIsoAt (st.toGraph builtins) (st'.toGraph builtins) f pos pos' = true := by
  obtain ⟨st', e, hs, hl⟩ := extract_sim hop lines lines' mods (compileComm_layoutQ φ ψ S) t ht st h
  have hg := hs.toGraph builtins
  refine ⟨st', e, hg, by rw [hg]; exact sameShape_mapLoc _, hs.flowAttrs, ?_⟩
  intro pos pos' f hpos
  rw [hg]
  exact queryIsoAt_mapLoc _ f pos pos' (fun l hl' => hpos l (locsOf_in hl builtins f l hl'))

/-- the same for a REAL pair of layouts, two serialised trees: `layoutPairOK t1 t2` (decidable; the driver op
    `layoutPair` evaluates it) says that the trees are equal up to positions, that the positions zipped in traversal
    order define a map `φ` (`pairPhi`), and that with `ψ` (`pairPsi`: `φ` on node positions, "+ (0, 1)" of `φ` one
    column to the left, the decorated-body mix) and `S` = the locations the visit methods store (`storedLocs`) the
    hypotheses of `extract_layout` hold and every `Name` position makes the same comparisons with `S` on both sides.
    Then the second extraction succeeds, the graphs have the same shape, the `.flow` attributes correspond, and
    every `Name` position satisfies `queryIsoAt` in every flow - the hypotheses of `C13_layouts`. -/
theorem extract_layout_pair (t1 t2 : Ast) (hok : layoutPairOK t1 t2 = true)
    (lines1 lines2 : List Text.Str) (mods : List (String × List String)) (s1 : St) (builtins : List String)
    (h : extract lines1 mods t1 = .ok s1) :
    ∃ s2, extract lines2 mods t2 = .ok s2 ∧
      sameShape (s1.toGraph builtins) (s2.toGraph builtins) = true ∧
      s2.flowAttrs = s1.flowAttrs.map (fun x => (x.1.map (pairPhi t1 t2), x.2.1, x.2.2)) ∧
      ∀ pos ∈ namePos t1, ∀ f,
        queryIsoAt (s1.toGraph builtins) (s2.toGraph builtins) f pos (pairPhi t1 t2 pos) = true := by
  obtain ⟨hmap, hq, hop, hqs⟩ := layoutPairOK_spec hok
  obtain ⟨s2, e, _, hsame, hattrs, hquery⟩ :=
    extract_layout (pairPhi t1 t2) (pairPsi t1 t2) (pairS t1) hop lines1 lines2 mods t1 hq s1 builtins h
  rw [hmap] at e
  refine ⟨s2, e, hsame, hattrs, ?_⟩
  intro pos hpos f
  rw [← (hqs pos hpos).1]
  exact hquery pos _ f (hqs pos hpos).2

/-- C13 AT EXTRACTOR LEVEL: for a layout pair accepted by `layoutPairOK`, the table `names_at` computes at a `Name`
    node is the same on both layouts (bindings identified by identity), for every flow and every state of the loop
    resolution - `extract_layout_pair` composed with `C13_layouts`.  `declared_at` and the source lines, which differ
    between layouts, are not part of the claim. -/
theorem extract_C13 (t1 t2 : Ast) (hok : layoutPairOK t1 t2 = true)
    (lines1 lines2 : List Text.Str) (mods : List (String × List String)) (s1 s2 : St) (builtins : List String)
    (h1 : extract lines1 mods t1 = .ok s1) (h2 : extract lines2 mods t2 = .ok s2) :
    ∀ pos ∈ namePos t1, ∀ (n : Nat) (R : List Nat) (f : Nat),
      namesAt (s2.toGraph builtins) n R f (pairPhi t1 t2 pos) = namesAt (s1.toGraph builtins) n R f pos := by
  obtain ⟨s2', e, hsame, _, hq⟩ := extract_layout_pair t1 t2 hok lines1 lines2 mods s1 builtins h1
  rw [h2] at e
  injection e with e
  subst e
  intro pos hpos n R f
  exact SuppModel.Props.C13.C13_layouts _ _ n R f pos _ hsame (hq pos hpos f)

/-- EXTRACTION NEVER LOOKS AT THE ID OF A READ: on a tree every node of which satisfies the decidable `renQ p s` (the
    reading half of its visit method is the same on the renamed tree, up to renaming the nodes it visits - the binding
    loops read the ids of their targets only, which have `ctx = Store()`), extracting the tree with the `Load` name
    at `p` renamed to `s` gives exactly the state of the original extraction, the `.flow` attribute of that name being
    recorded under the new id - and fails with the same error when the original fails.  (The interpreter half is
    proved for all programs: `exec_ren`; `renQ` is evaluated per node, not yet proved per visit method.) -/
theorem extract_rename_invariant (p : Pos) (s : String) (lines : List Text.Str) (mods : List (String × List String))
    (t : Ast) (ht : t.all (renQ p s) = true) :
    extract lines mods (t.rename p s) = (extract lines mods t).map (St.mapAttrs (attrRen p s)) :=
  extract_rename lines mods t ht

/-- C12, CURSOR-MARK TRANSPARENCY AT ANALYSIS LEVEL.  `markTree t cursor p newId k` is the tree of the marked source:
    the `Load` name at `p` renamed (SOURCE_MARK inserted: `newId`), every position on the cursor's line at a column ≥
    the cursor's shifted right by `k` = |SOURCE_MARK|.  Under `markOK` (decidable; the driver op `markPair` evaluates it
    on the REAL marked tree, which it first checks to BE `markTree` of the real unmarked tree) the extraction of the
    marked tree succeeds whenever that of the unmarked tree does, the two graphs have the same shape, the marked name
    gets the flow the unmarked name got, and in EVERY flow the table `names_at` computes at the ORIGINAL cursor
    position - what `assist` asks: `name.flow.names_at(position)` - is the same: inserting the cursor does not change
    what the analysis makes visible at the cursor. -/
theorem C12_mark_transparent_eval (t : Ast) (cursor p : Pos) (newId : String) (k : Nat)
    (hok : markOK t cursor p newId k = true)
    (lines lines' : List Text.Str) (mods : List (String × List String)) (s : St) (builtins : List String)
    (h : extract lines mods t = .ok s) :
    ∃ s', extract lines' mods (markTree t cursor p newId k) = .ok s' ∧
      sameShape (s.toGraph builtins) (s'.toGraph builtins) = true ∧
      (∀ id f, (some p, id, f) ∈ s.flowAttrs → (some p, newId, f) ∈ s'.flowAttrs) ∧
      ∀ (n : Nat) (R : List Nat) (f : Nat),
        namesAt (s'.toGraph builtins) n R f cursor = namesAt (s.toGraph builtins) n R f cursor :=
  mark_transparent t cursor p newId k hok lines lines' mods s builtins h

/-- EXTRACTION NEVER LOOKS AT AN ATTRIBUTE NAME: on a tree every node of which satisfies the decidable `renAQ p z s`,
    extracting the tree with the `attr` of the Attribute node at `p` (of size `z`) replaced by `s` gives exactly the same
    state, or the same error.  (No action of the model carries an attribute name: `add_attr_assign` stores the
    Attribute NODE - the model its position -, so the only payload that differs in the real `_attr_assigns` is the
    `attr` string inside a stored node when the marked attribute is itself an assignment target.) -/
theorem extract_renameAttr_invariant (p : Pos) (z : Nat) (s : String) (lines : List Text.Str)
    (mods : List (String × List String)) (t : Ast) (ht : t.all (renAQ p z s) = true) :
    extract lines mods (t.renameAttr p z s) = extract lines mods t :=
  extract_renameAttr lines mods t ht

/-- C12, CURSOR-MARK TRANSPARENCY, ATTRIBUTE BRANCH.  `markAttrTree t cursor p z newAttr k` is the tree of the source
    marked inside (or right before) an attribute name: the `attr` of the Attribute node at `p` of size `z` replaced
    (SOURCE_MARK spliced in: `newAttr`), every position on the cursor's line at a column ≥ the cursor's shifted right
    by `k`.  Under `markAttrOK` (decidable; driver op `markAttrPair`, which first checks that the REAL marked tree IS
    `markAttrTree` of the real unmarked tree) the extraction of the marked tree succeeds whenever that of the unmarked
    tree does, the graphs have the same shape, `_attr_assigns` are the same at the mapped positions, every `Name`
    inside `attr.value` has the `.flow` it had, and in every flow the table `names_at` computes at the position of such
    a name - what `evaluate(attr.value)` asks - is the same. -/
theorem C12_mark_transparent_attr_eval (t : Ast) (cursor p : Pos) (z : Nat) (newAttr : String) (k : Nat)
    (hok : markAttrOK t cursor p z newAttr k = true)
    (lines lines' : List Text.Str) (mods : List (String × List String)) (s : St) (builtins : List String)
    (h : extract lines mods t = .ok s) :
    ∃ s', extract lines' mods (markAttrTree t cursor p z newAttr k) = .ok s' ∧
      sameShape (s.toGraph builtins) (s'.toGraph builtins) = true ∧
      s'.attrAssigns = s.attrAssigns.map (fun x => (x.1, x.2.map
        (pairPhi (t.renameAttr p z newAttr) (markAttrTree t cursor p z newAttr k)))) ∧
      (∀ q ∈ valueNamePos t p z, ∀ id f, (some q, id, f) ∈ s.flowAttrs → (some q, id, f) ∈ s'.flowAttrs) ∧
      ∀ q ∈ valueNamePos t p z, ∀ (n : Nat) (R : List Nat) (f : Nat),
        namesAt (s'.toGraph builtins) n R f q = namesAt (s.toGraph builtins) n R f q :=
  mark_transparent_attr t cursor p z newAttr k hok lines lines' mods s builtins h

/-- NO VISIT METHOD DEPENDS ON THE ID OF A READ (proved per visit method: `compile_trans`, `compTrans_rename`).  Side
    condition `tgtQ p` at every node (decidable, cheap): in the actions of the node's visit method no name bound by
    assignment (target, loop / with / comprehension variable, walrus, handler name) is declared at `p`, no `.flow` attribute
    of a target is recorded at `p`, and a `Name` node at `p` has a string id - "the node at `p` is a read, not a binding
    occurrence".  The binding loops (`get_indexes_for_target` + `name.id`, visit_AnnAssign, visit_NamedExpr) are the only
    places where a visit method reads a `Name.id`; `visit_Name` only stores the node.  Then whenever extraction of the
    tree succeeds, extraction of the tree with the read at `p` renamed succeeds with the same state, the `.flow`
    attribute of that read recorded under the new id. -/
theorem extract_rename_proved (p : Pos) (s : String) (lines : List Text.Str) (mods : List (String × List String))
    (t : Ast) (ht : t.all (tgtQ p) = true) (st : St) (h : extract lines mods t = .ok st) :
    extract lines mods (t.rename p s) = .ok (st.mapAttrs (attrRen p s)) :=
  extract_rename_ok lines mods t ht st h

/-- NO VISIT METHOD READS `Attribute.attr`: no side condition at all (`compTrans_renameAttr`) -/
theorem extract_renameAttr_proved (p : Pos) (z : Nat) (s : String) (lines : List Text.Str)
    (mods : List (String × List String)) (t : Ast) (st : St) (h : extract lines mods t = .ok st) :
    extract lines mods (t.renameAttr p z s) = .ok st :=
  extract_renameAttr_ok lines mods t st h

/-- C12, CURSOR-MARK TRANSPARENCY AT ANALYSIS LEVEL, name branch, with the rename half PROVED: the hypothesis `markOK2`
    (decidable; driver op `markPair`) no longer contains `renQ` - it asks that the renamed node is a read (`tgtQ`), that
    the renamed and the marked tree are a layout pair (`layoutPairOK`), that the cursor makes the same comparisons with
    every stored location before and after the shift, and that the renamed name does not move. -/
theorem C12_mark_transparent (t : Ast) (cursor p : Pos) (newId : String) (k : Nat)
    (hok : markOK2 t cursor p newId k = true)
    (lines lines' : List Text.Str) (mods : List (String × List String)) (s : St) (builtins : List String)
    (h : extract lines mods t = .ok s) :
    ∃ s', extract lines' mods (markTree t cursor p newId k) = .ok s' ∧
      sameShape (s.toGraph builtins) (s'.toGraph builtins) = true ∧
      (∀ id f, (some p, id, f) ∈ s.flowAttrs → (some p, newId, f) ∈ s'.flowAttrs) ∧
      ∀ (n : Nat) (R : List Nat) (f : Nat),
        namesAt (s'.toGraph builtins) n R f cursor = namesAt (s.toGraph builtins) n R f cursor :=
  mark_transparent2 t cursor p newId k hok lines lines' mods s builtins h

/-- C12, attribute branch, with the rename half PROVED and NO condition on it: `markAttrOK2` = layout pair + the query
    positions (the names inside `attr.value`) do not move and make the same comparisons with every stored location. -/
theorem C12_mark_transparent_attr (t : Ast) (cursor p : Pos) (z : Nat) (newAttr : String) (k : Nat)
    (hok : markAttrOK2 t cursor p z newAttr k = true)
    (lines lines' : List Text.Str) (mods : List (String × List String)) (s : St) (builtins : List String)
    (h : extract lines mods t = .ok s) :
    ∃ s', extract lines' mods (markAttrTree t cursor p z newAttr k) = .ok s' ∧
      sameShape (s.toGraph builtins) (s'.toGraph builtins) = true ∧
      s'.attrAssigns = s.attrAssigns.map (fun x => (x.1, x.2.map
        (pairPhi (t.renameAttr p z newAttr) (markAttrTree t cursor p z newAttr k)))) ∧
      (∀ q ∈ valueNamePos t p z, ∀ id f, (some q, id, f) ∈ s.flowAttrs → (some q, id, f) ∈ s'.flowAttrs) ∧
      ∀ q ∈ valueNamePos t p z, ∀ (n : Nat) (R : List Nat) (f : Nat),
        namesAt (s'.toGraph builtins) n R f q = namesAt (s.toGraph builtins) n R f q :=
  mark_transparent_attr2 t cursor p z newAttr k hok lines lines' mods s builtins h

/-! ### non-vacuity: a small concrete tree -/

private def nm (id ctx : String) (l c : Nat) : Ast :=
  .node "Name" (some (l, c)) ["id", "ctx"] [.str id, .str ctx]

/-- `x = y; w = y` / `if x:` / `    z` -/
def exTree : Ast :=
  .node "Module" none ["body", "type_ignores"] [.list [
    .node "Assign" (some (1, 0)) ["targets", "value", "type_comment"] [.list [nm "x" "Store" 1 0], nm "y" "Load" 1 4, .none],
    .node "If" (some (2, 0)) ["test", "body", "orelse"]
      [nm "x" "Load" 2 3, .list [.node "Expr" (some (3, 4)) ["value"] [nm "z" "Load" 3 4]], .list []],
    .node "Assign" (some (1, 7)) ["targets", "value", "type_comment"] [.list [nm "w" "Store" 1 7], nm "y" "Load" 1 11, .none]
    ], .list []]

def exLines : List Text.Str := ["x = y; w = y".toList, "if x:".toList, "    z".toList]

/-- `x = y` / `w = f(x)`: a tree of the fragment; the other layout doubles every line (plus one) and shifts every
    column by three (`C13.exPhi`) -/
def exFrag : Ast :=
  .node "Module" none ["body", "type_ignores"] [.list [
    .node "Assign" (some (1, 0)) ["targets", "value", "type_comment"] [.list [nm "x" "Store" 1 0], nm "y" "Load" 1 4, .none],
    .node "Assign" (some (2, 0)) ["targets", "value", "type_comment"]
      [.list [nm "w" "Store" 2 0],
       .node "Call" (some (2, 4)) ["func", "args", "keywords"] [nm "f" "Load" 2 4, .list [nm "x" "Load" 2 6], .list []],
       .none]
    ], .list []]

/-- a real-shaped layout pair: the tree below (assignments, an `if`, an expression statement) and the same program with
    every line doubled plus one and every column shifted by three is accepted by `layoutPairOK`, and its `Name`
    positions are the six one expects -/
example : layoutPairOK exTree (exTree.mapPos SuppModel.Props.C13.exPhi) = true ∧
    namePos exTree = [(1, 0), (1, 4), (2, 3), (3, 4), (1, 7), (1, 11)] ∧
    storedLocs exTree = [(1, 5), (1, 12)] := by
  decide +kernel

/-- the cursor at the end of the first `y` of `x = y; w = y` (line 1, column 5): the hypotheses of
    `C12_mark_transparent` hold, the marked tree has the second statement 13 columns to the right, and the binding
    of `x` keeps its location (1, 5) = one column after the START of the marked name -/
example : markOK exTree (1, 5) (1, 4) "y__supp_mark__" 13 = true ∧ markOK2 exTree (1, 5) (1, 4) "y__supp_mark__" 13 = true ∧
    namePos (markTree exTree (1, 5) (1, 4) "y__supp_mark__" 13) = [(1, 0), (1, 4), (2, 3), (3, 4), (1, 20), (1, 24)] ∧
    storedLocs (markTree exTree (1, 5) (1, 4) "y__supp_mark__" 13) = [(1, 5), (1, 25)] := by
  decide +kernel

/-- `x = y` / `w = x.real.imag + y`: the cursor inside `real` (line 2, column 8: `x.re|al`) -/
def exAttrTree : Ast :=
  .node "Module" none ["body", "type_ignores"] [.list [
    .node "Assign" (some (1, 0)) ["targets", "value", "type_comment"] [.list [nm "x" "Store" 1 0], nm "y" "Load" 1 4, .none],
    .node "Assign" (some (2, 0)) ["targets", "value", "type_comment"]
      [.list [nm "w" "Store" 2 0],
       .node "BinOp" (some (2, 4)) ["left", "op", "right"]
         [.node "Attribute" (some (2, 4)) ["value", "attr", "ctx"]
            [.node "Attribute" (some (2, 4)) ["value", "attr", "ctx"] [nm "x" "Load" 2 4, .str "real", .str "Load"],
             .str "imag", .str "Load"],
          .node "Add" none [] [], nm "y" "Load" 2 18],
       .none]
    ], .list []]

/-- the inner of the two Attribute nodes at (2, 4) has size 6; the hypotheses of `C12_mark_transparent_attr` hold, the
    query positions are the one `Name` inside its value, and the `y` right of the cursor moves by 13 -/
example : markAttrOK exAttrTree (2, 8) (2, 4) 6 "re__supp_mark__al" 13 = true ∧
    markAttrOK2 exAttrTree (2, 8) (2, 4) 6 "re__supp_mark__al" 13 = true ∧
    valueNamePos exAttrTree (2, 4) 6 = [(2, 4)] ∧
    namePos (markAttrTree exAttrTree (2, 8) (2, 4) 6 "re__supp_mark__al" 13) = [(1, 0), (1, 4), (2, 0), (2, 4), (2, 31)] := by
  decide +kernel

/-- the hypotheses of the theorems hold of it, it has reads, and the graph has a region with two bindings -/
example : wellShaped exTree = true ∧ noTypeParams exTree = true ∧
    loads exTree = [(some (1, 4), "y"), (some (2, 3), "x"), (some (3, 4), "z"), (some (1, 11), "y")] := by
  decide +kernel

example : ∃ st, extract exLines [] exTree = .ok st := extract_total exLines [] exTree (by decide +kernel)

example : (match extract exLines [] exTree with
    | .ok st => st.flows.map (fun f => (f.id, f.names.map (fun n => (n.name, n.loc)), f.parents))
    | .error _ => []) =
    [(0, [("x", (1, 5))], []), (1, [], [Parent.flow 0]), (2, [], [Parent.flow 0]),
     (3, [("w", (1, 12))], [Parent.flow 1, Parent.flow 2])] := by
  decide +kernel

/-- its graph is well-formed -/
example : (match extract exLines [] exTree with | .ok st => (st.toGraph []).wf | .error _ => false) = true := by
  decide +kernel

/-- and the reads are given the flows the real extractor gives them (`y`: top, `x`: top, `z`: the `if` body, second `y`: the join) -/
example : (match extract exLines [] exTree with
    | .ok st => (loads exTree).map (fun k => st.flowAttrs.find? (fun a => a.1 == k.1 && a.2.1 == k.2) |>.map (·.2.2))
    | .error _ => []) = [some 0, some 0, some 1, some 3] := by
  decide +kernel

end SuppModel.Props.Extract
