/-
  Extract — theorems about the Lean transliteration of supp's extractor (`nast.extract_visitor`,
  `scope.py`'s constructors): property statements ONLY; lemmas are in SuppModel/Extract/Lemmas*.lean.

  `extract lines mods tree : Except Err St` is the function the driver `drv_extract` runs and the
  correspondence (harness/extractcorr.py) compares, field by field, with the graph the real extractor
  builds for the same file.  Hypotheses are decidable predicates on the serialised tree, evaluated by
  the driver on every real tree of every run (`wellShaped`, `noTypeParams`).
-/
import SuppModel.Extract.LemmasTotal
import SuppModel.Extract.LemmasCover
import SuppModel.Extract.LemmasWf
import SuppModel.Extract.LemmasWfFull
import SuppModel.Flow.Scoping
import SuppModel.Props.C05
import SuppModel.Extract.LemmasLayoutGraph
import SuppModel.Extract.LemmasLayout2
import SuppModel.Props.C13

namespace SuppModel.Props.Extract
open SuppModel.Flow SuppModel.Extract

/-- TOTALITY: on a well-shaped tree (every node has the fields its class has in the interpreter's grammar,
    with values of the kind the visit methods read) the extractor raises nothing - no AttributeError, no
    IndexError - and the recursion budget `extract` supplies (the size of the tree) is never exhausted:
    it returns a graph, whatever the source lines and whatever the project resolves star imports to. -/
theorem extract_total (lines : List Text.Str) (mods : List (String × List String)) (t : Ast)
    (h : wellShaped t = true) : ∃ st, extract lines mods t = .ok st :=
  extract_total' lines mods t h

/-- NO E42 (C01): every `Name` node with `ctx = Load()` of a well-shaped tree whose `def`s and `class`es
    have no PEP 695 type parameters is given a flow by the extractor (`name.flow` is set), so the linter
    never reports "UNKNOWN NAME" for it.  By induction over ALL node classes: each visit method visits,
    directly or through `generic_visit`, every child that can contain an expression. -/
theorem extract_every_load_has_flow (lines : List Text.Str) (mods : List (String × List String)) (t : Ast) (st : St)
    (hw : wellShaped t = true) (ht : noTypeParams t = true) (h : extract lines mods t = .ok st) :
    ∀ k ∈ loads t, st.hasFlow k :=
  extract_loads' lines mods t st hw ht h

/-- the statement without the restriction on type parameters: FALSE of the current code
    (`visit_FunctionDef` / `visit_ClassDef` never look at `node.type_params`), refuted in
    SuppModel/Witness/Extract.lean on `def f[T: b](): pass` -/
def extract_every_load_has_flow_stmt : Prop :=
  ∀ (lines : List Text.Str) (mods : List (String × List String)) (t : Ast) (st : St),
    wellShaped t = true → extract lines mods t = .ok st → ∀ k ∈ loads t, st.hasFlow k

/-- SORTED REGIONS: every flow's `_names` in the extracted graph is sorted by location - for EVERY tree the
    extractor returns a graph for (no shape hypothesis).  This is the hypothesis of `C13_bisect_sorted`:
    `names_at` = "the bindings located at or before the query position". -/
theorem extract_names_sorted (lines : List Text.Str) (mods : List (String × List String)) (t : Ast) (st : St)
    (h : extract lines mods t = .ok st) : ∀ f ∈ (st.toGraph []).flows, sortedByLoc f.names = true :=
  extract_sorted' lines mods t st h

/-- the induction principle behind it, usable for any invariant: what holds initially and is kept by each of
    the 14 primitive actions of the extractor holds of every extracted state -/
theorem extract_invariant (P : St → Prop) (hP : Preserved P) (h0 : P St.init) (lines : List Text.Str)
    (mods : List (String × List String)) (t : Ast) (st : St) (h : extract lines mods t = .ok st) : P st :=
  extract_preserves hP h0 lines mods t st h

/-- WELL-FORMEDNESS: the graph of EVERY tree the extractor returns a state for (no shape hypothesis) satisfies the
    decidable `Graph.wf` of SuppModel/Flow/Scoping.lean - name ids, flow ids and scope ids are unique, the names of a
    flow carry its scope, a flow's predecessors (loop edges included) exist and lie in the same scope, every scope's
    final flow belongs to it, there is one module scope, scope parent chains are finite, the scope of every flow
    exists.  Proved from an invariant of the extractor's state kept by each action of the interpreter, the key
    ingredient being what a visit method's local variables can hold: an EXISTING flow of the CURRENT scope. -/
theorem extract_wf (lines : List Text.Str) (mods : List (String × List String)) (t : Ast) (st : St)
    (builtins : List String) (h : extract lines mods t = .ok st) : (st.toGraph builtins).wf = true :=
  good_wf (extract_good lines mods t st h) builtins

/-- so the C05 theorems hold of every extracted graph outright (their `wf` hypothesis is discharged):
    every binding a flow's table can contain is owned by a scope on the flow's lookup chain -/
theorem extract_C05_chain (lines : List Text.Str) (mods : List (String × List String)) (t : Ast) (st : St)
    (builtins : List String) (h : extract lines mods t = .ok st) (n : Nat) (R : List Nat) (f : Nat) (fr : FlowRec)
    (tbl : Tbl) (hf : (st.toGraph builtins).flow? f = some fr) (ht : flowNames (st.toGraph builtins) n R f = some tbl) :
    tbl.ownedBy (st.toGraph builtins) (lookupChain (st.toGraph builtins) fr.scope) :=
  SuppModel.Props.C05.C05_chain _ (extract_wf lines mods t st builtins h) n R f fr tbl hf ht

/-- the same at a query position (`names_at`) -/
theorem extract_C05_chain_at (lines : List Text.Str) (mods : List (String × List String)) (t : Ast) (st : St)
    (builtins : List String) (h : extract lines mods t = .ok st) (n : Nat) (f : Nat) (fr : FlowRec) (pos : Pos)
    (tbl : Tbl) (hf : (st.toGraph builtins).flow? f = some fr) (ht : namesAt (st.toGraph builtins) n [] f pos = some tbl) :
    tbl.ownedBy (st.toGraph builtins) (lookupChain (st.toGraph builtins) fr.scope) :=
  SuppModel.Props.C05.C05_chain_at _ (extract_wf lines mods t st builtins h) n f fr pos tbl hf ht

/-- a name local to a function is never satisfied by an outer or builtin binding, in every extracted graph -/
theorem extract_C05_local_not_outer (lines : List Text.Str) (mods : List (String × List String)) (t : Ast) (st : St)
    (builtins : List String) (h : extract lines mods t = .ok st) (n : Nat) (R : List Nat) (f : Nat)
    (fr : FlowRec) (sc : ScopeRec) (tbl : Tbl) (x : String) (v : Val)
    (hf : (st.toGraph builtins).flow? f = some fr) (hs : (st.toGraph builtins).scope? fr.scope = some sc)
    (hk : sc.kind = .func) (hx : x ∈ sc.locals) (ht : flowNames (st.toGraph builtins) n R f = some tbl)
    (hv : tbl.get? x = some v) :
    ∀ a ∈ v, (a = Alt.undef x) ∨
      (∃ id nr, a = Alt.nm id ∧ (st.toGraph builtins).name? id = some nr ∧ nr.scope = fr.scope ∧
        ¬ (st.toGraph builtins).isGlobal id) :=
  SuppModel.Props.C05.C05_local_not_outer _ (extract_wf lines mods t st builtins h) n R f fr sc tbl x v hf hs hk hx ht hv

/-- FORWARD EDGES: in every extracted graph a flow's ordinary predecessors (`.flow q`; loop edges excepted) were
    created before it, and a scope's parent before the scope: creation index is a rank for the edges inside a
    scope.  (`Graph.ranked` itself is NOT derived: a root flow also depends on the FINAL flow of the enclosing
    function / module scope, which is created later than the inner scope's flows, so the rank is not the creation
    index; it exists - order by nesting depth, then index - but `ranked` is about the particular relaxation
    `computeRank` of Flow/Rank.lean, whose convergence on acyclic graphs is not proved there.) -/
theorem extract_forward_edges (lines : List Text.Str) (mods : List (String × List String)) (t : Ast) (st : St)
    (h : extract lines mods t = .ok st) :
    (∀ (i : Nat) (f : FlowRec), st.flows[i]? = some f → ∀ q, Parent.flow q ∈ f.parents → q < i) ∧
    (∀ (i : Nat) (s : ScopeSt), st.scopes[i]? = some s → s.parent = none ∨ ∃ p, s.parent = some p ∧ p < i) := by
  have hg := extract_good lines mods t st h
  constructor
  · intro i f hf q hq
    exact hg.struct.fwd i (f.scope, f.parents) (by simp [St.fsk, hf]) q hq
  · intro i s hs
    exact hg.struct.parent i (s.kind, s.parent, s.flow) (by simp [St.ssk, hs])

/-- the part of it that is proved, for EVERY tree the extractor returns a graph for: flow ids and scope ids
    are creation indices (so they are unique and `Graph.flow?` / `Graph.scope?` are list indexing), and every
    name of a flow carries that flow's scope -/
theorem extract_wf_partial (lines : List Text.Str) (mods : List (String × List String)) (t : Ast) (st : St)
    (h : extract lines mods t = .ok st) :
    (∀ (i : Nat) (f : FlowRec), (st.toGraph []).flows[i]? = some f → f.id = i) ∧
    (∀ (i : Nat) (s : ScopeSt), st.scopes[i]? = some s → s.id = i) ∧
    (∀ f ∈ (st.toGraph []).flows, ∀ n ∈ f.names, n.scope = f.scope) :=
  let b := extract_basic lines mods t st h
  ⟨b.flowIds, b.scopeIds, b.nameScope⟩

/-- LAYOUT INDEPENDENCE at extractor level, the part that is proved (layer 1: the interpreter).
    Two layouts of one program: the second tree is the first with every node position mapped by `φ`; `ψ` maps the
    locations the extractor stores in names (node positions, `get_expr_end` = a node start + (0, 1), the
    decorated-body location), `S` lists them, and `ψ` preserves their order.  IF on every node of the tree the
    actions of the visit method on the re-positioned node are the re-positioned actions, storing locations of `S`
    (`CompileComm`: a statement about the state-free reading half `compile` only - layer 2, stated, not proved),
    THEN the second extraction succeeds, the two graphs have the same shape (`sameShape`: the hypothesis of
    `C13_layouts`; in particular every `_names` list has the same bindings in the same order), the second graph is
    the first with locations mapped by `ψ`, reads are recorded at the mapped positions with the same flows, and for
    every read whose position is in `S` with `ψ pos = φ pos`, `orderIsoAt` holds - so by `C13_layouts` both
    layouts give every read the same table.  `declared_at` (a text search over different texts) is not related. -/
theorem extract_layout_partial (φ ψ : Pos → Pos) (S : List Pos) (Q : Ast → Bool)
    (hop : OrderPreserving ψ S) (hQ : CompileComm φ ψ S Q)
    (lines lines' : List Text.Str) (mods : List (String × List String)) (t : Ast) (ht : t.all Q = true)
    (st : St) (builtins : List String) (h : extract lines mods t = .ok st) :
    ∃ st', extract lines' mods (t.mapPos φ) = .ok st' ∧
      st'.toGraph builtins = (st.toGraph builtins).mapLoc ψ ∧
      sameShape (st.toGraph builtins) (st'.toGraph builtins) = true ∧
      st'.flowAttrs = st.flowAttrs.map (fun x => (x.1.map φ, x.2.1, x.2.2)) ∧
      ∀ pos id f, (some pos, id, f) ∈ st.flowAttrs → pos ∈ S → ψ pos = φ pos →
        orderIsoAt (st.toGraph builtins) (st'.toGraph builtins) f pos (φ pos) = true := by
  obtain ⟨st', e, hs, hl⟩ := extract_sim hop lines lines' mods hQ t ht st h
  have hg := hs.toGraph builtins
  refine ⟨st', e, hg, by rw [hg]; exact sameShape_mapLoc _, hs.flowAttrs, ?_⟩
  intro pos id f _ hpos hψ
  rw [hg, ← hψ]
  apply orderIsoAt_mapLoc
  apply OrderPreserving.sub hop
  intro p hp
  rcases List.mem_cons.mp hp with rfl | hp
  · exact hpos
  · exact locsOf_in hl builtins f p hp

/-- the same WITHOUT the `CompileComm` hypothesis on the fragment layer 2 is proved for: trees made of assignments,
    names and the classes without a visit method (expressions, calls, attribute access, expression statements, …),
    whose positions `p` satisfy `ψ (p.1, p.2 + 1) = ((φ p).1, (φ p).2 + 1)` and whose stored locations are in `S`
    (`fragQ`, decidable) -/
theorem extract_layout_fragment (φ ψ : Pos → Pos) (S : List Pos) (hop : OrderPreserving ψ S)
    (lines lines' : List Text.Str) (mods : List (String × List String)) (t : Ast) (ht : t.all (fragQ φ ψ S) = true)
    (st : St) (builtins : List String) (h : extract lines mods t = .ok st) :
    ∃ st', extract lines' mods (t.mapPos φ) = .ok st' ∧
      st'.toGraph builtins = (st.toGraph builtins).mapLoc ψ ∧
      sameShape (st.toGraph builtins) (st'.toGraph builtins) = true ∧
      st'.flowAttrs = st.flowAttrs.map (fun x => (x.1.map φ, x.2.1, x.2.2)) ∧
      ∀ pos id f, (some pos, id, f) ∈ st.flowAttrs → pos ∈ S → ψ pos = φ pos →
        orderIsoAt (st.toGraph builtins) (st'.toGraph builtins) f pos (φ pos) = true :=
  extract_layout_partial φ ψ S (fragQ φ ψ S) hop compileComm_frag lines lines' mods t ht st builtins h

/-! ### non-vacuity: a small concrete tree -/

private def nm (id ctx : String) (l c : Nat) : Ast :=
  .node "Name" (some (l, c)) ["id", "ctx"] [.str id, .str ctx]

/-- `x = y; w = y` / `if x:` / `    z` -/
def exTree : Ast :=
  .node "Module" none ["body", "type_ignores"] [.list [
    .node "Assign" (some (1, 0)) ["targets", "value", "type_comment"] [.list [nm "x" "Store" 1 0], nm "y" "Load" 1 4, .none],
    .node "If" (some (2, 0)) ["test", "body", "orelse"]
      [nm "x" "Load" 2 3, .list [.node "Expr" (some (3, 4)) ["value"] [nm "z" "Load" 3 4]], .list []],
    .node "Assign" (some (1, 7)) ["targets", "value", "type_comment"] [.list [nm "w" "Store" 1 7], nm "y" "Load" 1 11, .none]
    ], .list []]

def exLines : List Text.Str := ["x = y; w = y".toList, "if x:".toList, "    z".toList]

/-- `x = y` / `w = f(x)`: a tree of the fragment; the other layout doubles every line (plus one) and shifts every
    column by three (`C13.exPhi`) -/
def exFrag : Ast :=
  .node "Module" none ["body", "type_ignores"] [.list [
    .node "Assign" (some (1, 0)) ["targets", "value", "type_comment"] [.list [nm "x" "Store" 1 0], nm "y" "Load" 1 4, .none],
    .node "Assign" (some (2, 0)) ["targets", "value", "type_comment"]
      [.list [nm "w" "Store" 2 0],
       .node "Call" (some (2, 4)) ["func", "args", "keywords"] [nm "f" "Load" 2 4, .list [nm "x" "Load" 2 6], .list []],
       .none]
    ], .list []]

/-- the hypotheses of `extract_layout_fragment` hold of it (stored locations: the two expression ends, and the read
    positions), so its two layouts are extracted to graphs of the same shape with order-isomorphic regions -/
example : exFrag.all (fragQ SuppModel.Props.C13.exPhi SuppModel.Props.C13.exPhi [(1, 5), (2, 7), (1, 4), (2, 4), (2, 6)]) = true ∧
    (match extract [] [] exFrag with
     | .ok st => st.flows.map (fun f => f.names.map (fun n => (n.name, n.loc)))
     | .error _ => []) = [[("x", (1, 5)), ("w", (2, 7))]] := by
  decide +kernel

example : ∃ st st', extract [] [] exFrag = .ok st ∧ extract [] [] (exFrag.mapPos SuppModel.Props.C13.exPhi) = .ok st' ∧
    sameShape (st.toGraph []) (st'.toGraph []) = true := by
  obtain ⟨st, hst⟩ := extract_total [] [] exFrag (by decide +kernel)
  obtain ⟨st', h1, _, h3, _⟩ := extract_layout_fragment SuppModel.Props.C13.exPhi SuppModel.Props.C13.exPhi
    [(1, 5), (2, 7), (1, 4), (2, 4), (2, 6)] (SuppModel.Props.C13.exPhi_preserves _) [] [] [] exFrag (by decide +kernel) st [] hst
  exact ⟨st, st', hst, h1, h3⟩

/-- the hypotheses of the theorems hold of it, it has reads, and the graph has a region with two bindings -/
example : wellShaped exTree = true ∧ noTypeParams exTree = true ∧
    loads exTree = [(some (1, 4), "y"), (some (2, 3), "x"), (some (3, 4), "z"), (some (1, 11), "y")] := by
  decide +kernel

example : ∃ st, extract exLines [] exTree = .ok st := extract_total exLines [] exTree (by decide +kernel)

example : (match extract exLines [] exTree with
    | .ok st => st.flows.map (fun f => (f.id, f.names.map (fun n => (n.name, n.loc)), f.parents))
    | .error _ => []) =
    [(0, [("x", (1, 5))], []), (1, [], [Parent.flow 0]), (2, [], [Parent.flow 0]),
     (3, [("w", (1, 12))], [Parent.flow 1, Parent.flow 2])] := by
  decide +kernel

/-- its graph is well-formed -/
example : (match extract exLines [] exTree with | .ok st => (st.toGraph []).wf | .error _ => false) = true := by
  decide +kernel

/-- and the reads are given the flows the real extractor gives them (`y`: top, `x`: top, `z`: the `if` body, second `y`: the join) -/
example : (match extract exLines [] exTree with
    | .ok st => (loads exTree).map (fun k => st.flowAttrs.find? (fun a => a.1 == k.1 && a.2.1 == k.2) |>.map (·.2.2))
    | .error _ => []) = [some 0, some 0, some 1, some 3] := by
  decide +kernel

end SuppModel.Props.Extract
