/-
  C15 — Remote calls are transparent and failures are isolated.
  Property theorems ONLY (helper lemmas: SuppModel/Rpc/Lemmas.lean; bytes: the C14 theorems).

  Every statement is about the executable model of supp/remote.py `_call` (`clientCall`, `session`)
  and supp/server.py `Server.run` / `Server.process` (`serverStep`, `serverRun`) in
  SuppModel/Rpc/Model.lean, for ANY in-process API `api` (any state type, any function that may
  raise and may change the state) and any request sequence, with `dumps`/`loads` the C14 model of
  supp/umsgpack.py.  The `C15_server_*` theorems are about `serverApply` (SuppModel/Rpc/Server.lean),
  the five methods of `Server`, for ANY library `lib`.

  Hypotheses (decidable, evaluated by the driver on every input):
    `reqOK r`  the request `(name, args, kwargs)` is in the MessagePack data model and `name != 'close'`
    `resOK x`  the in-process result is a Python object: in the data model, or refused by `dumps`
-/
import SuppModel.Rpc.Lemmas

namespace SuppModel.Props.C15
open SuppModel.Msgpack SuppModel.Rpc

/-- what the client observes for a request sequence is, reply by reply, the in-process result of
    the same sequence: value (tuples as lists) / `Exception(message)` / `Exception('Serialize error')` -/
theorem C15_transparent {σ} (api : Api σ) (st : σ) (rs : List Req)
    (hreq : ∀ r ∈ rs, reqOK r = true)
    (hres : ∀ x ∈ (inproc api st rs).1, resOK x = true) :
    (session api st rs).1 = (inproc api st rs).1.map expected := by
  rw [session_lemma api st rs hreq hres]

/-- a request at any index — in particular one that raises, names an unknown method, has wrong
    arguments or an unserialisable result — leaves the server in its loop with the state the
    in-process run has; it is reported as an exception; the replies to every later request are the
    in-process ones -/
theorem C15_isolated {σ} (api : Api σ) (st : σ) (pre : List Req) (bad : Req) (suf : List Req)
    (hreq : ∀ r ∈ pre ++ bad :: suf, reqOK r = true)
    (hres : ∀ x ∈ (inproc api st (pre ++ bad :: suf)).1, resOK x = true) :
    -- the step of `bad` itself, from the state after `pre`
    (clientCall api (inproc api st pre).2 bad).1 = (inprocStep api (inproc api st pre).2 bad).1 ∧
    (clientCall api (inproc api st pre).2 bad).2.1 = none ∧
    (failing (inprocStep api (inproc api st pre).2 bad).2 = true →
      ∃ m, (clientCall api (inproc api st pre).2 bad).2.2 = .exception m) ∧
    -- the whole session: server alive at the end, state = in-process state
    (session api st (pre ++ bad :: suf)).2 = ((inproc api st (pre ++ bad :: suf)).2, none) ∧
    -- replies to the suffix = in-process results of the suffix from the in-process state
    (session api st (pre ++ bad :: suf)).1.drop (pre.length + 1) =
      (inproc api (inprocStep api (inproc api st pre).2 bad).1 suf).1.map expected := by
  obtain ⟨h1, h2, h3⟩ := isolated_lemma api st pre bad suf hreq hres
  refine ⟨by rw [h2], by rw [h2], ?_, h1, h3⟩
  intro hf
  obtain ⟨m, hm⟩ := expected_failing _ hf
  exact ⟨m, by rw [h2, hm]⟩

/-- `Server.run` on the byte stream of the requests: exactly one reply per request, in order
    (the i-th reply decodes to the i-th in-process result), and the loop is still running -/
theorem C15_paired {σ} (api : Api σ) (st : σ) (rs : List Req) (bss : List Bytes)
    (henc : Encoded rs bss)
    (hreq : ∀ r ∈ rs, reqOK r = true)
    (hres : ∀ x ∈ (inproc api st rs).1, resOK x = true) :
    (serverRun api st (bss.map some)).1.length = rs.length ∧
    (∀ i : Nat, ((serverRun api st (bss.map some)).1[i]?).map clientDecode =
          ((inproc api st rs).1[i]?).map expected) ∧
    (serverRun api st (bss.map some)).2 = ((inproc api st rs).2, none) := by
  obtain ⟨reps, hrun, hdec⟩ := serverRun_lemma api st rs bss henc hreq hres
  rw [hrun]
  refine ⟨?_, ?_, rfl⟩
  · have := congrArg List.length hdec
    simpa [inproc_length] using this
  · intro i
    have := congrArg (fun l => l[i]?) hdec
    simpa using this

/-- such a byte stream exists for every data-model request sequence -/
theorem C15_paired_encodable (rs : List Req) (hreq : ∀ r ∈ rs, reqOK r = true) :
    ∃ bss, Encoded rs bss ∧ bss.length = rs.length := by
  obtain ⟨bss, h⟩ := encoded_exists rs hreq
  exact ⟨bss, h, encoded_length rs bss h⟩

/-- `close` (whatever its arguments) produces no reply and ends the loop, nothing after it is
    read; so do EOF and undecodable bytes; the state is untouched -/
theorem C15_close {σ} (api : Api σ) (st : σ) (rest : List (Option Bytes)) :
    (∀ args kwargs, wf (Req.wire ⟨.str closeName, args, kwargs⟩) = true →
      ∃ bs, dumps (Req.wire ⟨.str closeName, args, kwargs⟩) = .ok bs ∧
        serverRun api st (some bs :: rest) = ([], st, some .closed)) ∧
    serverRun api st (none :: rest) = ([], st, some .eof) ∧
    (∀ bs e, loads bs = .error e → serverRun api st (some bs :: rest) = ([], st, some (.ioError e))) := by
  refine ⟨?_, ?_, ?_⟩
  · intro args kwargs hw
    obtain ⟨bs, hd, _⟩ := request_lemma _ hw
    exact ⟨bs, hd, serverRun_exit api st _ rest st _ (serverStep_close api st args kwargs bs hw hd)⟩
  · exact serverRun_exit api st none rest st _ rfl
  · intro bs e he
    exact serverRun_exit api st (some bs) rest st _ (by simp [serverStep, he])

/-! ### the methods of `Server`: the server-side normalisations (`nstr`, `tuple(position)`)
    restore the client's arguments, `lint` is trimmed to four fields, `configure` replaces the
    project, a missing project is an AttributeError inside `process` -/

theorem C15_server_assist {ω} (lib : Lib ω) (w : ω) (s p f : Value) (h : docArgs s p f = true) :
    serverApply lib (w, true) (.str sAssist) (normV (.tup [s, p, f])) (normV (.map [])) =
      (((lib.assist w s p f).1, true), (lib.assist w s p f).2) :=
  server_assist lib w s p f h

theorem C15_server_location {ω} (lib : Lib ω) (w : ω) (s p f : Value) (h : docArgs s p f = true) :
    serverApply lib (w, true) (.str sLocation) (normV (.tup [s, p, f])) (normV (.map [])) =
      (((lib.location w s p f).1, true), (lib.location w s p f).2) :=
  server_location lib w s p f h

theorem C15_server_lint {ω} (lib : Lib ω) (w : ω) (u : Bytes) (f so : Value)
    (hf : tupFree f = true) (hso : tupFree so = true) :
    serverApply lib (w, true) (.str sLint) (normV (.tup [.str u, f, so])) (normV (.map [])) =
      afterLint true (lib.lint w (.str u) f) :=
  server_lint lib w u f so hf hso

theorem C15_server_eval {ω} (lib : Lib ω) (w : ω) (hp : Bool) (u : Bytes) :
    serverApply lib (w, hp) (.str sEval) (normV (.tup [.str u])) (normV (.map [])) =
      (((lib.eval w (.str u)).1, hp), (lib.eval w (.str u)).2) :=
  server_eval lib w hp u

theorem C15_server_configure {ω} (lib : Lib ω) (w : ω) (hp : Bool) (cfg : Value) :
    serverApply lib (w, hp) (.str sConfigure) (normV (.tup [cfg])) (normV (.map [])) =
      afterConfigure hp (lib.newProject w (normV cfg)) :=
  server_configure lib w hp cfg

theorem C15_server_noproject {ω} (lib : Lib ω) (w : ω) (n : Bytes) (s p f : Value)
    (hn : n = sAssist ∨ n = sLocation) :
    serverApply lib (w, false) (.str n) (normV (.tup [s, p, f])) (normV (.map [])) =
      (((lib.noProject w).1, false), (lib.noProject w).2) :=
  server_noproject lib w n s p f hn

/-! ### non-vacuity: a toy API with a state-changing method, a raising one, one with an
    unserialisable result and "unknown method"; a sequence with failures in the middle -/

/-- state = a counter; `'i'` returns `(counter, ())` and increments; `'b'` raises `E('m')`;
    `'o'` returns `[object()]`; anything else: AttributeError-like -/
def toy : Api Nat := ⟨fun st name _ _ =>
  match name with
  | .str [105] => (st + 1, .ok (.tup [.int st, .tup []]))
  | .str [98] => (st, .raised (.str [69]) (.str [109]))
  | .str [111] => (st, .ok (.arr [.opaque]))
  | _ => (st, .raised (.str [65]) (.str [110, 111]))⟩

def toyReqs : List Req :=
  [⟨.str [105], [.tup [.int 1, .int 2]], []⟩, ⟨.str [98], [], [(.str [107], .nil)]⟩,
   ⟨.str [111], [], []⟩, ⟨.str [122], [.bin [0, 255]], []⟩, ⟨.str [105], [], []⟩]

example : (∀ r ∈ toyReqs, reqOK r = true) ∧ (∀ x ∈ (inproc toy 0 toyReqs).1, resOK x = true) := by
  decide

-- what `C15_transparent` then says about this session: the second, third and fourth request fail
-- (raise / unserialisable / unknown), the fifth still sees the counter the first one left
example : (session toy 0 toyReqs).1 =
    [.returned (.arr [.int 0, .arr []]), .exception (.str [109]), .exception (.str serErrMsg),
     .exception (.str [110, 111]), .returned (.arr [.int 1, .arr []])] := by
  rw [C15_transparent toy 0 toyReqs (by decide) (by decide)]
  rfl

-- `C15_isolated`: the split with `bad` = the unserialisable request is covered, and it is failing
example : failing (inprocStep toy (inproc toy 0 (toyReqs.take 2)).2 ⟨.str [111], [], []⟩).2 = true := by
  decide

-- `C15_close`: a `close` request in the data model
example : wf (Req.wire ⟨.str closeName, [], []⟩) = true := by decide

-- `C15_server_*`: documented argument types exist
example : docArgs (.str [120]) (.tup [.int 1, .int 0]) (.str [47, 97]) = true := by decide

-- argument binding: `lint(source, filename=f)` binds like `lint(source, f, False)`; an unknown keyword does not bind
example : bindArgs [(pSource, none), (pFilename, none), (pSyntaxOnly, some (.bool false))]
      [.str [120]] [(.str pFilename, .str [102])] = some [.str [120], .str [102], .bool false] ∧
    bindArgs [(pSource, none)] [] [(.str [120], .nil)] = none ∧
    bindArgs [(pSource, none)] [.nil, .nil] [] = none := by
  refine ⟨?_, ?_, ?_⟩ <;> rfl

-- (that `closeName`, `serErrMsg`, `sAssist`, … are the UTF-8 bytes of the strings in server.py is checked
-- on every run by the harness through the driver's `literals` request)

end SuppModel.Props.C15
