/-
  C08 (graph-level part) — the name-table evaluator is TOTAL on ranked graphs.
  Property theorems ONLY.  `Graph.ranked g` (SuppModel/Flow/Rank.lean; decidable, evaluated by the
  driver on every real graph) says: ignoring loop back edges the flow graph is acyclic - every
  `.flow` predecessor has a smaller rank, a root flow has a larger rank than the final flow its
  scope's parent chain resolves to (class scopes delegate to their parent, the builtin scope ends
  the chain) - and every flow / scope / loop target referred to exists.  Then every table is
  computed, by the pure evaluator and by the memoised ones, for every set of cut loops and every
  history of queries, with the explicit fuel `Graph.rankFuel g`
      = (Σ #predecessors + #scopes + 6) * ((#loop edges + 1) * (#flows + 1)).
  Acyclicity + closure under reference is all that is needed; no extra clause.
-/
import SuppModel.Flow.Lemmas
import SuppModel.Flow.LemmasRank

namespace SuppModel.Props.C08Flow
open SuppModel.Flow

/-- with an explicit rank (an array indexed by flow id, e.g. supplied by the harness) -/
theorem C08_eval_terminates_rank (g : Graph) (rk : Array Nat) (hv : validRank g rk = true)
    (f : Nat) (fr : FlowRec) (hf : g.flow? f = some fr) (R : List Nat) (n : Nat)
    (hn : g.rankFuel ≤ n) : (flowNames g n R f).isSome := by
  obtain ⟨t, ht⟩ := flowNames_total hv f fr hf R n hn
  simp [ht]

/-- TERMINATION of the evaluator: on a ranked graph the table of every existing flow is computed,
    whatever loops are cut, with any fuel ≥ `rankFuel g` -/
theorem C08_eval_terminates (g : Graph) (hr : g.ranked = true) (f : Nat) (fr : FlowRec)
    (hf : g.flow? f = some fr) (R : List Nat) (n : Nat) (hn : g.rankFuel ≤ n) :
    (flowNames g n R f).isSome :=
  C08_eval_terminates_rank g (computeRank g) hr f fr hf R n hn

/-- COMPLETENESS of the check: `Graph.ranked` holds as soon as ANY map flow id ↦ Nat (an array
    indexed by flow id) strictly decreases along every non-loop call and everything referred to
    exists (`validRankU`: no bound on the values) - so a rank argued for on paper or supplied by
    the extractor (e.g. nesting depth of the scope, then creation index) establishes `ranked`, and
    with it all theorems here.  (The computed rank is the least one, at most the number of flows
    with a smaller given rank, hence ≤ #flows.) -/
theorem C08_ranked_complete_unbounded (g : Graph) (rk : Array Nat) (h : validRankU g rk = true) :
    g.ranked = true :=
  ranked_of_validRankU g rk h

/-- in particular from a valid rank in the sense of `validRank` (values ≤ #flows) -/
theorem C08_ranked_complete (g : Graph) (rk : Array Nat) (h : validRank g rk = true) :
    g.ranked = true :=
  ranked_of_validRank g rk h

/-- in the form "some fuel, below the bound, suffices" -/
theorem C08_eval_terminates_ex (g : Graph) (hr : g.ranked = true) (f : Nat) (fr : FlowRec)
    (hf : g.flow? f = some fr) (R : List Nat) :
    ∃ n, n ≤ g.rankFuel ∧ (flowNames g n R f).isSome :=
  ⟨g.rankFuel, Nat.le_refl _, C08_eval_terminates g hr f fr hf R _ (Nat.le_refl _)⟩

/-- every `names_at` query on an existing flow is answered -/
theorem C08_names_at_answers (g : Graph) (hr : g.ranked = true) (f : Nat) (fr : FlowRec)
    (hf : g.flow? f = some fr) (pos : Pos) (n : Nat) (hn : g.rankFuel ≤ n) :
    (namesAt g n [] f pos).isSome := by
  obtain ⟨t, ht⟩ := namesAt_total hr f fr hf [] pos n hn
  simp [ht]

/-- and so is every query of every history, by the memoised evaluator of Memo.lean (= scope.py) -/
theorem C08_history_answers (g : Graph) (hr : g.ranked = true) (n : Nat) (hn : g.rankFuel ≤ n)
    (qs : List Query) (hq : ∀ q ∈ qs, (g.flow? q.flow).isSome) (i : Nat) (q : Query)
    (hi : qs[i]? = some q) : ((runQueries g n {} qs)[i]?.bind id).isSome := by
  refine runQueries_total g n qs {} rfl ?_ i q hi
  intro q' hq'
  obtain ⟨fr, hfr⟩ := Option.isSome_iff_exists.mp (hq q' hq')
  obtain ⟨t, ht⟩ := namesAt_total hr q'.flow fr hfr [] q'.pos n hn
  simp [lookupAt, ht]

/-- and by the exact memoised evaluator of Checked.lean -/
theorem C08_exact_history_answers (g : Graph) (hr : g.ranked = true) (n : Nat) (hn : g.rankFuel ≤ n)
    (qs : List Query) (hq : ∀ q ∈ qs, (g.flow? q.flow).isSome) (i : Nat) (q : Query)
    (hi : qs[i]? = some q) : ((runQueriesExact g n {} qs)[i]?.bind id).isSome := by
  refine runQueriesExact_total g n qs {} rfl ?_ i q hi
  intro q' hq'
  obtain ⟨fr, hfr⟩ := Option.isSome_iff_exists.mp (hq q' hq')
  obtain ⟨t, ht⟩ := namesAt_total hr q'.flow fr hfr [] q'.pos n hn
  simp [lookupAt, ht]

/-! ### non-vacuity -/

private def nm (i : Nat) (s : String) : NameRec := { id := i, name := s, loc := (1, 0), scope := 0 }

/-- nested `for` loops (the graph of Witness/C04.lean) -/
def gNested : Graph :=
  Graph.mk
    [FlowRec.mk 0 0 [nm 100 "x"] [],
     FlowRec.mk 1 0 [nm 101 "i", nm 102 "c"] [Parent.flow 0, Parent.loop 1 5],
     FlowRec.mk 2 0 [nm 103 "j"] [Parent.flow 1, Parent.loop 2 4],
     FlowRec.mk 3 0 [nm 104 "y"] [Parent.flow 2],
     FlowRec.mk 4 0 [] [Parent.flow 3, Parent.flow 2],
     FlowRec.mk 5 0 [nm 105 "d"] [Parent.flow 2],
     FlowRec.mk 6 0 [nm 106 "z"] [Parent.flow 1]]
    [ScopeRec.mk 0 .module none [] 6 []] []

/-- a method in a class in a module: the root flow 30 of the method depends, through the class
    scope, on the module's final flow 10 -/
def gScopes : Graph :=
  Graph.mk
    [FlowRec.mk 10 1 [nm 101 "y"] [],
     FlowRec.mk 20 2 [nm 200 "attr"] [],
     FlowRec.mk 30 3 [nm 300 "y"] [],
     FlowRec.mk 31 3 [] [Parent.flow 30]]
    [ScopeRec.mk 0 .builtin none [] 0 [],
     ScopeRec.mk 1 .module (some 0) ["y"] 10 [],
     ScopeRec.mk 2 .cls (some 1) [] 20 [],
     ScopeRec.mk 3 .func (some 2) ["y"] 31 []] ["len"]

/-- a cycle of `.flow` edges, and a function whose own final flow is its root flow's outer table -/
def gCyclic : Graph :=
  Graph.mk [FlowRec.mk 0 0 [] [Parent.flow 1], FlowRec.mk 1 0 [] [Parent.flow 0]]
    [ScopeRec.mk 0 .module none [] 1 []] []

/-- both graphs are ranked (the computed ranks are the longest-path depths), the bounds are small
    numbers, the cyclic graph is rejected - and indeed does not terminate with that fuel -/
example :
    gNested.ranked = true ∧ computeRank gNested = #[0, 1, 2, 3, 4, 3, 2] ∧ gNested.rankFuel = 384 ∧
    gScopes.ranked = true ∧ rankOf (computeRank gScopes) 30 = 1 ∧ rankOf (computeRank gScopes) 31 = 2 ∧
    gScopes.rankFuel = 55 ∧
    gCyclic.ranked = false ∧ flowNames gCyclic gCyclic.rankFuel [] 0 = none := by
  decide +kernel

/-- hypotheses of the theorems met: existing flows, a history inside the loops and outside -/
example :
    (gNested.flow? 4).isSome = true ∧
    (∀ q ∈ [(⟨4, (0, 0), "y"⟩ : Query), ⟨6, (9, 9), "y"⟩, ⟨3, (0, 0), "d"⟩], (gNested.flow? q.flow).isSome) ∧
    runQueries gNested gNested.rankFuel {} [⟨4, (0, 0), "y"⟩, ⟨6, (9, 9), "y"⟩, ⟨3, (0, 0), "d"⟩] =
      [some (some [.undef "y", .nm 104]), some (some [.undef "y", .nm 104]),
       some (some [.undef "d", .nm 105])] := by
  decide +kernel

/-- `C08_ranked_complete_unbounded` / `C08_ranked_complete`: a decreasing rank for `gScopes` that is
    NOT the computed one - scope nesting depth * 100 + creation index: not a `validRank` (values
    exceed #flows = 4) but a `validRankU`; and a bounded one -/
def exDepthRank : Array Nat := Array.ofFn (n := 32) (fun i =>
  if i.val = 10 then 100 else if i.val = 20 then 201 else if i.val = 30 then 302 else
  if i.val = 31 then 303 else 0)
def exSmallRank : Array Nat := Array.ofFn (n := 32) (fun i =>
  if i.val = 10 then 0 else if i.val = 20 then 1 else if i.val = 30 then 2 else
  if i.val = 31 then 4 else 0)

example :
    validRankU gScopes exDepthRank = true ∧ validRank gScopes exDepthRank = false ∧
    validRank gScopes exSmallRank = true ∧ computeRank gScopes ≠ exSmallRank ∧
    validRankU gCyclic (computeRank gCyclic) = false := by
  decide +kernel

end SuppModel.Props.C08Flow
