/-
  C16 — exactly one server under every interleaving; close and disconnect end it.
  Property theorems ONLY (lemmas live in SuppModel/Startup/Lemmas*.lean).  Every statement is about
  the executable line-level model `step`/`exec` of SuppModel/Startup/Model.lean (any number of threads;
  the schedule — a list of thread ids — is universally quantified), which the harness ties to
  supp/remote.py by forcing the model's schedules on the real class.
-/
import SuppModel.Startup.Lemmas

namespace SuppModel.Props.C16
open SuppModel.Startup

/-- Safety, for every workload of prepare()/call operations on any number of threads and EVERY schedule:
    at most one server is launched; no thread has seen an exception; the lines inside a
    `with self.prepare_lock:` block are occupied by at most one thread, and it is the recorded owner. -/
theorem C16_inv (w : List (List Op)) (hw : noClose w = true) (sched : List Tid) :
    let s := exec .current false sched (init w)
    s.popen ≤ 1 ∧
    (∀ (i : Tid) (th : Thr) (e : Exc), s.threads[i]? = some th → th.out ≠ .raised e) ∧
    (∀ (i j : Tid) (thi thj : Thr), s.threads[i]? = some thi → s.threads[j]? = some thj →
        thi.pc.locked = true → thj.pc.locked = true → s.lock = some i ∧ i = j) ∧
    (∀ o, s.lock = some o → ∃ th, s.threads[o]? = some th ∧ th.pc.locked = true) := by
  have h := inv_reach w hw sched
  exact ⟨inv_popen h, fun i th e hi => inv_no_raise h i th hi e,
         fun i j thi thj hi hj => inv_mutex h i j thi thj hi hj, inv_lock_owner h⟩

/-! non-vacuity: three threads (prepare; call; prepare then call), and a schedule that interleaves them -/
example : noClose [[.prepare], [.call], [.prepare, .call]] = true := by decide
example : (exec .current false [0,1,2,0,1,2,0,1,2,0,0,0,3,3,3,1,1,1,1,1,1,1,1,1,1,2,2,2,2,2,2,2,2,2,2,2,2]
    (init [[.prepare], [.call], [.prepare, .call]])).popen = 1 := by decide

/-- Termination, for every variant of the source, with or without launch failure, any workload and
    any number of threads: every line executed strictly decreases the rank `St.rank` (a natural number),
    so every schedule stops; no strict schedule is longer than the rank of the initial state. -/
theorem C16_terminates (v : Variant) (lf : Bool) :
    (∀ (s s' : St) (t : Tid), step v lf s t = some s' → s'.rank < s.rank) ∧
    (∀ (w : List (List Op)) (sched : List Tid) (s' : St),
        execStrict v lf sched (init w) = some s' → sched.length ≤ (init w).rank) := by
  refine ⟨fun s s' t h => rank_step h, fun w sched s' h => ?_⟩
  have := execStrict_bound v lf sched (init w) s' h
  omega

example : (init [[.prepare], [.call], [.prepare, .call]]).rank = 48 := by decide

/-- Sequential composition with close().  Take ANY reachable state of a prepare()/call workload in which
    every thread has finished and a connection exists, and let a new thread run close() and then a call.
    After the five lines of close(): `conn` is gone, exactly one close message was sent, the server has
    left (`live = false`), nobody holds the lock.  After the fourteen lines of the call: exactly one new
    server (two launches in total), it is live, connected, and the call was answered.  No thread that had
    finished ever runs again under any schedule, so the new thread's lines are the only ones executed.
    (close() concurrent with a call of another thread is outside the property; the harness explores it.) -/
theorem C16_close (w : List (List Op)) (hw : noClose w = true) (sched : List Tid) :
    let s := exec .current false sched (init w)
    s.final = true → s.conn.isSome = true →
    runN .current false s.threads.length 5 (s.spawn [.close, .call]) =
      some ⟨none, none, none, false, 1, s.closeMsgs + 1, s.threads ++ [⟨.cTry, [], .running, none, none, 0⟩]⟩ ∧
    runN .current false s.threads.length 19 (s.spawn [.close, .call]) =
      some ⟨none, none, some ⟨false, 0⟩, true, 2, s.closeMsgs + 1,
            s.threads ++ [⟨.done, [], .returned, none, none, 1⟩]⟩ ∧
    (∀ sched', othersDone s.threads.length (exec .current false sched' (s.spawn [.close, .call]))) := by
  intro s hf hc
  have h : Inv s := inv_reach w hw sched
  obtain ⟨hlock, hpt, hod⟩ := inv_final_quiet h hf
  cases hcc : s.conn with
  | none => simp [hcc] at hc
  | some c =>
    obtain ⟨hcl, hl, hp⟩ := inv_conn h c hcc
    have := close_then_call s c hcc hcl hl hlock hpt
    rw [hp] at this
    exact ⟨this.1, this.2, fun sched' => othersDone_exec _ _ _ sched' _ (othersDone_spawn hod _)⟩

/-! non-vacuity: a two-thread workload run to its end has a connection -/
example : let s := exec .current false ([0,0,0,0,0,0] ++ List.replicate 7 1 ++ [2,2,2] ++ List.replicate 7 1) (init [[.prepare], [.call]])
    s.final = true ∧ s.conn.isSome = true := by decide

/-- Progress: in every reachable state of a prepare()/call workload (any number of threads, every
    schedule) in which some thread is still running, some thread can execute a line.  With
    `C16_terminates` this means every schedule runs every thread to its end. -/
theorem C16_no_deadlock (w : List (List Op)) (hw : noClose w = true) (sched : List Tid) :
    let s := exec .current false sched (init w)
    s.final = false → s.stuck .current false = false := by
  intro s hf
  obtain ⟨h, h2⟩ := inv_both_reach w hw sched
  exact no_deadlock h h2 hf

/-- Exactly one server: in every reachable state of a prepare()/call workload with at least one call
    in which no thread can execute a line, exactly one server was launched and every call of every
    thread of the workload was answered (the thread returned, having received as many replies as it
    made calls). -/
theorem C16_exactly_one (w : List (List Op)) (hw : noClose w = true) (hc : hasCall w = true) (sched : List Tid) :
    let s := exec .current false sched (init w)
    s.stuck .current false = true →
    s.popen = 1 ∧ ∀ (i : Tid) (ops : List Op), w[i]? = some ops →
      ∃ th, s.threads[i]? = some th ∧ th.out = .returned ∧ th.answered = ops.count .call := by
  intro s hst
  obtain ⟨h, h2⟩ := inv_both_reach w hw sched
  exact exactly_one h h2 hc hst

/-! non-vacuity: a workload with calls, a schedule that leaves nothing runnable, and one that does -/
example : noClose [[.prepare], [.call]] = true ∧ hasCall [[.prepare], [.call]] = true := by decide
example : (exec .current false ([0,0,0,0,0,0] ++ List.replicate 7 1 ++ [2,2,2] ++ List.replicate 7 1)
    (init [[.prepare], [.call]])).stuck .current false = true := by decide
example : (exec .current false [0,0,1] (init [[.prepare], [.call]])).final = false := by decide

/-- in EVERY reachable state (not only the final ones): a server was launched iff a connection exists,
    and a thread that is not running has returned (it did not raise) -/
theorem C16_at_most_one (w : List (List Op)) (hw : noClose w = true) (sched : List Tid) :
    let s := exec .current false sched (init w)
    (s.popen = if s.conn.isSome then 1 else 0) ∧
    (∀ (i : Tid) (th : Thr), s.threads[i]? = some th → th.out ≠ .running → th.out = .returned ∧ th.pc = .done) := by
  have h := inv_reach w hw sched
  refine ⟨h.1.1, fun i th hi hr => ?_⟩
  rcases (h.2 i th hi).1 with ⟨h1, h2⟩ | ⟨_, h2⟩
  · exact ⟨h2, h1⟩
  · exact absurd h2 hr

/-- the server loop is left on a close request (after closing the connection), on EOF and on
    undecodable input; any other request is answered and the loop continues -/
theorem C16_server_exits :
    (serverStep .closeReq).continues = false ∧ (serverStep .closeReq).closesConn = true ∧
    (serverStep .eof).continues = false ∧ (serverStep .garbage).continues = false ∧
    (serverStep .request).continues = true ∧ (serverStep .request).replies = 1 := by
  decide

/-- …hence a run of the loop answers exactly the requests before the first close / EOF / garbage and
    is still running iff there was none -/
theorem C16_server_run (pre : List SrvIn) (x : SrvIn) (post : List SrvIn)
    (hpre : ∀ i ∈ pre, i = .request) (hx : x ≠ .request) :
    (serverRun (pre ++ x :: post)).continues = false ∧ (serverRun (pre ++ x :: post)).replies = pre.length ∧
    (serverRun pre).continues = true :=
  serverRun_stops pre x post hpre hx

example : (∀ i ∈ [SrvIn.request, .request], i = .request) ∧ SrvIn.eof ≠ .request := by decide

end SuppModel.Props.C16
