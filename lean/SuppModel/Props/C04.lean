/-
  C04 — answers do not depend on which positions were queried before.
  Property theorems ONLY.  They are about the graph-level evaluator of
  SuppModel/Flow/Graph.lean (pure, `lookupAt`) and SuppModel/Flow/Memo.lean (with the
  caches of scope.py made explicit, `runQueries`), for EVERY graph — in particular every
  graph the real extractor can build — and every history of queries, of any length.

  STATUS: PARTIAL.  `C04_history_stmt` / `C04_two_histories_stmt` (the property at full strength:
  every graph, every history) are FALSE of the model, also after the rework of scope.py
  (`loop_tracked`): SuppModel/Witness/C04.lean.  A table T that is final (`deps = ∅`) may have
  been computed by RESOLVING a loop l inside a nested resolution of another loop l'' whose cut
  edge l met; l's own table then depends on that resolution of l'' and dies with it, while T
  stays final (a loop's own resolution is dropped from the deps it is stored with).  When l is
  resolved again later, T is reused INSIDE that resolution, where the pure evaluator sees l's
  back edge cut.

  (1) PROVED FOR EVERY GRAPH AND EVERY HISTORY, no hypothesis:
    * `C04_pure_deterministic`: the pure evaluator's answer does not depend on the fuel;
    * `C04_memo_total`: the real evaluator (Memo.lean) answers whenever the pure one does, same
      fuel (nothing about WHICH answer);
    * `C04_checked_history`, `C04_checked_two_histories`: the CHECKED evaluator
      (SuppModel/Flow/Checked.lean, `runQueriesChecked`) has the property outright.  It is
      Memo.lean's evaluator (`C04_checked_le`: same tables, same states, whenever it answers)
      which additionally records, per cached table, the loops that were resolved to compute it
      and GIVES UP instead of reusing a table inside a resolution of one of those loops;
    * `C04_exact_history`, `C04_exact_total`: the EXACT evaluator (`runQueriesExact`: same
      book-keeping, but it recomputes instead of giving up) gives the pure evaluator's answers
      and answers whenever the pure one does — a memoised reference to compare against.
  (2) PROVED UNDER A PER-RUN HYPOTHESIS the driver evaluates (decidable, one list comparison):
    * `C04_history_partial`, `C04_two_histories_partial`: the property for every answer of the
      REAL evaluator at an index where `runQueriesChecked` gives the same answer, i.e. where the
      check did not fire.  This covers every query on graphs whose loops are not nested
      (examples below: a loop with an `if` inside, two loops in sequence — all 61 queries, 122
      orders) and, on nested loops, the queries outside the outermost loop;
    * `C04_history_validated`: the same conclusion for every answer of the REAL evaluator at an
      index where `runQueriesExact` gives the same answer (translation validation; this
      hypothesis does hold inside nested loops on every example evaluated so far).
  (3) NOT PROVED: queries inside NESTED loops (`gNested` in Witness/C04.lean).  There the real
      evaluator does reuse such tables, its intermediate tables differ from the pure evaluator's
      and the final answers agree only observationally (98 orders x 49 queries by evaluation).
      For them the property rests on the per-run comparison `runQueries = runQueriesExact`
      (translation validation: by `C04_exact_history` an agreeing answer IS the pure one) and on
      the real-code oracle search of harness/c04.py.
-/
import SuppModel.Flow.Lemmas

namespace SuppModel.Props.C04
open SuppModel.Flow

/-- the pure evaluator is a function of (graph, flow, position, name): more fuel never
    changes an answer it has given -/
theorem C04_pure_deterministic (g : Graph) (n n' : Nat) (f : Nat) (pos : Pos) (x : String)
    (a b : Option Val) (ha : lookupAt g n f pos x = some a) (hb : lookupAt g n' f pos x = some b) :
    a = b :=
  lookupAt_det g n n' f pos x a b ha hb

/-- HISTORY INDEPENDENCE (full strength; FALSE of the model, see Witness/C04.lean): whatever was
    queried before on the same analysed module (any queries, any order, any number of times), an
    answer the memoised evaluator gives is the answer of the pure evaluator from a cold start. -/
def C04_history_stmt : Prop :=
  ∀ (g : Graph) (n : Nat) (qs : List Query) (i : Nat) (q : Query) (a : Option Val),
    qs[i]? = some q → (runQueries g n {} qs)[i]? = some (some a) →
    ∃ n', lookupAt g n' q.flow q.pos q.key = some a

/-- two histories agree on every query they share (full strength; FALSE of the model) -/
def C04_two_histories_stmt : Prop :=
  ∀ (g : Graph) (n₁ n₂ : Nat) (qs₁ qs₂ : List Query) (i j : Nat) (q : Query) (a b : Option Val),
    qs₁[i]? = some q → qs₂[j]? = some q →
    (runQueries g n₁ {} qs₁)[i]? = some (some a) →
    (runQueries g n₂ {} qs₂)[j]? = some (some b) → a = b

/-- the checked evaluator has the property outright, for every graph and every history -/
theorem C04_checked_history (g : Graph) (n : Nat) (qs : List Query) (i : Nat) (q : Query)
    (a : Option Val) (hq : qs[i]? = some q)
    (ha : (runQueriesChecked g n {} qs)[i]? = some (some a)) :
    ∃ n', lookupAt g n' q.flow q.pos q.key = some a :=
  runQueriesWith_sound true g n qs {} (AllValid.empty g) rfl i q a hq ha

/-- two histories of the checked evaluator agree on every query they share -/
theorem C04_checked_two_histories (g : Graph) (n₁ n₂ : Nat) (qs₁ qs₂ : List Query) (i j : Nat)
    (q : Query) (a b : Option Val) (h₁ : qs₁[i]? = some q) (h₂ : qs₂[j]? = some q)
    (ha : (runQueriesChecked g n₁ {} qs₁)[i]? = some (some a))
    (hb : (runQueriesChecked g n₂ {} qs₂)[j]? = some (some b)) : a = b := by
  obtain ⟨m₁, e₁⟩ := C04_checked_history g n₁ qs₁ i q a h₁ ha
  obtain ⟨m₂, e₂⟩ := C04_checked_history g n₂ qs₂ j q b h₂ hb
  exact C04_pure_deterministic g m₁ m₂ q.flow q.pos q.key a b e₁ e₂

/-- where the checked evaluator answers a query, the real one, from the same state, gives the
    same table and reaches the same state: the checked evaluator only ever gives up -/
theorem C04_checked_le (g : Graph) (n : Nat) (m m' : CMemo) (f : Nat) (pos : Pos) (t : Tbl)
    (h : cNamesAt true g n m f pos = some (m', t)) :
    mNamesAt g n m.erase f pos = some (m'.erase, t) :=
  cNamesAt_le g n m m' f pos t h

/-- the exact evaluator (recompute instead of giving up) gives the pure evaluator's answers, for
    every graph and every history: the reference for the per-run comparison -/
theorem C04_exact_history (g : Graph) (n : Nat) (qs : List Query) (i : Nat) (q : Query)
    (a : Option Val) (hq : qs[i]? = some q)
    (ha : (runQueriesExact g n {} qs)[i]? = some (some a)) :
    ∃ n', lookupAt g n' q.flow q.pos q.key = some a :=
  runQueriesWith_sound false g n qs {} (AllValid.empty g) rfl i q a hq ha

/-- and it never gives up: it answers whenever the pure evaluator does (same fuel) -/
theorem C04_exact_total (g : Graph) (n : Nat) (qs : List Query) (i : Nat) (q : Query)
    (hq : qs[i]? = some q)
    (hall : ∀ q' ∈ qs, (lookupAt g n q'.flow q'.pos q'.key).isSome) :
    ((runQueriesExact g n {} qs)[i]?.bind id).isSome :=
  runQueriesExact_total g n qs {} rfl hall i q hq

/-- per-run translation validation: an answer of the real evaluator that the exact evaluator
    reproduces is the pure evaluator's (this hypothesis can hold inside nested loops, where the
    one of `C04_history_partial` does not) -/
theorem C04_history_validated (g : Graph) (n : Nat) (qs : List Query) (i : Nat) (q : Query)
    (a : Option Val)
    (hval : (runQueriesExact g n {} qs)[i]? = (runQueries g n {} qs)[i]?)
    (hq : qs[i]? = some q) (ha : (runQueries g n {} qs)[i]? = some (some a)) :
    ∃ n', lookupAt g n' q.flow q.pos q.key = some a :=
  C04_exact_history g n qs i q a hq (hval.trans ha)

/-- HISTORY INDEPENDENCE, for every answer the checked evaluator confirms: whatever was queried
    before (any queries, any order, any number of times), such an answer of the memoised
    evaluator is the answer of the pure evaluator from a cold start. -/
theorem C04_history_partial (g : Graph) (n : Nat) (qs : List Query) (i : Nat) (q : Query)
    (a : Option Val)
    (hchk : (runQueriesChecked g n {} qs)[i]? = (runQueries g n {} qs)[i]?)
    (hq : qs[i]? = some q) (ha : (runQueries g n {} qs)[i]? = some (some a)) :
    ∃ n', lookupAt g n' q.flow q.pos q.key = some a :=
  C04_checked_history g n qs i q a hq (hchk.trans ha)

/-- consequently two histories agree on every such query they share -/
theorem C04_two_histories_partial (g : Graph) (n₁ n₂ : Nat) (qs₁ qs₂ : List Query) (i j : Nat)
    (q : Query) (a b : Option Val)
    (hchk₁ : (runQueriesChecked g n₁ {} qs₁)[i]? = (runQueries g n₁ {} qs₁)[i]?)
    (hchk₂ : (runQueriesChecked g n₂ {} qs₂)[j]? = (runQueries g n₂ {} qs₂)[j]?)
    (h₁ : qs₁[i]? = some q) (h₂ : qs₂[j]? = some q)
    (ha : (runQueries g n₁ {} qs₁)[i]? = some (some a))
    (hb : (runQueries g n₂ {} qs₂)[j]? = some (some b)) : a = b :=
  C04_checked_two_histories g n₁ n₂ qs₁ qs₂ i j q a b h₁ h₂ (hchk₁.trans ha) (hchk₂.trans hb)

/-- and the memoised evaluator does answer whenever the pure one does: a cache hit never
    costs an answer (same fuel) -/
theorem C04_memo_total (g : Graph) (n : Nat) (qs : List Query) (i : Nat) (q : Query)
    (hq : qs[i]? = some q)
    (hall : ∀ q' ∈ qs, (lookupAt g n q'.flow q'.pos q'.key).isSome) :
    ((runQueries g n {} qs)[i]?.bind id).isSome :=
  runQueries_total g n qs {} rfl hall i q hq

/-! ### non-vacuity: a module with a `for` loop whose body contains an `if`

    flow 0  module top, binds x                          x = 0
    flow 1  loop head / body start, binds i              for i in x:
            parents: flow 0 and the back edge (loop 0, from flow 3)
    flow 2  `if` branch, binds y                             if i: y = 1
    flow 3  join after the `if`, binds z  (body end)         z = 2
    flow 4  after the loop, binds w                      w = 3
-/

private def nm (i : Nat) (s : String) : NameRec := { id := i, name := s, loc := (1, 0), scope := 0 }

def exGraph : Graph :=
  Graph.mk
    [FlowRec.mk 0 0 [nm 100 "x"] [],
     FlowRec.mk 1 0 [nm 101 "i"] [Parent.flow 0, Parent.loop 0 3],
     FlowRec.mk 2 0 [nm 102 "y"] [Parent.flow 1],
     FlowRec.mk 3 0 [nm 103 "z"] [Parent.flow 2, Parent.flow 1],
     FlowRec.mk 4 0 [nm 104 "w"] [Parent.flow 1]]
    [ScopeRec.mk 0 .module none [] 4 []] []

def qA : Query := ⟨3, (0, 0), "y"⟩   -- `y` at the join: maybe unbound
def qB : Query := ⟨4, (9, 9), "z"⟩   -- `z` after the loop: maybe unbound (zero iterations)
def qC : Query := ⟨2, (0, 0), "z"⟩   -- `z` inside the `if`: bound by the previous iteration only

/-- both orders give the same answers (permuted), and they are the pure evaluator's -/
example :
    runQueries exGraph 20 {} [qA, qB, qC] =
      [some (some [.undef "y", .nm 102]), some (some [.undef "z", .nm 103]),
       some (some [.undef "z", .nm 103])] ∧
    runQueries exGraph 20 {} [qC, qB, qA] =
      [some (some [.undef "z", .nm 103]), some (some [.undef "z", .nm 103]),
       some (some [.undef "y", .nm 102])] ∧
    [qA, qB, qC].map (fun q => lookupAt exGraph 20 q.flow q.pos q.key) =
      [some (some [.undef "y", .nm 102]), some (some [.undef "z", .nm 103]),
       some (some [.undef "z", .nm 103])] := by
  decide +kernel

/-- the hypotheses of `C04_history_partial` / `C04_two_histories_partial` (and of
    `C04_checked_history`) are met by both histories, at every index, with answers that are not
    `none`: the check never fires -/
example :
    runQueriesChecked exGraph 20 {} [qA, qB, qC] = runQueries exGraph 20 {} [qA, qB, qC] ∧
    runQueriesChecked exGraph 20 {} [qC, qB, qA] = runQueries exGraph 20 {} [qC, qB, qA] ∧
    [qA, qB, qC][2]? = some qC ∧ [qC, qB, qA][0]? = some qC ∧
    (runQueries exGraph 20 {} [qA, qB, qC])[2]? = some (some (some [.undef "z", .nm 103])) ∧
    (runQueries exGraph 20 {} [qC, qB, qA])[0]? = some (some (some [.undef "z", .nm 103])) :=
  ⟨by decide +kernel, by decide +kernel, rfl, rfl, by decide +kernel, by decide +kernel⟩

/-- the hypothesis of `C04_memo_total` is met -/
example : ∀ q' ∈ [qA, qB, qC], (lookupAt exGraph 20 q'.flow q'.pos q'.key).isSome := by
  decide +kernel

/-- the hypothesis of `C04_checked_le` is met, from the empty state and from the non-trivial state
    reached after `qB` (12 cache entries) -/
example :
    (cNamesAt true exGraph 20 {} qB.flow qB.pos).isSome ∧
    ((cNamesAt true exGraph 20 {} qB.flow qB.pos).map (fun r => r.1.entries.length)) = some 12 ∧
    ((cNamesAt true exGraph 20 {} qB.flow qB.pos).bind
      (fun r => cNamesAt true exGraph 20 r.1 qC.flow qC.pos)).isSome := by
  decide +kernel

/-- two loops in sequence (flow 1 / body 2 / back edge loop 1, then flow 3 / body 4 / back edge
    loop 2, flow 5 after): also inside the domain of the partial theorems, in both query orders -/
def exSeq : Graph :=
  Graph.mk
    [FlowRec.mk 0 0 [nm 100 "x"] [],
     FlowRec.mk 1 0 [nm 101 "i"] [Parent.flow 0, Parent.loop 1 2],
     FlowRec.mk 2 0 [nm 102 "y"] [Parent.flow 1],
     FlowRec.mk 3 0 [nm 103 "j"] [Parent.flow 1, Parent.loop 2 4],
     FlowRec.mk 4 0 [nm 104 "z"] [Parent.flow 3],
     FlowRec.mk 5 0 [nm 105 "w"] [Parent.flow 3]]
    [ScopeRec.mk 0 .module none [] 5 []] []

def seqHistory : List Query := [⟨4, (0, 0), "y"⟩, ⟨5, (9, 9), "z"⟩, ⟨2, (0, 0), "y"⟩, ⟨4, (0, 0), "z"⟩]

example :
    runQueriesChecked exSeq 30 {} seqHistory = runQueries exSeq 30 {} seqHistory ∧
    runQueriesChecked exSeq 30 {} seqHistory.reverse = runQueries exSeq 30 {} seqHistory.reverse ∧
    runQueries exSeq 30 {} seqHistory =
      [some (some [.undef "y", .nm 102]), some (some [.undef "z", .nm 104]),
       some (some [.undef "y", .nm 102]), some (some [.undef "z", .nm 104])] ∧
    (runQueries exSeq 30 {} seqHistory.reverse).reverse = runQueries exSeq 30 {} seqHistory ∧
    seqHistory.map (fun q => lookupAt exSeq 30 q.flow q.pos q.key) = runQueries exSeq 30 {} seqHistory := by
  decide +kernel

/-- every (flow, name) pair of a graph with flows `0 … nf-1`, at the end of each region -/
def allQueries (nf : Nat) (names : List String) : List Query :=
  (List.range nf).flatMap (fun f => names.map (fun k => ⟨f, (9, 9), k⟩))

/-- on history `qs`: the check never fires (hypothesis of the partial theorems, at every index),
    the exact evaluator agrees (hypothesis of `C04_history_validated`) and every answer is the
    pure evaluator's -/
def coveredAndPure (g : Graph) (fuel : Nat) (qs : List Query) : Bool :=
  runQueriesChecked g fuel {} qs == runQueries g fuel {} qs &&
  runQueriesExact g fuel {} qs == runQueries g fuel {} qs &&
  runQueries g fuel {} qs == qs.map (fun q => lookupAt g fuel q.flow q.pos q.key)

/-- all 25 queries of `exGraph` and all 36 of `exSeq`, asked in every rotation of the list and
    its reversal (50 + 72 histories): hypotheses met, answers pure, none of them `none` -/
example :
    (List.range 25).all (fun k =>
      let qs := (allQueries 5 ["x", "i", "y", "z", "w"]).drop k ++ (allQueries 5 ["x", "i", "y", "z", "w"]).take k
      coveredAndPure exGraph 20 qs && coveredAndPure exGraph 20 qs.reverse &&
      (runQueries exGraph 20 {} qs).all Option.isSome) = true ∧
    (List.range 36).all (fun k =>
      let qs := (allQueries 6 ["x", "i", "y", "j", "z", "w"]).drop k ++ (allQueries 6 ["x", "i", "y", "j", "z", "w"]).take k
      coveredAndPure exSeq 30 qs && coveredAndPure exSeq 30 qs.reverse &&
      (runQueries exSeq 30 {} qs).all Option.isSome) = true := by
  decide +kernel

end SuppModel.Props.C04
