/-
  C04 — history independence of the attribute evaluator's cache discipline (supp/util.py `cycle_guard`,
  `cached_property`, `context_property`; supp/evaluator.py `EvalCtx`), model SuppModel/EvalMemo/Basic.lean.
  Property theorems ONLY; proofs in SuppModel/EvalMemo/Lemmas*.lean.

  STATUS: FULL STRENGTH — every dependency graph (cyclic or not), every request history, no hypothesis.
  The legacy discipline (keep everything for good) is refuted in SuppModel/Witness/C04Eval.lean.
-/
import SuppModel.EvalMemo.LemmasRel
import SuppModel.Witness.C04Eval
namespace SuppModel.EvalMemo

/-- Invariant: whatever a request history leaves in a slot for good is the value of that node evaluated on
    its own without any cache, and that evaluation meets no cut. -/
theorem C04Eval_final_invariant (g : Graph) (h : List Nat) (n : Nat) (v : Val)
    (hv : (runHistory g h St.empty).fin n = some v) :
    evalPure g (g.length + 1) [] n = (v, false) :=
  ((Inv.empty g).runHistory h).fin_ok n v hv

example : (runHistory [[1, 3], [2], [1], []] [0] St.empty).fin 3 = some [3] := by decide

/-- History independence: the answer to a request after any history of requests on one long-lived project
    is the answer a fresh project gives. -/
theorem C04Eval_history (g : Graph) (h : List Nat) (n : Nat) :
    (request g (runHistory g h St.empty) n).1 = (request g St.empty n).1 :=
  request_indep (Nat.lt_succ_self _) ((Inv.empty g).runHistory h) (Inv.empty g) n

/-- non-vacuity: a cyclic graph on which the first request leaves provisional values behind, the counter
    moved, nothing above the cycle was kept for good — and the next answer is still the fresh one -/
example :
    let s := runHistory Witness.g₁ [0] St.empty
    s.prov 1 = some (1, [1, 2]) ∧ s.prov 2 = some (1, [2]) ∧ s.prov 0 = some (1, [0, 1, 2, 2]) ∧
    s.fin 0 = none ∧ s.fired = 2 ∧ (request Witness.g₁ s 2).1 = [2, 1] := by decide

/-- two histories: the answer does not depend on which one came before -/
theorem C04Eval_two_histories (g : Graph) (h₁ h₂ : List Nat) (n : Nat) :
    (request g (runHistory g h₁ St.empty) n).1 = (request g (runHistory g h₂ St.empty) n).1 :=
  (C04Eval_history g h₁ n).trans (C04Eval_history g h₂ n).symm

/-- every answer along a history is the fresh answer -/
theorem C04Eval_answers (g : Graph) (h : List Nat) :
    answers g h St.empty = h.map (fun n => (request g St.empty n).1) := by
  suffices ∀ (h : List Nat) (s : St), Inv g s → answers g h s = h.map (fun n => (request g St.empty n).1) from
    this h _ (Inv.empty g)
  intro h
  induction h with
  | nil => intro _ _; rfl
  | cons n h ih =>
    intro s hs
    simp only [answers, List.map_cons]
    have e1 : answers g h (request g s n).2 = _ := ih _ (good_request (Nat.lt_succ_self _) hs n).inv
    have e2 : (request g s n).1 = (request g St.empty n).1 :=
      request_indep (Nat.lt_succ_self _) hs (Inv.empty g) n
    rw [e1, e2]

example : answers Witness.g₁ [0, 2, 1, 0] St.empty = [[0, 1, 2, 2], [2, 1], [1, 2], [0, 1, 2, 2]] := by decide

/-- the fuel `request` supplies is not a bound on anything: any larger fuel gives the same answers,
    and history independence holds for every sufficient fuel -/
theorem C04Eval_history_fuel (g : Graph) (f : Nat) (hf : g.length < f) (h : List Nat) (n : Nat) :
    requestF g f (runHistory g h St.empty) n = request g (runHistory g h St.empty) n ∧
    (requestF g f (runHistory g h St.empty) n).1 = (requestF g f St.empty n).1 :=
  ⟨evalM_fuel f (g.length + 1) [] n _ (Nat.lt_of_le_of_lt (free_nil_le g) hf)
      (Nat.lt_succ_of_le (free_nil_le g)),
   request_indep hf ((Inv.empty g).runHistory h) (Inv.empty g) n⟩

/-- the same for the cache-free evaluator -/
theorem C04Eval_pure_fuel (g : Graph) (f : Nat) (hf : g.length < f) (n : Nat) :
    evalPure g f [] n = evalPure g (g.length + 1) [] n :=
  evalPure_fuel f (g.length + 1) [] n (Nat.lt_of_le_of_lt (free_nil_le g) hf)
    (Nat.lt_succ_of_le (free_nil_le g))

/-- a node whose evaluation meets no cut: after any history the answer is its cache-free value, the
    cut counter does not move and no provisional slot is written -/
theorem C04Eval_acyclic_exact (g : Graph) (h : List Nat) (n : Nat)
    (hn : (evalPure g (g.length + 1) [] n).2 = false) :
    let s := runHistory g h St.empty
    (request g s n).1 = (evalPure g (g.length + 1) [] n).1 ∧ (request g s n).2.fired = s.fired := by
  have a := (good_request (Nat.lt_succ_self _) ((Inv.empty g).runHistory h) n).acyc hn
  exact ⟨a.1, a.2.1⟩

example : (evalPure [[1, 2], [2], []] 4 [] 0) = ([0, 1, 2, 2], false) := by decide

/-- the discipline before /repo 265f3e6 (`evalLegacy`: every computed value is kept for good) does NOT have
    the property (witness g₁, history [0], request 2: SuppModel/Witness/C04Eval.lean) -/
theorem C04Eval_legacy_refuted :
    ¬ ∀ (g : Graph) (h : List Nat) (n : Nat),
      (requestLegacy g (runHistoryLegacy g h St.empty) n).1 = (requestLegacy g St.empty n).1 :=
  Witness.legacy_not_history_independent

end SuppModel.EvalMemo
