/-
  C06 — attribute completion and definition follow Python's lookup order.
  Property theorems ONLY (lemmas: SuppModel/Attrs/Lemmas.lean; witnesses: SuppModel/Witness/C06.lean).
  Statements are about the executable tables `classAttrs` (= ClassObject._attrs) and `instAttrs`
  (= InstanceValue._attrs) of SuppModel/Attrs/Model.lean against the specification of SuppModel/Attrs/Spec.lean
  (`mro`, `classLookup`, `instAssigned`).  Domain: `Acyclic` (the in-progress guard of the tables never fires;
  on an inheritance cycle the guard cuts the cycle — the tables are still total, `C06_total` — and no lookup order is
  claimed) and `NoRepeatedAncestors` (there the depth-first linearisation `mro` IS Python's
  C3 MRO; the theorems themselves hold of the depth-first order on every acyclic hierarchy, the hypothesis marks
  where that order is Python's — the harness compares `mro` with CPython's `__mro__`).
-/
import SuppModel.Attrs.Lemmas
import SuppModel.Witness.C06

namespace SuppModel.Props.C06
open SuppModel.Attrs

/-- looking a name up in a class's table gives the definition of the first MRO entry that defines it
    (a class body's last binding; a builtin base contributes its names at its MRO position) -/
theorem C06_class_lookup (h : Hier) (c : ClassId) (x : String)
    (ha : Acyclic h c) (_hd : NoRepeatedAncestors h c) :
    Dict.get (classAttrs h c) x = classLookup h c x :=
  get_classAttrs h c x ha

/-- looking a name up on an instance gives the assignments through `self` made by a class of the MRO
    (all of that class's, the first class of the MRO that has any) whenever some class of the MRO assigns
    it, and otherwise the class lookup (below which supp puts `dir()` of a runtime instance of a direct
    builtin base) -/
theorem C06_instance_lookup (h : Hier) (c : ClassId) (x : String)
    (ha : Acyclic h c) (_hd : NoRepeatedAncestors h c) :
    (instAssigned h c x = true →
      ∃ d, MroEntry.cls d ∈ mro h c ∧ selfSites (getDef h d) x ≠ [] ∧
        Dict.get (instAttrs h c) x = some (.multi (selfSites (getDef h d) x))) ∧
    (instAssigned h c x = false →
      Dict.get (instAttrs h c) x = (classLookup h c x).or (runtimeInstLookup h c x)) := by
  rw [get_instAttrs h c x ha]
  constructor
  · intro hi
    have hs : ((mro h c).findSome? (instEntry h x)).isSome = true := by
      rw [findSome?_isSome]
      simpa [instAssigned, List.any_eq_true] using hi
    obtain ⟨v, hv⟩ := Option.isSome_iff_exists.mp hs
    obtain ⟨e, hem, hev⟩ := findSome?_some_mem _ _ _ hv
    cases e with
    | builtin nm a => simp [instEntry] at hev
    | cls d =>
      refine ⟨d, hem, ?_, ?_⟩
      · intro hnil; simp [instEntry, hnil] at hev
      · have hne : ¬ selfSites (getDef h d) x = [] := fun hnil => by simp [instEntry, hnil] at hev
        simp only [instEntry, hne, if_false] at hev
        rw [hv, ← hev]; rfl
  · intro hi
    have hs : (mro h c).findSome? (instEntry h x) = none := by
      cases hf : (mro h c).findSome? (instEntry h x) with
      | none => rfl
      | some v =>
        obtain ⟨e, hem, hev⟩ := findSome?_some_mem _ _ _ hf
        have : instAssigned h c x = true := by
          simp only [instAssigned, List.any_eq_true]
          exact ⟨e, hem, by simp [hev]⟩
        rw [hi] at this; cases this
    rw [hs]; rfl

/-- completeness without phantoms, instances: the proposals are exactly the class-body names and the
    self-assigned names of the classes of the MRO, the names of the builtin entries of the MRO, and `dir()` of
    a runtime instance of a direct builtin base -/
theorem C06_complete (h : Hier) (c : ClassId) (x : String)
    (ha : Acyclic h c) (_hd : NoRepeatedAncestors h c) :
    x ∈ Dict.keys (instAttrs h c) ↔
      (∃ d, MroEntry.cls d ∈ mro h c ∧ (x ∈ bodyNames (getDef h d) ∨ x ∈ selfNames (getDef h d))) ∨
      (∃ nm attrs, MroEntry.builtin nm attrs ∈ mro h c ∧ x ∈ attrs) ∨
      (∃ nm attrs inst, Base.builtin nm attrs inst ∈ (getDef h c).bases ∧ x ∈ inst) := by
  rw [← Dict.get_isSome_iff, get_instAttrs h c x ha]
  simp only [Option.isSome_or, Bool.or_eq_true, classLookup, findSome?_isSome, instEntry_isSome,
    classEntry_isSome, runtimeInstLookup_isSome]
  constructor
  · rintro (⟨e, he, d, rfl, hx⟩ | ⟨e, he, ⟨d, rfl, hx⟩ | ⟨nm, a, rfl, hx⟩⟩ | hr)
    · exact Or.inl ⟨d, he, Or.inr hx⟩
    · exact Or.inl ⟨d, he, Or.inl hx⟩
    · exact Or.inr (Or.inl ⟨nm, a, he, hx⟩)
    · exact Or.inr (Or.inr hr)
  · rintro (⟨d, he, hx | hx⟩ | ⟨nm, a, he, hx⟩ | hr)
    · exact Or.inr (Or.inl ⟨_, he, Or.inl ⟨d, rfl, hx⟩⟩)
    · exact Or.inl ⟨_, he, d, rfl, hx⟩
    · exact Or.inr (Or.inl ⟨_, he, Or.inr ⟨nm, a, rfl, hx⟩⟩)
    · exact Or.inr (Or.inr hr)

/-- completeness without phantoms, classes -/
theorem C06_complete_class (h : Hier) (c : ClassId) (x : String)
    (ha : Acyclic h c) (_hd : NoRepeatedAncestors h c) :
    x ∈ Dict.keys (classAttrs h c) ↔
      (∃ d, MroEntry.cls d ∈ mro h c ∧ x ∈ bodyNames (getDef h d)) ∨
      (∃ nm attrs, MroEntry.builtin nm attrs ∈ mro h c ∧ x ∈ attrs) := by
  rw [← Dict.get_isSome_iff, get_classAttrs h c x ha]
  simp only [classLookup, findSome?_isSome, classEntry_isSome]
  constructor
  · rintro ⟨e, he, ⟨d, rfl, hx⟩ | ⟨nm, a, rfl, hx⟩⟩
    · exact Or.inl ⟨d, he, hx⟩
    · exact Or.inr ⟨nm, a, he, hx⟩
  · rintro (⟨d, he, hx⟩ | ⟨nm, a, he, hx⟩)
    · exact ⟨_, he, Or.inl ⟨d, rfl, hx⟩⟩
    · exact ⟨_, he, Or.inr ⟨nm, a, rfl, hx⟩⟩

/-- the fuel is immaterial on acyclic hierarchies: whenever an amount suffices, the linearisation and every lookup
    in both tables are the same -/
theorem C06_fuel_independent (h : Hier) (c : ClassId) (x : String) (n m : Nat)
    (hn : okG n [] h c = true) (hm : okG m [] h c = true) :
    mroF n h c = mroF m h c ∧
    Dict.get (classAttrsG n [] h c) x = Dict.get (classAttrsG m [] h c) x ∧
    Dict.get (instOnlyG n [] h c) x = Dict.get (instOnlyG m [] h c) x := by
  have hmro := mroF_indep n m h c (okF_of_okG _ _ h c hn) (okF_of_okG _ _ h c hm)
  refine ⟨hmro, ?_, ?_⟩
  · rw [get_classAttrsG n [] h c x hn, get_classAttrsG m [] h c x hm, hmro]
  · rw [get_instOnlyG n [] h c x hn, get_instOnlyG m [] h c x hm, hmro]

/-- totality, cyclic hierarchies included (no hypothesis): the in-progress guard bounds the recursion by the number
    of classes — `fuel h` = number of classes + 1 is always enough, more fuel never changes a table.  (Before a174aec
    the code had no guard and a cycle ended in RecursionError.) -/
theorem C06_total (h : Hier) (c : ClassId) (k : Nat) :
    classAttrsG (fuel h + k) [] h c = classAttrs h c ∧ instOnlyG (fuel h + k) [] h c = instOnly h c :=
  tables_total h c k

/-! non-vacuity: a diamond-free hierarchy of depth 3 with an override at every level, a rebinding inside one
    body, self-assignments in two classes, a builtin and an unevaluable base, multiple inheritance:
      class A(object): m(1) a(2) m(3)            self.x(4)
      class B(A):      m(5) b(6)                 self.x(7) self.y(8) self.x(9)
      class M:         m(10) k(11) x(12)
      class D(M, B, <unknown>): m(13)                                                       -/
def hEx : Hier :=
  [(0, ⟨[.builtin "object" ["__init__", "__repr__"] ["__class__", "__init__", "__repr__"]],
        [("m", 1), ("a", 2), ("m", 3)], [("x", 4)]⟩),
   (1, ⟨[.src 0], [("m", 5), ("b", 6)], [("x", 7), ("y", 8), ("x", 9)]⟩),
   (2, ⟨[], [("m", 10), ("k", 11), ("x", 12)], []⟩),
   (3, ⟨[.src 2, .src 1, .unknown], [("m", 13)], []⟩)]

example : Acyclic hEx 3 ∧ NoRepeatedAncestors hEx 3 := by decide
example : mro hEx 3 = [.cls 3, .cls 2, .cls 1, .cls 0, .builtin "object" ["__init__", "__repr__"]] := by decide
-- overrides: D's m; B's m on an instance of B; the last binding of m in A
example : classLookup hEx 3 "m" = some (.site 13) ∧ classLookup hEx 1 "m" = some (.site 5) ∧
    classLookup hEx 0 "m" = some (.site 3) := by decide
-- `x` is a class-body name of M and self-assigned in B and A: both hypotheses of C06_instance_lookup occur
example : instAssigned hEx 3 "x" = true ∧ instAssigned hEx 3 "k" = false ∧
    Dict.get (instAttrs hEx 3) "x" = some (.multi [7, 9]) ∧
    Dict.get (instAttrs hEx 3) "k" = some (.site 11) ∧
    Dict.get (instAttrs hEx 3) "__init__" = some (.builtin "object") := by decide
example : Dict.keys (instAttrs hEx 3) = ["__init__", "__repr__", "m", "a", "b", "k", "x", "y"] := by decide
-- C06_fuel_independent: two different sufficient amounts of fuel exist
example : okG 3 [] hEx 3 = true ∧ okG 7 [] hEx 3 = true := by decide

end SuppModel.Props.C06

namespace SuppModel.Props.C06
open SuppModel.Attrs

/-! `C06_total` on a cyclic hierarchy: `class A(B): a`, `class B(A): b` (across two modules).  Collecting A meets A
    again below B: that occurrence contributes nothing, so A's table is B's body then A's; the hierarchy is outside
    `Acyclic` -/
def hCyc : Hier := [(0, ⟨[.src 1], [("a", 1)], [("ai", 2)]⟩), (1, ⟨[.src 0], [("b", 3)], [("bi", 4)]⟩)]
example : ¬ Acyclic hCyc 0 := by decide
example : Dict.keys (classAttrs hCyc 0) = ["b", "a"] ∧ Dict.keys (classAttrs hCyc 1) = ["a", "b"] ∧
    Dict.keys (instAttrs hCyc 0) = ["b", "a", "bi", "ai"] := by decide

end SuppModel.Props.C06
