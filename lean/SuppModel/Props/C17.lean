/-
  C17 — deterministic output: identical source, position and project files give identical results
  (same elements, same order) across processes and hash seeds; the alternatives of a multiply-bound
  name are listed in source order.

  Property theorems ONLY (lemmas: SuppModel/Perm/Lemmas.lean).  Every statement is about the executable
  definitions of SuppModel/Perm/Model.lean and is quantified over ARBITRARY set-iteration orders
  `SetOrder` / `Hash` (nothing is assumed about hashing except that iterating a set yields a permutation
  of its content).  The only hypothesis is the decidable `NoTies` / `NoTiesJoin` (distinct alternatives
  have distinct locations, at most one Undefined), which the harness evaluates on every real MultiName.
  The construction before fix de6288d (`altNamesLegacy`) violates the property: Witness/C17.lean.
-/
import SuppModel.Perm.Lemmas
import SuppModel.Generated.Perm
import SuppModel.Witness.C17

namespace SuppModel.Props.C17
open SuppModel.Perm

/-- `MultiName(names)` does not depend on the iteration order of `set(allnames)` -/
theorem C17_multiname_det (s₁ s₂ : SetOrder Alt) (names : List Item) (h : NoTies names = true) :
    multiName s₁ names = multiName s₂ names :=
  multiName_det' s₁ s₂ (List.Perm.refl _) h

/-- … nor on the order in which the caller lists the names (`list(nrow)` is itself a set order) -/
theorem C17_multiname_perm (s₁ s₂ : SetOrder Alt) (names₁ names₂ : List Item) (hp : names₁.Perm names₂)
    (h : NoTies names₁ = true) : multiName s₁ names₁ = multiName s₂ names₂ :=
  multiName_det' s₁ s₂ hp h

/-- the alternatives are in source order: an Undefined can only come first, names strictly increase by location -/
theorem C17_source_order (s : SetOrder Alt) (names : List Item) (h : NoTies names = true) :
    (altNames s names).Pairwise Alt.before :=
  (altNames_sorted s names h).imp before_of_lt

/-- and they are exactly the distinct names given (nothing lost, nothing invented) -/
theorem C17_alternatives (s : SetOrder Alt) (names : List Item) (a : Alt) :
    a ∈ altNames s names ↔ a ∈ flatten names := by
  simp only [altNames, (sortBy_perm _ _).mem_iff, (s.perm _).mem_iff, mem_dedup]

/-- the table a join builds is the same function for any two hash orders: same value under every key … -/
theorem C17_parent_names_det (h₁ h₂ : Hash) (pnames : List Table) (h : NoTiesJoin pnames = true) (k : Str) :
    tableGet (parentNames h₁ pnames) k = tableGet (parentNames h₂ pnames) k :=
  parentNames_det h₁ h₂ pnames h k

/-- … and the same key set -/
theorem C17_parent_names_keys (h₁ h₂ : Hash) (pnames : List Table) (t₁ t₂ : List (Str × Val))
    (e₁ : parentNames h₁ pnames = .ok t₁) (e₂ : parentNames h₂ pnames = .ok t₂) :
    (t₁.map Prod.fst).Perm (t₂.map Prod.fst) :=
  parentNames_keys h₁ h₂ pnames e₁ e₂

/-- `assist`: the sorted proposal list does not depend on the iteration order of the name set, and is
    strictly increasing in Python's `str` order -/
theorem C17_assist_det (s₁ s₂ : SetOrder Str) (marked : Str → Bool) (names : List Str) :
    assist s₁ marked names = assist s₂ marked names ∧
    (assist s₁ marked names).Pairwise (fun a b => strLt a b = true) :=
  ⟨assist_det s₁ s₂ marked names, assist_sorted s₁ marked names⟩

/-- `location()` on a multiply-bound name -/
theorem C17_location_det (s₁ s₂ : SetOrder Alt) (chase : Alt → List Decl) (names : List Item)
    (h : NoTies names = true) : location s₁ chase names = location s₂ chase names := by
  simp only [location, C17_multiname_det s₁ s₂ names h]

/-- the name a module exports for a multiply-bound key (`first_name`) -/
theorem C17_first_name_det (s₁ s₂ : SetOrder Alt) (names : List Item) (h : NoTies names = true) :
    (multiName s₁ names).bind (fun m => firstName (.multi m)) =
    (multiName s₂ names).bind (fun m => firstName (.multi m)) := by
  simp only [C17_multiname_det s₁ s₂ names h]

/-- attribute lookup on a value with several alternatives (`CompositeValue.get_attr`) -/
theorem C17_composite_det (s₁ s₂ : SetOrder Alt) (ev : Alt → Option Attrs) (names : List Item) (attr : Str)
    (h : NoTies names = true) : compositeLookup s₁ ev names attr = compositeLookup s₂ ev names attr := by
  simp only [compositeLookup, C17_multiname_det s₁ s₂ names h]

/-- every set / mapping-iteration site of supp/ (regenerated from the source on every run) is audited:
    where the order can reach an output there is a `SetOrder` counterpart in the model -/
theorem C17_sites_audited :
    Generated.sites.all (fun s => s.cls ≠ .orderReachesOutput ∨ s.modelled) = true := by decide

/-- the construction before fix de6288d (`list(set(allnames))`) violates the property: two permutations of
    the same three alternatives, two different `location()` outputs (Witness/C17.lean) -/
theorem C17_legacy_violates :
    ∃ (s₁ s₂ : SetOrder Alt) (names : List Item), NoTies names = true ∧
      locationLegacy s₁ (fun a => [.one a]) names ≠ locationLegacy s₂ (fun a => [.one a]) names :=
  ⟨Witness.C17.setOrder₁, Witness.C17.setOrder₂, Witness.C17.alts, by decide, Witness.C17.C17_perm⟩

/-! non-vacuity: a four-way definition plus "possibly undefined", nested through an inner MultiName,
    satisfies `NoTies`; a join of three predecessor tables satisfies `NoTiesJoin` -/
def exX (i l : Nat) : Alt := .name i [120] (l, 9) (l, 4) [109]
def exNames : List Item :=
  [.alt (exX 3 8), .multi 77 ⟨[.undef [120], exX 1 4, exX 2 6], [120]⟩, .alt (exX 4 10), .alt (exX 1 4), .alt (.undef [120])]
example : NoTies exNames = true := by decide
example : (multiName (SetOrder.rev Alt) exNames).map (fun m => m.altNames)
    = .ok [.undef [120], exX 1 4, exX 2 6, exX 3 8, exX 4 10] := by decide
def exTables : List Table :=
  [[([120], .alt (exX 1 4)), ([121], .alt (.name 9 [121] (2, 1) (2, 0) [109]))],
   [([120], .alt (exX 2 6)), ([121], .alt (.name 9 [121] (2, 1) (2, 0) [109]))],
   [([122], .multi 5 ⟨[exX 6 12, exX 7 14], [122]⟩)]]
example : NoTiesJoin exTables = true := by decide
example : (exportedNames [([120], .multi ⟨[.undef [120], exX 1 4, exX 2 6], [120]⟩), ([121], .single (.undef [121]))])
    = .ok [([120], exX 1 4)] := by decide

end SuppModel.Props.C17
