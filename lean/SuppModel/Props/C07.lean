/-
  C07 — Module resolution agrees with Python's import system.
  Property theorems ONLY (lemmas live in SuppModel/Fs/Lemmas*.lean).  Model: SuppModel/Fs/Model.lean
  (cache-free transliteration of Project.get_module / norm_package / list_packages); specification:
  SuppModel/Fs/Spec.lean (PathFinder/FileFinder, importlib.util.resolve_name, pkgutil.iter_modules,
  written from the import system's documented behaviour).  The suffix tables come from
  SuppModel/Generated/Fs.lean, regenerated from the loaded supp.project on every run.
-/
import SuppModel.Fs.LemmasRel
import SuppModel.Fs.LemmasFind
import SuppModel.Fs.LemmasList
import SuppModel.Witness.C07

namespace SuppModel.Props.C07
open SuppModel.Fs SuppModel.Fs.Generated

/-! ## relative names -/

/-- `norm_package` = `importlib.util.resolve_name`, error cases included: for a file `top/p1/../pk/base`
    whose package is the `__init__.py` chain `p1. .. .pk` (possibly empty), every relative specifier of
    every level resolves to the same absolute name while the level stays inside the package, and both
    raise ImportError above it (and for a file outside any package).  `noInitUpTo` is the domain
    restriction "no non-package directory between packages" (no namespace directories). -/
theorem C07_relative (fs : Fs) (top : Path) (pkg : List Str) (base rel : Str)
    (hchain : pkgChainOK fs top pkg = true) (hclean : noInitUpTo fs top = true) :
    normPackage fs (top ++ pkg ++ [base]) rel = resolveName rel pkg :=
  normPackage_eq_resolveName fs top pkg base rel hchain hclean

/-- the two error cases spelt out -/
theorem C07_relative_above (fs : Fs) (top : Path) (pkg : List Str) (base rel : Str)
    (hchain : pkgChainOK fs top pkg = true) (hclean : noInitUpTo fs top = true)
    (hdot : rel.head? = some DOT) (habove : pkg.length < leadingDots rel) :
    normPackage fs (top ++ pkg ++ [base]) rel = .error .importError ∧
    resolveName rel pkg = .error .importError := by
  have h := C07_relative fs top pkg base rel hchain hclean
  have h2 : resolveName rel pkg = .error .importError := by
    unfold resolveName
    simp only [hdot, ne_eq, not_true_eq_false, if_false]
    split
    · rfl
    · first | rfl | rw [if_pos habove]
  exact ⟨h.trans h2, h2⟩

/-! non-vacuity: a 2-root, depth-3 tree (/r1/a/b/c/m.py with a, b, c packages; /r2/a/x.py) -/
section Example
def sA : Str := [97]
def sB : Str := [98]
def sC : Str := [99]
def sX : Str := [120]
def sM : Str := [109]
def sR1 : Str := [114, 49]
def sR2 : Str := [114, 50]
def exFs : Fs :=
  { files := [[sR1, sA, INIT_PY], [sR1, sA, sB, INIT_PY], [sR1, sA, sB, sC, INIT_PY], [sR1, sA, sB, sC, sM ++ PY],
              [sR1, sA, sB, sX ++ PY], [sR2, sA, INIT_PY], [sR2, sA, sX ++ PY], [sR2, sM ++ PY]],
    dirs := [[sR2, sA, sC]] }

example : pkgChainOK exFs [sR1] [sA, sB, sC] = true ∧ noInitUpTo exFs [sR1] = true := by decide
-- level 2 from /r1/a/b/c/m.py: "..x" -> "a.b.x"; level 4 is above the package
example : normPackage exFs ([sR1] ++ [sA, sB, sC] ++ [sM ++ PY]) [DOT, DOT, 120] = .ok [97, DOT, 98, DOT, 120] := by rfl
example : normPackage exFs ([sR1] ++ [sA, sB, sC] ++ [sM ++ PY]) [DOT, DOT, DOT, DOT, 120] = .error .importError := by rfl
-- a stray `/__init__.py` is inside the domain (the walk stops at the filesystem root): top = '/', package `a`
example : pkgChainOK { files := [[INIT_PY], [sA, INIT_PY], [sA, sM ++ PY]], dirs := [] } [] [sA] = true ∧
    noInitUpTo { files := [[INIT_PY], [sA, INIT_PY], [sA, sM ++ PY]], dirs := [] } [] = true := by decide
example : normPackage { files := [[INIT_PY], [sA, INIT_PY], [sA, sM ++ PY]], dirs := [] } [sA, sM ++ PY] [DOT, 120]
    = .ok [97, DOT, 120] := by rfl
end Example


/-! ## absolute names -/

/-- `NoExtensionNextToSource` (the readable hypothesis) gives what the proof uses: supp's suffix order and
    FileFinder's order select the same module file -/
theorem sameChoice_generated (roots : List Path) (fs : Fs) (comps : List Str)
    (h : NoExtensionNextToSource roots NONEXT_SUFFIXES EXTENSION_SUFFIXES fs comps = true) :
    SameChoice roots SUFFIXES LOADER_SUFFIXES fs comps = true := by
  have := sameChoice_of_noExt roots NONEXT_SUFFIXES EXTENSION_SUFFIXES fs comps h
  rwa [← suffix_orders.1, ← suffix_orders.2] at this

/-- the statement without the two restrictions that exclude the recorded defects: FALSE of the code
    (`C07_split_witness`, `C07_ext_witness`) -/
def C07_find_stmt : Prop :=
  ∀ (roots : List Path) (fs : Fs) (sysModules : List Str) (name : Str),
    validComps (splitOn DOT name) = true →
    NoNamespaceDirs roots fs (splitOn DOT name) = true →
    NoModulePackageClash roots SUFFIXES fs (splitOn DOT name) = true →
    Regular roots SUFFIXES fs (splitOn DOT name) = true →
    (getModule roots SUFFIXES SOURCE_SUFFIXES fs sysModules name).file?
      = (importlibFind LOADER_SUFFIXES fs roots name).bind Loc.file?

/-- `get_module` analyses exactly the file the import system finds — for every search path (sources + sys.path),
    every file system and every dotted name in the property's domain (no namespace directory and no second
    candidate of the same name on the search path of the name, candidates are regular files and packages are
    source packages) outside the recorded split-package class — and, for a name that is not in `sys.modules`,
    raises ImportError iff the import system finds nothing.  `SUFFIXES` (supp's order) and `LOADER_SUFFIXES`
    (FileFinder's order) are the regenerated tables. -/
theorem C07_find (roots : List Path) (fs : Fs) (sysModules : List Str) (name : Str)
    (hv : validComps (splitOn DOT name) = true)
    (hns : NoNamespaceDirs roots fs (splitOn DOT name) = true)
    (hcl : NoModulePackageClash roots SUFFIXES fs (splitOn DOT name) = true)
    (hreg : Regular roots SUFFIXES fs (splitOn DOT name) = true)
    (hext : NoExtensionNextToSource roots NONEXT_SUFFIXES EXTENSION_SUFFIXES fs (splitOn DOT name) = true)
    (hsp : NoSplitPackage roots SUFFIXES SOURCE_SUFFIXES LOADER_SUFFIXES fs (splitOn DOT name) = true) :
    (getModule roots SUFFIXES SOURCE_SUFFIXES fs sysModules name).file?
      = (importlibFind LOADER_SUFFIXES fs roots name).bind Loc.file? ∧
    (sysModules.contains name = false →
      (getModule roots SUFFIXES SOURCE_SUFFIXES fs sysModules name = .importError ↔
       importlibFind LOADER_SUFFIXES fs roots name = none)) := by
  have hsc := sameChoice_generated roots fs _ hext
  refine ⟨getModuleC_file roots SUFFIXES SOURCE_SUFFIXES LOADER_SUFFIXES fs _ hv sameSuffixes hns hcl hsc hreg hsp _, ?_⟩
  intro hnot
  unfold getModule importlibFind
  rw [hnot]
  exact getModuleC_importError_iff roots SUFFIXES SOURCE_SUFFIXES LOADER_SUFFIXES fs _ hv sameSuffixes hns hcl hsc hreg hsp

/-- the same for ANY two suffix tables with the same members whose orders select the same module file -/
theorem C07_find_any_suffix_order (roots : List Path) (sfx src lsfx : List Str) (fs : Fs) (comps : List Str)
    (hs : SameSuffixes sfx lsfx = true)
    (hv : validComps comps = true)
    (hns : NoNamespaceDirs roots fs comps = true)
    (hcl : NoModulePackageClash roots sfx fs comps = true)
    (hsc : SameChoice roots sfx lsfx fs comps = true)
    (hreg : Regular roots sfx fs comps = true)
    (hsp : NoSplitPackage roots sfx src lsfx fs comps = true) (inSys : Bool) :
    (getModuleC roots sfx src fs inSys comps).file? = (importlibFindC lsfx fs roots comps).bind Loc.file? :=
  getModuleC_file roots sfx src lsfx fs comps hv hs hns hcl hsc hreg hsp inSys

/-! ## submodule proposals -/

/-- LOWER BOUND: whatever `pkgutil.iter_modules` enumerates in the directory of `root` under ANY path entry `r`
    (in particular in the directory of the package importlib finds for `root`; for root = "" every path entry)
    is proposed by `list_packages`.  `sourcePkgsAt`: sub-packages are source packages. -/
theorem C07_list_sup (roots : List Path) (fs : Fs) (sysModules : List Str) (root : Str) (r : Path) (n : Str)
    (hr : r ∈ roots)
    (hp : sourcePkgsAt LOADER_SUFFIXES fs (pkgDirOf r root) = true)
    (he : enumerable LOADER_SUFFIXES fs (pkgDirOf r root) n = true) :
    n ∈ listPackages roots SUFFIXES fs sysModules root :=
  list_sup roots SUFFIXES LOADER_SUFFIXES fs sysModules root r n hr sameSuffixes suffixOrdered_SUFFIXES hp he

/-- UPPER BOUND: a proposal either comes from `sys.modules` (already loaded) or is backed by a candidate file,
    and then `get_module` finds a file for the dotted name `root.n` (the components of `root`, empty ones
    dropped as `os.path.join` drops them, followed by `n`) -/
theorem C07_list_sub (roots : List Path) (fs : Fs) (sysModules : List Str) (root n : Str)
    (h : n ∈ listPackages roots SUFFIXES fs sysModules root) :
    n ∈ sysChildren sysModules root ∨
    ∃ f b, getModuleC roots SUFFIXES SOURCE_SUFFIXES fs false
        ((splitOn DOT root).filter (· ≠ []) ++ [n]) = .found f b := by
  by_cases hn : n ∈ sysChildren sysModules root
  · exact Or.inl hn
  · exact Or.inr (list_sub_importable roots SUFFIXES SOURCE_SUFFIXES fs sysModules root n h hn false)

/-- UPPER BOUND against the import system: in the domain of `C07_find` (for the dotted name `root.n`) a proposal
    that does not come from `sys.modules` is importable -/
theorem C07_list (roots : List Path) (fs : Fs) (sysModules : List Str) (root n : Str)
    (h : n ∈ listPackages roots SUFFIXES fs sysModules root)
    (hn : n ∉ sysChildren sysModules root)
    (hv : validComps ((splitOn DOT root).filter (· ≠ []) ++ [n]) = true)
    (hns : NoNamespaceDirs roots fs ((splitOn DOT root).filter (· ≠ []) ++ [n]) = true)
    (hcl : NoModulePackageClash roots SUFFIXES fs ((splitOn DOT root).filter (· ≠ []) ++ [n]) = true)
    (hreg : Regular roots SUFFIXES fs ((splitOn DOT root).filter (· ≠ []) ++ [n]) = true)
    (hext : NoExtensionNextToSource roots NONEXT_SUFFIXES EXTENSION_SUFFIXES fs
        ((splitOn DOT root).filter (· ≠ []) ++ [n]) = true)
    (hsp : NoSplitPackage roots SUFFIXES SOURCE_SUFFIXES LOADER_SUFFIXES fs
        ((splitOn DOT root).filter (· ≠ []) ++ [n]) = true) :
    ∃ f d, importlibFindC LOADER_SUFFIXES fs roots ((splitOn DOT root).filter (· ≠ []) ++ [n]) = some (.file f d) := by
  obtain ⟨f, b, hf⟩ := list_sub_importable roots SUFFIXES SOURCE_SUFFIXES fs sysModules root n h hn false
  have h1 := getModuleC_file roots SUFFIXES SOURCE_SUFFIXES LOADER_SUFFIXES fs _ hv sameSuffixes hns hcl
    (sameChoice_generated roots fs _ hext) hreg hsp false
  rw [hf] at h1
  cases hc : importlibFindC LOADER_SUFFIXES fs roots ((splitOn DOT root).filter (· ≠ []) ++ [n]) with
  | none => rw [hc] at h1; simp [ModRes.file?] at h1
  | some loc =>
    cases loc with
    | file f' d => exact ⟨f', d, rfl⟩
    | ns ps => rw [hc] at h1; simp [ModRes.file?, Loc.file?] at h1

/-! non-vacuity of the hypotheses of `C07_find` / `C07_list` on the 2-root depth-3 tree `exFs`:
    "a.b.c.m" with path [/r1, /r2] is found at depth 3 in the first root -/
section Example2
def nm_abcm : Str := [97, DOT, 98, DOT, 99, DOT, 109]
example : validComps (splitOn DOT nm_abcm) = true ∧
    NoNamespaceDirs [[sR1], [sR2]] exFs (splitOn DOT nm_abcm) = true ∧
    NoModulePackageClash [[sR1], [sR2]] SUFFIXES exFs (splitOn DOT nm_abcm) = true ∧
    Regular [[sR1], [sR2]] SUFFIXES exFs (splitOn DOT nm_abcm) = true ∧
    NoExtensionNextToSource [[sR1], [sR2]] NONEXT_SUFFIXES EXTENSION_SUFFIXES exFs (splitOn DOT nm_abcm) = true ∧
    NoSplitPackage [[sR1], [sR2]] SUFFIXES SOURCE_SUFFIXES LOADER_SUFFIXES exFs (splitOn DOT nm_abcm) = true ∧
    getModule [[sR1], [sR2]] SUFFIXES SOURCE_SUFFIXES exFs [] nm_abcm = .found [sR1, sA, sB, sC, sM ++ PY] true := by
  decide
-- "a.x" with path [/r2, /r1]: found in r2 although r1/a/b/x.py exists elsewhere; all hypotheses hold
example : NoNamespaceDirs [[sR2], [sR1]] exFs [sA, sX] = true ∧
    NoModulePackageClash [[sR2], [sR1]] SUFFIXES exFs [sA, sX] = true ∧
    Regular [[sR2], [sR1]] SUFFIXES exFs [sA, sX] = true ∧
    NoExtensionNextToSource [[sR2], [sR1]] NONEXT_SUFFIXES EXTENSION_SUFFIXES exFs [sA, sX] = true ∧
    NoSplitPackage [[sR2], [sR1]] SUFFIXES SOURCE_SUFFIXES LOADER_SUFFIXES exFs [sA, sX] = true ∧
    getModuleC [[sR2], [sR1]] SUFFIXES SOURCE_SUFFIXES exFs false [sA, sX] = .found [sR2, sA, sX ++ PY] true := by
  decide
-- list_packages "a.b" with path [/r1, /r2]: c (package) and x (module) are enumerable and proposed
example : sourcePkgsAt LOADER_SUFFIXES exFs (pkgDirOf [sR1] [97, DOT, 98]) = true ∧
    enumerable LOADER_SUFFIXES exFs (pkgDirOf [sR1] [97, DOT, 98]) sC = true ∧
    enumerable LOADER_SUFFIXES exFs (pkgDirOf [sR1] [97, DOT, 98]) sX = true ∧
    sC ∈ listPackages [[sR1], [sR2]] SUFFIXES exFs [] [97, DOT, 98] := by
  decide
end Example2

/-! ## the recorded defect: split packages -/

/-- negation witness of the unrestricted statement (see SuppModel/Witness/C07.lean): all other domain
    hypotheses hold, `NoSplitPackage` fails, the model finds r2/pk/m2.py, the import system nothing -/
theorem C07_split_witness :
    NoSplitPackage [[Witness.r1], [Witness.r2]] SUFFIXES SOURCE_SUFFIXES LOADER_SUFFIXES Witness.splitFs
        (splitOn DOT Witness.pk_m2) = false ∧
    (getModule [[Witness.r1], [Witness.r2]] SUFFIXES SOURCE_SUFFIXES Witness.splitFs [] Witness.pk_m2).file?
      ≠ (importlibFind LOADER_SUFFIXES Witness.splitFs [[Witness.r1], [Witness.r2]] Witness.pk_m2).bind Loc.file? := by
  have h := Witness.C07_split
  refine ⟨h.2.2.2.2.2.1, ?_⟩
  rw [h.2.2.2.2.2.2.1, h.2.2.2.2.2.2.2]
  decide

/-- second negation witness (extension module next to its source): all other hypotheses hold,
    `NoExtensionNextToSource` fails, the model selects r1/m.py, the import system r1/m.abi3.so -/
theorem C07_ext_witness :
    NoExtensionNextToSource [[Witness.r1]] NONEXT_SUFFIXES EXTENSION_SUFFIXES Witness.extFs
        (splitOn DOT Witness.mName) = false ∧
    (getModule [[Witness.r1]] SUFFIXES SOURCE_SUFFIXES Witness.extFs [] Witness.mName).file?
      ≠ (importlibFind LOADER_SUFFIXES Witness.extFs [[Witness.r1]] Witness.mName).bind Loc.file? := by
  have h := Witness.C07_ext_next_to_source
  refine ⟨h.2.2.2.2.2.1, ?_⟩
  rw [h.2.2.2.2.2.2.1, h.2.2.2.2.2.2.2]
  decide

/-- hence the unrestricted statement is false of the code as it is -/
theorem C07_find_stmt_false : ¬ C07_find_stmt := by
  intro h
  have w := Witness.C07_split
  exact C07_split_witness.2
    (h [[Witness.r1], [Witness.r2]] Witness.splitFs [] Witness.pk_m2 w.1 w.2.1 w.2.2.1 w.2.2.2.1)

end SuppModel.Props.C07
