/-
  MDict — property theorems about the model of `supp/merged_dict.py` (SuppModel/MDict/Model.lean); proofs of
  the lemmas in SuppModel/MDict/Lemmas.lean.  Property statements ONLY.

  Used by C02 (the binding a read resolves to is the one in the innermost table that has the name, however
  long the chain of tables and however it was nested together), C13 (nothing in a lookup depends on
  positions) and C17 (the iteration order of a merged table is a function of the iteration orders of its
  parts — no set, no hash order enters).  STATUS: full strength, every chain of every length, every nesting;
  the only hypothesis (`Dict.wf`: a dict's keys are distinct) holds of every Python dict.
-/
import SuppModel.MDict.Lemmas
namespace SuppModel.MDict

/-- nesting is flattening: passing a MergedDict as an argument is the same as passing its own arguments -/
theorem MDict_init_nested (inner rest : List Arg) :
    init (Arg.merged (init inner) :: rest) = init (inner ++ rest) := by
  simp [init, Arg.parts, List.flatMap_append]

/-- priority: `m[k]` is the value in the FIRST part (constructor order, after flattening) that has `k`;
    KeyError exactly when no part has it -/
theorem MDict_getitem_first (args : List Arg) (k v : Nat) :
    getitem (init args) k = some v ↔
      ∃ pre p post, init args = pre ++ p :: post ∧ p.get? k = some v ∧ ∀ q ∈ pre, q.get? k = none :=
  getitem_first _ k v

theorem MDict_getitem_none (args : List Arg) (k : Nat) :
    getitem (init args) k = none ↔ ∀ d ∈ init args, k ∉ Dict.keys d := by
  have h := getitem_isSome (init args) k
  constructor
  · intro hn d hd hk
    rw [hn] at h
    have : contains (init args) k = true := by
      simp only [contains, List.any_eq_true]
      exact ⟨d, hd, (get?_isSome_iff d k).mpr hk⟩
    rw [this] at h; cases h
  · intro hall
    rcases hg : getitem (init args) k with _ | v
    · rfl
    · rw [hg] at h
      simp only [Option.isSome_some, contains] at h
      obtain ⟨d, hd, hk⟩ := List.any_eq_true.mp h.symm
      exact absurd ((get?_isSome_iff d k).mp hk) (hall d hd)

/-- a chain merged from two chains looks up in the first, then in the second (what `MergedDict(names,
    parent_names)` does at every level of nesting, however deep) -/
theorem MDict_getitem_chain (a b : List Arg) (k : Nat) :
    getitem (init (a ++ b)) k =
      match getitem (init a) k with | some v => some v | none => getitem (init b) k := by
  simp only [init, List.flatMap_append]; exact getitem_append _ _ k

/-- `k in m` exactly when `m[k]` succeeds; `get` is `__getitem__` with a default -/
theorem MDict_contains (args : List Arg) (k : Nat) :
    contains (init args) k = (getitem (init args) k).isSome := (getitem_isSome _ k).symm

theorem MDict_get (args : List Arg) (k dflt : Nat) :
    get (init args) k dflt = match getitem (init args) k with | some v => v | none => dflt := by
  unfold get; cases getitem (init args) k <;> rfl

/-- iteration agrees with lookup: the pairs `items()` yields are exactly the `(k, m[k])` -/
theorem MDict_items_lookup (args : List Arg) (hwf : ∀ d ∈ init args, Dict.wf d) (k : Nat) :
    (iteritems (init args)).get? k = getitem (init args) k := iteritems_get? _ hwf k

/-- every key is yielded once, and the keys are those of the parts -/
theorem MDict_iter_nodup (args : List Arg) : (iter (init args)).Nodup := iter_nodup _

theorem MDict_iter_mem (args : List Arg) (k : Nat) :
    k ∈ iter (init args) ↔ ∃ d ∈ init args, k ∈ Dict.keys d := mem_iter _ k

/-- the iteration order is determined by the parts' own orders alone: first occurrences in the
    concatenation of the parts' key lists, last part first (C17: no set order enters a merged table) -/
theorem MDict_iter_order (args : List Arg) :
    iter (init args) = ((init args).reverse.flatMap Dict.keys).foldl addKey [] := iter_order _

/-- what `items()` returns is itself a well-formed dict, and `values()` are the lookups of the keys `__iter__` yields, in that
    order -/
theorem MDict_items_wf (args : List Arg) : (iteritems (init args)).wf := iteritems_wf _

theorem MDict_values (args : List Arg) (hwf : ∀ d ∈ init args, Dict.wf d) :
    itervalues (init args) = (iter (init args)).filterMap (getitem (init args)) := by
  unfold itervalues iter
  rw [values_eq_lookups _ (iteritems_wf _)]
  apply filterMap_congr'
  intro k _
  exact iteritems_get? _ hwf k

theorem MDict_addKey (ks : List Nat) (k : Nat) : addKey ks k = if k ∈ ks then ks else ks ++ [k] :=
  addKey_eq ks k

/-! non-vacuity: three tables nested two ways, overlapping keys -/
def exInner : List Arg := [.plain [(1, 10), (2, 20)], .plain [(2, 21), (3, 31)]]
def exArgs : List Arg := [.merged (init exInner), .plain [(3, 32), (4, 42), (1, 12)]]

example : init exArgs = [[(1, 10), (2, 20)], [(2, 21), (3, 31)], [(3, 32), (4, 42), (1, 12)]] ∧
    (∀ d ∈ init exArgs, Dict.wf d) ∧
    getitem (init exArgs) 2 = some 20 ∧ getitem (init exArgs) 3 = some 31 ∧ getitem (init exArgs) 4 = some 42 ∧
    getitem (init exArgs) 5 = none ∧
    iteritems (init exArgs) = [(3, 31), (4, 42), (1, 10), (2, 20)] ∧
    contains (init exArgs) 4 = true ∧ get (init exArgs) 5 7 = 7 := by decide

end SuppModel.MDict
