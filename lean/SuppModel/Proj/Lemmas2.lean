/- Proj: what it means for a project state to be correct for a disk, and that loading modules and
   analysing them (`getModule`, `build`, `scopeOf`) keeps it so. -/
import SuppModel.Proj.Lemmas1

namespace SuppModel.Proj

/-- `E` has the same files as `D` wherever the state has looked -/
structure AgreeOn (st : St) (D E : Disk) : Prop where
  files : ∀ m, foot st m → get E m = get D m
  /-- and every directory in `_norm_cache` has the same package path on both -/
  parts : ∀ root ps, Norm.lookup st.norm root = some ps → pParts E root = pParts D root

theorem AgreeOn.mono {st st' : St} {D E : Disk} (h : AgreeOn st' D E) (hm : Mono st st') : AgreeOn st D E :=
  ⟨fun m hf => h.files m (hm.foot m hf), fun r ps hl => h.parts r ps (hm.norm r ps hl)⟩

/-- nothing is evicted from the module cache -/
def Keeps (st st' : St) : Prop := ∀ k, (get st.mcache k).isSome = true → (get st'.mcache k).isSome = true

theorem Keeps.refl (st : St) : Keeps st st := fun _ h => h
theorem Keeps.trans {a b c : St} (h1 : Keeps a b) (h2 : Keeps b c) : Keeps a c := fun k h => h2 k (h1 k h)

theorem keeps_updCached (st : St) (m : Mod) (g : Cached → Cached) : Keeps st (updCached st m g) := by
  intro k hk
  simp only [updCached, get_map_upd]
  by_cases hkm : k = m
  · simp only [hkm, if_true]; rw [hkm] at hk; cases hgk : get st.mcache m <;> simp_all
  · simpa [hkm] using hk

/-- `f n` is `a` for every large enough recursion depth -/
def Ev {α : Type} (f : Nat → Except Err α) (a : α) : Prop := ∃ N, ∀ n, N ≤ n → f n = .ok a

theorem Ev.unique {α : Type} {f : Nat → Except Err α} {a b : α} (ha : Ev f a) (hb : Ev f b) : a = b := by
  obtain ⟨N, hN⟩ := ha
  obtain ⟨M, hM⟩ := hb
  have h1 := hN (max N M) (Nat.le_max_left _ _)
  have h2 := hM (max N M) (Nat.le_max_right _ _)
  rw [h1] at h2
  exact Except.ok.inj h2

/-- every cached value is what the memo-free reading of disk `E` gives -/
structure Correct (E : Disk) (st : St) : Prop where
  valid : ∀ m c, get st.mcache m = some c → ∃ f, get E m = some f ∧ f.mtime = c.mtime
  miss : ∀ m, m ∈ st.missing → get E m = none
  ctx : ∀ m, m ∈ st.ctx → (get st.mcache m).isSome = true
  table : ∀ m c t, get st.mcache m = some c → c.table = some t → Ev (fun n => pTable E n m) (some t)
  refs : ∀ m c x ln k mn r, get st.mcache m = some c → findRef (.imp x ln k mn) c.refs = some r →
    Ev (fun n => pResolve E n k mn) r
  /-- a module object held by a memo is still the one in the module cache -/
  modIn : ∀ m c key k, get st.mcache m = some c → findRef key c.refs = some (some (.module k)) →
    (get st.mcache k).isSome = true
  /-- memos of relative imports: the name is normalised from the directory of the module's own file -/
  refsR : ∀ m c x ln up k mn r, get st.mcache m = some c → findRef (.rimp x ln up k mn) c.refs = some r →
    Ev (fun n => pResolveR E n (dirOf (some m)) up k mn) r
  /-- `_norm_cache` holds the package path of each directory it has an entry for -/
  norm : ∀ root ps, Norm.lookup st.norm root = some ps → ps = pParts E root
  /-- `changed` is `!=` and `norm_package` caches empty results, as in the code -/
  mode : st.lt = false
  mode2 : st.legacyNorm = false

/-- a state with nothing in its caches is correct for every disk -/
theorem correct_of_nil (E : Disk) (st : St) (h1 : st.mcache = []) (h2 : st.missing = []) (h3 : st.ctx = [])
    (h4 : st.lt = false) (h5 : st.norm = []) (h6 : st.legacyNorm = false) : Correct E st :=
  ⟨by simp [h1], by simp [h2], by simp [h3], by simp [h1], by simp [h1], by simp [h1], by simp [h1],
   by simp [h5, Norm.lookup], h4, h6⟩

theorem correct_empty (E : Disk) : Correct E St.empty := correct_of_nil E _ rfl rfl rfl rfl rfl rfl

theorem pTable_none {E : Disk} {m : Mod} (h : get E m = none) (n : Nat) : pTable E n m = .ok none := by
  cases n <;> simp [pTable, h]

theorem correct_updCached {E : Disk} {st : St} {m : Mod} {g : Cached → Cached} (hc : Correct E st)
    (hg : ∀ c, get st.mcache m = some c → (g c).mtime = c.mtime ∧
      (∀ t, (g c).table = some t → c.table = some t ∨ Ev (fun n => pTable E n m) (some t)) ∧
      (∀ x ln k mn r, findRef (.imp x ln k mn) (g c).refs = some r →
        findRef (.imp x ln k mn) c.refs = some r ∨ Ev (fun n => pResolve E n k mn) r) ∧
      (∀ key k, findRef key (g c).refs = some (some (.module k)) →
        findRef key c.refs = some (some (.module k)) ∨ (get st.mcache k).isSome = true) ∧
      (∀ x ln up k mn r, findRef (.rimp x ln up k mn) (g c).refs = some r →
        findRef (.rimp x ln up k mn) c.refs = some r ∨
          Ev (fun n => pResolveR E n (dirOf (some m)) up k mn) r)) :
    Correct E (updCached st m g) := by
  refine ⟨?_, hc.miss, ?_, ?_, ?_, ?_, ?_, hc.norm, hc.mode, hc.mode2⟩
  · intro k c hk
    simp only [updCached, get_map_upd] at hk
    by_cases hkm : k = m
    · subst hkm
      simp only [if_true] at hk
      cases hgk : get st.mcache k with
      | none => rw [hgk] at hk; cases hk
      | some c0 =>
        rw [hgk] at hk; simp only [Option.map_some, Option.some.injEq] at hk
        obtain ⟨f, hf, hmt⟩ := hc.valid k c0 hgk
        exact ⟨f, hf, by rw [← hk, (hg c0 hgk).1]; exact hmt⟩
    · simp only [hkm, if_false] at hk; exact hc.valid k c hk
  · intro k hk
    have := hc.ctx k hk
    simp only [updCached, get_map_upd]
    by_cases hkm : k = m
    · simp only [hkm, if_true]; rw [hkm] at this; cases hgk : get st.mcache m <;> simp_all
    · simpa [hkm] using this
  · intro k c t hk ht
    simp only [updCached, get_map_upd] at hk
    by_cases hkm : k = m
    · subst hkm
      simp only [if_true] at hk
      cases hgk : get st.mcache k with
      | none => rw [hgk] at hk; cases hk
      | some c0 =>
        rw [hgk] at hk; simp only [Option.map_some, Option.some.injEq] at hk
        subst hk
        rcases (hg c0 hgk).2.1 t ht with h | h
        · exact hc.table k c0 t hgk h
        · exact h
    · simp only [hkm, if_false] at hk; exact hc.table k c t hk ht
  · intro k c x ln k' mn r hk hr
    simp only [updCached, get_map_upd] at hk
    by_cases hkm : k = m
    · subst hkm
      simp only [if_true] at hk
      cases hgk : get st.mcache k with
      | none => rw [hgk] at hk; cases hk
      | some c0 =>
        rw [hgk] at hk; simp only [Option.map_some, Option.some.injEq] at hk
        subst hk
        rcases (hg c0 hgk).2.2.1 x ln k' mn r hr with h | h
        · exact hc.refs k c0 x ln k' mn r hgk h
        · exact h
    · simp only [hkm, if_false] at hk; exact hc.refs k c x ln k' mn r hk hr
  · intro k c key k' hk hr
    apply keeps_updCached
    simp only [updCached, get_map_upd] at hk
    by_cases hkm : k = m
    · subst hkm
      simp only [if_true] at hk
      cases hgk : get st.mcache k with
      | none => rw [hgk] at hk; cases hk
      | some c0 =>
        rw [hgk] at hk; simp only [Option.map_some, Option.some.injEq] at hk
        subst hk
        rcases (hg c0 hgk).2.2.2.1 key k' hr with h | h
        · exact hc.modIn k c0 key k' hgk h
        · exact h
    · simp only [hkm, if_false] at hk; exact hc.modIn k c key k' hk hr
  · intro k c x ln up k' mn r hk hr
    simp only [updCached, get_map_upd] at hk
    by_cases hkm : k = m
    · subst hkm
      simp only [if_true] at hk
      cases hgk : get st.mcache k with
      | none => rw [hgk] at hk; cases hk
      | some c0 =>
        rw [hgk] at hk; simp only [Option.map_some, Option.some.injEq] at hk
        subst hk
        rcases (hg c0 hgk).2.2.2.2 x ln up k' mn r hr with h | h
        · exact hc.refsR k c0 x ln up k' mn r hgk h
        · exact h
    · simp only [hkm, if_false] at hk; exact hc.refsR k c x ln up k' mn r hk hr

theorem load_correct {E D : Disk} {st : St} {m : Mod} {b : Bool} {st' : St} (hc : Correct E st)
    (hnone : get st.mcache m = none)
    (h : load D st m = (b, st')) (hag : AgreeOn st' D E) :
    Correct E st' ∧ Keeps st st' ∧ (b = true → ∃ c, get st'.mcache m = some c) ∧ (b = false → get E m = none) := by
  have hfoot : foot st' m := by have := load_foot D st m; rw [h] at this; exact this
  have hE := hag.files m hfoot
  unfold load at h
  cases hd : get D m with
  | none =>
    rw [hd] at h; simp only [Prod.mk.injEq] at h
    obtain ⟨hb, hst⟩ := h
    subst hb; subst hst
    rw [hd] at hE
    refine ⟨⟨?_, ?_, ?_, ?_, ?_, ?_, ?_, ?_, by simpa using hc.mode, by simpa using hc.mode2⟩,
      by simp [Keeps], by simp, fun _ => hE⟩
    · simpa using hc.valid
    · intro k hk
      rcases (mem_addMissing st m k).1 hk with rfl | hk'
      · exact hE
      · exact hc.miss k hk'
    · simpa using hc.ctx
    · simpa using hc.table
    · simpa using hc.refs
    · simpa using hc.modIn
    · simpa using hc.refsR
    · simpa using hc.norm
  | some f =>
    rw [hd] at h; simp only [Prod.mk.injEq] at h
    obtain ⟨hb, hst⟩ := h
    subst hb; subst hst
    rw [hd] at hE
    have hkeep : Keeps st { st with mcache := (m, ⟨f.mtime, none, []⟩) :: st.mcache } := by
      intro k hk
      simp only [get_cons]
      by_cases hmk : m = k
      · simp [hmk]
      · simpa [hmk] using hk
    refine ⟨⟨?_, hc.miss, ?_, ?_, ?_, ?_, ?_, hc.norm, hc.mode, hc.mode2⟩, hkeep, fun _ => ⟨⟨f.mtime, none, []⟩, by simp [get_cons]⟩, by simp⟩
    · intro k c hk
      simp only [get_cons] at hk
      by_cases hmk : m = k
      · subst hmk; simp only [if_true, Option.some.injEq] at hk; subst hk; exact ⟨f, hE, rfl⟩
      · simp only [hmk, if_false] at hk; exact hc.valid k c hk
    · intro k hk
      simp only [get_cons]
      by_cases hmk : m = k
      · simp [hmk]
      · simpa [hmk] using hc.ctx k hk
    · intro k c t hk ht
      simp only [get_cons] at hk
      by_cases hmk : m = k
      · subst hmk; simp only [if_true, Option.some.injEq] at hk; subst hk; cases ht
      · simp only [hmk, if_false] at hk; exact hc.table k c t hk ht
    · intro k c x ln k' mn r hk hr
      simp only [get_cons] at hk
      by_cases hmk : m = k
      · subst hmk; simp only [if_true, Option.some.injEq] at hk; subst hk; simp [findRef] at hr
      · simp only [hmk, if_false] at hk; exact hc.refs k c x ln k' mn r hk hr
    · intro k c key k' hk hr
      apply hkeep
      simp only [get_cons] at hk
      by_cases hmk : m = k
      · subst hmk; simp only [if_true, Option.some.injEq] at hk; subst hk; simp [findRef] at hr
      · simp only [hmk, if_false] at hk; exact hc.modIn k c key k' hk hr
    · intro k c x ln up k' mn r hk hr
      simp only [get_cons] at hk
      by_cases hmk : m = k
      · subst hmk; simp only [if_true, Option.some.injEq] at hk; subst hk; simp [findRef] at hr
      · simp only [hmk, if_false] at hk; exact hc.refsR k c x ln up k' mn r hk hr

theorem getModule_foot {D : Disk} {st : St} {m : Mod} (hctx : ∀ k, k ∈ st.ctx → (get st.mcache k).isSome = true) :
    foot (getModule D st m).2 m := by
  unfold getModule
  by_cases hc : m ∈ st.ctx
  · simp only [hc, if_true]; exact Or.inl (hctx m hc)
  · simp only [hc, if_false]
    cases hg : get st.mcache m with
    | none => exact load_foot D st m
    | some c =>
      dsimp only
      by_cases hch : changedB st.lt (stat D m) c.mtime = true
      · rw [if_pos hch]; exact load_foot D _ m
      · rw [if_neg hch]; exact Or.inl (by simp [hg])

theorem getModule_correct {E D : Disk} {st : St} {m : Mod} {b : Bool} {st' : St} (hc : Correct E st)
    (h : getModule D st m = (b, st')) (hag : AgreeOn st' D E) :
    Correct E st' ∧ Keeps st st' ∧ (b = true → ∃ c, get st'.mcache m = some c) ∧ (b = false → get E m = none) := by
  have hfoot : foot st' m := by have := getModule_foot (D := D) (m := m) hc.ctx; rw [h] at this; exact this
  have hE := hag.files m hfoot
  unfold getModule at h
  by_cases hctx : m ∈ st.ctx
  · simp only [hctx, if_true, Prod.mk.injEq] at h
    obtain ⟨hb, hst⟩ := h
    subst hb; subst hst
    have := hc.ctx m hctx
    refine ⟨hc, Keeps.refl _, fun _ => ?_, by simp⟩
    cases hg : get st.mcache m with
    | none => simp [hg] at this
    | some c => exact ⟨c, rfl⟩
  · simp only [hctx, if_false] at h
    cases hg : get st.mcache m with
    | none => rw [hg] at h; exact load_correct hc hg h hag
    | some c =>
      rw [hg] at h; dsimp only at h
      obtain ⟨f, hf, hmt⟩ := hc.valid m c hg
      have hst : stat D m = some c.mtime := by
        unfold stat; rw [← hE, hf]; simp [hmt]
      rw [if_neg (by simp [hst, changedB, hc.mode])] at h
      simp only [Prod.mk.injEq] at h
      obtain ⟨hb, hst'⟩ := h
      subst hb; subst hst'
      refine ⟨⟨hc.valid, hc.miss, ?_, hc.table, hc.refs, hc.modIn, hc.refsR, hc.norm, hc.mode, hc.mode2⟩, fun _ h => h,
        fun _ => ⟨c, hg⟩, by simp⟩
      intro k hk
      rcases List.mem_cons.1 hk with rfl | hk'
      · simp [hg]
      · exact hc.ctx k hk'

/-- what the recursive call inside `build` must satisfy -/
def ScopeOK (E D : Disk) (scope : St → Mod → Except Err (Option Table × St)) : Prop :=
  ∀ st k r st', Correct E st → (get st.mcache k).isSome = true → scope st k = .ok (r, st') →
    AgreeOn st' D E → Correct E st' ∧ Keeps st st' ∧
      ∃ t, r = some t ∧ Ev (fun n => pTable E n k) (some t)

theorem normRef_keeps (D : Disk) (st : St) (dir : Mod) (up : Nat) (m : Mod) :
    Keeps st (normRef D st dir up m).2 := by
  intro k hk
  rw [(normRef_mcache D st dir up m).1]; exact hk

theorem normRef_lt (D : Disk) (st : St) (dir : Mod) (up : Nat) (m : Mod) :
    (normRef D st dir up m).2.lt = st.lt ∧ (normRef D st dir up m).2.legacyNorm = st.legacyNorm := by
  unfold normRef; exact ⟨rfl, rfl⟩

/-- `norm_package`: the cached or freshly computed package path is the one of disk `E` -/
theorem normRef_correct {E D : Disk} {st : St} {dir : Mod} {up : Nat} {m : Mod} {r} {st' : St}
    (hc : Correct E st) (h : normRef D st dir up m = (r, st')) (hag : AgreeOn st' D E) :
    Correct E st' ∧ Keeps st st' ∧ r = pNorm E dir up m := by
  have hk : Keeps st st' := by have := normRef_keeps D st dir up m; rw [h] at this; exact this
  obtain ⟨hm1, hm2, hm3⟩ := normRef_mcache D st dir up m
  obtain ⟨hl1, hl2⟩ := normRef_lt D st dir up m
  rw [h] at hm1 hm2 hm3 hl1 hl2
  dsimp only at hm1 hm2 hm3 hl1 hl2
  have hcache : (!st.legacyNorm) = true := by simp [hc.mode2]
  unfold normRef Norm.normPackage at h
  rw [hcache] at h
  dsimp only at h
  have hroot : Norm.dropLastN (up + 1 - 1) dir = Norm.dropLastN up dir := by simp
  rw [hroot] at h
  cases hl : Norm.lookup st.norm (Norm.dropLastN up dir) with
  | some ps =>
    rw [hl] at h
    simp only [Prod.mk.injEq] at h
    obtain ⟨hr, hst⟩ := h
    have hps := hc.norm _ _ hl
    refine ⟨?_, hk, ?_⟩
    · rw [← hst]; exact hc
    · rw [← hr, hps]; rfl
  | none =>
    rw [hl] at h
    simp only [Bool.not_true, Bool.and_false, Bool.false_eq_true, if_false, Prod.mk.injEq] at h
    obtain ⟨hr, hst⟩ := h
    have hnorm : st'.norm = (Norm.dropLastN up dir, pParts D (Norm.dropLastN up dir)) :: st.norm := by
      rw [← hst]; rfl
    have hED : pParts E (Norm.dropLastN up dir) = pParts D (Norm.dropLastN up dir) :=
      hag.parts _ (pParts D (Norm.dropLastN up dir)) (by rw [hnorm, lookup_cons, if_pos rfl])
    refine ⟨⟨?_, ?_, ?_, ?_, ?_, ?_, ?_, ?_, by rw [hl1]; exact hc.mode, by rw [hl2]; exact hc.mode2⟩, hk, ?_⟩
    · rw [hm1]; exact hc.valid
    · rw [hm2]; exact hc.miss
    · rw [hm3, hm1]; exact hc.ctx
    · rw [hm1]; exact hc.table
    · rw [hm1]; exact hc.refs
    · rw [hm1]; exact hc.modIn
    · rw [hm1]; exact hc.refsR
    · intro root ps hlk
      rw [hnorm, lookup_cons] at hlk
      by_cases hkr : Norm.dropLastN up dir = root
      · rw [if_pos hkr] at hlk
        simp only [Option.some.injEq] at hlk
        rw [← hlk, ← hkr, hED]
      · rw [if_neg hkr] at hlk; exact hc.norm root ps hlk
    · rw [← hr]; unfold pNorm; rw [hED]; rfl

theorem build_correct {E D : Disk} {dir : Mod} {scope : St → Mod → Except Err (Option Table × St)}
    (hgrow : GrowsE scope) (hs : ScopeOK E D scope) (P : Nat → Mod → Except Err (Option Table))
    (hP : ∀ k t, Ev (fun n => pTable E n k) t → Ev (fun n => P n k) t) :
    ∀ (src : Src) (st : St) (ln : Nat) (acc t : Table) (st' : St), Correct E st →
      build D dir scope st src ln acc = .ok (t, st') → AgreeOn st' D E →
      Correct E st' ∧ Keeps st st' ∧ Ev (fun n => pBuild E dir (P n) src ln acc) t := by
  intro src
  induction src with
  | nil =>
    intro st ln acc t st' hc h _
    simp only [build, Except.ok.injEq, Prod.mk.injEq] at h
    obtain ⟨h1, h2⟩ := h
    subst h1; subst h2
    exact ⟨hc, Keeps.refl _, ⟨0, fun n _ => by simp [pBuild]⟩⟩
  | cons it r ih =>
    intro st ln acc t st' hc h hag
    cases it with
    | bind x p =>
      simp only [build] at h
      obtain ⟨h1, hk, ⟨N, hN⟩⟩ := ih _ _ _ _ _ hc h hag
      exact ⟨h1, hk, ⟨N, fun n hn => by simpa only [pBuild] using hN n hn⟩⟩
    | imp m =>
      simp only [build] at h
      obtain ⟨h1, hk, ⟨N, hN⟩⟩ := ih _ _ _ _ _ hc h hag
      exact ⟨h1, hk, ⟨N, fun n hn => by simpa only [pBuild] using hN n hn⟩⟩
    | frm m x y =>
      simp only [build] at h
      obtain ⟨h1, hk, ⟨N, hN⟩⟩ := ih _ _ _ _ _ hc h hag
      exact ⟨h1, hk, ⟨N, fun n hn => by simpa only [pBuild] using hN n hn⟩⟩
    | rfrm up m x y =>
      simp only [build] at h
      obtain ⟨h1, hk, ⟨N, hN⟩⟩ := ih _ _ _ _ _ hc h hag
      exact ⟨h1, hk, ⟨N, fun n hn => by simpa only [pBuild] using hN n hn⟩⟩
    | star m =>
      simp only [build] at h
      rcases hgm : getModule D st m with ⟨b, st1⟩
      rw [hgm] at h
      cases b with
      | false =>
        dsimp only at h
        have hm1 : Mono st1 st' := build_mono D dir scope hgrow _ _ _ _ _ _ h
        obtain ⟨hc1, hk1, _, hnone⟩ := getModule_correct hc hgm (hag.mono hm1)
        obtain ⟨h1, hk2, ⟨N, hN⟩⟩ := ih _ _ _ _ _ hc1 h hag
        have hPn : Ev (fun n => P n m) none := hP m none ⟨0, fun n _ => pTable_none (hnone rfl) n⟩
        obtain ⟨M, hM⟩ := hPn
        refine ⟨h1, hk1.trans hk2, ⟨max N M, fun n hn => ?_⟩⟩
        simp only [pBuild, hM n (Nat.le_trans (Nat.le_max_right _ _) hn)]
        exact hN n (Nat.le_trans (Nat.le_max_left _ _) hn)
      | true =>
        dsimp only at h
        cases hsc : scope st1 m with
        | error e => rw [hsc] at h; cases h
        | ok p =>
          obtain ⟨ot, st2⟩ := p
          rw [hsc] at h
          have h12 : Mono st1 st2 := hgrow _ _ _ _ hsc
          have h2' : Mono st2 st' := by
            cases ot with
            | none => exact build_mono D dir scope hgrow _ _ _ _ _ _ h
            | some t0 => exact build_mono D dir scope hgrow _ _ _ _ _ _ h
          obtain ⟨hc1, hk1, hin, _⟩ := getModule_correct hc hgm (hag.mono (h12.trans h2'))
          obtain ⟨c, hcm⟩ := hin rfl
          obtain ⟨hc2, hk2, t0, hr, hev⟩ := hs _ _ _ _ hc1 (by simp [hcm]) hsc (hag.mono h2')
          subst hr
          dsimp only at h
          obtain ⟨h1, hk3, ⟨N, hN⟩⟩ := ih _ _ _ _ _ hc2 h hag
          obtain ⟨M, hM⟩ := hP m _ hev
          refine ⟨h1, hk1.trans (hk2.trans hk3), ⟨max N M, fun n hn => ?_⟩⟩
          simp only [pBuild, hM n (Nat.le_trans (Nat.le_max_right _ _) hn)]
          exact hN n (Nat.le_trans (Nat.le_max_left _ _) hn)
    | rstar up m =>
      simp only [build] at h
      have hn0 := normRef_mono D st dir up m
      rcases hnr : normRef D st dir up m with ⟨om, st0⟩
      rw [hnr] at h hn0
      cases om with
      | none =>
        dsimp only at h
        have hm0 : Mono st0 st' := build_mono D dir scope hgrow _ _ _ _ _ _ h
        obtain ⟨hc0, hk0, hpn⟩ := normRef_correct hc hnr (hag.mono hm0)
        obtain ⟨h1, hk2, ⟨N, hN⟩⟩ := ih _ _ _ _ _ hc0 h hag
        refine ⟨h1, hk0.trans hk2, ⟨N, fun n hn => ?_⟩⟩
        simp only [pBuild, ← hpn]
        exact hN n hn
      | some m' =>
        dsimp only at h
        rcases hgm : getModule D st0 m' with ⟨b, st1⟩
        rw [hgm] at h
        have hg01 : Mono st0 st1 := by have := getModule_mono D st0 m'; rw [hgm] at this; exact this
        cases b with
        | false =>
          dsimp only at h
          have hm1 : Mono st1 st' := build_mono D dir scope hgrow _ _ _ _ _ _ h
          obtain ⟨hc0, hk0, hpn⟩ := normRef_correct hc hnr (hag.mono (hg01.trans hm1))
          obtain ⟨hc1, hk1, _, hnone⟩ := getModule_correct hc0 hgm (hag.mono hm1)
          obtain ⟨h1, hk2, ⟨N, hN⟩⟩ := ih _ _ _ _ _ hc1 h hag
          obtain ⟨M, hM⟩ := hP m' none ⟨0, fun n _ => pTable_none (hnone rfl) n⟩
          refine ⟨h1, hk0.trans (hk1.trans hk2), ⟨max N M, fun n hn => ?_⟩⟩
          simp only [pBuild, ← hpn, hM n (Nat.le_trans (Nat.le_max_right _ _) hn)]
          exact hN n (Nat.le_trans (Nat.le_max_left _ _) hn)
        | true =>
          dsimp only at h
          cases hsc : scope st1 m' with
          | error e => rw [hsc] at h; cases h
          | ok p =>
            obtain ⟨ot, st2⟩ := p
            rw [hsc] at h
            have h12 : Mono st1 st2 := hgrow _ _ _ _ hsc
            have h2' : Mono st2 st' := by
              cases ot with
              | none => exact build_mono D dir scope hgrow _ _ _ _ _ _ h
              | some t0 => exact build_mono D dir scope hgrow _ _ _ _ _ _ h
            obtain ⟨hc0, hk0, hpn⟩ := normRef_correct hc hnr (hag.mono (hg01.trans (h12.trans h2')))
            obtain ⟨hc1, hk1, hin, _⟩ := getModule_correct hc0 hgm (hag.mono (h12.trans h2'))
            obtain ⟨c, hcm⟩ := hin rfl
            obtain ⟨hc2, hk2, t0, hr, hev⟩ := hs _ _ _ _ hc1 (by simp [hcm]) hsc (hag.mono h2')
            subst hr
            dsimp only at h
            obtain ⟨h1, hk3, ⟨N, hN⟩⟩ := ih _ _ _ _ _ hc2 h hag
            obtain ⟨M, hM⟩ := hP m' _ hev
            refine ⟨h1, hk0.trans (hk1.trans (hk2.trans hk3)), ⟨max N M, fun n hn => ?_⟩⟩
            simp only [pBuild, ← hpn, hM n (Nat.le_trans (Nat.le_max_right _ _) hn)]
            exact hN n (Nat.le_trans (Nat.le_max_left _ _) hn)

theorem ev_shift {α : Type} {f : Nat → Except Err α} {a : α} (h : Ev f a) : Ev (fun n => f (n + 1)) a := by
  obtain ⟨N, hN⟩ := h
  exact ⟨N, fun n hn => hN (n + 1) (Nat.le_succ_of_le hn)⟩

theorem scopeOf_correct (E D : Disk) : ∀ n, ScopeOK E D (scopeOf D n) := by
  intro n
  induction n with
  | zero => intro st k r st' _ _ h; simp [scopeOf] at h
  | succ n ih =>
    intro st k r st' hc hin h hag
    have hmono : Mono st st' := scopeOf_mono D (n + 1) _ _ _ _ h
    simp only [scopeOf] at h
    cases hg : get st.mcache k with
    | none => simp [hg] at hin
    | some c =>
      rw [hg] at h; dsimp only at h
      cases ht : c.table with
      | some t =>
        rw [ht] at h; simp only [Except.ok.injEq, Prod.mk.injEq] at h
        obtain ⟨h1, h2⟩ := h
        subst h1; subst h2
        exact ⟨hc, Keeps.refl _, t, rfl, hc.table k c t hg ht⟩
      | none =>
        rw [ht] at h; dsimp only at h
        obtain ⟨f, hf, _⟩ := hc.valid k c hg
        have hE := hag.files k (hmono.foot k (Or.inl (by simp [hg])))
        rw [hf] at hE
        rw [← hE] at h; dsimp only at h
        cases hb : build D (dirOf (some k)) (scopeOf D n) st f.src 1 [] with
        | error e => rw [hb] at h; cases h
        | ok p =>
          obtain ⟨t, st1⟩ := p
          rw [hb] at h; simp only [Except.ok.injEq, Prod.mk.injEq] at h
          obtain ⟨h1, h2⟩ := h
          subst h1; subst h2
          obtain ⟨hc1, hk1, ⟨N, hN⟩⟩ := build_correct (scopeOf_mono D n) ih (pTable E) (fun _ _ h => h)
            _ _ _ _ _ _ hc hb (hag.mono (updCached_mono _ _ _))
          have hev : Ev (fun n => pTable E n k) (some t) :=
            ⟨N + 1, fun n hn => by
              obtain ⟨n', rfl⟩ : ∃ n', n = n' + 1 := ⟨n - 1, by omega⟩
              simp only [pTable, hf, hN n' (by omega)]⟩
          refine ⟨correct_updCached hc1 (fun c0 _ => ⟨rfl, ?_, fun _ _ _ _ _ h => Or.inl h, fun _ _ h => Or.inl h,
              fun _ _ _ _ _ _ h => Or.inl h⟩),
            hk1.trans (keeps_updCached _ _ _), t, rfl, hev⟩
          intro t' ht'
          simp only [Option.some.injEq] at ht'
          subst ht'
          exact Or.inr hev

end SuppModel.Proj
