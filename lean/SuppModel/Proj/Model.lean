/-
  Proj — the long-lived `Project` of supp/project.py as a state machine (property C09).

  Transliterated: `Project.check_changes`, `_appeared`, `get_module` (with `_context_cache`,
  `_module_cache`, `_missing`), `SourceModule.mtime/changed/scope` (scope is a lazily computed,
  cached analysis), `SourceScope.resolve_star_imports` (star-import names are copied into the
  importer's table when the importer is analysed), `ImportedName.resolve` (lazy, memoised in `_ref`),
  `EvalCtx.evaluate` / `EvalCtx.declarations` along chains of imported names, and the three request
  shapes of the harness (assist `m.` / `m.x.`, location of `m.x`, lint of `from m import *`).

  Parameters (outside the code): the disk (`Disk`), the mtime every write gives its file, the content of a
  module reduced to its top-level binding structure (`Src`), Python's recursion limit (`fuel`).
  Relative imports go through `norm_package` and its `_norm_cache` (Norm.lean).
-/
import SuppModel.Proj.Norm

namespace SuppModel.Proj

abbrev Ident := Nat
/-- dotted module name, one identifier per component -/
abbrev Mod := List Ident

/-- names starting with an underscore are not star-exported; identifiers ≥ 900 stand for them -/
def hidden (x : Ident) : Bool := 900 ≤ x

/-- identifiers 8 and 9 name package directories (module `[8]` is the file `zq_p8/__init__.py`);
    every other module `a.b` is the file `a/b.py` -/
def isPkgIdent (x : Ident) : Bool := x == 8 || x == 9

def isPkgName (m : List Ident) : Bool :=
  match m.getLast? with
  | some x => isPkgIdent x
  | none => false

inductive Item
  | bind (x : Ident) (payload : Nat)          -- `class x: v<payload> = 1`
  | imp (m : Ident)                           -- `import m`
  | frm (m : Mod) (x : Ident) (as_ : Ident)   -- `from m import x as as_`
  | star (m : Mod)                            -- `from m import *`
  | rfrm (up : Nat) (m : Mod) (x : Ident) (as_ : Ident)   -- `from .<up more dots>m import x as as_`
  | rstar (up : Nat) (m : Mod)                            -- `from .<up more dots>m import *`
  deriving DecidableEq, Repr, Inhabited

abbrev Src := List Item

structure File where
  mtime : Nat
  src : Src
  deriving DecidableEq, Repr, Inhabited

/-- association list, first match wins -/
def get {α : Type} : List (Mod × α) → Mod → Option α
  | [], _ => none
  | (k, v) :: r, m => if k = m then some v else get r m

abbrev Disk := List (Mod × File)

/-- a name of a module's top-level table (what `flow.names` holds) -/
inductive Entry
  | own (x : Ident) (line : Nat) (payload : Nat)
  /-- `ImportedName(name, module, mname)`; star-imported copies have `mname = some name` -/
  | imp (x : Ident) (line : Nat) (m : Mod) (mname : Option Ident)
  /-- the same for a relative module name (`up + 1` leading dots) -/
  | rimp (x : Ident) (line : Nat) (up : Nat) (m : Mod) (mname : Option Ident)
  deriving DecidableEq, Repr, Inhabited

def Entry.name : Entry → Ident
  | .own x _ _ => x
  | .imp x _ _ _ => x
  | .rimp x _ _ _ _ => x

abbrev Table := List Entry

/-- `{n.name: n for n in self._names}`: the last entry with the name wins -/
def lookupLast (x : Ident) : Table → Option Entry
  | [] => none
  | e :: r => match lookupLast x r with
    | some e' => some e'
    | none => if e.name = x then some e else none

/-- what `ImportedName._ref` holds -/
inductive Target
  | module (m : Mod)
  | entry (m : Mod) (e : Entry)
  deriving DecidableEq, Repr, Inhabited

/-- a `SourceModule` object kept in `_module_cache` -/
structure Cached where
  mtime : Nat
  table : Option Table                       -- `scope` (cached_property), once computed
  refs : List (Entry × Option Target)        -- `_ref` memos of the table's imported names
  deriving DecidableEq, Repr, Inhabited

structure St where
  mcache : List (Mod × Cached)
  ctx : List Mod
  missing : List Mod
  norm : Norm.Cache := []                    -- `_norm_cache`
  /-- seeded-change knob, `false` in the code as it is: `SourceModule.changed` compares with `<` -/
  lt : Bool := false
  /-- knob, `false` in the code as it is: `norm_package` as it was before a1df565 (an empty result is not cached) -/
  legacyNorm : Bool := false
  deriving DecidableEq, Repr, Inhabited

def St.empty : St := ⟨[], [], [], [], false, false⟩

inductive Variant
  | pinned       -- before b5a1370: only the asked-for module is re-stat'ed
  | coarseOnly   -- b5a1370 without 07fdbb8
  | noRenorm     -- before a1df565: `_norm_cache` is never looked at again nor dropped
  | current
  | ltChanged    -- the current tree with `changed` written as `self.mtime < getmtime(...)`
  deriving DecidableEq, Repr, Inhabited

inductive Err
  | recursion
  deriving DecidableEq, Repr, Inhabited

def stat (D : Disk) (m : Mod) : Option Nat := (get D m).map (·.mtime)

/-- `SourceModule.changed`: `self.mtime != getmtime(self.filename)` (a vanished file counts as changed) -/
def changedB (lt : Bool) (now : Option Nat) (cached : Nat) : Bool :=
  match now with
  | none => true
  | some t => if lt then decide (cached < t) else decide (cached ≠ t)

def addMissing (st : St) (m : Mod) : St :=
  if m ∈ st.missing then st else { st with missing := m :: st.missing }

/-- the tail of `get_module`: search the path, build a `SourceModule`, remember it -/
def load (D : Disk) (st : St) (m : Mod) : Bool × St :=
  match get D m with
  | none => (false, addMissing st m)
  | some f => (true, { st with mcache := (m, ⟨f.mtime, none, []⟩) :: st.mcache })

/-- `Project.get_module`; `true` = a module object is returned, `false` = ImportError -/
def getModule (D : Disk) (st : St) (m : Mod) : Bool × St :=
  if m ∈ st.ctx then (true, st) else
  match get st.mcache m with
  | some c =>
    if changedB st.lt (stat D m) c.mtime then
      load D { st with mcache := st.mcache.filter (fun p => p.1 ≠ m) } m
    else (true, { st with ctx := m :: st.ctx })
  | none => load D st m

def updCached (st : St) (m : Mod) (f : Cached → Cached) : St :=
  { st with mcache := st.mcache.map (fun p => if p.1 = m then (p.1, f p.2) else p) }

def exportedNames (t : Table) : List Ident := t.map Entry.name

/-- the directory `d` (a path from the sources root) contains an `__init__.py` -/
def pkOf (D : Disk) (d : Mod) : Bool := (get D d).isSome && isPkgName d

/-- the directory of a module's file (`none`: the request's own file, in the sources root) -/
def dirOf : Option Mod → Mod
  | none => []
  | some o => if isPkgName o then o else o.dropLast

/-- `norm_package('.' * (up + 1) + m, filename)` with `dir = dirname(filename)`; `none` = ImportError -/
def normRef (D : Disk) (st : St) (dir : Mod) (up : Nat) (m : Mod) : Option Mod × St :=
  match Norm.normPackage (pkOf D) (!st.legacyNorm) st.norm dir (up + 1) m with
  | (r, c) => (r, { st with norm := c })

/-- `extract_scope`: walk the items (one per line); a star import asks for the other module's
    exported names *now* and copies them in (`resolve_star_imports`).  `scope` is the recursive
    call that analyses another module. -/
def build (D : Disk) (dir : Mod) (scope : St → Mod → Except Err (Option Table × St)) :
    St → Src → Nat → Table → Except Err (Table × St)
  | st, [], _, acc => .ok (acc, st)
  | st, .bind x p :: r, ln, acc => build D dir scope st r (ln + 1) (acc ++ [.own x ln p])
  | st, .imp m :: r, ln, acc => build D dir scope st r (ln + 1) (acc ++ [.imp m ln [m] none])
  | st, .frm m x y :: r, ln, acc => build D dir scope st r (ln + 1) (acc ++ [.imp y ln m (some x)])
  | st, .rfrm up m x y :: r, ln, acc => build D dir scope st r (ln + 1) (acc ++ [.rimp y ln up m (some x)])
  | st, .star m :: r, ln, acc =>
    match getModule D st m with
    | (false, st1) => build D dir scope st1 r (ln + 1) acc
    | (true, st1) =>
      match scope st1 m with
      | .error e => .error e
      | .ok (none, st2) => build D dir scope st2 r (ln + 1) acc
      | .ok (some t, st2) =>
        build D dir scope st2 r (ln + 1)
          (acc ++ ((exportedNames t).filter (fun x => !hidden x)).map (fun x => .imp x ln m (some x)))
  | st, .rstar up m :: r, ln, acc =>
    match normRef D st dir up m with
    | (none, st0) => build D dir scope st0 r (ln + 1) acc
    | (some m', st0) =>
      match getModule D st0 m' with
      | (false, st1) => build D dir scope st1 r (ln + 1) acc
      | (true, st1) =>
        match scope st1 m' with
        | .error e => .error e
        | .ok (none, st2) => build D dir scope st2 r (ln + 1) acc
        | .ok (some t, st2) =>
          build D dir scope st2 r (ln + 1)
            (acc ++ ((exportedNames t).filter (fun x => !hidden x)).map (fun x => .rimp x ln up m (some x)))

/-- `module.scope`: the cached analysis, computed on first use from the file as it is then -/
def scopeOf (D : Disk) : Nat → St → Mod → Except Err (Option Table × St)
  | 0, _, _ => .error .recursion
  | n + 1, st, m =>
    match get st.mcache m with
    | none => .ok (none, st)
    | some c =>
      match c.table with
      | some t => .ok (some t, st)
      | none =>
        match get D m with
        | none => .ok (none, st)
        | some f =>
          match build D (dirOf (some m)) (scopeOf D n) st f.src 1 [] with
          | .error e => .error e
          | .ok (t, st') => .ok (some t, updCached st' m (fun c => { c with table := some t }))

def findRef (e : Entry) : List (Entry × Option Target) → Option (Option Target)
  | [] => none
  | (e', r) :: rest => if e' = e then some r else findRef e rest

def memoLookup (st : St) (owner : Option Mod) (e : Entry) : Option (Option Target) :=
  match owner with
  | none => none
  | some o => match get st.mcache o with
    | none => none
    | some c => findRef e c.refs

def memoStore (st : St) (owner : Option Mod) (e : Entry) (r : Option Target) : St :=
  match owner with
  | none => st
  | some o => updCached st o (fun c => { c with refs := (e, r) :: c.refs })

/-- the body of `ImportedName.resolve`: `import m` (`mname = none`) or `from m import mname`
    (first the submodule `m.mname`, then the attribute `mname` of module `m`) -/
def resolveCore (D : Disk) (n : Nat) (st : St) (m : Mod) : Option Ident → Except Err (Option Target × St)
  | none =>
    match getModule D st m with
    | (true, st1) => .ok (some (.module m), st1)
    | (false, st1) => .ok (none, st1)
  | some a =>
    match getModule D st (m ++ [a]) with
    | (true, st1) => .ok (some (.module (m ++ [a])), st1)
    | (false, st1) =>
      match getModule D st1 m with
      | (false, st2) => .ok (none, st2)
      | (true, st2) =>
        match scopeOf D n st2 m with
        | .error e => .error e
        | .ok (none, st3) => .ok (none, st3)
        | .ok (some t, st3) => .ok ((lookupLast a t).map (.entry m), st3)

/-- `ImportedName.resolve` of the imported name `key = .imp x line m mname` of module `owner`
    (`none`: the request's own source, whose names live only for the request): memoised in `_ref` -/
def resolve (D : Disk) (n : Nat) (st : St) (owner : Option Mod) (key : Entry) (m : Mod)
    (mname : Option Ident) : Except Err (Option Target × St) :=
  match memoLookup st owner key with
  | some r => .ok (r, st)
  | none =>
    match resolveCore D n st m mname with
    | .error e => .error e
    | .ok (r, st1) => .ok (r, memoStore st1 owner key r)

/-- `ImportedName.resolve` for a relative module name: both `get_nmodule` calls normalise the name first
    (an ImportError from `norm_package` is swallowed like any other) -/
def resolveR (D : Disk) (n : Nat) (st : St) (owner : Option Mod) (key : Entry) (up : Nat) (m : Mod)
    (mname : Option Ident) : Except Err (Option Target × St) :=
  match memoLookup st owner key with
  | some r => .ok (r, st)
  | none =>
    match normRef D st (dirOf owner) up m with
    | (none, st0) => .ok (none, memoStore st0 owner key none)
    | (some m', st0) =>
      match resolveCore D n st0 m' mname with
      | .error e => .error e
      | .ok (r, st1) => .ok (r, memoStore st1 owner key r)

inductive Val
  | module (m : Mod)
  | obj (payload : Nat)
  | nothing
  deriving DecidableEq, Repr, Inhabited

abbrev Loc := Option Mod × Nat

/-- `EvalCtx.evaluate` and `EvalCtx.declarations` walk the same chain of imported names through
    the same `resolve` calls: the value at the end, and the declarations passed on the way -/
def follow (D : Disk) : Nat → St → Option Mod → Entry → Except Err ((List Loc × Val) × St)
  | 0, _, _, _ => .error .recursion
  | _ + 1, st, o, .own _ ln p => .ok (([(o, ln)], .obj p), st)
  | n + 1, st, o, .imp x ln m mname =>
    match resolve D n st o (.imp x ln m mname) m mname with
    | .error e => .error e
    | .ok (none, st1) => .ok (([(o, ln)], .nothing), st1)
    | .ok (some (.module k), st1) => .ok (([(o, ln), (some k, 1)], .module k), st1)
    | .ok (some (.entry k e), st1) =>
      match follow D n st1 (some k) e with
      | .error e => .error e
      | .ok ((tr, v), st2) => .ok (((o, ln) :: tr, v), st2)
  | n + 1, st, o, .rimp x ln up m mname =>
    match resolveR D n st o (.rimp x ln up m mname) up m mname with
    | .error e => .error e
    | .ok (none, st1) => .ok (([(o, ln)], .nothing), st1)
    | .ok (some (.module k), st1) => .ok (([(o, ln), (some k, 1)], .module k), st1)
    | .ok (some (.entry k e), st1) =>
      match follow D n st1 (some k) e with
      | .error e => .error e
      | .ok ((tr, v), st2) => .ok (((o, ln) :: tr, v), st2)

inductive Query
  /-- the importing file does `import m` (`mname = none`) or `from m import mname`, then: -/
  | names (m : Mod) (mname : Option Ident)                   -- assist after `<it>.`
  | attr (m : Mod) (mname : Option Ident) (y : Ident)        -- assist after `<it>.y.`
  | loc (m : Mod) (mname : Option Ident) (y : Ident)         -- location of `<it>.y`
  | lint (m : Mod) (reads : List Ident)                      -- `from m import *` then read the names
  deriving DecidableEq, Repr, Inhabited

inductive Ans
  | names (xs : List Ident)
  | payload (p : Nat)
  | locs (ls : List Loc)
  | undefined (xs : List Ident)
  | nothing
  | recursion
  deriving DecidableEq, Repr, Inhabited

/-- `value.attr_list(ctx)` -/
def attrList (D : Disk) (n : Nat) (st : St) : Val → Except Err (Ans × St)
  | .nothing => .ok (.nothing, st)
  | .obj p => .ok (.payload p, st)
  | .module k =>
    match scopeOf D n st k with
    | .error e => .error e
    | .ok (none, st1) => .ok (.nothing, st1)
    | .ok (some t, st1) => .ok (.names (exportedNames t), st1)

/-- `value.get_attr(ctx, y)` -/
def getAttr (D : Disk) (n : Nat) (st : St) (y : Ident) : Val → Except Err (Option (Mod × Entry) × St)
  | .nothing => .ok (none, st)
  | .obj _ => .ok (none, st)
  | .module k =>
    match scopeOf D n st k with
    | .error e => .error e
    | .ok (none, st1) => .ok (none, st1)
    | .ok (some t, st1) => .ok ((lookupLast y t).map (fun e => (k, e)), st1)

def runQuery (D : Disk) (n : Nat) (st : St) : Query → Except Err (Ans × St)
  | .names m mname =>
    match follow D n st none (.imp 0 1 m mname) with
    | .error e => .error e
    | .ok ((_, v), st1) => attrList D n st1 v
  | .attr m mname y =>
    match follow D n st none (.imp 0 1 m mname) with
    | .error e => .error e
    | .ok ((_, v), st1) =>
      match getAttr D n st1 y v with
      | .error e => .error e
      | .ok (none, st2) => .ok (.nothing, st2)
      | .ok (some (k, e), st2) =>
        match follow D n st2 (some k) e with
        | .error e => .error e
        | .ok ((_, v'), st3) => attrList D n st3 v'
  | .loc m mname y =>
    match follow D n st none (.imp 0 1 m mname) with
    | .error e => .error e
    | .ok ((_, v), st1) =>
      match getAttr D n st1 y v with
      | .error e => .error e
      | .ok (none, st2) => .ok (.locs [], st2)
      | .ok (some (k, e), st2) =>
        match follow D n st2 (some k) e with
        | .error e => .error e
        | .ok ((tr, _), st3) => .ok (.locs tr, st3)
  | .lint m reads =>
    match getModule D st m with
    | (false, st1) => .ok (.undefined reads, st1)
    | (true, st1) =>
      match scopeOf D n st1 m with
      | .error e => .error e
      | .ok (none, st2) => .ok (.undefined reads, st2)
      | .ok (some t, st2) =>
        .ok (.undefined (reads.filter (fun x => !((exportedNames t).filter (fun x => !hidden x)).contains x)), st2)

def anyChanged (D : Disk) (st : St) : Bool :=
  st.mcache.any (fun p => changedB st.lt (stat D p.1) p.2.mtime)

/-- `Project._appeared` -/
def appeared (D : Disk) : List Mod → St → Bool × St
  | [], st => (false, st)
  | m :: rest, st =>
    match getModule D { st with missing := st.missing.filter (· ≠ m) } m with
    | (true, st1) => (true, st1)
    | (false, st1) => appeared D rest st1

/-- `_module_cache.clear(); _missing.clear()` (`_norm_cache` is left alone) -/
def St.cleared (st : St) : St := { St.empty with norm := st.norm, lt := st.lt, legacyNorm := st.legacyNorm }

/-- `_module_cache.clear(); _missing.clear(); _norm_cache.clear()` -/
def St.clearedAll (st : St) : St := { St.empty with lt := st.lt, legacyNorm := st.legacyNorm }

/-- `Project._renormed`: some directory's package path is not what was cached for it -/
def renormed (D : Disk) (st : St) : Bool :=
  st.norm.any (fun p => Norm.parts (pkOf D) (p.1.length + 1) p.1 != p.2)

/-- `check_changes` of the code as it is: changed or appeared or renormed → drop all three caches -/
def checkNow (D : Disk) (st : St) : St :=
  if anyChanged D st then st.clearedAll
  else match appeared D st.missing st with
    | (true, _) => st.clearedAll
    | (false, st1) => if renormed D st1 then st1.clearedAll else st1

/-- entering `Project.check_changes()` -/
def checkChanges (v : Variant) (D : Disk) (st : St) : St :=
  let st := { st with ctx := [] }
  match v with
  | .pinned => st
  | .coarseOnly => if anyChanged D st then { st with mcache := [] } else st
  | .noRenorm =>
    if anyChanged D st then st.cleared
    else match appeared D st.missing st with
      | (true, _) => st.cleared
      | (false, st1) => st1
  | .current => checkNow D st
  | .ltChanged => checkNow D st

/-- one request of the server: `with project.check_changes(): answer` -/
def request (v : Variant) (fuel : Nat) (D : Disk) (st : St) (q : Query) : Ans × St :=
  let st0 := checkChanges v D st
  match runQuery D fuel st0 q with
  | .ok r => r
  | .error _ => (.recursion, st0)

/-- the specification: the answer of a brand-new project -/
def fresh (fuel : Nat) (D : Disk) (q : Query) : Ans := (request .current fuel D St.empty q).1

inductive Op
  | write (m : Mod) (mtime : Nat) (src : Src)     -- create or rewrite; the file gets this mtime
  | touch (m : Mod) (mtime : Nat)                 -- same content, this mtime (nothing if there is no file)
  | request (q : Query)
  deriving DecidableEq, Repr, Inhabited

structure World where
  disk : Disk
  st : St
  deriving DecidableEq, Repr, Inhabited

def World.init (v : Variant) (D : Disk) : World :=
  ⟨D, { St.empty with lt := v == .ltChanged,
                       legacyNorm := v == .pinned || v == .coarseOnly || v == .noRenorm }⟩

/-- the (file, mtime) pairs a disk has -/
def seenOf (D : Disk) : List (Mod × Nat) := D.map (fun p => (p.1, p.2.mtime))

/-- every edit changes the file's modification time: each write or touch gives the file an mtime that file
    has not had before in the history (older or newer, any order) -/
def freshMtimes : List (Mod × Nat) → List Op → Bool
  | _, [] => true
  | seen, .write m t _ :: ops => !seen.contains (m, t) && freshMtimes ((m, t) :: seen) ops
  | seen, .touch m t :: ops => !seen.contains (m, t) && freshMtimes ((m, t) :: seen) ops
  | seen, .request _ :: ops => freshMtimes seen ops

def step (v : Variant) (fuel : Nat) (w : World) : Op → World × Option (Disk × Query × Ans)
  | .write m t src => ({ w with disk := (m, ⟨t, src⟩) :: w.disk }, none)
  | .touch m t =>
    match get w.disk m with
    | none => (w, none)
    | some f => ({ w with disk := (m, ⟨t, f.src⟩) :: w.disk }, none)
  | .request q =>
    let (a, st) := request v fuel w.disk w.st q
    ({ w with st := st }, some (w.disk, q, a))

/-- the requests of a history, each with the disk it was made on and the answer it got -/
def run (v : Variant) (fuel : Nat) : World → List Op → List (Disk × Query × Ans)
  | _, [] => []
  | w, op :: ops =>
    match step v fuel w op with
    | (w', none) => run v fuel w' ops
    | (w', some r) => r :: run v fuel w' ops

/-- the world after a history -/
def exec (v : Variant) (fuel : Nat) : World → List Op → World
  | w, [] => w
  | w, op :: ops => exec v fuel (step v fuel w op).1 ops

/-- absolute imports only -/
def Item.isAbs : Item → Bool
  | .rstar _ _ => false
  | .rfrm _ _ _ _ => false
  | _ => true

def Entry.isAbs : Entry → Bool
  | .rimp _ _ _ _ _ => false
  | _ => true

def absSrc (s : Src) : Bool := s.all Item.isAbs

def absDisk (D : Disk) : Bool := D.all (fun p => absSrc p.2.src)

def Op.isAbs : Op → Bool
  | .write _ _ src => absSrc src
  | _ => true

/-- a request's answer is trusted unless the recursion limit was hit -/
def Ans.defined (a : Ans) : Bool := a != .recursion

/-- C09 for one behaviour of `check_changes`: in every history from an empty project on any initial disk,
    every request is answered exactly like a fresh project on the disk of that moment
    (as long as neither of the two runs into the recursion limit) -/
def Transparent (v : Variant) : Prop :=
  ∀ (fuel : Nat) (D0 : Disk) (ops : List Op), freshMtimes (seenOf D0) ops = true →
    ∀ r, r ∈ run v fuel (World.init v D0) ops → r.2.2 ≠ .recursion → fresh fuel r.1 r.2.1 ≠ .recursion →
      r.2.2 = fresh fuel r.1 r.2.1

/-- the same for projects whose sources use absolute imports only (relative imports go through
    `_norm_cache`, which `check_changes` never drops) -/
def TransparentAbs (v : Variant) : Prop :=
  ∀ (fuel : Nat) (D0 : Disk), absDisk D0 = true →
    ∀ (ops : List Op), freshMtimes (seenOf D0) ops = true → ops.all Op.isAbs = true →
    ∀ r, r ∈ run v fuel (World.init v D0) ops → r.2.2 ≠ .recursion → fresh fuel r.1 r.2.1 ≠ .recursion →
      r.2.2 = fresh fuel r.1 r.2.1

/-- the same, checked on one history -/
def transparentOn (v : Variant) (fuel : Nat) (D0 : Disk) (ops : List Op) : Bool :=
  (run v fuel (World.init v D0) ops).all (fun r =>
    decide (r.2.2 = .recursion) || decide (fresh fuel r.1 r.2.1 = .recursion) ||
    decide (r.2.2 = fresh fuel r.1 r.2.1))

end SuppModel.Proj
