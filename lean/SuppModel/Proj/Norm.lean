/-
  Proj — `Project.norm_package` with its `_norm_cache` (supp/project.py), on its own.
  The main model (Model.lean) has absolute imports only; relative imports go through this function, whose
  cache is never invalidated by `check_changes`.  Directories are paths from the sources root; `pk` tells
  which directories contain an `__init__.py` (a parameter: the disk).
-/
namespace SuppModel.Proj.Norm

abbrev Dir := List Nat

/-- the `while True:` loop: climb while the directory is a package, collecting base names -/
def parts (pk : Dir → Bool) : Nat → Dir → List Nat
  | 0, _ => []
  | n + 1, d =>
    match d.reverse with
    | [] => []
    | x :: r => if pk d then parts pk n r.reverse ++ [x] else []

def dropLastN : Nat → Dir → Dir
  | 0, d => d
  | n + 1, d => dropLastN n d.dropLast

abbrev Cache := List (Dir × List Nat)

def lookup (c : Cache) (d : Dir) : Option (List Nat) :=
  match c with
  | [] => none
  | (k, v) :: r => if k = d then some v else lookup r d

/-- `norm_package('.'*level + rest, filename)` with `dir = dirname(filename)`, `level ≥ 1`;
    `none` = ImportError('Not a package').  `cacheEmpty`: the code as it is caches the parts of a directory
    even when there are none (a1df565); before, only a non-empty result was kept. -/
def normPackage (pk : Dir → Bool) (cacheEmpty : Bool) (c : Cache) (dir : Dir) (level : Nat) (rest : List Nat) :
    Option (List Nat) × Cache :=
  let root := dropLastN (level - 1) dir
  match lookup c root with
  | some ps => (if ps.isEmpty then none else some (ps ++ rest), c)
  | none =>
    let ps := parts pk (root.length + 1) root
    (if ps.isEmpty then none else some (ps ++ rest),
     if ps.isEmpty && !cacheEmpty then c else (root, ps) :: c)

/-- the answer of a project that has never normalised anything -/
def freshNorm (pk : Dir → Bool) (dir : Dir) (level : Nat) (rest : List Nat) : Option (List Nat) :=
  (normPackage pk true [] dir level rest).1

end SuppModel.Proj.Norm
