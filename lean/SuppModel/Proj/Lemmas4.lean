/- Proj: a whole query keeps the state correct, and two runs from correct states give the same answer. -/
import SuppModel.Proj.Lemmas3

namespace SuppModel.Proj

macro "okinj " h:ident : tactic =>
  `(tactic| (simp only [Except.ok.injEq, Prod.mk.injEq] at $h:ident; obtain ⟨h1, h2⟩ := $h:ident; subst h1; subst h2))

theorem attrList_mono (D : Disk) (n : Nat) (st : St) (v : Val) (a) (st' : St)
    (h : attrList D n st v = .ok (a, st')) : Mono st st' := by
  cases v with
  | nothing => simp only [attrList] at h; okinj h; exact Mono.refl _
  | obj p => simp only [attrList] at h; okinj h; exact Mono.refl _
  | module k =>
    simp only [attrList] at h
    cases hsc : scopeOf D n st k with
    | error e => rw [hsc] at h; cases h
    | ok p =>
      obtain ⟨ot, st1⟩ := p
      rw [hsc] at h
      have := scopeOf_mono D n _ _ _ _ hsc
      cases ot <;> (okinj h; exact this)

theorem attrList_correct {E D : Disk} {n : Nat} {st : St} {v : Val} {a} {st' : St} (hc : Correct E st)
    (hv : ValIn st v) (h : attrList D n st v = .ok (a, st')) (hag : AgreeOn st' D E) :
    Correct E st' ∧ Keeps st st' := by
  cases v with
  | nothing => simp only [attrList] at h; okinj h; exact ⟨hc, Keeps.refl _⟩
  | obj p => simp only [attrList] at h; okinj h; exact ⟨hc, Keeps.refl _⟩
  | module k =>
    simp only [attrList] at h
    cases hsc : scopeOf D n st k with
    | error e => rw [hsc] at h; cases h
    | ok p =>
      obtain ⟨ot, st1⟩ := p
      rw [hsc] at h
      have hst : st' = st1 := by cases ot <;> (simp only [Except.ok.injEq, Prod.mk.injEq] at h; exact h.2.symm)
      subst hst
      obtain ⟨hc1, hk1, _⟩ := scopeOf_correct E D n _ _ _ _ hc hv hsc hag
      exact ⟨hc1, hk1⟩

theorem attrList_agree {D : Disk} {n1 n2 : Nat} {st1 st2 : St} {v : Val} {a1 a2} {s1 s2 : St}
    (hc1 : Correct D st1) (hc2 : Correct D st2) (hv1 : ValIn st1 v) (hv2 : ValIn st2 v)
    (h1 : attrList D n1 st1 v = .ok (a1, s1)) (h2 : attrList D n2 st2 v = .ok (a2, s2)) : a1 = a2 := by
  cases v with
  | nothing => simp only [attrList, Except.ok.injEq, Prod.mk.injEq] at h1 h2; rw [← h1.1, ← h2.1]
  | obj p => simp only [attrList, Except.ok.injEq, Prod.mk.injEq] at h1 h2; rw [← h1.1, ← h2.1]
  | module k =>
    simp only [attrList] at h1 h2
    cases hsc1 : scopeOf D n1 st1 k with
    | error e => rw [hsc1] at h1; cases h1
    | ok p1 =>
      cases hsc2 : scopeOf D n2 st2 k with
      | error e => rw [hsc2] at h2; cases h2
      | ok p2 =>
        obtain ⟨ot1, u1⟩ := p1
        obtain ⟨ot2, u2⟩ := p2
        rw [hsc1] at h1; rw [hsc2] at h2
        obtain ⟨_, _, t1, hot1, hev1⟩ := scopeOf_correct D D n1 _ _ _ _ hc1 hv1 hsc1 (agreeOn_refl _ _)
        obtain ⟨_, _, t2, hot2, hev2⟩ := scopeOf_correct D D n2 _ _ _ _ hc2 hv2 hsc2 (agreeOn_refl _ _)
        subst hot1; subst hot2
        have := hev1.unique hev2
        simp only [Option.some.injEq] at this; subst this
        simp only [Except.ok.injEq, Prod.mk.injEq] at h1 h2; rw [← h1.1, ← h2.1]

theorem getAttr_mono (D : Disk) (n : Nat) (st : St) (y : Ident) (v : Val) (a) (st' : St)
    (h : getAttr D n st y v = .ok (a, st')) : Mono st st' := by
  cases v with
  | nothing => simp only [getAttr] at h; okinj h; exact Mono.refl _
  | obj p => simp only [getAttr] at h; okinj h; exact Mono.refl _
  | module k =>
    simp only [getAttr] at h
    cases hsc : scopeOf D n st k with
    | error e => rw [hsc] at h; cases h
    | ok p =>
      obtain ⟨ot, st1⟩ := p
      rw [hsc] at h
      have := scopeOf_mono D n _ _ _ _ hsc
      cases ot <;> (okinj h; exact this)

theorem getAttr_correct {E D : Disk} {n : Nat} {st : St} {y : Ident} {v : Val} {a} {st' : St}
    (hc : Correct E st)
    (hv : ValIn st v) (h : getAttr D n st y v = .ok (a, st')) (hag : AgreeOn st' D E) :
    Correct E st' ∧ Keeps st st' := by
  cases v with
  | nothing => simp only [getAttr] at h; okinj h; exact ⟨hc, Keeps.refl _⟩
  | obj p => simp only [getAttr] at h; okinj h; exact ⟨hc, Keeps.refl _⟩
  | module k =>
    simp only [getAttr] at h
    cases hsc : scopeOf D n st k with
    | error e => rw [hsc] at h; cases h
    | ok p =>
      obtain ⟨ot, st1⟩ := p
      rw [hsc] at h
      have hst : st' = st1 := by cases ot <;> (simp only [Except.ok.injEq, Prod.mk.injEq] at h; exact h.2.symm)
      subst hst
      obtain ⟨hc1, hk1, _⟩ := scopeOf_correct E D n _ _ _ _ hc hv hsc hag
      exact ⟨hc1, hk1⟩

theorem getAttr_agree {D : Disk} {n1 n2 : Nat} {st1 st2 : St} {y : Ident} {v : Val} {a1 a2} {s1 s2 : St}
    (hc1 : Correct D st1) (hc2 : Correct D st2) (hv1 : ValIn st1 v) (hv2 : ValIn st2 v)
    (h1 : getAttr D n1 st1 y v = .ok (a1, s1)) (h2 : getAttr D n2 st2 y v = .ok (a2, s2)) : a1 = a2 := by
  cases v with
  | nothing => simp only [getAttr, Except.ok.injEq, Prod.mk.injEq] at h1 h2; rw [← h1.1, ← h2.1]
  | obj p => simp only [getAttr, Except.ok.injEq, Prod.mk.injEq] at h1 h2; rw [← h1.1, ← h2.1]
  | module k =>
    simp only [getAttr] at h1 h2
    cases hsc1 : scopeOf D n1 st1 k with
    | error e => rw [hsc1] at h1; cases h1
    | ok p1 =>
      cases hsc2 : scopeOf D n2 st2 k with
      | error e => rw [hsc2] at h2; cases h2
      | ok p2 =>
        obtain ⟨ot1, u1⟩ := p1
        obtain ⟨ot2, u2⟩ := p2
        rw [hsc1] at h1; rw [hsc2] at h2
        obtain ⟨_, _, t1, hot1, hev1⟩ := scopeOf_correct D D n1 _ _ _ _ hc1 hv1 hsc1 (agreeOn_refl _ _)
        obtain ⟨_, _, t2, hot2, hev2⟩ := scopeOf_correct D D n2 _ _ _ _ hc2 hv2 hsc2 (agreeOn_refl _ _)
        subst hot1; subst hot2
        have := hev1.unique hev2
        simp only [Option.some.injEq] at this; subst this
        simp only [Except.ok.injEq, Prod.mk.injEq] at h1 h2; rw [← h1.1, ← h2.1]

/-- the two-step prefix shared by the `attr` and `loc` queries: evaluate the import, take the attribute,
    follow it -/
def attrChain (D : Disk) (n : Nat) (st : St) (m : Mod) (mn : Option Ident) (y : Ident) :
    Except Err (Option (List Loc × Val) × St) :=
  match follow D n st none (.imp 0 1 m mn) with
  | .error e => .error e
  | .ok ((_, v), st1) =>
    match getAttr D n st1 y v with
    | .error e => .error e
    | .ok (none, st2) => .ok (none, st2)
    | .ok (some (k, e), st2) =>
      match follow D n st2 (some k) e with
      | .error e => .error e
      | .ok (r, st3) => .ok (some r, st3)

theorem runQuery_attr (D : Disk) (n : Nat) (st : St) (m mn y) :
    runQuery D n st (.attr m mn y) =
      match attrChain D n st m mn y with
      | .error e => .error e
      | .ok (none, st2) => .ok (.nothing, st2)
      | .ok (some (_, v'), st3) => attrList D n st3 v' := by
  simp only [runQuery, attrChain]
  cases follow D n st none (.imp 0 1 m mn) with
  | error e => rfl
  | ok p =>
    obtain ⟨⟨_, v⟩, st1⟩ := p
    dsimp only
    cases getAttr D n st1 y v with
    | error e => rfl
    | ok q =>
      obtain ⟨oe, st2⟩ := q
      cases oe with
      | none => rfl
      | some ke =>
        obtain ⟨k, e⟩ := ke
        dsimp only
        cases follow D n st2 (some k) e with
        | error e => rfl
        | ok r => obtain ⟨⟨_, _⟩, _⟩ := r; rfl

theorem runQuery_loc (D : Disk) (n : Nat) (st : St) (m mn y) :
    runQuery D n st (.loc m mn y) =
      match attrChain D n st m mn y with
      | .error e => .error e
      | .ok (none, st2) => .ok (.locs [], st2)
      | .ok (some (tr, _), st3) => .ok (.locs tr, st3) := by
  simp only [runQuery, attrChain]
  cases follow D n st none (.imp 0 1 m mn) with
  | error e => rfl
  | ok p =>
    obtain ⟨⟨_, v⟩, st1⟩ := p
    dsimp only
    cases getAttr D n st1 y v with
    | error e => rfl
    | ok q =>
      obtain ⟨oe, st2⟩ := q
      cases oe with
      | none => rfl
      | some ke =>
        obtain ⟨k, e⟩ := ke
        dsimp only
        cases follow D n st2 (some k) e with
        | error e => rfl
        | ok r => obtain ⟨⟨_, _⟩, _⟩ := r; rfl

def OptValIn (st : St) : Option (List Loc × Val) → Prop
  | none => True
  | some r => ValIn st r.2

theorem attrChain_mono {D : Disk} {n : Nat} {st : St} {m mn y r} {st' : St}
    (h : attrChain D n st m mn y = .ok (r, st')) : Mono st st' := by
  simp only [attrChain] at h
  cases hf : follow D n st none (.imp 0 1 m mn) with
  | error e => rw [hf] at h; cases h
  | ok p =>
    obtain ⟨⟨tr, v⟩, st1⟩ := p
    rw [hf] at h; dsimp only at h
    have hm1 := follow_mono D n _ _ _ _ _ hf
    cases hga : getAttr D n st1 y v with
    | error e => rw [hga] at h; cases h
    | ok q =>
      obtain ⟨oe, st2⟩ := q
      rw [hga] at h
      have hm2 := getAttr_mono D n _ _ _ _ _ hga
      cases oe with
      | none => okinj h; exact hm1.trans hm2
      | some ke =>
        obtain ⟨k, e⟩ := ke
        dsimp only at h
        cases hf2 : follow D n st2 (some k) e with
        | error e => rw [hf2] at h; cases h
        | ok r2 =>
          obtain ⟨r2, st3⟩ := r2
          rw [hf2] at h; okinj h
          exact hm1.trans (hm2.trans (follow_mono D n _ _ _ _ _ hf2))

theorem attrChain_correct {E D : Disk} {n : Nat} {st : St} {m mn y r} {st' : St} (hc : Correct E st)
    (h : attrChain D n st m mn y = .ok (r, st')) (hag : AgreeOn st' D E) :
    Correct E st' ∧ Keeps st st' ∧ OptValIn st' r := by
  simp only [attrChain] at h
  cases hf : follow D n st none (.imp 0 1 m mn) with
  | error e => rw [hf] at h; cases h
  | ok p =>
    obtain ⟨⟨tr, v⟩, st1⟩ := p
    rw [hf] at h; dsimp only at h
    cases hga : getAttr D n st1 y v with
    | error e => rw [hga] at h; cases h
    | ok q =>
      obtain ⟨oe, st2⟩ := q
      rw [hga] at h
      have hm2 := getAttr_mono D n _ _ _ _ _ hga
      cases oe with
      | none =>
        okinj h
        obtain ⟨hc1, hk1, hv1⟩ := follow_correct n _ _ _ _ _ hc hf (hag.mono hm2)
        obtain ⟨hc2, hk2⟩ := getAttr_correct hc1 hv1 hga hag
        exact ⟨hc2, hk1.trans hk2, trivial⟩
      | some ke =>
        obtain ⟨k, e⟩ := ke
        dsimp only at h
        cases hf2 : follow D n st2 (some k) e with
        | error e => rw [hf2] at h; cases h
        | ok r2 =>
          obtain ⟨r2, st3⟩ := r2
          rw [hf2] at h; okinj h
          have hm3 := follow_mono D n _ _ _ _ _ hf2
          obtain ⟨hc1, hk1, hv1⟩ := follow_correct n _ _ _ _ _ hc hf (hag.mono (hm2.trans hm3))
          obtain ⟨hc2, hk2⟩ := getAttr_correct hc1 hv1 hga (hag.mono hm3)
          obtain ⟨hc3, hk3, hv3⟩ := follow_correct n _ _ _ _ _ hc2 hf2 hag
          exact ⟨hc3, hk1.trans (hk2.trans hk3), hv3⟩

theorem attrChain_agree {D : Disk} {n1 n2 : Nat} {st1 st2 : St} {m mn y r1 r2} {s1 s2 : St}
    (hc1 : Correct D st1) (hc2 : Correct D st2)
    (h1 : attrChain D n1 st1 m mn y = .ok (r1, s1)) (h2 : attrChain D n2 st2 m mn y = .ok (r2, s2)) :
    r1 = r2 := by
  simp only [attrChain] at h1 h2
  cases hf1 : follow D n1 st1 none (.imp 0 1 m mn) with
  | error e => rw [hf1] at h1; cases h1
  | ok p1 =>
    cases hf2 : follow D n2 st2 none (.imp 0 1 m mn) with
    | error e => rw [hf2] at h2; cases h2
    | ok p2 =>
      obtain ⟨⟨tr1, v1⟩, t1⟩ := p1
      obtain ⟨⟨tr2, v2⟩, t2⟩ := p2
      rw [hf1] at h1; rw [hf2] at h2; dsimp only at h1 h2
      have hv := follow_agree _ _ _ _ _ _ _ _ _ _ hc1 hc2 hf1 hf2
      simp only [Prod.mk.injEq] at hv
      obtain ⟨_, hv⟩ := hv; subst hv
      obtain ⟨hc1', _, hv1⟩ := follow_correct n1 _ _ _ _ _ hc1 hf1 (agreeOn_refl _ _)
      obtain ⟨hc2', _, hv2⟩ := follow_correct n2 _ _ _ _ _ hc2 hf2 (agreeOn_refl _ _)
      cases hga1 : getAttr D n1 t1 y v1 with
      | error e => rw [hga1] at h1; cases h1
      | ok q1 =>
        cases hga2 : getAttr D n2 t2 y v1 with
        | error e => rw [hga2] at h2; cases h2
        | ok q2 =>
          obtain ⟨oe1, u1⟩ := q1
          obtain ⟨oe2, u2⟩ := q2
          rw [hga1] at h1; rw [hga2] at h2
          have hoe := getAttr_agree hc1' hc2' hv1 hv2 hga1 hga2
          subst hoe
          obtain ⟨hc1'', _⟩ := getAttr_correct hc1' hv1 hga1 (agreeOn_refl _ _)
          obtain ⟨hc2'', _⟩ := getAttr_correct hc2' hv2 hga2 (agreeOn_refl _ _)
          cases oe1 with
          | none =>
            simp only [Except.ok.injEq, Prod.mk.injEq] at h1 h2; rw [← h1.1, ← h2.1]
          | some ke =>
            obtain ⟨k, e⟩ := ke
            dsimp only at h1 h2
            cases hg1 : follow D n1 u1 (some k) e with
            | error e => rw [hg1] at h1; cases h1
            | ok w1 =>
              cases hg2 : follow D n2 u2 (some k) e with
              | error e => rw [hg2] at h2; cases h2
              | ok w2 =>
                obtain ⟨w1, x1⟩ := w1
                obtain ⟨w2, x2⟩ := w2
                rw [hg1] at h1; rw [hg2] at h2
                simp only [Except.ok.injEq, Prod.mk.injEq] at h1 h2
                rw [← h1.1, ← h2.1, follow_agree _ _ _ _ _ _ _ _ _ _ hc1'' hc2'' hg1 hg2]

end SuppModel.Proj
