/- Proj: `runQuery` as a whole. -/
import SuppModel.Proj.Lemmas4

namespace SuppModel.Proj

theorem runQuery_mono {D : Disk} {n : Nat} {st : St} {q : Query} {a} {st' : St}
    (h : runQuery D n st q = .ok (a, st')) : Mono st st' := by
  cases q with
  | names m mn =>
    simp only [runQuery] at h
    cases hf : follow D n st none (.imp 0 1 m mn) with
    | error e => rw [hf] at h; cases h
    | ok p =>
      obtain ⟨⟨tr, v⟩, st1⟩ := p
      rw [hf] at h; dsimp only at h
      exact (follow_mono D n _ _ _ _ _ hf).trans (attrList_mono D n _ _ _ _ h)
  | attr m mn y =>
    rw [runQuery_attr] at h
    cases hch : attrChain D n st m mn y with
    | error e => rw [hch] at h; cases h
    | ok p =>
      obtain ⟨r, st1⟩ := p
      rw [hch] at h
      have hm := attrChain_mono hch
      cases r with
      | none => okinj h; exact hm
      | some r => obtain ⟨tr, v⟩ := r; dsimp only at h; exact hm.trans (attrList_mono D n _ _ _ _ h)
  | loc m mn y =>
    rw [runQuery_loc] at h
    cases hch : attrChain D n st m mn y with
    | error e => rw [hch] at h; cases h
    | ok p =>
      obtain ⟨r, st1⟩ := p
      rw [hch] at h
      have hm := attrChain_mono hch
      cases r with
      | none => okinj h; exact hm
      | some r => obtain ⟨tr, v⟩ := r; okinj h; exact hm
  | lint m reads =>
    simp only [runQuery] at h
    have hm := getModule_mono D st m
    rcases hgm : getModule D st m with ⟨b, st1⟩
    rw [hgm] at h hm
    cases b with
    | false => okinj h; exact hm
    | true =>
      dsimp only at h
      cases hsc : scopeOf D n st1 m with
      | error e => rw [hsc] at h; cases h
      | ok p =>
        obtain ⟨ot, st2⟩ := p
        rw [hsc] at h
        have := scopeOf_mono D n _ _ _ _ hsc
        cases ot <;> (okinj h; exact hm.trans this)

theorem runQuery_correct {E D : Disk} {n : Nat} {st : St} {q : Query} {a} {st' : St} (hc : Correct E st)
    (h : runQuery D n st q = .ok (a, st')) (hag : AgreeOn st' D E) : Correct E st' := by
  cases q with
  | names m mn =>
    simp only [runQuery] at h
    cases hf : follow D n st none (.imp 0 1 m mn) with
    | error e => rw [hf] at h; cases h
    | ok p =>
      obtain ⟨⟨tr, v⟩, st1⟩ := p
      rw [hf] at h; dsimp only at h
      obtain ⟨hc1, _, hv1⟩ := follow_correct n _ _ _ _ _ hc hf (hag.mono (attrList_mono D n _ _ _ _ h))
      exact (attrList_correct hc1 hv1 h hag).1
  | attr m mn y =>
    rw [runQuery_attr] at h
    cases hch : attrChain D n st m mn y with
    | error e => rw [hch] at h; cases h
    | ok p =>
      obtain ⟨r, st1⟩ := p
      rw [hch] at h
      cases r with
      | none => okinj h; exact (attrChain_correct hc hch hag).1
      | some r =>
        obtain ⟨tr, v⟩ := r; dsimp only at h
        obtain ⟨hc1, _, hv1⟩ := attrChain_correct hc hch (hag.mono (attrList_mono D n _ _ _ _ h))
        exact (attrList_correct hc1 hv1 h hag).1
  | loc m mn y =>
    rw [runQuery_loc] at h
    cases hch : attrChain D n st m mn y with
    | error e => rw [hch] at h; cases h
    | ok p =>
      obtain ⟨r, st1⟩ := p
      rw [hch] at h
      cases r with
      | none => okinj h; exact (attrChain_correct hc hch hag).1
      | some r => obtain ⟨tr, v⟩ := r; okinj h; exact (attrChain_correct hc hch hag).1
  | lint m reads =>
    simp only [runQuery] at h
    rcases hgm : getModule D st m with ⟨b, st1⟩
    rw [hgm] at h
    cases b with
    | false => okinj h; exact (getModule_correct hc hgm hag).1
    | true =>
      dsimp only at h
      cases hsc : scopeOf D n st1 m with
      | error e => rw [hsc] at h; cases h
      | ok p =>
        obtain ⟨ot, st2⟩ := p
        rw [hsc] at h
        have hst : st' = st2 := by cases ot <;> (simp only [Except.ok.injEq, Prod.mk.injEq] at h; exact h.2.symm)
        subst hst
        obtain ⟨hc1, _, hin, _⟩ := getModule_correct hc hgm (hag.mono (scopeOf_mono D n _ _ _ _ hsc))
        obtain ⟨c, hcm⟩ := hin rfl
        exact (scopeOf_correct E D n _ _ _ _ hc1 (by simp [hcm]) hsc hag).1

theorem getModule_agree {D : Disk} {st1 st2 : St} {m : Mod} {b1 b2 s1 s2} (hc1 : Correct D st1)
    (hc2 : Correct D st2) (h1 : getModule D st1 m = (b1, s1)) (h2 : getModule D st2 m = (b2, s2)) : b1 = b2 := by
  obtain ⟨c1, _, hin1, hno1⟩ := getModule_correct hc1 h1 (agreeOn_refl _ _)
  obtain ⟨c2, _, hin2, hno2⟩ := getModule_correct hc2 h2 (agreeOn_refl _ _)
  cases b1 <;> cases b2 <;> try rfl
  · obtain ⟨c, hcm⟩ := hin2 rfl
    obtain ⟨f, hf, _⟩ := c2.valid m c hcm
    rw [hno1 rfl] at hf; cases hf
  · obtain ⟨c, hcm⟩ := hin1 rfl
    obtain ⟨f, hf, _⟩ := c1.valid m c hcm
    rw [hno2 rfl] at hf; cases hf

theorem runQuery_agree {D : Disk} {n1 n2 : Nat} {st1 st2 : St} {q : Query} {a1 a2} {s1 s2 : St}
    (hc1 : Correct D st1) (hc2 : Correct D st2)
    (h1 : runQuery D n1 st1 q = .ok (a1, s1)) (h2 : runQuery D n2 st2 q = .ok (a2, s2)) : a1 = a2 := by
  cases q with
  | names m mn =>
    simp only [runQuery] at h1 h2
    cases hf1 : follow D n1 st1 none (.imp 0 1 m mn) with
    | error e => rw [hf1] at h1; cases h1
    | ok p1 =>
      cases hf2 : follow D n2 st2 none (.imp 0 1 m mn) with
      | error e => rw [hf2] at h2; cases h2
      | ok p2 =>
        obtain ⟨⟨tr1, v1⟩, t1⟩ := p1
        obtain ⟨⟨tr2, v2⟩, t2⟩ := p2
        rw [hf1] at h1; rw [hf2] at h2; dsimp only at h1 h2
        have hv := follow_agree _ _ _ _ _ _ _ _ _ _ hc1 hc2 hf1 hf2
        simp only [Prod.mk.injEq] at hv
        obtain ⟨_, hv⟩ := hv; subst hv
        obtain ⟨hc1', _, hv1⟩ := follow_correct n1 _ _ _ _ _ hc1 hf1 (agreeOn_refl _ _)
        obtain ⟨hc2', _, hv2⟩ := follow_correct n2 _ _ _ _ _ hc2 hf2 (agreeOn_refl _ _)
        exact attrList_agree hc1' hc2' hv1 hv2 h1 h2
  | attr m mn y =>
    rw [runQuery_attr] at h1 h2
    cases hch1 : attrChain D n1 st1 m mn y with
    | error e => rw [hch1] at h1; cases h1
    | ok p1 =>
      cases hch2 : attrChain D n2 st2 m mn y with
      | error e => rw [hch2] at h2; cases h2
      | ok p2 =>
        obtain ⟨r1, t1⟩ := p1
        obtain ⟨r2, t2⟩ := p2
        rw [hch1] at h1; rw [hch2] at h2
        have hr := attrChain_agree hc1 hc2 hch1 hch2
        subst hr
        obtain ⟨hc1', _, hv1⟩ := attrChain_correct hc1 hch1 (agreeOn_refl _ _)
        obtain ⟨hc2', _, hv2⟩ := attrChain_correct hc2 hch2 (agreeOn_refl _ _)
        cases r1 with
        | none => simp only [Except.ok.injEq, Prod.mk.injEq] at h1 h2; rw [← h1.1, ← h2.1]
        | some r => obtain ⟨tr, v⟩ := r; dsimp only at h1 h2; exact attrList_agree hc1' hc2' hv1 hv2 h1 h2
  | loc m mn y =>
    rw [runQuery_loc] at h1 h2
    cases hch1 : attrChain D n1 st1 m mn y with
    | error e => rw [hch1] at h1; cases h1
    | ok p1 =>
      cases hch2 : attrChain D n2 st2 m mn y with
      | error e => rw [hch2] at h2; cases h2
      | ok p2 =>
        obtain ⟨r1, t1⟩ := p1
        obtain ⟨r2, t2⟩ := p2
        rw [hch1] at h1; rw [hch2] at h2
        have hr := attrChain_agree hc1 hc2 hch1 hch2
        subst hr
        cases r1 with
        | none => simp only [Except.ok.injEq, Prod.mk.injEq] at h1 h2; rw [← h1.1, ← h2.1]
        | some r =>
          obtain ⟨tr, v⟩ := r
          simp only [Except.ok.injEq, Prod.mk.injEq] at h1 h2; rw [← h1.1, ← h2.1]
  | lint m reads =>
    simp only [runQuery] at h1 h2
    rcases hgm1 : getModule D st1 m with ⟨b1, t1⟩
    rcases hgm2 : getModule D st2 m with ⟨b2, t2⟩
    rw [hgm1] at h1; rw [hgm2] at h2
    have hb := getModule_agree hc1 hc2 hgm1 hgm2
    subst hb
    cases b1 with
    | false => simp only [Except.ok.injEq, Prod.mk.injEq] at h1 h2; rw [← h1.1, ← h2.1]
    | true =>
      dsimp only at h1 h2
      obtain ⟨hc1', _, hin1, _⟩ := getModule_correct hc1 hgm1 (agreeOn_refl _ _)
      obtain ⟨hc2', _, hin2, _⟩ := getModule_correct hc2 hgm2 (agreeOn_refl _ _)
      obtain ⟨c1, hcm1⟩ := hin1 rfl
      obtain ⟨c2, hcm2⟩ := hin2 rfl
      cases hsc1 : scopeOf D n1 t1 m with
      | error e => rw [hsc1] at h1; cases h1
      | ok p1 =>
        cases hsc2 : scopeOf D n2 t2 m with
        | error e => rw [hsc2] at h2; cases h2
        | ok p2 =>
          obtain ⟨ot1, u1⟩ := p1
          obtain ⟨ot2, u2⟩ := p2
          rw [hsc1] at h1; rw [hsc2] at h2
          obtain ⟨_, _, x1, hot1, hev1⟩ := scopeOf_correct D D n1 _ _ _ _ hc1' (by simp [hcm1]) hsc1 (agreeOn_refl _ _)
          obtain ⟨_, _, x2, hot2, hev2⟩ := scopeOf_correct D D n2 _ _ _ _ hc2' (by simp [hcm2]) hsc2 (agreeOn_refl _ _)
          subst hot1; subst hot2
          have := hev1.unique hev2
          simp only [Option.some.injEq] at this; subst this
          simp only [Except.ok.injEq, Prod.mk.injEq] at h1 h2; rw [← h1.1, ← h2.1]

end SuppModel.Proj
