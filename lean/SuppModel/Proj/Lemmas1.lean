/- Proj: association-list facts, the footprint of a project state and its monotonicity. -/
import SuppModel.Proj.Spec

namespace SuppModel.Proj

@[simp] theorem get_nil {α} (m : Mod) : get ([] : List (Mod × α)) m = none := rfl
theorem get_cons {α} (k : Mod) (v : α) (r m) :
    get ((k, v) :: r) m = if k = m then some v else get r m := rfl

theorem get_filter_ne {α} (l : List (Mod × α)) (m k : Mod) :
    get (l.filter (fun p => p.1 ≠ m)) k = if k = m then none else get l k := by
  induction l with
  | nil => simp
  | cons p r ih =>
    obtain ⟨a, v⟩ := p
    by_cases ha : a = m
    · subst ha
      simp only [List.filter, ne_eq, not_true_eq_false, decide_false, ih, get_cons]
      by_cases hk : k = a
      · simp [hk]
      · simp [hk, Ne.symm hk]
    · simp only [List.filter, ne_eq, ha, not_false_eq_true, decide_true, get_cons, ih]
      by_cases hk : k = m
      · subst hk; simp [ha]
      · simp [hk]

theorem get_map_upd (l : List (Mod × Cached)) (m k : Mod) (f : Cached → Cached) :
    get (l.map (fun p => if p.1 = m then (p.1, f p.2) else p)) k
      = if k = m then (get l k).map f else get l k := by
  induction l with
  | nil => simp
  | cons p r ih =>
    obtain ⟨a, v⟩ := p
    by_cases ha : a = m
    · subst ha
      simp only [List.map, if_true, get_cons, ih]
      by_cases hk : a = k
      · subst hk; simp
      · simp [hk]
    · simp only [List.map, ha, if_false, get_cons, ih]
      by_cases hk : a = k
      · subst hk; simp [ha]
      · simp [hk]

/-- the modules whose presence or absence the state has recorded -/
def foot (st : St) (m : Mod) : Prop := (get st.mcache m).isSome = true ∨ m ∈ st.missing

def FMono (st st' : St) : Prop := ∀ m, foot st m → foot st' m

theorem FMono.refl (st : St) : FMono st st := fun _ h => h
theorem FMono.trans {a b c : St} (h1 : FMono a b) (h2 : FMono b c) : FMono a c :=
  fun m h => h2 m (h1 m h)

theorem foot_addMissing (st : St) (m : Mod) : foot (addMissing st m) m := by
  unfold addMissing
  by_cases h : m ∈ st.missing
  · simp [h, foot]
  · simp [h, foot]

theorem fmono_addMissing (st : St) (m : Mod) : FMono st (addMissing st m) := by
  intro k hk
  unfold addMissing
  by_cases h : m ∈ st.missing
  · simpa [h] using hk
  · simp only [h, if_false, foot] at hk ⊢
    rcases hk with hk | hk
    · exact Or.inl hk
    · exact Or.inr (List.mem_cons_of_mem _ hk)

theorem mem_addMissing (st : St) (m k : Mod) : k ∈ (addMissing st m).missing ↔ k = m ∨ k ∈ st.missing := by
  unfold addMissing
  by_cases h : m ∈ st.missing
  · simp only [h, if_true]
    constructor
    · exact Or.inr
    · rintro (rfl | h'); exact h; exact h'
  · simp [h]

@[simp] theorem addMissing_mcache (st : St) (m : Mod) : (addMissing st m).mcache = st.mcache := by
  unfold addMissing; split <;> rfl
@[simp] theorem addMissing_ctx (st : St) (m : Mod) : (addMissing st m).ctx = st.ctx := by
  unfold addMissing; split <;> rfl
@[simp] theorem addMissing_lt (st : St) (m : Mod) : (addMissing st m).lt = st.lt := by
  unfold addMissing; split <;> rfl

theorem load_foot (D : Disk) (st : St) (m : Mod) : foot (load D st m).2 m := by
  unfold load
  cases get D m with
  | none => exact foot_addMissing st m
  | some f => simp [foot, get_cons]

theorem fload_mono (D : Disk) (st : St) (m : Mod) : FMono st (load D st m).2 := by
  unfold load
  cases get D m with
  | none => exact fmono_addMissing st m
  | some f =>
    intro k hk
    simp only [foot, get_cons] at hk ⊢
    by_cases h : m = k
    · simp [h]
    · simpa [h] using hk

theorem fgetModule_mono (D : Disk) (st : St) (m : Mod) : FMono st (getModule D st m).2 := by
  unfold getModule
  by_cases hctx : m ∈ st.ctx
  · simp [hctx, FMono.refl]
  · simp only [hctx, if_false]
    cases hg : get st.mcache m with
    | none => exact fload_mono D st m
    | some c =>
      simp only
      by_cases hch : changedB st.lt (stat D m) c.mtime = true
      · rw [if_pos hch]
        intro k hk
        by_cases hkm : k = m
        · subst hkm; exact load_foot D _ k
        · apply fload_mono
          simp only [foot, get_filter_ne, hkm, if_false] at hk ⊢
          exact hk
      · rw [if_neg hch]
        intro k hk; exact hk

theorem fupdCached_mono (st : St) (m : Mod) (f : Cached → Cached) : FMono st (updCached st m f) := by
  intro k hk
  simp only [foot, updCached, get_map_upd] at hk ⊢
  by_cases h : k = m
  · subst h
    rcases hk with hk | hk
    · left; simp only [if_true]; cases hg : get st.mcache k <;> simp_all
    · exact Or.inr hk
  · simpa [h] using hk

@[simp] theorem addMissing_norm (st : St) (m : Mod) : (addMissing st m).norm = st.norm := by
  unfold addMissing; split <;> rfl
@[simp] theorem addMissing_legacy (st : St) (m : Mod) : (addMissing st m).legacyNorm = st.legacyNorm := by
  unfold addMissing; split <;> rfl

theorem load_norm (D : Disk) (st : St) (m : Mod) : (load D st m).2.norm = st.norm := by
  unfold load; split <;> simp

theorem getModule_norm (D : Disk) (st : St) (m : Mod) : (getModule D st m).2.norm = st.norm := by
  unfold getModule
  split
  · rfl
  · split
    · split
      · rw [load_norm]
      · rfl
    · rw [load_norm]

/-- nothing leaves `_norm_cache` -/
def NMono (st st' : St) : Prop :=
  ∀ root ps, Norm.lookup st.norm root = some ps → Norm.lookup st'.norm root = some ps

/-- the state has looked at more, and forgotten nothing it had looked at -/
structure Mono (st st' : St) : Prop where
  foot : FMono st st'
  norm : NMono st st'

theorem Mono.refl (st : St) : Mono st st := ⟨FMono.refl st, fun _ _ h => h⟩
theorem Mono.trans {a b c : St} (h1 : Mono a b) (h2 : Mono b c) : Mono a c :=
  ⟨h1.foot.trans h2.foot, fun r ps h => h2.norm r ps (h1.norm r ps h)⟩

theorem mono_of_norm_eq {st st' : St} (h1 : FMono st st') (h2 : st'.norm = st.norm) : Mono st st' :=
  ⟨h1, fun r ps h => by rw [h2]; exact h⟩

theorem mono_addMissing (st : St) (m : Mod) : Mono st (addMissing st m) :=
  mono_of_norm_eq (fmono_addMissing st m) (by simp)

theorem load_mono (D : Disk) (st : St) (m : Mod) : Mono st (load D st m).2 :=
  mono_of_norm_eq (fload_mono D st m) (load_norm D st m)

theorem getModule_mono (D : Disk) (st : St) (m : Mod) : Mono st (getModule D st m).2 :=
  mono_of_norm_eq (fgetModule_mono D st m) (getModule_norm D st m)

theorem updCached_mono (st : St) (m : Mod) (f : Cached → Cached) : Mono st (updCached st m f) :=
  mono_of_norm_eq (fupdCached_mono st m f) rfl

/-- a function on states that returns a state whose footprint is at least as large -/
def GrowsE {α β : Type} (f : St → α → Except Err (β × St)) : Prop :=
  ∀ st a r st', f st a = .ok (r, st') → Mono st st'

theorem normRef_mcache (D : Disk) (st : St) (dir : Mod) (up : Nat) (m : Mod) :
    (normRef D st dir up m).2.mcache = st.mcache ∧ (normRef D st dir up m).2.missing = st.missing ∧
    (normRef D st dir up m).2.ctx = st.ctx := by
  unfold normRef; exact ⟨rfl, rfl, rfl⟩

theorem lookup_cons (k : Norm.Dir) (v : List Nat) (c : Norm.Cache) (d : Norm.Dir) :
    Norm.lookup ((k, v) :: c) d = if k = d then some v else Norm.lookup c d := rfl

theorem normRef_mono (D : Disk) (st : St) (dir : Mod) (up : Nat) (m : Mod) :
    Mono st (normRef D st dir up m).2 := by
  refine ⟨?_, ?_⟩
  · intro k hk
    obtain ⟨h1, h2, _⟩ := normRef_mcache D st dir up m
    simp only [foot, h1, h2] at hk ⊢
    exact hk
  · intro root ps h
    unfold normRef Norm.normPackage
    dsimp only
    cases hl : Norm.lookup st.norm (Norm.dropLastN (up + 1 - 1) dir) with
    | some ps0 => exact h
    | none =>
      dsimp only
      split
      · exact h
      · rw [lookup_cons]
        by_cases hk : Norm.dropLastN (up + 1 - 1) dir = root
        · rw [hk] at hl; rw [hl] at h; cases h
        · rw [if_neg hk]; exact h

theorem build_mono (D : Disk) (dir : Mod) (scope : St → Mod → Except Err (Option Table × St))
    (hs : GrowsE scope) : ∀ (src : Src) (st : St) (ln : Nat) (acc : Table) (t : Table) (st' : St),
    build D dir scope st src ln acc = .ok (t, st') → Mono st st' := by
  intro src
  induction src with
  | nil => intro st ln acc t st' h; simp only [build, Except.ok.injEq, Prod.mk.injEq] at h; rw [← h.2]; exact Mono.refl _
  | cons it r ih =>
    intro st ln acc t st' h
    cases it with
    | bind x p => exact ih _ _ _ _ _ (by simpa only [build] using h)
    | imp m => exact ih _ _ _ _ _ (by simpa only [build] using h)
    | frm m x y => exact ih _ _ _ _ _ (by simpa only [build] using h)
    | rfrm up m x y => exact ih _ _ _ _ _ (by simpa only [build] using h)
    | rstar up m =>
      simp only [build] at h
      have hn := normRef_mono D st dir up m
      rcases hnr : normRef D st dir up m with ⟨om, st0⟩
      rw [hnr] at h hn
      cases om with
      | none => exact hn.trans (ih _ _ _ _ _ h)
      | some m' =>
        dsimp only at h
        have hm := getModule_mono D st0 m'
        rcases hgm : getModule D st0 m' with ⟨b, st1⟩
        rw [hgm] at h hm
        cases b with
        | false => exact hn.trans (hm.trans (ih _ _ _ _ _ h))
        | true =>
          simp only at h
          cases hsc : scope st1 m' with
          | error e => rw [hsc] at h; cases h
          | ok p =>
            obtain ⟨ot, st2⟩ := p
            rw [hsc] at h
            have h12 := hs _ _ _ _ hsc
            cases ot with
            | none => exact hn.trans (hm.trans (h12.trans (ih _ _ _ _ _ h)))
            | some t0 => exact hn.trans (hm.trans (h12.trans (ih _ _ _ _ _ h)))
    | star m =>
      simp only [build] at h
      have hm := getModule_mono D st m
      rcases hgm : getModule D st m with ⟨b, st1⟩
      rw [hgm] at h hm
      cases b with
      | false => exact hm.trans (ih _ _ _ _ _ h)
      | true =>
        simp only at h
        cases hsc : scope st1 m with
        | error e => rw [hsc] at h; cases h
        | ok p =>
          obtain ⟨ot, st2⟩ := p
          rw [hsc] at h
          have h12 := hs _ _ _ _ hsc
          cases ot with
          | none => exact hm.trans (h12.trans (ih _ _ _ _ _ h))
          | some t0 => exact hm.trans (h12.trans (ih _ _ _ _ _ h))

theorem scopeOf_mono (D : Disk) : ∀ n, GrowsE (scopeOf D n) := by
  intro n
  induction n with
  | zero => intro st m r st' h; simp [scopeOf] at h
  | succ n ih =>
    intro st m r st' h
    simp only [scopeOf] at h
    cases hg : get st.mcache m with
    | none => rw [hg] at h; simp only [Except.ok.injEq, Prod.mk.injEq] at h; rw [← h.2]; exact Mono.refl _
    | some c =>
      rw [hg] at h; simp only at h
      cases ht : c.table with
      | some t => rw [ht] at h; simp only [Except.ok.injEq, Prod.mk.injEq] at h; rw [← h.2]; exact Mono.refl _
      | none =>
        rw [ht] at h; simp only at h
        cases hd : get D m with
        | none => rw [hd] at h; simp only [Except.ok.injEq, Prod.mk.injEq] at h; rw [← h.2]; exact Mono.refl _
        | some f =>
          rw [hd] at h; simp only at h
          cases hb : build D (dirOf (some m)) (scopeOf D n) st f.src 1 [] with
          | error e => rw [hb] at h; cases h
          | ok p =>
            obtain ⟨t, st1⟩ := p
            rw [hb] at h; simp only [Except.ok.injEq, Prod.mk.injEq] at h
            rw [← h.2]
            exact (build_mono D _ _ ih _ _ _ _ _ _ hb).trans (updCached_mono _ _ _)

end SuppModel.Proj
