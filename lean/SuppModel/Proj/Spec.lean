/-
  Proj — memo-free reading of the same analysis: what a module's table, an imported name and a request
  denote on a given disk, with no project state at all.  Used by the proofs as the meaning of the cached
  values (`Lemmas*.lean`); `fuel` is recursion depth, as in the model.
-/
import SuppModel.Proj.Model

namespace SuppModel.Proj

def pBuild (scope : Mod → Except Err (Option Table)) : Src → Nat → Table → Except Err Table
  | [], _, acc => .ok acc
  | .bind x p :: r, ln, acc => pBuild scope r (ln + 1) (acc ++ [.own x ln p])
  | .imp m :: r, ln, acc => pBuild scope r (ln + 1) (acc ++ [.imp m ln [m] none])
  | .frm m x y :: r, ln, acc => pBuild scope r (ln + 1) (acc ++ [.imp y ln m (some x)])
  | .rfrm up m x y :: r, ln, acc => pBuild scope r (ln + 1) (acc ++ [.rimp y ln up m (some x)])
  | .rstar _ _ :: r, ln, acc => pBuild scope r (ln + 1) acc   -- relative star imports: not given a meaning here
  | .star m :: r, ln, acc =>
    match scope m with
    | .error e => .error e
    | .ok none => pBuild scope r (ln + 1) acc
    | .ok (some t) =>
      pBuild scope r (ln + 1)
        (acc ++ ((exportedNames t).filter (fun x => !hidden x)).map (fun x => .imp x ln m (some x)))

/-- the table of module `m` on disk `D` (`none`: no such file) -/
def pTable (D : Disk) : Nat → Mod → Except Err (Option Table)
  | 0, m => match get D m with
    | none => .ok none
    | some _ => .error .recursion
  | n + 1, m =>
    match get D m with
    | none => .ok none
    | some f =>
      match pBuild (pTable D n) f.src 1 [] with
      | .error e => .error e
      | .ok t => .ok (some t)

/-- what `from m import mname` / `import m` refers to on disk `D` -/
def pResolve (D : Disk) (n : Nat) (m : Mod) : Option Ident → Except Err (Option Target)
  | none => .ok (match get D m with | none => none | some _ => some (.module m))
  | some a =>
    match get D (m ++ [a]) with
    | some _ => .ok (some (.module (m ++ [a])))
    | none =>
      match pTable D n m with
      | .error e => .error e
      | .ok none => .ok none
      | .ok (some t) => .ok ((lookupLast a t).map (.entry m))

end SuppModel.Proj
