/-
  Proj — memo-free reading of the same analysis: what a directory's package path, a module's table and an
  imported name denote on a given disk, with no project state at all.  Used by the proofs as the meaning of
  the cached values (`Lemmas*.lean`); `fuel` is recursion depth, as in the model.
-/
import SuppModel.Proj.Model

namespace SuppModel.Proj

/-- `_package_parts(root)` on disk `E` -/
def pParts (E : Disk) (root : Mod) : List Ident := Norm.parts (pkOf E) (root.length + 1) root

/-- what `'.' * (up + 1) + m` means for a file in directory `dir` (`none`: not a package) -/
def pNorm (E : Disk) (dir : Mod) (up : Nat) (m : Mod) : Option Mod :=
  if (pParts E (Norm.dropLastN up dir)).isEmpty then none else some (pParts E (Norm.dropLastN up dir) ++ m)

def pBuild (E : Disk) (dir : Mod) (scope : Mod → Except Err (Option Table)) : Src → Nat → Table → Except Err Table
  | [], _, acc => .ok acc
  | .bind x p :: r, ln, acc => pBuild E dir scope r (ln + 1) (acc ++ [.own x ln p])
  | .imp m :: r, ln, acc => pBuild E dir scope r (ln + 1) (acc ++ [.imp m ln [m] none])
  | .frm m x y :: r, ln, acc => pBuild E dir scope r (ln + 1) (acc ++ [.imp y ln m (some x)])
  | .rfrm up m x y :: r, ln, acc => pBuild E dir scope r (ln + 1) (acc ++ [.rimp y ln up m (some x)])
  | .star m :: r, ln, acc =>
    match scope m with
    | .error e => .error e
    | .ok none => pBuild E dir scope r (ln + 1) acc
    | .ok (some t) =>
      pBuild E dir scope r (ln + 1)
        (acc ++ ((exportedNames t).filter (fun x => !hidden x)).map (fun x => .imp x ln m (some x)))
  | .rstar up m :: r, ln, acc =>
    match pNorm E dir up m with
    | none => pBuild E dir scope r (ln + 1) acc
    | some m' =>
      match scope m' with
      | .error e => .error e
      | .ok none => pBuild E dir scope r (ln + 1) acc
      | .ok (some t) =>
        pBuild E dir scope r (ln + 1)
          (acc ++ ((exportedNames t).filter (fun x => !hidden x)).map (fun x => .rimp x ln up m (some x)))

/-- the table of module `m` on disk `D` (`none`: no such file) -/
def pTable (D : Disk) : Nat → Mod → Except Err (Option Table)
  | 0, m => match get D m with
    | none => .ok none
    | some _ => .error .recursion
  | n + 1, m =>
    match get D m with
    | none => .ok none
    | some f =>
      match pBuild D (dirOf (some m)) (pTable D n) f.src 1 [] with
      | .error e => .error e
      | .ok t => .ok (some t)

/-- what `from m import mname` / `import m` refers to on disk `D` -/
def pResolve (D : Disk) (n : Nat) (m : Mod) : Option Ident → Except Err (Option Target)
  | none => .ok (match get D m with | none => none | some _ => some (.module m))
  | some a =>
    match get D (m ++ [a]) with
    | some _ => .ok (some (.module (m ++ [a])))
    | none =>
      match pTable D n m with
      | .error e => .error e
      | .ok none => .ok none
      | .ok (some t) => .ok ((lookupLast a t).map (.entry m))

/-- the same for the relative name `'.' * (up + 1) + m` seen from directory `dir` -/
def pResolveR (D : Disk) (n : Nat) (dir : Mod) (up : Nat) (m : Mod) (mname : Option Ident) :
    Except Err (Option Target) :=
  match pNorm D dir up m with
  | none => .ok none
  | some m' => pResolve D n m' mname

end SuppModel.Proj
