/- Proj: resolving imported names and following chains of them keeps the state correct. -/
import SuppModel.Proj.Lemmas2

namespace SuppModel.Proj

theorem resolveCore_mono (D : Disk) (n : Nat) (st : St) (m : Mod) (mn : Option Ident) (r) (st' : St)
    (h : resolveCore D n st m mn = .ok (r, st')) : Mono st st' := by
  cases mn with
  | none =>
    simp only [resolveCore] at h
    have hm := getModule_mono D st m
    rcases hgm : getModule D st m with ⟨b, st1⟩
    rw [hgm] at h hm
    cases b <;> (simp only [Except.ok.injEq, Prod.mk.injEq] at h; rw [← h.2]; exact hm)
  | some a =>
    simp only [resolveCore] at h
    have hm := getModule_mono D st (m ++ [a])
    rcases hgm : getModule D st (m ++ [a]) with ⟨b, st1⟩
    rw [hgm] at h hm
    cases b with
    | true => simp only [Except.ok.injEq, Prod.mk.injEq] at h; rw [← h.2]; exact hm
    | false =>
      dsimp only at h
      have hm2 := getModule_mono D st1 m
      rcases hgm2 : getModule D st1 m with ⟨b2, st2⟩
      rw [hgm2] at h hm2
      cases b2 with
      | false => simp only [Except.ok.injEq, Prod.mk.injEq] at h; rw [← h.2]; exact hm.trans hm2
      | true =>
        dsimp only at h
        cases hsc : scopeOf D n st2 m with
        | error e => rw [hsc] at h; cases h
        | ok p =>
          obtain ⟨ot, st3⟩ := p
          rw [hsc] at h
          have h3 := scopeOf_mono D n _ _ _ _ hsc
          cases ot <;> (simp only [Except.ok.injEq, Prod.mk.injEq] at h; rw [← h.2]; exact hm.trans (hm2.trans h3))

theorem memoStore_mono (st : St) (o : Option Mod) (key : Entry) (r) : Mono st (memoStore st o key r) := by
  cases o with
  | none => exact Mono.refl _
  | some o => exact updCached_mono _ _ _

theorem resolve_mono (D : Disk) (n : Nat) (st : St) (o : Option Mod) (key : Entry) (m : Mod)
    (mn : Option Ident) (r) (st' : St) (h : resolve D n st o key m mn = .ok (r, st')) : Mono st st' := by
  unfold resolve at h
  cases hml : memoLookup st o key with
  | some r0 => rw [hml] at h; simp only [Except.ok.injEq, Prod.mk.injEq] at h; rw [← h.2]; exact Mono.refl _
  | none =>
    rw [hml] at h; dsimp only at h
    cases hrc : resolveCore D n st m mn with
    | error e => rw [hrc] at h; cases h
    | ok p =>
      obtain ⟨r1, st1⟩ := p
      rw [hrc] at h; simp only [Except.ok.injEq, Prod.mk.injEq] at h
      rw [← h.2]
      exact (resolveCore_mono D n st m mn _ _ hrc).trans (memoStore_mono _ _ _ _)

theorem resolveR_mono (D : Disk) (n : Nat) (st : St) (o : Option Mod) (key : Entry) (up : Nat) (m : Mod)
    (mn : Option Ident) (r) (st' : St) (h : resolveR D n st o key up m mn = .ok (r, st')) : Mono st st' := by
  unfold resolveR at h
  cases hml : memoLookup st o key with
  | some r0 => rw [hml] at h; simp only [Except.ok.injEq, Prod.mk.injEq] at h; rw [← h.2]; exact Mono.refl _
  | none =>
    rw [hml] at h; dsimp only at h
    have hn := normRef_mono D st (dirOf o) up m
    rcases hnr : normRef D st (dirOf o) up m with ⟨om, st0⟩
    rw [hnr] at h hn
    cases om with
    | none =>
      simp only [Except.ok.injEq, Prod.mk.injEq] at h
      rw [← h.2]; exact hn.trans (memoStore_mono _ _ _ _)
    | some m' =>
      dsimp only at h
      cases hrc : resolveCore D n st0 m' mn with
      | error e => rw [hrc] at h; cases h
      | ok p =>
        obtain ⟨r1, st1⟩ := p
        rw [hrc] at h; simp only [Except.ok.injEq, Prod.mk.injEq] at h
        rw [← h.2]
        exact hn.trans ((resolveCore_mono D n st0 m' mn _ _ hrc).trans (memoStore_mono _ _ _ _))

theorem follow_mono (D : Disk) : ∀ n st o e r st', follow D n st o e = .ok (r, st') → Mono st st' := by
  intro n
  induction n with
  | zero => intro st o e r st' h; simp [follow] at h
  | succ n ih =>
    intro st o e r st' h
    cases e with
    | own x ln p => simp only [follow, Except.ok.injEq, Prod.mk.injEq] at h; rw [← h.2]; exact Mono.refl _
    | imp x ln m mn =>
      simp only [follow] at h
      cases hr : resolve D n st o (.imp x ln m mn) m mn with
      | error e => rw [hr] at h; cases h
      | ok p =>
        obtain ⟨tg, st1⟩ := p
        rw [hr] at h
        have hm := resolve_mono D n _ _ _ _ _ _ _ hr
        cases tg with
        | none => simp only [Except.ok.injEq, Prod.mk.injEq] at h; rw [← h.2]; exact hm
        | some tg =>
          cases tg with
          | module k => simp only [Except.ok.injEq, Prod.mk.injEq] at h; rw [← h.2]; exact hm
          | entry k e' =>
            dsimp only at h
            cases hf : follow D n st1 (some k) e' with
            | error e => rw [hf] at h; cases h
            | ok q =>
              obtain ⟨⟨tr, v⟩, st2⟩ := q
              rw [hf] at h; simp only [Except.ok.injEq, Prod.mk.injEq] at h
              rw [← h.2]; exact hm.trans (ih _ _ _ _ _ hf)
    | rimp x ln up m mn =>
      simp only [follow] at h
      cases hr : resolveR D n st o (.rimp x ln up m mn) up m mn with
      | error e => rw [hr] at h; cases h
      | ok p =>
        obtain ⟨tg, st1⟩ := p
        rw [hr] at h
        have hm := resolveR_mono D n _ _ _ _ _ _ _ _ hr
        cases tg with
        | none => simp only [Except.ok.injEq, Prod.mk.injEq] at h; rw [← h.2]; exact hm
        | some tg =>
          cases tg with
          | module k => simp only [Except.ok.injEq, Prod.mk.injEq] at h; rw [← h.2]; exact hm
          | entry k e' =>
            dsimp only at h
            cases hf : follow D n st1 (some k) e' with
            | error e => rw [hf] at h; cases h
            | ok q =>
              obtain ⟨⟨tr, v⟩, st2⟩ := q
              rw [hf] at h; simp only [Except.ok.injEq, Prod.mk.injEq] at h
              rw [← h.2]; exact hm.trans (ih _ _ _ _ _ hf)

/-- a module value is backed by an entry of the module cache -/
def TargetIn (st : St) : Option Target → Prop
  | some (.module k) => (get st.mcache k).isSome = true
  | some (.entry _ e) => e.isAbs = true
  | none => True

theorem TargetIn.keeps {st st' : St} {r : Option Target} (h : TargetIn st r) (hk : Keeps st st') : TargetIn st' r := by
  cases r with
  | none => trivial
  | some t => cases t with
    | module k => exact hk k h
    | entry k e => exact h

theorem lookupLast_mem : ∀ (t : Table) (x : Ident) (e : Entry), lookupLast x t = some e → e ∈ t
  | [], _, _, h => by cases h
  | e0 :: r, x, e, h => by
    simp only [lookupLast] at h
    cases hl : lookupLast x r with
    | some e' =>
      rw [hl] at h; simp only [Option.some.injEq] at h; subst h
      exact List.mem_cons_of_mem _ (lookupLast_mem r x _ hl)
    | none =>
      rw [hl] at h; dsimp only at h
      by_cases hn : e0.name = x
      · simp only [hn, if_true, Option.some.injEq] at h; subst h; exact List.mem_cons_self
      · simp [hn] at h

theorem resolveCore_correct {E D : Disk} (hD : AbsDisk D) {n : Nat} {st : St} {m : Mod} {mn : Option Ident}
    {r} {st' : St} (hc : Correct E st) (h : resolveCore D n st m mn = .ok (r, st')) (hag : AgreeOn st' D E) :
    Correct E st' ∧ Keeps st st' ∧ Ev (fun n => pResolve E n m mn) r ∧ TargetIn st' r := by
  cases mn with
  | none =>
    simp only [resolveCore] at h
    rcases hgm : getModule D st m with ⟨b, st1⟩
    rw [hgm] at h
    cases b with
    | true =>
      simp only [Except.ok.injEq, Prod.mk.injEq] at h
      obtain ⟨h1, h2⟩ := h; subst h1; subst h2
      obtain ⟨hc1, hk1, hin, _⟩ := getModule_correct hc hgm hag
      obtain ⟨c, hcm⟩ := hin rfl
      obtain ⟨f, hf, _⟩ := hc1.valid m c hcm
      exact ⟨hc1, hk1, ⟨0, fun n _ => by simp [pResolve, hf]⟩, by simp [TargetIn, hcm]⟩
    | false =>
      simp only [Except.ok.injEq, Prod.mk.injEq] at h
      obtain ⟨h1, h2⟩ := h; subst h1; subst h2
      obtain ⟨hc1, hk1, _, hno⟩ := getModule_correct hc hgm hag
      exact ⟨hc1, hk1, ⟨0, fun n _ => by simp [pResolve, hno rfl]⟩, trivial⟩
  | some a =>
    have hmono := resolveCore_mono D n st m (some a) _ _ h
    simp only [resolveCore] at h
    rcases hgm : getModule D st (m ++ [a]) with ⟨b, st1⟩
    rw [hgm] at h
    cases b with
    | true =>
      simp only [Except.ok.injEq, Prod.mk.injEq] at h
      obtain ⟨h1, h2⟩ := h; subst h1; subst h2
      obtain ⟨hc1, hk1, hin, _⟩ := getModule_correct hc hgm hag
      obtain ⟨c, hcm⟩ := hin rfl
      obtain ⟨f, hf, _⟩ := hc1.valid _ c hcm
      exact ⟨hc1, hk1, ⟨0, fun n _ => by simp [pResolve, hf]⟩, by simp [TargetIn, hcm]⟩
    | false =>
      dsimp only at h
      rcases hgm2 : getModule D st1 m with ⟨b2, st2⟩
      rw [hgm2] at h
      cases b2 with
      | false =>
        simp only [Except.ok.injEq, Prod.mk.injEq] at h
        obtain ⟨h1, h2⟩ := h; subst h1; subst h2
        have hm2 : Mono st1 st2 := by have := getModule_mono D st1 m; rw [hgm2] at this; exact this
        obtain ⟨hc1, hk1, _, hno1⟩ := getModule_correct hc hgm (hag.mono hm2)
        obtain ⟨hc2, hk2, _, hno2⟩ := getModule_correct hc1 hgm2 hag
        exact ⟨hc2, hk1.trans hk2,
          ⟨0, fun n _ => by simp [pResolve, hno1 rfl, pTable_none (hno2 rfl)]⟩, trivial⟩
      | true =>
        dsimp only at h
        cases hsc : scopeOf D n st2 m with
        | error e => rw [hsc] at h; cases h
        | ok p =>
          obtain ⟨ot, st3⟩ := p
          rw [hsc] at h
          have hm2 : Mono st1 st2 := by have := getModule_mono D st1 m; rw [hgm2] at this; exact this
          have hm3 : Mono st2 st3 := scopeOf_mono D n _ _ _ _ hsc
          have hst : st' = st3 := by
            cases ot <;> (simp only [Except.ok.injEq, Prod.mk.injEq] at h; exact h.2.symm)
          subst hst
          obtain ⟨hc1, hk1, _, hno1⟩ := getModule_correct hc hgm (hag.mono (hm2.trans hm3))
          obtain ⟨hc2, hk2, hin, _⟩ := getModule_correct hc1 hgm2 (hag.mono hm3)
          obtain ⟨c, hcm⟩ := hin rfl
          obtain ⟨hc3, hk3, t, hot, ⟨N, hN⟩, hta⟩ := scopeOf_correct E D hD n _ _ _ _ hc2 (by simp [hcm]) hsc hag
          subst hot
          simp only [Except.ok.injEq, Prod.mk.injEq] at h
          obtain ⟨h1, _⟩ := h; subst h1
          refine ⟨hc3, hk1.trans (hk2.trans hk3), ⟨N, fun n hn => by simp [pResolve, hno1 rfl, hN n hn]⟩, ?_⟩
          cases hl : lookupLast a t with
          | none => trivial
          | some e => exact hta e (lookupLast_mem t a e hl)

theorem findRef_cons (key key' : Entry) (r : Option Target) (l) :
    findRef key ((key', r) :: l) = if key' = key then some r else findRef key l := rfl

theorem resolve_correct {E D : Disk} (hD : AbsDisk D) {n : Nat} {st : St} {o : Option Mod} {x ln} {m : Mod}
    {mn : Option Ident} {r} {st' : St}
    (hc : Correct E st) (h : resolve D n st o (.imp x ln m mn) m mn = .ok (r, st')) (hag : AgreeOn st' D E) :
    Correct E st' ∧ Keeps st st' ∧ Ev (fun n => pResolve E n m mn) r ∧ TargetIn st' r := by
  unfold resolve at h
  cases hml : memoLookup st o (.imp x ln m mn) with
  | some r0 =>
    rw [hml] at h; simp only [Except.ok.injEq, Prod.mk.injEq] at h
    obtain ⟨h1, h2⟩ := h; subst h1; subst h2
    unfold memoLookup at hml
    cases o with
    | none => cases hml
    | some o =>
      dsimp only at hml
      cases hg : get st.mcache o with
      | none => rw [hg] at hml; cases hml
      | some c =>
        rw [hg] at hml; dsimp only at hml
        refine ⟨hc, Keeps.refl _, hc.refs o c x ln m mn r0 hg hml, ?_⟩
        cases r0 with
        | none => trivial
        | some t => cases t with
          | module k => exact hc.modIn o c _ k hg hml
          | entry k e => exact hc.refAbs o c _ k e hg hml
  | none =>
    rw [hml] at h; dsimp only at h
    cases hrc : resolveCore D n st m mn with
    | error e => rw [hrc] at h; cases h
    | ok p =>
      obtain ⟨r1, st1⟩ := p
      rw [hrc] at h; simp only [Except.ok.injEq, Prod.mk.injEq] at h
      obtain ⟨h1, h2⟩ := h; subst h1; subst h2
      obtain ⟨hc1, hk1, hev, hin⟩ := resolveCore_correct hD hc hrc (hag.mono (memoStore_mono _ _ _ _))
      cases o with
      | none => exact ⟨hc1, hk1, hev, hin⟩
      | some o =>
        refine ⟨correct_updCached (m := o)
            (g := fun c => { c with refs := (Entry.imp x ln m mn, r1) :: c.refs }) hc1
            (fun c0 _ => ⟨rfl, fun _ h => Or.inl h, ?_, ?_, ?_⟩),
          hk1.trans (keeps_updCached _ _ _), hev, hin.keeps (keeps_updCached _ _ _)⟩
        · intro x' ln' k' mn' r' hr'
          simp only [findRef_cons] at hr'
          by_cases hkey : Entry.imp x ln m mn = Entry.imp x' ln' k' mn'
          · rw [if_pos hkey] at hr'
            simp only [Entry.imp.injEq] at hkey
            obtain ⟨_, _, hk, hmn⟩ := hkey
            subst hk; subst hmn
            simp only [Option.some.injEq] at hr'; subst hr'
            exact Or.inr hev
          · rw [if_neg hkey] at hr'; exact Or.inl hr'
        · intro key' k' hr'
          simp only [findRef_cons] at hr'
          by_cases hkey : Entry.imp x ln m mn = key'
          · rw [if_pos hkey] at hr'
            simp only [Option.some.injEq] at hr'; subst hr'
            exact Or.inr hin
          · rw [if_neg hkey] at hr'; exact Or.inl hr'
        · intro key' k' e' hr'
          simp only [findRef_cons] at hr'
          by_cases hkey : Entry.imp x ln m mn = key'
          · rw [if_pos hkey] at hr'
            simp only [Option.some.injEq] at hr'; subst hr'
            exact Or.inr hin
          · rw [if_neg hkey] at hr'; exact Or.inl hr'

/-- a module value is backed by an entry of the module cache -/
def ValIn (st : St) : Val → Prop
  | .module k => (get st.mcache k).isSome = true
  | _ => True

theorem ValIn.keeps {st st' : St} {v : Val} (h : ValIn st v) (hk : Keeps st st') : ValIn st' v := by
  cases v with
  | module k => exact hk k h
  | obj p => trivial
  | nothing => trivial

theorem follow_correct {E D : Disk} (hD : AbsDisk D) : ∀ n st o e r st', Correct E st → e.isAbs = true →
    follow D n st o e = .ok (r, st') →
    AgreeOn st' D E → Correct E st' ∧ Keeps st st' ∧ ValIn st' r.2 := by
  intro n
  induction n with
  | zero => intro st o e r st' _ _ h; simp [follow] at h
  | succ n ih =>
    intro st o e r st' hc he h hag
    cases e with
    | rimp x ln up m mn => simp [Entry.isAbs] at he
    | own x ln p =>
      simp only [follow, Except.ok.injEq, Prod.mk.injEq] at h
      obtain ⟨h1, h2⟩ := h; subst h1; subst h2
      exact ⟨hc, Keeps.refl _, trivial⟩
    | imp x ln m mn =>
      simp only [follow] at h
      cases hr : resolve D n st o (.imp x ln m mn) m mn with
      | error e => rw [hr] at h; cases h
      | ok p =>
        obtain ⟨tg, st1⟩ := p
        rw [hr] at h
        cases tg with
        | none =>
          simp only [Except.ok.injEq, Prod.mk.injEq] at h
          obtain ⟨h1, h2⟩ := h; subst h1; subst h2
          obtain ⟨hc1, hk1, _, _⟩ := resolve_correct hD hc hr hag
          exact ⟨hc1, hk1, trivial⟩
        | some tg =>
          cases tg with
          | module k =>
            simp only [Except.ok.injEq, Prod.mk.injEq] at h
            obtain ⟨h1, h2⟩ := h; subst h1; subst h2
            obtain ⟨hc1, hk1, _, hin⟩ := resolve_correct hD hc hr hag
            exact ⟨hc1, hk1, hin⟩
          | entry k e' =>
            dsimp only at h
            cases hf : follow D n st1 (some k) e' with
            | error e => rw [hf] at h; cases h
            | ok q =>
              obtain ⟨⟨tr, v⟩, st2⟩ := q
              rw [hf] at h; simp only [Except.ok.injEq, Prod.mk.injEq] at h
              obtain ⟨h1, h2⟩ := h; subst h1; subst h2
              obtain ⟨hc1, hk1, _, hin⟩ := resolve_correct hD hc hr (hag.mono (follow_mono D n _ _ _ _ _ hf))
              obtain ⟨hc2, hk2, hv⟩ := ih _ _ _ _ _ hc1 hin hf hag
              exact ⟨hc2, hk1.trans hk2, hv⟩

theorem agreeOn_refl (st : St) (D : Disk) : AgreeOn st D D := fun _ _ => rfl

/-- two runs from correct states follow the same chain -/
theorem follow_agree {D : Disk} (hD : AbsDisk D) : ∀ n1 n2 st1 st2 o e r1 r2 s1 s2, Correct D st1 →
    Correct D st2 → e.isAbs = true →
    follow D n1 st1 o e = .ok (r1, s1) → follow D n2 st2 o e = .ok (r2, s2) → r1 = r2 := by
  intro n1
  induction n1 with
  | zero => intro n2 st1 st2 o e r1 r2 s1 s2 _ _ _ h; simp [follow] at h
  | succ n1 ih =>
    intro n2 st1 st2 o e r1 r2 s1 s2 hc1 hc2 he h1 h2
    cases n2 with
    | zero => simp [follow] at h2
    | succ n2 =>
      cases e with
      | rimp x ln up m mn => simp [Entry.isAbs] at he
      | own x ln p =>
        simp only [follow, Except.ok.injEq, Prod.mk.injEq] at h1 h2
        rw [← h1.1, ← h2.1]
      | imp x ln m mn =>
        simp only [follow] at h1 h2
        cases hr1 : resolve D n1 st1 o (.imp x ln m mn) m mn with
        | error e => rw [hr1] at h1; cases h1
        | ok p1 =>
          cases hr2 : resolve D n2 st2 o (.imp x ln m mn) m mn with
          | error e => rw [hr2] at h2; cases h2
          | ok p2 =>
            obtain ⟨tg1, t1⟩ := p1
            obtain ⟨tg2, t2⟩ := p2
            rw [hr1] at h1; rw [hr2] at h2
            obtain ⟨hc1', _, hev1, hin1⟩ := resolve_correct hD hc1 hr1 (agreeOn_refl _ _)
            obtain ⟨hc2', _, hev2, _⟩ := resolve_correct hD hc2 hr2 (agreeOn_refl _ _)
            have : tg1 = tg2 := hev1.unique hev2
            subst this
            cases tg1 with
            | none =>
              simp only [Except.ok.injEq, Prod.mk.injEq] at h1 h2
              rw [← h1.1, ← h2.1]
            | some tg =>
              cases tg with
              | module k =>
                simp only [Except.ok.injEq, Prod.mk.injEq] at h1 h2
                rw [← h1.1, ← h2.1]
              | entry k e' =>
                dsimp only at h1 h2
                cases hf1 : follow D n1 t1 (some k) e' with
                | error e => rw [hf1] at h1; cases h1
                | ok q1 =>
                  cases hf2 : follow D n2 t2 (some k) e' with
                  | error e => rw [hf2] at h2; cases h2
                  | ok q2 =>
                    obtain ⟨⟨tr1, v1⟩, u1⟩ := q1
                    obtain ⟨⟨tr2, v2⟩, u2⟩ := q2
                    rw [hf1] at h1; rw [hf2] at h2
                    simp only [Except.ok.injEq, Prod.mk.injEq] at h1 h2
                    have := ih _ _ _ _ _ _ _ _ _ hc1' hc2' hin1 hf1 hf2
                    simp only [Prod.mk.injEq] at this
                    rw [← h1.1, ← h2.1, this.1, this.2]

end SuppModel.Proj
