/- Proj: resolving imported names and following chains of them keeps the state correct. -/
import SuppModel.Proj.Lemmas2

namespace SuppModel.Proj

theorem resolveCore_mono (D : Disk) (n : Nat) (st : St) (m : Mod) (mn : Option Ident) (r) (st' : St)
    (h : resolveCore D n st m mn = .ok (r, st')) : Mono st st' := by
  cases mn with
  | none =>
    simp only [resolveCore] at h
    have hm := getModule_mono D st m
    rcases hgm : getModule D st m with ⟨b, st1⟩
    rw [hgm] at h hm
    cases b <;> (simp only [Except.ok.injEq, Prod.mk.injEq] at h; rw [← h.2]; exact hm)
  | some a =>
    simp only [resolveCore] at h
    have hm := getModule_mono D st (m ++ [a])
    rcases hgm : getModule D st (m ++ [a]) with ⟨b, st1⟩
    rw [hgm] at h hm
    cases b with
    | true => simp only [Except.ok.injEq, Prod.mk.injEq] at h; rw [← h.2]; exact hm
    | false =>
      dsimp only at h
      have hm2 := getModule_mono D st1 m
      rcases hgm2 : getModule D st1 m with ⟨b2, st2⟩
      rw [hgm2] at h hm2
      cases b2 with
      | false => simp only [Except.ok.injEq, Prod.mk.injEq] at h; rw [← h.2]; exact hm.trans hm2
      | true =>
        dsimp only at h
        cases hsc : scopeOf D n st2 m with
        | error e => rw [hsc] at h; cases h
        | ok p =>
          obtain ⟨ot, st3⟩ := p
          rw [hsc] at h
          have h3 := scopeOf_mono D n _ _ _ _ hsc
          cases ot <;> (simp only [Except.ok.injEq, Prod.mk.injEq] at h; rw [← h.2]; exact hm.trans (hm2.trans h3))

theorem memoStore_mono (st : St) (o : Option Mod) (key : Entry) (r) : Mono st (memoStore st o key r) := by
  cases o with
  | none => exact Mono.refl _
  | some o => exact updCached_mono st o (fun c => { c with refs := (key, r) :: c.refs })

theorem resolve_mono (D : Disk) (n : Nat) (st : St) (o : Option Mod) (key : Entry) (m : Mod)
    (mn : Option Ident) (r) (st' : St) (h : resolve D n st o key m mn = .ok (r, st')) : Mono st st' := by
  unfold resolve at h
  cases hml : memoLookup st o key with
  | some r0 => rw [hml] at h; simp only [Except.ok.injEq, Prod.mk.injEq] at h; rw [← h.2]; exact Mono.refl _
  | none =>
    rw [hml] at h; dsimp only at h
    cases hrc : resolveCore D n st m mn with
    | error e => rw [hrc] at h; cases h
    | ok p =>
      obtain ⟨r1, st1⟩ := p
      rw [hrc] at h; simp only [Except.ok.injEq, Prod.mk.injEq] at h
      rw [← h.2]
      exact (resolveCore_mono D n st m mn _ _ hrc).trans (memoStore_mono _ _ _ _)

theorem resolveR_mono (D : Disk) (n : Nat) (st : St) (o : Option Mod) (key : Entry) (up : Nat) (m : Mod)
    (mn : Option Ident) (r) (st' : St) (h : resolveR D n st o key up m mn = .ok (r, st')) : Mono st st' := by
  unfold resolveR at h
  cases hml : memoLookup st o key with
  | some r0 => rw [hml] at h; simp only [Except.ok.injEq, Prod.mk.injEq] at h; rw [← h.2]; exact Mono.refl _
  | none =>
    rw [hml] at h; dsimp only at h
    have hn := normRef_mono D st (dirOf o) up m
    rcases hnr : normRef D st (dirOf o) up m with ⟨om, st0⟩
    rw [hnr] at h hn
    cases om with
    | none =>
      simp only [Except.ok.injEq, Prod.mk.injEq] at h
      rw [← h.2]; exact hn.trans (memoStore_mono _ _ _ _)
    | some m' =>
      dsimp only at h
      cases hrc : resolveCore D n st0 m' mn with
      | error e => rw [hrc] at h; cases h
      | ok p =>
        obtain ⟨r1, st1⟩ := p
        rw [hrc] at h; simp only [Except.ok.injEq, Prod.mk.injEq] at h
        rw [← h.2]
        exact hn.trans ((resolveCore_mono D n st0 m' mn _ _ hrc).trans (memoStore_mono _ _ _ _))

theorem follow_mono (D : Disk) : ∀ n st o e r st', follow D n st o e = .ok (r, st') → Mono st st' := by
  intro n
  induction n with
  | zero => intro st o e r st' h; simp [follow] at h
  | succ n ih =>
    intro st o e r st' h
    cases e with
    | own x ln p => simp only [follow, Except.ok.injEq, Prod.mk.injEq] at h; rw [← h.2]; exact Mono.refl _
    | imp x ln m mn =>
      simp only [follow] at h
      cases hr : resolve D n st o (.imp x ln m mn) m mn with
      | error e => rw [hr] at h; cases h
      | ok p =>
        obtain ⟨tg, st1⟩ := p
        rw [hr] at h
        have hm := resolve_mono D n _ _ _ _ _ _ _ hr
        cases tg with
        | none => simp only [Except.ok.injEq, Prod.mk.injEq] at h; rw [← h.2]; exact hm
        | some tg =>
          cases tg with
          | module k => simp only [Except.ok.injEq, Prod.mk.injEq] at h; rw [← h.2]; exact hm
          | entry k e' =>
            dsimp only at h
            cases hf : follow D n st1 (some k) e' with
            | error e => rw [hf] at h; cases h
            | ok q =>
              obtain ⟨⟨tr, v⟩, st2⟩ := q
              rw [hf] at h; simp only [Except.ok.injEq, Prod.mk.injEq] at h
              rw [← h.2]; exact hm.trans (ih _ _ _ _ _ hf)
    | rimp x ln up m mn =>
      simp only [follow] at h
      cases hr : resolveR D n st o (.rimp x ln up m mn) up m mn with
      | error e => rw [hr] at h; cases h
      | ok p =>
        obtain ⟨tg, st1⟩ := p
        rw [hr] at h
        have hm := resolveR_mono D n _ _ _ _ _ _ _ _ hr
        cases tg with
        | none => simp only [Except.ok.injEq, Prod.mk.injEq] at h; rw [← h.2]; exact hm
        | some tg =>
          cases tg with
          | module k => simp only [Except.ok.injEq, Prod.mk.injEq] at h; rw [← h.2]; exact hm
          | entry k e' =>
            dsimp only at h
            cases hf : follow D n st1 (some k) e' with
            | error e => rw [hf] at h; cases h
            | ok q =>
              obtain ⟨⟨tr, v⟩, st2⟩ := q
              rw [hf] at h; simp only [Except.ok.injEq, Prod.mk.injEq] at h
              rw [← h.2]; exact hm.trans (ih _ _ _ _ _ hf)

/-- a module value is backed by an entry of the module cache -/
def TargetIn (st : St) : Option Target → Prop
  | some (.module k) => (get st.mcache k).isSome = true
  | _ => True

theorem TargetIn.keeps {st st' : St} {r : Option Target} (h : TargetIn st r) (hk : Keeps st st') : TargetIn st' r := by
  cases r with
  | none => trivial
  | some t => cases t with
    | module k => exact hk k h
    | entry k e => trivial

theorem resolveCore_correct {E D : Disk} {n : Nat} {st : St} {m : Mod} {mn : Option Ident}
    {r} {st' : St} (hc : Correct E st)
    (h : resolveCore D n st m mn = .ok (r, st')) (hag : AgreeOn st' D E) :
    Correct E st' ∧ Keeps st st' ∧ Ev (fun n => pResolve E n m mn) r ∧ TargetIn st' r := by
  cases mn with
  | none =>
    simp only [resolveCore] at h
    rcases hgm : getModule D st m with ⟨b, st1⟩
    rw [hgm] at h
    cases b with
    | true =>
      simp only [Except.ok.injEq, Prod.mk.injEq] at h
      obtain ⟨h1, h2⟩ := h; subst h1; subst h2
      obtain ⟨hc1, hk1, hin, _⟩ := getModule_correct hc hgm hag
      obtain ⟨c, hcm⟩ := hin rfl
      obtain ⟨f, hf, _⟩ := hc1.valid m c hcm
      exact ⟨hc1, hk1, ⟨0, fun n _ => by simp [pResolve, hf]⟩, by simp [TargetIn, hcm]⟩
    | false =>
      simp only [Except.ok.injEq, Prod.mk.injEq] at h
      obtain ⟨h1, h2⟩ := h; subst h1; subst h2
      obtain ⟨hc1, hk1, _, hno⟩ := getModule_correct hc hgm hag
      exact ⟨hc1, hk1, ⟨0, fun n _ => by simp [pResolve, hno rfl]⟩, trivial⟩
  | some a =>
    have hmono := resolveCore_mono D n st m (some a) _ _ h
    simp only [resolveCore] at h
    rcases hgm : getModule D st (m ++ [a]) with ⟨b, st1⟩
    rw [hgm] at h
    cases b with
    | true =>
      simp only [Except.ok.injEq, Prod.mk.injEq] at h
      obtain ⟨h1, h2⟩ := h; subst h1; subst h2
      obtain ⟨hc1, hk1, hin, _⟩ := getModule_correct hc hgm hag
      obtain ⟨c, hcm⟩ := hin rfl
      obtain ⟨f, hf, _⟩ := hc1.valid _ c hcm
      exact ⟨hc1, hk1, ⟨0, fun n _ => by simp [pResolve, hf]⟩, by simp [TargetIn, hcm]⟩
    | false =>
      dsimp only at h
      rcases hgm2 : getModule D st1 m with ⟨b2, st2⟩
      rw [hgm2] at h
      cases b2 with
      | false =>
        simp only [Except.ok.injEq, Prod.mk.injEq] at h
        obtain ⟨h1, h2⟩ := h; subst h1; subst h2
        have hm2 : Mono st1 st2 := by have := getModule_mono D st1 m; rw [hgm2] at this; exact this
        obtain ⟨hc1, hk1, _, hno1⟩ := getModule_correct hc hgm (hag.mono hm2)
        obtain ⟨hc2, hk2, _, hno2⟩ := getModule_correct hc1 hgm2 hag
        exact ⟨hc2, hk1.trans hk2,
          ⟨0, fun n _ => by simp [pResolve, hno1 rfl, pTable_none (hno2 rfl)]⟩, trivial⟩
      | true =>
        dsimp only at h
        cases hsc : scopeOf D n st2 m with
        | error e => rw [hsc] at h; cases h
        | ok p =>
          obtain ⟨ot, st3⟩ := p
          rw [hsc] at h
          have hm2 : Mono st1 st2 := by have := getModule_mono D st1 m; rw [hgm2] at this; exact this
          have hm3 : Mono st2 st3 := scopeOf_mono D n _ _ _ _ hsc
          have hst : st' = st3 := by
            cases ot <;> (simp only [Except.ok.injEq, Prod.mk.injEq] at h; exact h.2.symm)
          subst hst
          obtain ⟨hc1, hk1, _, hno1⟩ := getModule_correct hc hgm (hag.mono (hm2.trans hm3))
          obtain ⟨hc2, hk2, hin, _⟩ := getModule_correct hc1 hgm2 (hag.mono hm3)
          obtain ⟨c, hcm⟩ := hin rfl
          obtain ⟨hc3, hk3, t, hot, ⟨N, hN⟩⟩ := scopeOf_correct E D n _ _ _ _ hc2 (by simp [hcm]) hsc hag
          subst hot
          simp only [Except.ok.injEq, Prod.mk.injEq] at h
          obtain ⟨h1, _⟩ := h; subst h1
          refine ⟨hc3, hk1.trans (hk2.trans hk3), ⟨N, fun n hn => by simp [pResolve, hno1 rfl, hN n hn]⟩, ?_⟩
          cases lookupLast a t <;> trivial

theorem findRef_cons (key key' : Entry) (r : Option Target) (l) :
    findRef key ((key', r) :: l) = if key' = key then some r else findRef key l := rfl

/-- storing a freshly computed, correct value in the `_ref` memo -/
theorem memoStore_correct {E : Disk} {st : St} {o : Option Mod} {key : Entry} {r : Option Target}
    (hc : Correct E st) (hin : TargetIn st r)
    (h1 : ∀ x ln k mn, key = .imp x ln k mn → Ev (fun n => pResolve E n k mn) r)
    (h2 : ∀ o' x ln up k mn, o = some o' → key = .rimp x ln up k mn →
      Ev (fun n => pResolveR E n (dirOf (some o')) up k mn) r) :
    Correct E (memoStore st o key r) := by
  cases o with
  | none => exact hc
  | some o =>
    refine correct_updCached (m := o) (g := fun c => { c with refs := (key, r) :: c.refs }) hc
      (fun c0 _ => ⟨rfl, fun _ h => Or.inl h, ?_, ?_, ?_⟩)
    · intro x' ln' k' mn' r' hr'
      simp only [findRef_cons] at hr'
      by_cases hkey : key = Entry.imp x' ln' k' mn'
      · rw [if_pos hkey] at hr'
        simp only [Option.some.injEq] at hr'; subst hr'
        exact Or.inr (h1 _ _ _ _ hkey)
      · rw [if_neg hkey] at hr'; exact Or.inl hr'
    · intro key' k' hr'
      simp only [findRef_cons] at hr'
      by_cases hkey : key = key'
      · rw [if_pos hkey] at hr'
        simp only [Option.some.injEq] at hr'; subst hr'
        exact Or.inr hin
      · rw [if_neg hkey] at hr'; exact Or.inl hr'
    · intro x' ln' up' k' mn' r' hr'
      simp only [findRef_cons] at hr'
      by_cases hkey : key = Entry.rimp x' ln' up' k' mn'
      · rw [if_pos hkey] at hr'
        simp only [Option.some.injEq] at hr'; subst hr'
        exact Or.inr (h2 o _ _ _ _ _ rfl hkey)
      · rw [if_neg hkey] at hr'; exact Or.inl hr'

theorem memoStore_keeps (st : St) (o : Option Mod) (key : Entry) (r) : Keeps st (memoStore st o key r) := by
  cases o with
  | none => exact Keeps.refl _
  | some o => exact keeps_updCached _ _ _

theorem resolve_correct {E D : Disk} {n : Nat} {st : St} {o : Option Mod} {x ln} {m : Mod}
    {mn : Option Ident} {r} {st' : St}
    (hc : Correct E st) (h : resolve D n st o (.imp x ln m mn) m mn = .ok (r, st')) (hag : AgreeOn st' D E) :
    Correct E st' ∧ Keeps st st' ∧ Ev (fun n => pResolve E n m mn) r ∧ TargetIn st' r := by
  unfold resolve at h
  cases hml : memoLookup st o (.imp x ln m mn) with
  | some r0 =>
    rw [hml] at h; simp only [Except.ok.injEq, Prod.mk.injEq] at h
    obtain ⟨h1, h2⟩ := h; subst h1; subst h2
    unfold memoLookup at hml
    cases o with
    | none => cases hml
    | some o =>
      dsimp only at hml
      cases hg : get st.mcache o with
      | none => rw [hg] at hml; cases hml
      | some c =>
        rw [hg] at hml; dsimp only at hml
        refine ⟨hc, Keeps.refl _, hc.refs o c x ln m mn r0 hg hml, ?_⟩
        cases r0 with
        | none => trivial
        | some t => cases t with
          | module k => exact hc.modIn o c _ k hg hml
          | entry k e => trivial
  | none =>
    rw [hml] at h; dsimp only at h
    cases hrc : resolveCore D n st m mn with
    | error e => rw [hrc] at h; cases h
    | ok p =>
      obtain ⟨r1, st1⟩ := p
      rw [hrc] at h; simp only [Except.ok.injEq, Prod.mk.injEq] at h
      obtain ⟨h1, h2⟩ := h; subst h1; subst h2
      obtain ⟨hc1, hk1, hev, hin⟩ := resolveCore_correct hc hrc (hag.mono (memoStore_mono _ _ _ _))
      refine ⟨memoStore_correct hc1 hin ?_ ?_, hk1.trans (memoStore_keeps _ _ _ _), hev,
        hin.keeps (memoStore_keeps _ _ _ _)⟩
      · intro x' ln' k' mn' hkey
        simp only [Entry.imp.injEq] at hkey
        obtain ⟨_, _, hk, hmn⟩ := hkey
        subst hk; subst hmn; exact hev
      · intro o' x' ln' up' k' mn' _ hkey; cases hkey

theorem resolveR_correct {E D : Disk} {n : Nat} {st : St} {o : Option Mod} {x ln up} {m : Mod}
    {mn : Option Ident} {r} {st' : St}
    (hc : Correct E st) (h : resolveR D n st o (.rimp x ln up m mn) up m mn = .ok (r, st'))
    (hag : AgreeOn st' D E) :
    Correct E st' ∧ Keeps st st' ∧ Ev (fun n => pResolveR E n (dirOf o) up m mn) r ∧ TargetIn st' r := by
  unfold resolveR at h
  cases hml : memoLookup st o (.rimp x ln up m mn) with
  | some r0 =>
    rw [hml] at h; simp only [Except.ok.injEq, Prod.mk.injEq] at h
    obtain ⟨h1, h2⟩ := h; subst h1; subst h2
    unfold memoLookup at hml
    cases o with
    | none => cases hml
    | some o =>
      dsimp only at hml
      cases hg : get st.mcache o with
      | none => rw [hg] at hml; cases hml
      | some c =>
        rw [hg] at hml; dsimp only at hml
        refine ⟨hc, Keeps.refl _, hc.refsR o c x ln up m mn r0 hg hml, ?_⟩
        cases r0 with
        | none => trivial
        | some t => cases t with
          | module k => exact hc.modIn o c _ k hg hml
          | entry k e => trivial
  | none =>
    rw [hml] at h; dsimp only at h
    rcases hnr : normRef D st (dirOf o) up m with ⟨om, st0⟩
    rw [hnr] at h
    cases om with
    | none =>
      simp only [Except.ok.injEq, Prod.mk.injEq] at h
      obtain ⟨h1, h2⟩ := h; subst h1; subst h2
      obtain ⟨hc0, hk0, hpn⟩ := normRef_correct hc hnr (hag.mono (memoStore_mono _ _ _ _))
      have hev : Ev (fun n => pResolveR E n (dirOf o) up m mn) none :=
        ⟨0, fun n _ => by simp only [pResolveR, ← hpn]⟩
      refine ⟨memoStore_correct hc0 trivial ?_ ?_, hk0.trans (memoStore_keeps _ _ _ _), hev, trivial⟩
      · intro x' ln' k' mn' hkey; cases hkey
      · intro o' x' ln' up' k' mn' ho hkey
        simp only [Entry.rimp.injEq] at hkey
        obtain ⟨_, _, hu, hk, hmn⟩ := hkey
        subst hu; subst hk; subst hmn; subst ho; exact hev
    | some m' =>
      dsimp only at h
      cases hrc : resolveCore D n st0 m' mn with
      | error e => rw [hrc] at h; cases h
      | ok p =>
        obtain ⟨r1, st1⟩ := p
        rw [hrc] at h; simp only [Except.ok.injEq, Prod.mk.injEq] at h
        obtain ⟨h1, h2⟩ := h; subst h1; subst h2
        have hm1 := resolveCore_mono D n st0 m' mn _ _ hrc
        obtain ⟨hc0, hk0, hpn⟩ := normRef_correct hc hnr (hag.mono (hm1.trans (memoStore_mono _ _ _ _)))
        obtain ⟨hc1, hk1, ⟨N, hN⟩, hin⟩ := resolveCore_correct hc0 hrc (hag.mono (memoStore_mono _ _ _ _))
        have hev : Ev (fun n => pResolveR E n (dirOf o) up m mn) r1 :=
          ⟨N, fun n hn => by simp only [pResolveR, ← hpn]; exact hN n hn⟩
        refine ⟨memoStore_correct hc1 hin ?_ ?_, hk0.trans (hk1.trans (memoStore_keeps _ _ _ _)), hev,
          hin.keeps (memoStore_keeps _ _ _ _)⟩
        · intro x' ln' k' mn' hkey; cases hkey
        · intro o' x' ln' up' k' mn' ho hkey
          simp only [Entry.rimp.injEq] at hkey
          obtain ⟨_, _, hu, hk, hmn⟩ := hkey
          subst hu; subst hk; subst hmn; subst ho; exact hev

/-- a module value is backed by an entry of the module cache -/
def ValIn (st : St) : Val → Prop
  | .module k => (get st.mcache k).isSome = true
  | _ => True

theorem ValIn.keeps {st st' : St} {v : Val} (h : ValIn st v) (hk : Keeps st st') : ValIn st' v := by
  cases v with
  | module k => exact hk k h
  | obj p => trivial
  | nothing => trivial

/-- what `follow` does with the outcome of resolving an imported name -/
def followK (D : Disk) (n : Nat) (o : Option Mod) (ln : Nat) :
    Except Err (Option Target × St) → Except Err ((List Loc × Val) × St)
  | .error e => .error e
  | .ok (none, st1) => .ok (([(o, ln)], .nothing), st1)
  | .ok (some (.module k), st1) => .ok (([(o, ln), (some k, 1)], .module k), st1)
  | .ok (some (.entry k e), st1) =>
    match follow D n st1 (some k) e with
    | .error e => .error e
    | .ok ((tr, v), st2) => .ok (((o, ln) :: tr, v), st2)

theorem follow_imp (D : Disk) (n : Nat) (st : St) (o x ln m mn) :
    follow D (n + 1) st o (.imp x ln m mn) = followK D n o ln (resolve D n st o (.imp x ln m mn) m mn) := by
  simp only [follow, followK]
  cases resolve D n st o (.imp x ln m mn) m mn with
  | error e => rfl
  | ok p =>
    obtain ⟨tg, st1⟩ := p
    cases tg with
    | none => rfl
    | some tg => cases tg <;> rfl

theorem follow_rimp (D : Disk) (n : Nat) (st : St) (o x ln up m mn) :
    follow D (n + 1) st o (.rimp x ln up m mn) =
      followK D n o ln (resolveR D n st o (.rimp x ln up m mn) up m mn) := by
  simp only [follow, followK]
  cases resolveR D n st o (.rimp x ln up m mn) up m mn with
  | error e => rfl
  | ok p =>
    obtain ⟨tg, st1⟩ := p
    cases tg with
    | none => rfl
    | some tg => cases tg <;> rfl

theorem followK_mono {D : Disk} {n : Nat} {o ln tg st1 r st'}
    (h : followK D n o ln (.ok (tg, st1)) = .ok (r, st')) : Mono st1 st' := by
  cases tg with
  | none => simp only [followK, Except.ok.injEq, Prod.mk.injEq] at h; rw [← h.2]; exact Mono.refl _
  | some tg =>
    cases tg with
    | module k => simp only [followK, Except.ok.injEq, Prod.mk.injEq] at h; rw [← h.2]; exact Mono.refl _
    | entry k e =>
      simp only [followK] at h
      cases hf : follow D n st1 (some k) e with
      | error e => rw [hf] at h; cases h
      | ok q =>
        obtain ⟨⟨tr, v⟩, st2⟩ := q
        rw [hf] at h; simp only [Except.ok.injEq, Prod.mk.injEq] at h
        rw [← h.2]; exact follow_mono D n _ _ _ _ _ hf

theorem followK_correct {E D : Disk} {n : Nat} {o ln tg st1 r st'}
    (ih : ∀ st o e r st', Correct E st → follow D n st o e = .ok (r, st') → AgreeOn st' D E →
      Correct E st' ∧ Keeps st st' ∧ ValIn st' r.2)
    (hc : Correct E st1) (hin : TargetIn st1 tg)
    (h : followK D n o ln (.ok (tg, st1)) = .ok (r, st')) (hag : AgreeOn st' D E) :
    Correct E st' ∧ Keeps st1 st' ∧ ValIn st' r.2 := by
  cases tg with
  | none =>
    simp only [followK, Except.ok.injEq, Prod.mk.injEq] at h
    obtain ⟨h1, h2⟩ := h; subst h1; subst h2
    exact ⟨hc, Keeps.refl _, trivial⟩
  | some tg =>
    cases tg with
    | module k =>
      simp only [followK, Except.ok.injEq, Prod.mk.injEq] at h
      obtain ⟨h1, h2⟩ := h; subst h1; subst h2
      exact ⟨hc, Keeps.refl _, hin⟩
    | entry k e =>
      simp only [followK] at h
      cases hf : follow D n st1 (some k) e with
      | error e => rw [hf] at h; cases h
      | ok q =>
        obtain ⟨⟨tr, v⟩, st2⟩ := q
        rw [hf] at h; simp only [Except.ok.injEq, Prod.mk.injEq] at h
        obtain ⟨h1, h2⟩ := h; subst h1; subst h2
        obtain ⟨a1, a2, a3⟩ := ih _ _ _ _ _ hc hf hag
        exact ⟨a1, a2, a3⟩

theorem follow_correct {E D : Disk} : ∀ n st o e r st', Correct E st →
    follow D n st o e = .ok (r, st') →
    AgreeOn st' D E → Correct E st' ∧ Keeps st st' ∧ ValIn st' r.2 := by
  intro n
  induction n with
  | zero => intro st o e r st' _ h; simp [follow] at h
  | succ n ih =>
    intro st o e r st' hc h hag
    cases e with
    | own x ln p =>
      simp only [follow, Except.ok.injEq, Prod.mk.injEq] at h
      obtain ⟨h1, h2⟩ := h; subst h1; subst h2
      exact ⟨hc, Keeps.refl _, trivial⟩
    | imp x ln m mn =>
      rw [follow_imp] at h
      cases hr : resolve D n st o (.imp x ln m mn) m mn with
      | error e => rw [hr] at h; cases h
      | ok p =>
        obtain ⟨tg, st1⟩ := p
        rw [hr] at h
        obtain ⟨hc1, hk1, _, hin⟩ := resolve_correct hc hr (hag.mono (followK_mono h))
        obtain ⟨hc2, hk2, hv⟩ := followK_correct ih hc1 hin h hag
        exact ⟨hc2, hk1.trans hk2, hv⟩
    | rimp x ln up m mn =>
      rw [follow_rimp] at h
      cases hr : resolveR D n st o (.rimp x ln up m mn) up m mn with
      | error e => rw [hr] at h; cases h
      | ok p =>
        obtain ⟨tg, st1⟩ := p
        rw [hr] at h
        obtain ⟨hc1, hk1, _, hin⟩ := resolveR_correct hc hr (hag.mono (followK_mono h))
        obtain ⟨hc2, hk2, hv⟩ := followK_correct ih hc1 hin h hag
        exact ⟨hc2, hk1.trans hk2, hv⟩

theorem agreeOn_refl (st : St) (D : Disk) : AgreeOn st D D := ⟨fun _ _ => rfl, fun _ _ _ => rfl⟩

theorem followK_agree {D : Disk} {n1 n2 : Nat} {o ln tg t1 t2 r1 r2 s1 s2}
    (ih : ∀ n2 st1 st2 o e r1 r2 s1 s2, Correct D st1 → Correct D st2 →
      follow D n1 st1 o e = .ok (r1, s1) → follow D n2 st2 o e = .ok (r2, s2) → r1 = r2)
    (hc1 : Correct D t1) (hc2 : Correct D t2)
    (h1 : followK D n1 o ln (.ok (tg, t1)) = .ok (r1, s1))
    (h2 : followK D n2 o ln (.ok (tg, t2)) = .ok (r2, s2)) : r1 = r2 := by
  cases tg with
  | none =>
    simp only [followK, Except.ok.injEq, Prod.mk.injEq] at h1 h2
    rw [← h1.1, ← h2.1]
  | some tg =>
    cases tg with
    | module k =>
      simp only [followK, Except.ok.injEq, Prod.mk.injEq] at h1 h2
      rw [← h1.1, ← h2.1]
    | entry k e' =>
      simp only [followK] at h1 h2
      cases hf1 : follow D n1 t1 (some k) e' with
      | error e => rw [hf1] at h1; cases h1
      | ok q1 =>
        cases hf2 : follow D n2 t2 (some k) e' with
        | error e => rw [hf2] at h2; cases h2
        | ok q2 =>
          obtain ⟨⟨tr1, v1⟩, u1⟩ := q1
          obtain ⟨⟨tr2, v2⟩, u2⟩ := q2
          rw [hf1] at h1; rw [hf2] at h2
          simp only [Except.ok.injEq, Prod.mk.injEq] at h1 h2
          have := ih _ _ _ _ _ _ _ _ _ hc1 hc2 hf1 hf2
          simp only [Prod.mk.injEq] at this
          rw [← h1.1, ← h2.1, this.1, this.2]

/-- two runs from correct states follow the same chain -/
theorem follow_agree {D : Disk} : ∀ n1 n2 st1 st2 o e r1 r2 s1 s2, Correct D st1 →
    Correct D st2 →
    follow D n1 st1 o e = .ok (r1, s1) → follow D n2 st2 o e = .ok (r2, s2) → r1 = r2 := by
  intro n1
  induction n1 with
  | zero => intro n2 st1 st2 o e r1 r2 s1 s2 _ _ h; simp [follow] at h
  | succ n1 ih =>
    intro n2 st1 st2 o e r1 r2 s1 s2 hc1 hc2 h1 h2
    cases n2 with
    | zero => simp [follow] at h2
    | succ n2 =>
      cases e with
      | own x ln p =>
        simp only [follow, Except.ok.injEq, Prod.mk.injEq] at h1 h2
        rw [← h1.1, ← h2.1]
      | imp x ln m mn =>
        rw [follow_imp] at h1 h2
        cases hr1 : resolve D n1 st1 o (.imp x ln m mn) m mn with
        | error e => rw [hr1] at h1; cases h1
        | ok p1 =>
          cases hr2 : resolve D n2 st2 o (.imp x ln m mn) m mn with
          | error e => rw [hr2] at h2; cases h2
          | ok p2 =>
            obtain ⟨tg1, t1⟩ := p1
            obtain ⟨tg2, t2⟩ := p2
            rw [hr1] at h1; rw [hr2] at h2
            obtain ⟨hc1', _, hev1, _⟩ := resolve_correct hc1 hr1 (agreeOn_refl _ _)
            obtain ⟨hc2', _, hev2, _⟩ := resolve_correct hc2 hr2 (agreeOn_refl _ _)
            have : tg1 = tg2 := hev1.unique hev2
            subst this
            exact followK_agree ih hc1' hc2' h1 h2
      | rimp x ln up m mn =>
        rw [follow_rimp] at h1 h2
        cases hr1 : resolveR D n1 st1 o (.rimp x ln up m mn) up m mn with
        | error e => rw [hr1] at h1; cases h1
        | ok p1 =>
          cases hr2 : resolveR D n2 st2 o (.rimp x ln up m mn) up m mn with
          | error e => rw [hr2] at h2; cases h2
          | ok p2 =>
            obtain ⟨tg1, t1⟩ := p1
            obtain ⟨tg2, t2⟩ := p2
            rw [hr1] at h1; rw [hr2] at h2
            obtain ⟨hc1', _, hev1, _⟩ := resolveR_correct hc1 hr1 (agreeOn_refl _ _)
            obtain ⟨hc2', _, hev2, _⟩ := resolveR_correct hc2 hr2 (agreeOn_refl _ _)
            have : tg1 = tg2 := hev1.unique hev2
            subst this
            exact followK_agree ih hc1' hc2' h1 h2

end SuppModel.Proj
