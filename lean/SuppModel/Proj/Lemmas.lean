/- Proj: `check_changes`, one request, whole histories — the invariant behind C09. -/
import SuppModel.Proj.Lemmas5

namespace SuppModel.Proj

/-- the state is correct for every disk that has the same files wherever the state has looked -/
def Good (D : Disk) (st : St) : Prop := ∀ E, AgreeOn st D E → Correct E st

theorem good_empty (D : Disk) : Good D St.empty := fun E _ => correct_empty E

theorem good_cleared (D : Disk) (st : St) (h : st.lt = false) (h2 : st.legacyNorm = false) :
    Good D st.clearedAll :=
  fun E _ => correct_of_nil E _ rfl rfl rfl h rfl h2

/-- on two disks, a file with the same name and the same mtime is the same file -/
def SameByMtime (R D : Disk) : Prop :=
  ∀ m f f', get D m = some f → get R m = some f' → f.mtime = f'.mtime → f = f'

theorem get_mem {α} : ∀ (l : List (Mod × α)) (m : Mod) (v : α), get l m = some v → (m, v) ∈ l
  | [], _, _, h => by cases h
  | (k, v') :: r, m, v, h => by
    simp only [get_cons] at h
    by_cases hk : k = m
    · subst hk; simp only [if_true, Option.some.injEq] at h; subst h; exact List.mem_cons_self
    · simp only [hk, if_false] at h; exact List.mem_cons_of_mem _ (get_mem r m v h)

/-- every (file, mtime) pair of the disk has been recorded -/
def SeenIn (D : Disk) (seen : List (Mod × Nat)) : Prop := ∀ m f, get D m = some f → (m, f.mtime) ∈ seen

theorem seenIn_seenOf (D : Disk) : SeenIn D (seenOf D) := by
  intro m f hg
  have := get_mem D m f hg
  simp only [seenOf, List.mem_map]
  exact ⟨(m, f), this, rfl⟩

theorem SeenIn.cons {D : Disk} {seen} (h : SeenIn D seen) (p : Mod × Nat) : SeenIn D (p :: seen) :=
  fun m f hg => List.mem_cons_of_mem _ (h m f hg)

/-- what holds of the world between any two operations of a history; `seen` = the (file, mtime) pairs so far -/
structure Inv (w : World) (seen : List (Mod × Nat)) : Prop where
  ref : ∃ R, Good R w.st ∧ SameByMtime R w.disk ∧ SeenIn R seen
  cur : SeenIn w.disk seen

theorem init_current (D : Disk) : World.init .current D = ⟨D, St.empty⟩ := rfl

theorem inv_init (D : Disk) : Inv (World.init .current D) (seenOf D) := by
  rw [init_current]
  exact ⟨⟨D, good_empty D, fun m f f' h1 h2 _ => by
    have h1' : get D m = some f := h1
    rw [h1'] at h2; exact Option.some.inj h2, seenIn_seenOf D⟩, seenIn_seenOf D⟩

theorem inv_write {w : World} {seen} (hi : Inv w seen) (m : Mod) (t : Nat) (src : Src)
    (hfresh : (m, t) ∉ seen) :
    Inv { w with disk := (m, ⟨t, src⟩) :: w.disk } ((m, t) :: seen) := by
  obtain ⟨⟨R, hg, hs, hR⟩, hD⟩ := hi
  refine ⟨⟨R, hg, ?_, hR.cons _⟩, ?_⟩
  · intro k f f' h1 h2 hmt
    simp only [get_cons] at h1
    by_cases hk : m = k
    · subst hk
      simp only [if_true, Option.some.injEq] at h1
      have := hR m f' h2
      rw [← hmt, ← h1] at this
      exact absurd this hfresh
    · simp only [hk, if_false] at h1; exact hs k f f' h1 h2 hmt
  · intro k f hk
    simp only [get_cons] at hk
    by_cases hmk : m = k
    · simp only [hmk, if_true, Option.some.injEq] at hk; rw [← hk, hmk]; exact List.mem_cons_self
    · simp only [hmk, if_false] at hk; exact List.mem_cons_of_mem _ (hD k f hk)

theorem anyChanged_false {D : Disk} {st : St} (h : anyChanged D st = false) (hlt : st.lt = false) {m : Mod}
    {c : Cached} (hg : get st.mcache m = some c) : stat D m = some c.mtime := by
  have hm := get_mem _ _ _ hg
  simp only [anyChanged, List.any_eq_false] at h
  have := h _ hm
  simp only [hlt, changedB] at this
  cases hs : stat D m with
  | none => simp [hs] at this
  | some t => simp [hs] at this; rw [this]

theorem getModule_false {D : Disk} {st : St} {m : Mod} {s : St} (h : getModule D st m = (false, s))
    (hch : anyChanged D st = false) (hlt : st.lt = false) : s = addMissing st m ∧ get D m = none := by
  unfold getModule at h
  by_cases hctx : m ∈ st.ctx
  · simp [hctx] at h
  · simp only [hctx, if_false] at h
    cases hg : get st.mcache m with
    | some c =>
      rw [hg] at h; dsimp only at h
      rw [if_neg (by simp [anyChanged_false hch hlt hg, changedB, hlt])] at h
      simp at h
    | none =>
      rw [hg] at h; dsimp only at h
      unfold load at h
      cases hd : get D m with
      | none => rw [hd] at h; simp only [Prod.mk.injEq, true_and] at h; exact ⟨h.symm, rfl⟩
      | some f => rw [hd] at h; simp at h

theorem appeared_false {D : Disk} : ∀ (l : List Mod) (st s : St), appeared D l st = (false, s) →
    anyChanged D st = false → st.lt = false →
    s.mcache = st.mcache ∧ s.ctx = st.ctx ∧ (∀ k, k ∈ l → get D k = none) ∧
    (∀ k, k ∈ st.missing → k ∈ s.missing) ∧ (∀ k, k ∈ s.missing → k ∈ st.missing ∨ k ∈ l) := by
  intro l
  induction l with
  | nil =>
    intro st s h _ _
    simp only [appeared, Prod.mk.injEq, true_and] at h
    subst h
    exact ⟨rfl, rfl, by simp, fun _ h => h, fun _ h => Or.inl h⟩
  | cons m rest ih =>
    intro st s h hch hlt
    simp only [appeared] at h
    rcases hgm : getModule D { st with missing := st.missing.filter (· ≠ m) } m with ⟨b, st1⟩
    rw [hgm] at h
    cases b with
    | true => simp at h
    | false =>
      dsimp only at h
      obtain ⟨hst1, hno⟩ := getModule_false hgm (by simpa [anyChanged] using hch) hlt
      have hch1 : anyChanged D st1 = false := by rw [hst1]; simpa [anyChanged] using hch
      obtain ⟨h1, h2, h3, h4, h5⟩ := ih st1 s h hch1 (by rw [hst1]; simpa using hlt)
      refine ⟨by rw [h1, hst1]; simp, by rw [h2, hst1]; simp, ?_, ?_, ?_⟩
      · intro k hk
        rcases List.mem_cons.1 hk with rfl | hk
        · exact hno
        · exact h3 k hk
      · intro k hk
        apply h4
        rw [hst1, mem_addMissing]
        by_cases hkm : k = m
        · exact Or.inl hkm
        · exact Or.inr (by simp [hk, hkm])
      · intro k hk
        rcases h5 k hk with h | h
        · rw [hst1, mem_addMissing] at h
          rcases h with rfl | h
          · exact Or.inr List.mem_cons_self
          · simp only [List.mem_filter] at h; exact Or.inl h.1
        · exact Or.inr (List.mem_cons_of_mem _ h)

theorem getModule_knobs (D : Disk) (st : St) (m : Mod) :
    (getModule D st m).2.lt = st.lt ∧ (getModule D st m).2.legacyNorm = st.legacyNorm := by
  unfold getModule
  split
  · exact ⟨rfl, rfl⟩
  · split
    · split
      · unfold load; split <;> simp
      · exact ⟨rfl, rfl⟩
    · unfold load; split <;> simp

theorem appeared_knobs {D : Disk} : ∀ (l : List Mod) (st s : St) {b : Bool}, appeared D l st = (b, s) →
    s.lt = st.lt ∧ s.legacyNorm = st.legacyNorm ∧ s.norm = st.norm := by
  intro l
  induction l with
  | nil => intro st s b h; simp only [appeared, Prod.mk.injEq] at h; rw [← h.2]; exact ⟨rfl, rfl, rfl⟩
  | cons m rest ih =>
    intro st s b h
    simp only [appeared] at h
    have hl := getModule_knobs D { st with missing := st.missing.filter (· ≠ m) } m
    have hn := getModule_norm D { st with missing := st.missing.filter (· ≠ m) } m
    rcases hgm : getModule D { st with missing := st.missing.filter (· ≠ m) } m with ⟨b1, st1⟩
    rw [hgm] at h hl hn
    cases b1 with
    | true => simp only [Prod.mk.injEq] at h; rw [← h.2]; exact ⟨hl.1, hl.2, hn⟩
    | false =>
      dsimp only at h
      obtain ⟨i1, i2, i3⟩ := ih _ _ h
      exact ⟨i1.trans hl.1, i2.trans hl.2, i3.trans hn⟩

theorem lookup_mem : ∀ (c : Norm.Cache) (root : Norm.Dir) (ps : List Nat),
    Norm.lookup c root = some ps → (root, ps) ∈ c
  | [], _, _, h => by cases h
  | (k, v) :: r, root, ps, h => by
    rw [lookup_cons] at h
    by_cases hk : k = root
    · rw [if_pos hk] at h; simp only [Option.some.injEq] at h; rw [← hk, ← h]; exact List.mem_cons_self
    · rw [if_neg hk] at h; exact List.mem_cons_of_mem _ (lookup_mem r root ps h)

theorem correct_ctx_nil {E : Disk} {st : St} (h : Correct E st) : Correct E { st with ctx := [] } :=
  ⟨h.valid, h.miss, by simp, h.table, h.refs, h.modIn, h.refsR, h.norm, h.mode, h.mode2⟩

/-- entering `check_changes` makes the state good for the disk as it is now -/
theorem checkChanges_good {R D : Disk} {st : St} (hg : Good R st) (hs : SameByMtime R D) :
    Good D (checkChanges .current D st) := by
  have hcR : Correct R st := hg R (agreeOn_refl _ _)
  have hlt : st.lt = false := hcR.mode
  have hlg : st.legacyNorm = false := hcR.mode2
  simp only [checkChanges, checkNow]
  cases hch : anyChanged D { st with ctx := [] } with
  | true => simp only [if_true]; exact good_cleared D _ hlt hlg
  | false =>
    simp only [Bool.false_eq_true, if_false]
    rcases hap : appeared D st.missing { st with ctx := [] } with ⟨b, s⟩
    obtain ⟨k1, k2, k3⟩ := appeared_knobs _ _ _ hap
    cases b with
    | true => exact good_cleared D _ hlt hlg
    | false =>
      dsimp only
      cases hrn : renormed D s with
      | true => simp only [if_true]; exact good_cleared D _ (k1.trans hlt) (k2.trans hlg)
      | false =>
        simp only [Bool.false_eq_true, if_false]
        obtain ⟨h1, h2, h3, h4, h5⟩ := appeared_false _ _ _ hap hch hlt
        -- the reference disk and the present disk agree on the footprint
        have hRD : ∀ m, foot st m → get D m = get R m := by
          intro m hf
          rcases hf with hf | hf
          · cases hgm : get st.mcache m with
            | none => simp [hgm] at hf
            | some c =>
              obtain ⟨f', hf', hmt⟩ := hcR.valid m c hgm
              have hst := anyChanged_false hch hlt (m := m) (c := c) hgm
              unfold stat at hst
              cases hd : get D m with
              | none => simp [hd] at hst
              | some f =>
                rw [hd] at hst; simp only [Option.map_some, Option.some.injEq] at hst
                rw [hf', hs m f f' hd hf' (by rw [hst, hmt])]
          · rw [h3 m hf, hcR.miss m hf]
        -- and no cached directory has another package path now
        have hPD : ∀ root ps, Norm.lookup st.norm root = some ps → pParts D root = pParts R root := by
          intro root ps hl
          have hmem := lookup_mem _ _ _ hl
          have hk3 : s.norm = st.norm := k3
          simp only [renormed, List.any_eq_false, hk3] at hrn
          have := hrn _ hmem
          simp only [bne_iff_ne, ne_eq, Decidable.not_not] at this
          rw [← hcR.norm root ps hl]; exact this
        intro E hag
        have hfoot : ∀ m, foot st m → foot s m := by
          intro m hf
          rcases hf with hf | hf
          · left; rw [h1]; exact hf
          · right; exact h4 m hf
        have hk3 : s.norm = st.norm := k3
        have hagR : AgreeOn st R E :=
          ⟨fun m hf => by rw [hag.files m (hfoot m hf), hRD m hf],
           fun root ps hl => by rw [hag.parts root ps (by rw [hk3]; exact hl), hPD root ps hl]⟩
        have hcE : Correct E st := hg E hagR
        refine ⟨?_, ?_, ?_, ?_, ?_, ?_, ?_, ?_, k1.trans hlt, k2.trans hlg⟩
        · rw [h1]; exact hcE.valid
        · intro k hk
          rw [hag.files k (Or.inr hk)]
          rcases h5 k hk with h | h <;> exact h3 k h
        · rw [h2]; simp
        · rw [h1]; exact hcE.table
        · rw [h1]; exact hcE.refs
        · rw [h1]; exact hcE.modIn
        · rw [h1]; exact hcE.refsR
        · rw [hk3]; exact hcE.norm

theorem checkChanges_empty (D : Disk) : checkChanges .current D St.empty = St.empty := by
  simp [checkChanges, checkNow, anyChanged, appeared, renormed, St.empty]

theorem fresh_eq (fuel : Nat) (D : Disk) (q : Query) :
    fresh fuel D q = match runQuery D fuel St.empty q with
      | .ok r => r.1
      | .error _ => .recursion := by
  simp only [fresh, request, checkChanges_empty]
  cases runQuery D fuel St.empty q <;> rfl

/-- one request on a good-after-`check_changes` world: the new state is good for the disk, and the answer
    is the fresh project's unless one of the two ran into the recursion limit -/
theorem request_spec {R D : Disk} {st : St} (fuel : Nat) (q : Query) (hg : Good R st) (hs : SameByMtime R D) :
    Good D (request .current fuel D st q).2 ∧
    ((request .current fuel D st q).1 ≠ .recursion → fresh fuel D q ≠ .recursion →
      (request .current fuel D st q).1 = fresh fuel D q) := by
  have hg0 := checkChanges_good hg hs
  simp only [request]
  cases hrq : runQuery D fuel (checkChanges .current D st) q with
  | error e => exact ⟨hg0, fun h => absurd rfl h⟩
  | ok r =>
    obtain ⟨a, st'⟩ := r
    refine ⟨fun E hag => runQuery_correct (hg0 E (hag.mono (runQuery_mono hrq))) hrq hag, fun _ hf => ?_⟩
    rw [fresh_eq] at hf ⊢
    cases hfr : runQuery D fuel St.empty q with
    | error e => rw [hfr] at hf; exact absurd rfl hf
    | ok r' =>
      exact runQuery_agree (hg0 D (agreeOn_refl _ _)) (correct_empty D) hrq hfr

theorem sameByMtime_refl (D : Disk) : SameByMtime D D :=
  fun m f f' h1 h2 _ => by rw [h1] at h2; exact Option.some.inj h2

theorem inv_request {fuel : Nat} {w : World} {seen} (hi : Inv w seen) (q : Query) :
    Inv (step .current fuel w (.request q)).1 seen := by
  obtain ⟨⟨R, hg, hs, hR⟩, hD⟩ := hi
  exact ⟨⟨w.disk, (request_spec fuel q hg hs).1, sameByMtime_refl _, hD⟩, hD⟩

theorem inv_skip {w : World} {seen} (hi : Inv w seen) (p : Mod × Nat) : Inv w (p :: seen) :=
  ⟨by obtain ⟨R, h1, h2, h3⟩ := hi.ref; exact ⟨R, h1, h2, h3.cons _⟩, hi.cur.cons _⟩

/-- every request of a history is answered like a fresh project on the disk of that moment -/
theorem run_transparent {fuel : Nat} : ∀ (ops : List Op) {w : World} {seen}, Inv w seen →
    freshMtimes seen ops = true →
    ∀ r, r ∈ run .current fuel w ops → r.2.2 ≠ .recursion → fresh fuel r.1 r.2.1 ≠ .recursion →
      r.2.2 = fresh fuel r.1 r.2.1
  | [], _, _, _, _, r, hr => by simp [run] at hr
  | op :: ops, w, seen, hi, hfr, r, hr => by
    cases op with
    | write m t src =>
      simp only [freshMtimes, Bool.and_eq_true, Bool.not_eq_true', List.contains_eq_mem,
        decide_eq_false_iff_not] at hfr
      simp only [run, step] at hr
      exact run_transparent ops (inv_write hi m t src hfr.1) hfr.2 r hr
    | touch m t =>
      simp only [freshMtimes, Bool.and_eq_true, Bool.not_eq_true', List.contains_eq_mem,
        decide_eq_false_iff_not] at hfr
      simp only [run, step] at hr
      cases hg : get w.disk m with
      | none => rw [hg] at hr; exact run_transparent ops (inv_skip hi _) hfr.2 r hr
      | some f => rw [hg] at hr; exact run_transparent ops (inv_write hi m t f.src hfr.1) hfr.2 r hr
    | request q =>
      simp only [freshMtimes] at hfr
      simp only [run, step] at hr
      rcases List.mem_cons.1 hr with rfl | hr
      · obtain ⟨⟨R, hg, hs, _⟩, _⟩ := hi
        exact (request_spec fuel q hg hs).2
      · exact run_transparent ops (inv_request (fuel := fuel) hi q) hfr r hr

/-- the invariant holds after any history with fresh mtimes -/
theorem inv_exec {fuel : Nat} : ∀ (ops : List Op) {w : World} {seen}, Inv w seen →
    freshMtimes seen ops = true → ∃ seen', Inv (exec .current fuel w ops) seen'
  | [], _, seen, hi, _ => ⟨seen, hi⟩
  | op :: ops, w, seen, hi, hfr => by
    cases op with
    | write m t src =>
      simp only [freshMtimes, Bool.and_eq_true, Bool.not_eq_true', List.contains_eq_mem,
        decide_eq_false_iff_not] at hfr
      exact inv_exec ops (inv_write hi m t src hfr.1) hfr.2
    | touch m t =>
      simp only [freshMtimes, Bool.and_eq_true, Bool.not_eq_true', List.contains_eq_mem,
        decide_eq_false_iff_not] at hfr
      simp only [exec, step]
      cases hg : get w.disk m with
      | none => exact inv_exec ops (inv_skip hi _) hfr.2
      | some f => exact inv_exec ops (inv_write hi m t f.src hfr.1) hfr.2
    | request q =>
      simp only [freshMtimes] at hfr
      exact inv_exec ops (inv_request (fuel := fuel) hi q) hfr

end SuppModel.Proj
