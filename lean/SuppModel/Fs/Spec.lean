/-
  Fs family — the SPECIFICATION side of C07, written from the documented behaviour of the
  import system (language reference "The import system", importlib.machinery.PathFinder /
  FileFinder, importlib.util.resolve_name, pkgutil.iter_modules) — not from project.py.
  It shares with the model only the file-system parameter `Fs` and the string helpers.
-/
import SuppModel.Fs.Model

namespace SuppModel.Fs

/-! ## PathFinder / FileFinder -/

/-- what a path-entry finder answers for one name -/
inductive FinderRes where
  | spec (file : Path) (pkgDir : Option Path)   -- regular package (`pkgDir = some dir`) or module file
  | portion (dir : Path)                         -- a directory without `__init__`: PEP 420 namespace portion
  | nothing
  deriving DecidableEq, Repr

def FinderRes.isHit : FinderRes → Bool
  | .spec _ _ => true
  | _ => false

/-- `FileFinder(entry).find_spec(tail)`; `lsfx` = the loaders' suffixes in FileFinder order
    (extension, source, bytecode).  A directory `tail/` holding `__init__<suffix>` is a regular package
    and wins over module files `tail<suffix>`; a directory without it is remembered as a namespace portion. -/
def finder (lsfx : List Str) (fs : Fs) (entry : Path) (tail : Str) : FinderRes :=
  let base := entry ++ [tail]
  let modFile := lsfx.find? (fun s => fs.isFile (entry ++ [tail ++ s]))
  if fs.isDir base then
    match lsfx.find? (fun s => fs.isFile (base ++ [INIT ++ s])) with
    | some s => .spec (base ++ [INIT ++ s]) (some base)
    | none =>
      match modFile with
      | some s => .spec (entry ++ [tail ++ s]) none
      | none => .portion base
  else
    match modFile with
    | some s => .spec (entry ++ [tail ++ s]) none
    | none => .nothing

/-- where a module lives -/
inductive Loc where
  | file (f : Path) (pkgDir : Option Path)
  | ns (portions : List Path)
  deriving DecidableEq, Repr

def Loc.file? : Loc → Option Path
  | .file f _ => some f
  | .ns _ => none

/-- `PathFinder.find_spec(name, entries)`: entries in order, first real spec wins;
    only when none is found do the collected portions make a namespace package -/
def pathFind (lsfx : List Str) (fs : Fs) : List Path → Str → List Path → Option Loc
  | [], _, acc => if acc = [] then none else some (.ns acc.reverse)
  | e :: es, tail, acc =>
    match finder lsfx fs e tail with
    | .spec f d => some (.file f d)
    | .portion d => pathFind lsfx fs es tail (d :: acc)
    | .nothing => pathFind lsfx fs es tail acc

/-- `importlib.util.find_spec` for a dotted name given by its components, left to right: the first
    component over the path entries, each further component only in the parent package's `__path__`;
    a parent that is not a package has no sub-modules -/
def importlibFindC (lsfx : List Str) (fs : Fs) : List Path → List Str → Option Loc
  | _, [] => none
  | entries, [c] => pathFind lsfx fs entries c []
  | entries, c :: c' :: rest =>
    match pathFind lsfx fs entries c [] with
    | some (.file _ (some d)) => importlibFindC lsfx fs [d] (c' :: rest)
    | some (.ns ps) => importlibFindC lsfx fs ps (c' :: rest)
    | _ => none

def importlibFind (lsfx : List Str) (fs : Fs) (roots : List Path) (name : Str) : Option Loc :=
  importlibFindC lsfx fs roots (splitOn DOT name)

/-! ## importlib.util.resolve_name -/

/-- `resolve_name(rel, package)`, the package given by its dotted components ('' = []) -/
def resolveName (rel : Str) (pkg : List Str) : Except PyErr Str :=
  if rel.head? ≠ some DOT then .ok rel
  else if pkg = [] then .error .importError          -- no known parent package
  else
    let level := leadingDots rel
    let name := rel.drop level
    if pkg.length < level then .error .importError    -- beyond top-level package
    else
      let base := joinOn DOT (pkg.take (pkg.length - (level - 1)))
      .ok (if name = [] then base else base ++ DOT :: name)

/-! ## the package of a file: the dotted chain of `__init__.py` ancestors -/

def isPkgDir (fs : Fs) (d : Path) : Bool := fs.exists (d ++ [INIT_PY])

/-- `dir = top ++ pkg` where every `top/pkg[0]/../pkg[k]` is a package directory -/
def pkgChainOK (fs : Fs) (top : Path) (pkg : List Str) : Bool :=
  (List.range pkg.length).all (fun k => isPkgDir fs (top ++ pkg.take (k + 1)))

/-- neither `top` nor any directory above it (below '/') is a package directory -/
def noInitUpTo (fs : Fs) (top : Path) : Bool :=
  (List.range top.length).all (fun k => !isPkgDir fs (top.take (k + 1)))

/-- executable version for the driver: the longest chain ending at `dir` (reversed path) -/
def packageOfRev (fs : Fs) : List Str → List Str
  | [] => []
  | b :: up => if isPkgDir fs (b :: up).reverse then b :: packageOfRev fs up else []
def packageOf (fs : Fs) (dir : Path) : List Str := (packageOfRev fs dir.reverse).reverse

/-! ## pkgutil.iter_modules -/

/-- `n` is yielded by `pkgutil.iter_modules([dir])`: a '.'-free name other than `__init__` backed by a
    file `n<suffix>` or by a sub-directory holding `__init__<suffix>` -/
def enumerable (lsfx : List Str) (fs : Fs) (dir : Path) (n : Str) : Bool :=
  n != [] && !n.contains DOT && n != INIT &&
  (lsfx.any (fun s => fs.exists (dir ++ [n ++ s])) ||
   lsfx.any (fun s => fs.exists (dir ++ [n, INIT ++ s])))

/-! ## the domain of C07 as decidable predicates on (roots, fs, name) -/

/-- run `P dir leaf` at the directory that holds the last component -/
def atLeaf (P : Path → Str → Bool) : Path → List Str → Bool
  | _, [] => true
  | d, [c] => P d c
  | d, c :: c' :: rest => atLeaf P (d ++ [c]) (c' :: rest)

/-- no PEP 420 namespace directory on the chain `d/c1/../cn` -/
def nsFreeChain (fs : Fs) : Path → List Str → Bool
  | _, [] => true
  | d, c :: rest => (!fs.isDir (d ++ [c]) || fs.isFile (d ++ [c, INIT_PY])) && nsFreeChain fs (d ++ [c]) rest

def NoNamespaceDirs (roots : List Path) (fs : Fs) (comps : List Str) : Bool :=
  roots.all (fun r => nsFreeChain fs r comps)

/-- no module FILE `c<suffix>` next to a package DIRECTORY `c/__init__.py` in directory `d` -/
def pkgClashFreeAt (sfx : List Str) (fs : Fs) (d : Path) (c : Str) : Bool :=
  !(fs.exists (d ++ [c, INIT_PY]) && sfx.any (fun s => fs.exists (d ++ [c ++ s])))

def NoModulePackageClash (roots : List Path) (sfx : List Str) (fs : Fs) (comps : List Str) : Bool :=
  roots.all (fun r => atLeaf (pkgClashFreeAt sfx fs) r comps)

/-- no extension-suffix file `c<ext>` next to a source/bytecode file `c<nonext>` in directory `d`
    (`nonext` = source + bytecode suffixes, `ext` = extension suffixes): the recorded finding
    C07-extension-next-to-source is exactly the negation of this -/
def extFreeAt (nonext ext : List Str) (fs : Fs) (d : Path) (c : Str) : Bool :=
  !(nonext.any (fun s => fs.exists (d ++ [c ++ s])) && ext.any (fun s => fs.exists (d ++ [c ++ s])))

def NoExtensionNextToSource (roots : List Path) (nonext ext : List Str) (fs : Fs) (comps : List Str) : Bool :=
  roots.all (fun r => atLeaf (extFreeAt nonext ext fs) r comps)

/-- what the proof needs from the previous predicate: supp's suffix order and FileFinder's order select
    the same module file of `c` in `d` -/
def sameChoiceAt (sfx lsfx : List Str) (fs : Fs) (d : Path) (c : Str) : Bool :=
  sfx.find? (fun s => fs.exists (d ++ [c ++ s])) == lsfx.find? (fun s => fs.exists (d ++ [c ++ s]))

def SameChoice (roots : List Path) (sfx lsfx : List Str) (fs : Fs) (comps : List Str) : Bool :=
  roots.all (fun r => atLeaf (sameChoiceAt sfx lsfx fs) r comps)

/-- the candidates are regular files (no directory called `c.py`) and a leaf package is a SOURCE package
    (no `__init__.so` / `__init__.pyc`, which importlib would prefer to / accept without `__init__.py`) -/
def regularAt (sfx : List Str) (fs : Fs) (d : Path) (c : Str) : Bool :=
  sfx.all (fun s => !fs.isDir (d ++ [c ++ s])) &&
  sfx.all (fun s => s == PY || !fs.isFile (d ++ [c, INIT ++ s]))

def Regular (roots : List Path) (sfx : List Str) (fs : Fs) (comps : List Str) : Bool :=
  roots.all (fun r => atLeaf (regularAt sfx fs) r comps)

/-- the split-package class: importlib finds the first component (hence the whole parent chain) in a root
    where the full dotted path is absent, while supp finds the full path in a LATER root -/
def noSplitAux (sfx src lsfx : List Str) (fs : Fs) (comps : List Str) (c1 : Str) : List Path → Bool
  | [] => true
  | r :: rs =>
    if (findIn sfx src fs (r ++ comps)).isSome then true
    else if (finder lsfx fs r c1).isHit then rs.all (fun r' => (findIn sfx src fs (r' ++ comps)).isNone)
    else noSplitAux sfx src lsfx fs comps c1 rs

def NoSplitPackage (roots : List Path) (sfx src lsfx : List Str) (fs : Fs) (comps : List Str) : Bool :=
  match comps with
  | c1 :: _ :: _ => noSplitAux sfx src lsfx fs comps c1 roots
  | _ => true

/-- the two suffix lists (supp's order, importlib's order) have the same members, and `.py` is one -/
def SameSuffixes (sfx lsfx : List Str) : Bool :=
  sfx.all (fun s => lsfx.contains s) && lsfx.all (fun s => sfx.contains s) && sfx.contains PY

/-- for list_packages: every suffix starts with '.', and no suffix is a proper suffix of a later one
    (so the first `endswith` match strips exactly the module's own suffix) -/
def suffixOrdered : List Str → Bool
  | [] => true
  | s :: rest => s.head? == some DOT && rest.all (fun t => !(s.isSuffixOf t && s != t)) && suffixOrdered rest

end SuppModel.Fs
