/- Fs family: lemmas behind C07_list (list_packages vs pkgutil.iter_modules): list_sup, list_sub, list_sub_importable. -/
import SuppModel.Fs.Spec
namespace SuppModel.Fs

/-- every sub-directory of `dir` that holds some `__init__<suffix>` holds `__init__.py` (source packages) -/
def sourcePkgsAt (lsfx : List Str) (fs : Fs) (dir : Path) : Bool :=
  match fs.listdir dir with
  | none => true
  | some names => names.all (fun n => !lsfx.any (fun s => fs.exists (dir ++ [n, INIT ++ s])) || fs.exists (dir ++ [n, INIT_PY]))

/-! ## file-system facts -/

theorem isDir_iff (fs : Fs) (p : Path) :
    fs.isDir p = true ↔ (∃ d ∈ fs.dirs, p <+: d) ∨ (∃ f ∈ fs.files, p <+: f ∧ p ≠ f) := by
  simp [Fs.isDir, List.any_eq_true, List.isPrefixOf_iff_prefix]

theorem exists_iff (fs : Fs) (p : Path) :
    fs.exists p = true ↔ ∃ q, (q ∈ fs.files ∨ q ∈ fs.dirs) ∧ p <+: q := by
  simp only [Fs.exists, Bool.or_eq_true, isDir_iff, Fs.isFile, List.contains_iff_mem]
  constructor
  · rintro (h | ⟨d, hd, hp⟩ | ⟨f, hf, hp, _⟩)
    · exact ⟨p, Or.inl h, List.prefix_refl p⟩
    · exact ⟨d, Or.inr hd, hp⟩
    · exact ⟨f, Or.inl hf, hp⟩
  · rintro ⟨q, hq | hq, hp⟩
    · by_cases e : p = q
      · subst e; exact Or.inl hq
      · exact Or.inr (Or.inr ⟨q, hq, hp, e⟩)
    · exact Or.inr (Or.inl ⟨q, hq, hp⟩)

theorem prefix_snoc_iff (dir q : Path) (e : Str) :
    (dir ++ [e]) <+: q ↔ dir <+: q ∧ q[dir.length]? = some e := by
  constructor
  · rintro ⟨t, rfl⟩
    refine ⟨⟨[e] ++ t, by simp⟩, ?_⟩
    simp
  · rintro ⟨⟨t, rfl⟩, h⟩
    rw [List.getElem?_append_right (Nat.le_refl _)] at h
    simp at h
    cases t with
    | nil => simp at h
    | cons a t =>
      simp at h; subst h
      exact ⟨t, by simp⟩

theorem isDir_of_exists_append (fs : Fs) (p q : Path) (hq : q ≠ []) (h : fs.exists (p ++ q) = true) :
    fs.isDir p = true := by
  rw [exists_iff] at h
  obtain ⟨w, hw, t, rfl⟩ := h
  rw [isDir_iff]
  rcases hw with hw | hw
  · refine Or.inr ⟨_, hw, ⟨q ++ t, by simp⟩, ?_⟩
    intro e
    have h1 := congrArg List.length e
    simp only [List.length_append] at h1
    have : 0 < q.length := List.length_pos_iff.mpr hq
    omega
  · exact Or.inl ⟨_, hw, ⟨q ++ t, by simp⟩⟩

theorem exists_of_isDir (fs : Fs) (p : Path) (h : fs.isDir p = true) : fs.exists p = true := by
  simp [Fs.exists, h]

theorem mem_listdir_iff (fs : Fs) (dir : Path) (names : List Str) (e : Str)
    (h : fs.listdir dir = some names) : e ∈ names ↔ fs.exists (dir ++ [e]) = true := by
  unfold Fs.listdir at h
  split at h
  · simp only [Option.some.injEq] at h
    subst h
    rw [List.mem_eraseDups, List.mem_filterMap, exists_iff]
    constructor
    · rintro ⟨q, hq, hh⟩
      split at hh
      · rename_i hp
        rw [List.isPrefixOf_iff_prefix] at hp
        exact ⟨q, List.mem_append.mp hq, (prefix_snoc_iff dir q e).mpr ⟨hp, hh⟩⟩
      · simp at hh
    · rintro ⟨q, hq, hp⟩
      have := (prefix_snoc_iff dir q e).mp hp
      refine ⟨q, List.mem_append.mpr hq, ?_⟩
      rw [if_pos (List.isPrefixOf_iff_prefix.mpr this.1)]
      exact this.2
  · simp at h

theorem mem_listdir_of_exists (fs : Fs) (dir : Path) (e : Str) (h : fs.exists (dir ++ [e]) = true) :
    ∃ names, fs.listdir dir = some names ∧ e ∈ names := by
  have hd := isDir_of_exists_append fs dir [e] (by simp) h
  have : ∃ names, fs.listdir dir = some names := by
    unfold Fs.listdir; rw [if_pos hd]; exact ⟨_, rfl⟩
  obtain ⟨names, hn⟩ := this
  exact ⟨names, hn, (mem_listdir_iff fs dir names e hn).mpr h⟩


theorem childOf_some (sfx : List Str) (fs : Fs) (dir : Path) (e n : Str)
    (h : childOf sfx fs dir e = some n) :
    (∃ s ∈ sfx, e = n ++ s) ∨ (n = e ∧ fs.exists (dir ++ [e, INIT_PY]) = true) := by
  induction sfx with
  | nil =>
    unfold childOf at h
    split at h
    · rename_i hx
      simp at h; subst h; exact Or.inr ⟨rfl, hx⟩
    · simp at h
  | cons a rest ih =>
    have lift : ((∃ s ∈ rest, e = n ++ s) ∨ (n = e ∧ fs.exists (dir ++ [e, INIT_PY]) = true)) →
        ((∃ s ∈ a :: rest, e = n ++ s) ∨ (n = e ∧ fs.exists (dir ++ [e, INIT_PY]) = true)) := by
      rintro (⟨s, hs, he⟩ | h2)
      · exact Or.inl ⟨s, List.mem_cons_of_mem _ hs, he⟩
      · exact Or.inr h2
    unfold childOf at h
    split at h
    · rename_i hp
      rw [List.isSuffixOf_iff_suffix] at hp
      obtain ⟨t, rfl⟩ := hp
      simp only [List.length_append, Nat.add_sub_cancel, List.take_left'] at h
      split at h
      · exact lift (ih h)
      · simp at h; subst h; exact Or.inl ⟨a, List.mem_cons_self, rfl⟩
    · exact lift (ih h)

theorem mem_dirChildren (sfx : List Str) (fs : Fs) (dir : Path) (n : Str) :
    n ∈ dirChildren sfx fs dir ↔ ∃ e, fs.exists (dir ++ [e]) = true ∧ childOf sfx fs dir e = some n := by
  unfold dirChildren
  split
  · rename_i hl
    simp only [List.not_mem_nil, false_iff]
    rintro ⟨e, he, _⟩
    obtain ⟨names, hn, _⟩ := mem_listdir_of_exists fs dir e he
    rw [hl] at hn; simp at hn
  · rename_i names hl
    rw [List.mem_filterMap]
    constructor
    · rintro ⟨e, he, hc⟩
      exact ⟨e, (mem_listdir_iff fs dir names e hl).mp he, hc⟩
    · rintro ⟨e, he, hc⟩
      exact ⟨e, (mem_listdir_iff fs dir names e hl).mpr he, hc⟩

theorem mem_listPackages (roots : List Path) (sfx : List Str) (fs : Fs) (sysm : List Str) (root n : Str) :
    n ∈ listPackages roots sfx fs sysm root ↔
      n ∈ sysChildren sysm root ∨ ∃ r ∈ roots, n ∈ dirChildren sfx fs (pkgDirOf r root) := by
  simp only [listPackages, List.mem_append, List.mem_flatMap]

/-- UPPER BOUND, file-system form: a proposal is either derived from sys.modules or backed by a candidate file
    of exactly the kind get_module accepts -/
theorem list_sub (roots : List Path) (sfx : List Str) (fs : Fs) (sysm : List Str) (root n : Str)
    (h : n ∈ listPackages roots sfx fs sysm root) :
    n ∈ sysChildren sysm root ∨
    ∃ r ∈ roots, (∃ s ∈ sfx, fs.exists (pkgDirOf r root ++ [n ++ s]) = true) ∨
                 fs.exists (pkgDirOf r root ++ [n, INIT_PY]) = true := by
  rw [mem_listPackages] at h
  rcases h with h | ⟨r, hr, h⟩
  · exact Or.inl h
  · refine Or.inr ⟨r, hr, ?_⟩
    rw [mem_dirChildren] at h
    obtain ⟨e, he, hc⟩ := h
    rcases childOf_some sfx fs _ e n hc with ⟨s, hs, rfl⟩ | ⟨rfl, hx⟩
    · exact Or.inl ⟨s, hs, he⟩
    · exact Or.inr hx


/-! ## string facts -/

theorem suffixOrdered_head (sfx : List Str) (h : suffixOrdered sfx = true) :
    ∀ s ∈ sfx, s.head? = some DOT := by
  induction sfx with
  | nil => simp
  | cons a rest ih =>
    simp only [suffixOrdered, Bool.and_eq_true, beq_iff_eq] at h
    intro s hs
    rcases List.mem_cons.mp hs with rfl | hs
    · exact h.1.1
    · exact ih h.2 s hs

theorem suffix_of_append_dotfree (n s s0 : Str) (hn : DOT ∉ n) (h0 : s0.head? = some DOT)
    (h : s0 <:+ n ++ s) : s0 <:+ s := by
  induction n with
  | nil => simpa using h
  | cons a n ih =>
    rw [List.cons_append, List.suffix_cons_iff] at h
    rcases h with rfl | h
    · simp at h0; subst h0; simp at hn
    · exact ih (fun hm => hn (List.mem_cons_of_mem _ hm)) h

theorem childOf_file (sfx : List Str) (fs : Fs) (dir : Path) (n s : Str) (ho : suffixOrdered sfx = true)
    (hs : s ∈ sfx) (hn : DOT ∉ n) (hi : n ≠ INIT) : childOf sfx fs dir (n ++ s) = some n := by
  induction sfx with
  | nil => simp at hs
  | cons a rest ih =>
    simp only [suffixOrdered, Bool.and_eq_true, beq_iff_eq, List.all_eq_true] at ho
    obtain ⟨⟨ha, hr⟩, ho'⟩ := ho
    unfold childOf
    split
    · rename_i hsuf
      rw [List.isSuffixOf_iff_suffix] at hsuf
      have h1 := suffix_of_append_dotfree n s a hn ha hsuf
      have has : a = s := by
        rcases List.mem_cons.mp hs with rfl | hs'
        · rfl
        · have := hr s hs'
          rw [List.isSuffixOf_iff_suffix.mpr h1] at this
          simpa using this
      subst has
      simp [hi]
    · rename_i hsuf
      rcases List.mem_cons.mp hs with rfl | hs'
      · exfalso
        have : (s.isSuffixOf (n ++ s)) = true := List.isSuffixOf_iff_suffix.mpr (List.suffix_append n s)
        rw [this] at hsuf; simp at hsuf
      · exact ih ho' hs'

theorem childOf_nomatch (sfx : List Str) (fs : Fs) (dir : Path) (n : Str)
    (hd : ∀ s ∈ sfx, s.head? = some DOT) (hn : DOT ∉ n) :
    childOf sfx fs dir n = if fs.exists (dir ++ [n, INIT_PY]) then some n else none := by
  induction sfx with
  | nil => unfold childOf; rfl
  | cons a rest ih =>
    have hna : a.isSuffixOf n = false := by
      cases hb : a.isSuffixOf n with
      | false => rfl
      | true =>
        exfalso
        rw [List.isSuffixOf_iff_suffix] at hb
        have h0 := hd a List.mem_cons_self
        cases a with
        | nil => simp at h0
        | cons c a' =>
          simp at h0; subst h0
          obtain ⟨t, rfl⟩ := hb
          exact hn (by simp)
    unfold childOf
    rw [hna]
    simp only [Bool.false_eq_true, if_false]
    exact ih (fun s hs => hd s (List.mem_cons_of_mem _ hs))

theorem childOf_pkg (sfx : List Str) (fs : Fs) (dir : Path) (n : Str) (ho : suffixOrdered sfx = true)
    (hn : DOT ∉ n) (hx : fs.exists (dir ++ [n, INIT_PY]) = true) : childOf sfx fs dir n = some n := by
  rw [childOf_nomatch sfx fs dir n (suffixOrdered_head sfx ho) hn, if_pos hx]

/-- LOWER BOUND: every child pkgutil can enumerate in the directory of `root` under any path entry is proposed -/
theorem list_sup (roots : List Path) (sfx lsfx : List Str) (fs : Fs) (sysm : List Str) (root : Str)
    (r : Path) (n : Str)
    (hr : r ∈ roots)
    (hs : SameSuffixes sfx lsfx = true)
    (ho : suffixOrdered sfx = true)
    (hp : sourcePkgsAt lsfx fs (pkgDirOf r root) = true)
    (he : enumerable lsfx fs (pkgDirOf r root) n = true) :
    n ∈ listPackages roots sfx fs sysm root := by
  rw [mem_listPackages]
  refine Or.inr ⟨r, hr, ?_⟩
  generalize pkgDirOf r root = dir at hp he
  rw [mem_dirChildren]
  simp only [enumerable, Bool.and_eq_true, Bool.or_eq_true, bne_iff_ne, ne_eq, Bool.not_eq_true',
    List.any_eq_true] at he
  obtain ⟨⟨⟨hne, hdot⟩, hinit⟩, hc⟩ := he
  have hdot' : DOT ∉ n := by
    intro hm
    rw [← List.contains_iff_mem] at hm
    rw [hm] at hdot; simp at hdot
  have hsub : ∀ s ∈ lsfx, s ∈ sfx := by
    simp only [SameSuffixes, Bool.and_eq_true, List.all_eq_true, List.contains_iff_mem] at hs
    exact hs.1.2
  rcases hc with ⟨s, hsl, hx⟩ | ⟨s, hsl, hx⟩
  · exact ⟨n ++ s, hx, childOf_file sfx fs dir n s ho (hsub s hsl) hdot' hinit⟩
  · have hd : fs.isDir (dir ++ [n]) = true := by
      apply isDir_of_exists_append fs (dir ++ [n]) [INIT ++ s] (by simp)
      simpa using hx
    have hex := exists_of_isDir fs _ hd
    refine ⟨n, hex, childOf_pkg sfx fs dir n ho hdot' ?_⟩
    obtain ⟨names, hl, hmem⟩ := mem_listdir_of_exists fs dir n hex
    unfold sourcePkgsAt at hp
    rw [hl] at hp
    simp only [List.all_eq_true] at hp
    have := hp n hmem
    simp only [Bool.or_eq_true, Bool.not_eq_true', List.any_eq_false] at this
    rcases this with h1 | h1
    · exact absurd hx (h1 s hsl)
    · exact h1


/-! ## importability -/

theorem addSuffix_snoc (p : Path) (c s : Str) : addSuffix (p ++ [c]) s = p ++ [c ++ s] := by
  induction p with
  | nil => rfl
  | cons a p ih =>
    cases p with
    | nil => rfl
    | cons b p =>
      simp only [List.cons_append] at ih ⊢
      rw [addSuffix, ih]

theorem findIn_isSome (sfx src : List Str) (fs : Fs) (dir : Path) (n : Str)
    (h : (∃ s ∈ sfx, fs.exists (dir ++ [n ++ s]) = true) ∨ fs.exists (dir ++ [n, INIT_PY]) = true) :
    (findIn sfx src fs (dir ++ [n])).isSome = true := by
  unfold findIn
  split
  · rfl
  · rename_i hnone
    rw [List.find?_eq_none] at hnone
    rcases h with ⟨s, hs, hx⟩ | hx
    · exact absurd (by rw [addSuffix_snoc]; exact hx) (hnone s hs)
    · have : dir ++ [n] ++ [INIT_PY] = dir ++ [n, INIT_PY] := by simp
      rw [this, if_pos hx]; rfl

theorem append_comps (r : Path) (root n : Str) :
    r ++ ((splitOn DOT root).filter (· ≠ []) ++ [n]) = pkgDirOf r root ++ [n] := by
  unfold pkgDirOf
  rw [List.append_assoc]

/-- UPPER BOUND, importability form: such a proposal is found by the model's get_module under the dotted name
    `root.n` (components: the non-empty parts of `splitOn DOT root`, then `n`) -/
theorem list_sub_importable (roots : List Path) (sfx src : List Str) (fs : Fs) (sysm : List Str) (root n : Str)
    (h : n ∈ listPackages roots sfx fs sysm root) (hn : n ∉ sysChildren sysm root) (inSys : Bool) :
    ∃ f b, getModuleC roots sfx src fs inSys ((splitOn DOT root).filter (· ≠ []) ++ [n]) = .found f b := by
  rcases list_sub roots sfx fs sysm root n h with h | ⟨r, hr, h⟩
  · exact absurd h hn
  · have h1 := findIn_isSome sfx src fs (pkgDirOf r root) n h
    rw [← append_comps] at h1
    have h2 : (roots.findSome? (fun p => findIn sfx src fs
        (p ++ ((splitOn DOT root).filter (· ≠ []) ++ [n])))).isSome = true :=
      List.findSome?_isSome_iff.mpr ⟨r, hr, h1⟩
    unfold getModuleC
    split
    · rename_i f b _
      exact ⟨f, b, rfl⟩
    · rename_i hnone
      rw [hnone] at h2; simp at h2

end SuppModel.Fs
