/-
  Fs family — executable model of supp's module resolution (supp/project.py: get_module,
  norm_package, list_packages; supp/util.py: split_pkg, join_pkg).  Core Lean only.

  Conventions
  * a Python `str` is the list of its code points (`Str = List Nat`), '.' = 46, '/' = 47;
  * a path is a NORMALISED ABSOLUTE POSIX path, given as the list of its components
    (`/a/b/c.py` = [a, b, c.py], `/` = []); components are non-empty, contain no '/', and
    are never "." or "..".  For such paths `os.path.join(p, c1, .., cn) = p ++ [c1..cn]`
    (ci non-empty, '/'-free), `os.path.dirname = dropLast` (dirname '/' = '/'),
    `os.path.basename = getLast`, `mpath + s` appends `s` to the last component.
    Inputs assumed normalised: every entry of `roots` (= Project.sources + sys.path), the
    `filename` given to norm_package, and module names whose dotted components are non-empty
    and '/'-free (`validComps`).  The harness generates only such inputs.
  * the file system is a parameter: `Fs` = finite list of file paths plus a list of
    (possibly empty) directories; every proper prefix of a listed path is a directory.
  * NOT modelled here (parameters / other properties): `_module_cache`, `_context_cache`,
    `_norm_cache` (C09 has the caches: this is the cache-free function), `dyn_modules`
    (empty), the `__import__(name)` performed for non-source files (the result only says
    which file was selected and whether it is a source file), the contents of
    `sys.modules` (a parameter), `.pth` files and meta-path finders.
-/
namespace SuppModel.Fs

abbrev Str := List Nat
abbrev Path := List Str

inductive PyErr where
  | importError
  deriving DecidableEq, Repr

def DOT : Nat := 46
def SLASH : Nat := 47
/-- "__init__" -/
def INIT : Str := [95, 95, 105, 110, 105, 116, 95, 95]
/-- ".py" -/
def PY : Str := [46, 112, 121]
/-- "__init__.py" (the literal in project.py) -/
def INIT_PY : Str := INIT ++ PY

structure Fs where
  files : List Path
  dirs : List Path
  deriving Repr, DecidableEq

namespace Fs
def isFile (fs : Fs) (p : Path) : Bool := fs.files.contains p
/-- a listed directory, or a proper prefix of a listed path -/
def isDir (fs : Fs) (p : Path) : Bool :=
  fs.dirs.any (fun d => p.isPrefixOf d) || fs.files.any (fun f => p.isPrefixOf f && p != f)
/-- os.path.exists -/
def «exists» (fs : Fs) (p : Path) : Bool := fs.isFile p || fs.isDir p
/-- os.listdir: `none` = OSError (not a directory) -/
def listdir (fs : Fs) (p : Path) : Option (List Str) :=
  if fs.isDir p then
    some ((fs.files ++ fs.dirs).filterMap (fun q => if p.isPrefixOf q then q[p.length]? else none)).eraseDups
  else none
end Fs

/-- os.path.dirname applied n times -/
def dirnameN : Nat → Path → Path
  | 0, p => p
  | n + 1, p => dirnameN n p.dropLast

/-- `mpath + s` -/
def addSuffix : Path → Str → Path
  | [], s => [s]
  | [c], s => [c ++ s]
  | c :: d :: r, s => c :: addSuffix (d :: r) s

/-- `str.split(sep)` for a one-character separator -/
def splitOn (sep : Nat) : Str → List Str
  | [] => [[]]
  | c :: cs =>
    if c = sep then [] :: splitOn sep cs
    else match splitOn sep cs with
      | [] => [[c]]
      | h :: t => (c :: h) :: t

/-- `sep.join(parts)` -/
def joinOn (sep : Nat) : List Str → Str
  | [] => []
  | [a] => a
  | a :: b :: r => a ++ sep :: joinOn sep (b :: r)

/-- the domain of module names: non-empty, '/'-free dotted components -/
def validComp (c : Str) : Bool := c != [] && !c.contains SLASH && !c.contains DOT
def validComps (cs : List Str) : Bool := cs != [] && cs.all validComp

/-! ## Project.get_module (search loop, cache-free) -/

/-- one iteration of `for p in path` with `mpath = os.path.join(p, *name.split('.'))`:
    first suffix whose file exists, else the package `__init__.py` -/
def findIn (sfx src : List Str) (fs : Fs) (mpath : Path) : Option (Path × Bool) :=
  match sfx.find? (fun s => fs.exists (addSuffix mpath s)) with
  | some s => some (addSuffix mpath s, src.contains s)
  | none =>
    if fs.exists (mpath ++ [INIT_PY]) then some (mpath ++ [INIT_PY], true) else none

inductive ModRes where
  | found (file : Path) (isSource : Bool)
  | loaded
  | importError
  deriving DecidableEq, Repr

def ModRes.file? : ModRes → Option Path
  | .found f _ => some f
  | _ => none

def getModuleC (roots : List Path) (sfx src : List Str) (fs : Fs) (inSys : Bool) (comps : List Str) : ModRes :=
  match roots.findSome? (fun p => findIn sfx src fs (p ++ comps)) with
  | some (f, b) => .found f b
  | none => if inSys then .loaded else .importError

/-- `roots` = Project.get_path() = sources + sys.path; `sysModules` = the keys of sys.modules -/
def getModule (roots : List Path) (sfx src : List Str) (fs : Fs) (sysModules : List Str) (name : Str) : ModRes :=
  getModuleC roots sfx src fs (sysModules.contains name) (splitOn DOT name)

/-! ## Project.norm_package (`_norm_cache` ignored) -/

def leadingDots : Str → Nat
  | [] => 0
  | c :: cs => if c = DOT then leadingDots cs + 1 else 0

/-- `Project._package_parts(root)`, on the REVERSED path of `root`: collect `basename(root)` while
    `root/__init__.py` exists and `dirname(root) != root` (the loop stops at the filesystem root) -/
def climb (fs : Fs) : List Str → List Str
  | [] => []
  | b :: up => if fs.exists ((b :: up).reverse ++ [INIT_PY]) then climb fs up ++ [b] else []

def normPackage (fs : Fs) (file : Path) (rel : Str) : Except PyErr Str :=
  if rel.head? ≠ some DOT then .ok rel
  else
    let level := leadingDots rel
    let root := dirnameN level file
    let parts := climb fs root.reverse
    if parts = [] then .error .importError
    else
      let package := rel.drop level
      .ok (joinOn DOT (if package = [] then parts else parts ++ [package]))

/-- Project.get_nmodule -/
def getNModule (roots : List Path) (sfx src : List Str) (fs : Fs) (sysModules : List Str)
    (name : Str) (file : Path) : Except PyErr ModRes :=
  match normPackage fs file name with
  | .error e => .error e
  | .ok n => match getModule roots sfx src fs sysModules n with
    | .importError => .error .importError
    | r => .ok r

/-! ## Project.list_packages -/

/-- `s.partition('.')[0]` -/
def firstPart (s : Str) : Str := s.takeWhile (· != DOT)

def sysChildren (sysModules : List Str) (root : Str) : List Str :=
  if root ≠ [] then
    let droot := root ++ [DOT]
    sysModules.filterMap (fun m => if droot.isPrefixOf m then some (firstPart (m.drop droot.length)) else none)
  else sysModules.map firstPart

/-- the body of `for name in dlist`, suffix by suffix.  NOTE the `continue` after `mname == '__init__'`
    continues the INNER loop `for s in SUFFIXES` (a later, shorter suffix may still match:
    `__init__.abi3.so` is listed as `__init__.abi3`), and the `else` branch of that loop runs whenever no
    `break` happened.  (Suffixes are non-empty: `name[:-len(s)]`.) -/
def childOf (sfx : List Str) (fs : Fs) (pdir : Path) (name : Str) : Option Str :=
  match sfx with
  | [] => if fs.exists (pdir ++ [name, INIT_PY]) then some name else none
  | s :: rest =>
    if s.isSuffixOf name then
      let m := name.take (name.length - s.length)
      if m = INIT then childOf rest fs pdir name else some m
    else childOf rest fs pdir name

def dirChildren (sfx : List Str) (fs : Fs) (pdir : Path) : List Str :=
  match fs.listdir pdir with
  | none => []
  | some dlist => dlist.filterMap (childOf sfx fs pdir)

/-- `os.path.join(p, *root.split('.'))` used as a DIRECTORY (listdir, and as the first argument of a further
    join): empty components vanish (`''` gives `p + '/'`, `'a..b'` gives `p/a/b`, `'a.'` gives `p/a/`), and a
    trailing '/' names the same directory -/
def pkgDirOf (p : Path) (root : Str) : Path := p ++ (splitOn DOT root).filter (· ≠ [])

/-- the result is a set: order and multiplicity are not observable -/
def listPackages (roots : List Path) (sfx : List Str) (fs : Fs) (sysModules : List Str) (root : Str) : List Str :=
  sysChildren sysModules root ++ roots.flatMap (fun p => dirChildren sfx fs (pkgDirOf p root))

/-- assistant.list_packages(project, root, filename): the children of `norm_package(root, filename)`, and `[]`
    when norm_package raises ImportError (a relative name above the top-level package) -/
def assistListPackages (roots : List Path) (sfx : List Str) (fs : Fs) (sysModules : List Str)
    (root : Str) (file : Path) : List Str :=
  match normPackage fs file root with
  | .error _ => []
  | .ok n => listPackages roots sfx fs sysModules n

/-! ## util.split_pkg / util.join_pkg (own copies) -/

def joinPkg (package module : Str) : Str :=
  if package.getLast? = some DOT then package ++ module else package ++ DOT :: module

/-- `s.rpartition('.')` -/
def rpartition (s : Str) : Str × Str × Str :=
  let tailRev := s.reverse.takeWhile (· != DOT)
  if tailRev.length = s.length then ([], [], s)
  else (s.take (s.length - tailRev.length - 1), [DOT], tailRev.reverse)

def splitPkg (package : Str) : Str × Str :=
  if package.all (· == DOT) then (package, [])
  else
    let (head, sep, tail) := rpartition package
    if head = [] then (if sep ≠ [] then (sep, tail) else (head, tail))
    else if head.getLast? = some DOT then (head ++ [DOT], tail)
    else (head, tail)

end SuppModel.Fs
