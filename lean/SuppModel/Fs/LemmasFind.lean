/- Fs family: lemmas behind C07_find (get_module's search loop = importlib's PathFinder on the C07 domain). -/
import SuppModel.Fs.Spec
namespace SuppModel.Fs

/-! helper lemmas live in `SuppModel.Fs.Find` (sibling lemma files share `SuppModel.Fs`) -/
namespace Find

theorem isFile_exists {fs : Fs} {p : Path} (h : fs.isFile p = true) : fs.exists p = true := by
  simp [Fs.exists, h]

theorem isDir_exists {fs : Fs} {p : Path} (h : fs.isDir p = true) : fs.exists p = true := by
  simp [Fs.exists, h]

theorem exists_append_isDir {fs : Fs} {p q : Path} (hq : q ≠ []) (h : fs.exists (p ++ q) = true) :
    fs.isDir p = true := by
  have hne : p ≠ p ++ q := by
    intro e
    have := congrArg List.length e
    simp at this
    exact hq this
  have hpre : p <+: p ++ q := List.prefix_append p q
  simp only [Fs.exists, Fs.isFile, Fs.isDir, Bool.or_eq_true, List.any_eq_true, List.contains_iff_mem,
    Bool.and_eq_true, List.isPrefixOf_iff_prefix, bne_iff_ne] at h ⊢
  rcases h with h | h | h
  · exact Or.inr ⟨_, h, hpre, hne⟩
  · obtain ⟨d, hd, hp⟩ := h
    exact Or.inl ⟨d, hd, hpre.trans hp⟩
  · obtain ⟨f, hf, hp, hn⟩ := h
    refine Or.inr ⟨f, hf, hpre.trans hp, ?_⟩
    intro e
    subst e
    have := hp.length_le
    simp at this
    exact hq (List.length_eq_zero_iff.mp (by omega))

theorem addSuffix_snoc (p : Path) (c s : Str) : addSuffix (p ++ [c]) s = p ++ [c ++ s] := by
  induction p with
  | nil => simp [addSuffix]
  | cons a t ih =>
    cases t with
    | nil => simp [addSuffix]
    | cons b r =>
      simp only [List.cons_append, addSuffix] at ih ⊢
      rw [ih]

theorem addSuffix_ne_nil (p : Path) (s : Str) : addSuffix p s ≠ [] := by
  match p with
  | [] => simp [addSuffix]
  | [c] => simp [addSuffix]
  | c :: d :: r => simp [addSuffix]

theorem addSuffix_append (d : Path) (q : Path) (hq : q ≠ []) (s : Str) :
    addSuffix (d ++ q) s = d ++ addSuffix q s := by
  induction d with
  | nil => simp
  | cons a t ih =>
    cases h : t ++ q with
    | nil => simp at h; exact absurd h.2 hq
    | cons b r =>
      simp only [List.cons_append, h, addSuffix]
      rw [← h, ih]

theorem find?_unique {α} (p : α → Bool) (l l' : List α) (hlen : (l.filter p).length ≤ 1)
    (hmem : ∀ s, s ∈ l ↔ s ∈ l') : l.find? p = l'.find? p := by
  have huniq : ∀ a b, a ∈ l → p a = true → b ∈ l → p b = true → a = b := by
    intro a b ha hpa hb hpb
    have h1 : a ∈ l.filter p := List.mem_filter.mpr ⟨ha, hpa⟩
    have h2 : b ∈ l.filter p := List.mem_filter.mpr ⟨hb, hpb⟩
    match hf : l.filter p, hlen, h1, h2 with
    | [], _, h1, _ => simp at h1
    | [x], _, h1, h2 => simp at h1 h2; rw [h1, h2]
    | _ :: _ :: _, hl, _, _ => simp at hl
  cases h' : l'.find? p with
  | none =>
    rw [List.find?_eq_none] at h' ⊢
    intro x hx
    exact h' x ((hmem x).mp hx)
  | some s =>
    have hs := List.find?_some h'
    have hm := (hmem s).mpr (List.mem_of_find?_eq_some h')
    cases h : l.find? p with
    | none =>
      rw [List.find?_eq_none] at h
      exact absurd hs (h s hm)
    | some s' =>
      rw [huniq s' s (List.mem_of_find?_eq_some h) (List.find?_some h) hm hs]

theorem find?_congr_mem {α} (p q : α → Bool) (l : List α) (h : ∀ s, s ∈ l → p s = q s) :
    l.find? p = l.find? q := by
  induction l with
  | nil => rfl
  | cons a t ih =>
    simp only [List.find?_cons, h a (by simp)]
    rw [ih (fun s hs => h s (by simp [hs]))]

theorem pathFind_single (lsfx : List Str) (fs : Fs) (d : Path) (c : Str) :
    pathFind lsfx fs [d] c [] = match finder lsfx fs d c with
      | .spec f p => some (.file f p)
      | .portion p => some (.ns [p])
      | .nothing => none := by
  simp only [pathFind]
  split <;> simp_all

theorem sameSuffixes_iff {sfx lsfx : List Str} (h : SameSuffixes sfx lsfx = true) :
    (∀ s, s ∈ sfx ↔ s ∈ lsfx) ∧ PY ∈ sfx := by
  simp only [SameSuffixes, Bool.and_eq_true, List.all_eq_true, List.contains_iff_mem] at h
  exact ⟨fun s => ⟨h.1.1 s, h.1.2 s⟩, h.2⟩

/-- a directory holding `__init__.py` is a regular package for the finder -/
theorem finder_pkg {lsfx : List Str} {fs : Fs} {d : Path} {c : Str} (hpy : PY ∈ lsfx)
    (hf : fs.isFile (d ++ [c, INIT_PY]) = true) :
    ∃ s, s ∈ lsfx ∧ fs.isFile (d ++ [c] ++ [INIT ++ s]) = true ∧
      finder lsfx fs d c = .spec (d ++ [c] ++ [INIT ++ s]) (some (d ++ [c])) := by
  have hd : fs.isDir (d ++ [c]) = true :=
    exists_append_isDir (q := [INIT_PY]) (by simp) (by simpa using isFile_exists hf)
  have hsome : (lsfx.find? (fun s => fs.isFile (d ++ [c] ++ [INIT ++ s]))).isSome = true := by
    rw [List.find?_isSome]
    exact ⟨PY, hpy, by simpa [INIT_PY] using hf⟩
  cases h : lsfx.find? (fun s => fs.isFile (d ++ [c] ++ [INIT ++ s])) with
  | none => rw [h] at hsome; cases hsome
  | some s =>
    have hp := List.find?_some h
    refine ⟨s, List.mem_of_find?_eq_some h, hp, ?_⟩
    simp only [finder, hd, if_true, h]

theorem finder_nodir {lsfx : List Str} {fs : Fs} {d : Path} {c : Str}
    (hd : fs.isDir (d ++ [c]) = false) :
    finder lsfx fs d c = match lsfx.find? (fun s => fs.isFile (d ++ [c ++ s])) with
      | some s => .spec (d ++ [c ++ s]) none
      | none => .nothing := by
  simp only [finder, hd]
  rfl

theorem findIn_none_of_not_isDir (sfx src : List Str) (fs : Fs) (d : Path) (c : Str) (rest : List Str)
    (hr : rest ≠ []) (hd : fs.isDir (d ++ [c]) = false) :
    findIn sfx src fs (d ++ c :: rest) = none := by
  have e : d ++ c :: rest = (d ++ [c]) ++ rest := by simp
  have h1 : sfx.find? (fun s => fs.exists (addSuffix (d ++ c :: rest) s)) = none := by
    rw [List.find?_eq_none]
    intro s _ hex
    rw [e, addSuffix_append _ _ hr] at hex
    have := exists_append_isDir (addSuffix_ne_nil rest s) hex
    rw [hd] at this; cases this
  have h2 : fs.exists (d ++ c :: rest ++ [INIT_PY]) = false := by
    cases hex : fs.exists (d ++ c :: rest ++ [INIT_PY]) with
    | false => rfl
    | true =>
      rw [e, List.append_assoc] at hex
      have := exists_append_isDir (by simp) hex
      rw [hd] at this; cases this
  simp only [findIn, h1, h2]
  rfl

/-- the leaf: one directory, one component -/
theorem leaf_agrees (sfx src lsfx : List Str) (fs : Fs) (d : Path) (c : Str)
    (hs : SameSuffixes sfx lsfx = true)
    (hns : (!fs.isDir (d ++ [c]) || fs.isFile (d ++ [c, INIT_PY])) = true)
    (hcl : pkgClashFreeAt sfx fs d c = true)
    (hsc : sameChoiceAt sfx lsfx fs d c = true)
    (hreg : regularAt sfx fs d c = true) :
    (pathFind lsfx fs [d] c []).map Loc.file? = (findIn sfx src fs (d ++ [c])).map (fun x => some x.1) := by
  obtain ⟨hmem, hpy⟩ := sameSuffixes_iff hs
  simp only [pkgClashFreeAt, Bool.not_eq_true', Bool.and_eq_false_iff] at hcl
  have hsc' := eq_of_beq hsc
  simp only [regularAt, Bool.and_eq_true, List.all_eq_true, Bool.or_eq_true, Bool.not_eq_true',
    beq_iff_eq] at hreg
  obtain ⟨hreg1, hreg2⟩ := hreg
  rw [pathFind_single]
  simp only [findIn, addSuffix_snoc]
  cases hex : fs.exists (d ++ [c, INIT_PY]) with
  | true =>
    have hex' : fs.exists (d ++ [c] ++ [INIT_PY]) = true := by simpa using hex
    have hd : fs.isDir (d ++ [c]) = true := exists_append_isDir (by simp) hex'
    have hf : fs.isFile (d ++ [c, INIT_PY]) = true := by simpa [hd] using hns
    obtain ⟨s0, hs0, hfs0, hfind⟩ := finder_pkg ((hmem PY).mp hpy) hf
    have hs0py : s0 = PY := by
      rcases hreg2 s0 ((hmem s0).mpr hs0) with h | h
      · exact h
      · rw [show d ++ [c, INIT ++ s0] = d ++ [c] ++ [INIT ++ s0] by simp, hfs0] at h; cases h
    subst hs0py
    have hnone : sfx.find? (fun s => fs.exists (d ++ [c ++ s])) = none := by
      rw [List.find?_eq_none]
      intro s hs hp
      rcases hcl with h | h
      · rw [hex] at h; cases h
      · rw [List.any_eq_false] at h
        exact h s hs hp
    rw [hfind, hnone]
    simp only [hex', if_true]
    simp [Loc.file?, INIT_PY]
  | false =>
    have hex' : fs.exists (d ++ [c] ++ [INIT_PY]) = false := by simpa using hex
    have hf : fs.isFile (d ++ [c, INIT_PY]) = false := by
      cases h : fs.isFile (d ++ [c, INIT_PY]) with
      | false => rfl
      | true => rw [isFile_exists h] at hex; cases hex
    have hd : fs.isDir (d ++ [c]) = false := by simpa [hf] using hns
    rw [finder_nodir hd, hex']
    have h1 : sfx.find? (fun s => fs.exists (d ++ [c ++ s])) = lsfx.find? (fun s => fs.exists (d ++ [c ++ s])) :=
      hsc'
    have h2 : lsfx.find? (fun s => fs.exists (d ++ [c ++ s])) = lsfx.find? (fun s => fs.isFile (d ++ [c ++ s])) := by
      apply find?_congr_mem
      intro s hs
      simp [Fs.exists, hreg1 s ((hmem s).mpr hs)]
    rw [h1, h2]
    cases lsfx.find? (fun s => fs.isFile (d ++ [c ++ s])) <;> simp [Loc.file?]

/-- LEMMA A: a single directory chain -/
theorem chain_agrees (sfx src lsfx : List Str) (fs : Fs) (comps : List Str) (d : Path)
    (hne : comps ≠ [])
    (hs : SameSuffixes sfx lsfx = true)
    (hns : nsFreeChain fs d comps = true)
    (hcl : atLeaf (pkgClashFreeAt sfx fs) d comps = true)
    (hsc : atLeaf (sameChoiceAt sfx lsfx fs) d comps = true)
    (hreg : atLeaf (regularAt sfx fs) d comps = true) :
    (importlibFindC lsfx fs [d] comps).map Loc.file?
      = (findIn sfx src fs (d ++ comps)).map (fun x => some x.1) := by
  induction comps generalizing d with
  | nil => exact absurd rfl hne
  | cons c t ih =>
    cases t with
    | nil =>
      simp only [nsFreeChain, Bool.and_true] at hns
      simp only [atLeaf] at hcl hsc hreg
      simp only [importlibFindC]
      exact leaf_agrees sfx src lsfx fs d c hs hns hcl hsc hreg
    | cons c' rest =>
      simp only [atLeaf] at hcl hsc hreg
      rw [nsFreeChain, Bool.and_eq_true] at hns
      obtain ⟨hns1, hns2⟩ := hns
      obtain ⟨hmem, hpy⟩ := sameSuffixes_iff hs
      simp only [importlibFindC, pathFind_single]
      cases hd : fs.isDir (d ++ [c]) with
      | true =>
        have hf : fs.isFile (d ++ [c, INIT_PY]) = true := by simpa [hd] using hns1
        obtain ⟨s0, _, _, hfind⟩ := finder_pkg ((hmem PY).mp hpy) hf
        rw [hfind]
        simp only
        have := ih (d ++ [c]) (by simp) hns2 hcl hsc hreg
        rw [this]
        simp
      | false =>
        rw [findIn_none_of_not_isDir sfx src fs d c (c' :: rest) (by simp) hd, finder_nodir hd]
        cases lsfx.find? (fun s => fs.isFile (d ++ [c ++ s])) <;> simp

theorem finder_not_portion {lsfx : List Str} {fs : Fs} {r : Path} {c : Str} (hpy : PY ∈ lsfx)
    (hns : (!fs.isDir (r ++ [c]) || fs.isFile (r ++ [c, INIT_PY])) = true) (p : Path) :
    finder lsfx fs r c ≠ .portion p := by
  cases hd : fs.isDir (r ++ [c]) with
  | true =>
    have hf : fs.isFile (r ++ [c, INIT_PY]) = true := by simpa [hd] using hns
    obtain ⟨s0, _, _, hfind⟩ := finder_pkg hpy hf
    rw [hfind]; simp
  | false =>
    rw [finder_nodir hd]
    cases lsfx.find? (fun s => fs.isFile (r ++ [c ++ s])) <;> simp

/-- LEMMA B -/
theorem pathFind_cons (lsfx : List Str) (fs : Fs) (r : Path) (rs : List Path) (c : Str)
    (hnp : ∀ p, finder lsfx fs r c ≠ .portion p) :
    pathFind lsfx fs (r :: rs) c [] =
      if (finder lsfx fs r c).isHit then pathFind lsfx fs [r] c [] else pathFind lsfx fs rs c [] := by
  rw [pathFind_single]
  rw [pathFind]
  cases h : finder lsfx fs r c with
  | spec f p => simp [FinderRes.isHit]
  | portion p => exact absurd h (hnp p)
  | nothing => simp [FinderRes.isHit]

theorem importlibFindC_cons (lsfx : List Str) (fs : Fs) (r : Path) (rs : List Path) (c : Str) (t : List Str)
    (hnp : ∀ p, finder lsfx fs r c ≠ .portion p) :
    importlibFindC lsfx fs (r :: rs) (c :: t) =
      if (finder lsfx fs r c).isHit then importlibFindC lsfx fs [r] (c :: t)
      else importlibFindC lsfx fs rs (c :: t) := by
  cases t with
  | nil => simp only [importlibFindC]; exact pathFind_cons lsfx fs r rs c hnp
  | cons c' rest =>
    simp only [importlibFindC]
    rw [pathFind_cons lsfx fs r rs c hnp]
    cases (finder lsfx fs r c).isHit <;> rfl

theorem importlibFindC_single_miss (lsfx : List Str) (fs : Fs) (r : Path) (c : Str) (t : List Str)
    (hnp : ∀ p, finder lsfx fs r c ≠ .portion p) (hh : (finder lsfx fs r c).isHit = false) :
    importlibFindC lsfx fs [r] (c :: t) = none := by
  have hp : pathFind lsfx fs [r] c [] = none := by
    rw [pathFind_single]
    cases h : finder lsfx fs r c with
    | spec f p => rw [h] at hh; cases hh
    | portion p => exact absurd h (hnp p)
    | nothing => rfl
  cases t with
  | nil => simpa only [importlibFindC] using hp
  | cons c' rest => simp only [importlibFindC, hp]

theorem importlibFindC_nil_roots (lsfx : List Str) (fs : Fs) (comps : List Str) :
    importlibFindC lsfx fs [] comps = none := by
  match comps with
  | [] => simp [importlibFindC]
  | [c] => simp [importlibFindC, pathFind]
  | c :: c' :: rest => simp [importlibFindC, pathFind]

theorem find_agrees_aux (roots : List Path) (sfx src lsfx : List Str) (fs : Fs) (c : Str) (t : List Str)
    (hs : SameSuffixes sfx lsfx = true)
    (hns : NoNamespaceDirs roots fs (c :: t) = true)
    (hcl : NoModulePackageClash roots sfx fs (c :: t) = true)
    (hsc : SameChoice roots sfx lsfx fs (c :: t) = true)
    (hreg : Regular roots sfx fs (c :: t) = true)
    (hsp : NoSplitPackage roots sfx src lsfx fs (c :: t) = true) :
    (importlibFindC lsfx fs roots (c :: t)).map Loc.file?
      = (roots.findSome? (fun p => findIn sfx src fs (p ++ c :: t))).map (fun x => some x.1) := by
  induction roots with
  | nil => simp [importlibFindC_nil_roots]
  | cons r rs ih =>
    simp only [NoNamespaceDirs, NoModulePackageClash, SameChoice, Regular, List.all_cons, Bool.and_eq_true] at hns hcl hsc hreg ih
    obtain ⟨hns1, hns2⟩ := hns
    obtain ⟨hcl1, hcl2⟩ := hcl
    obtain ⟨hsc1, hsc2⟩ := hsc
    obtain ⟨hreg1, hreg2⟩ := hreg
    obtain ⟨hmem, hpy⟩ := sameSuffixes_iff hs
    have hA := chain_agrees sfx src lsfx fs (c :: t) r (by simp) hs hns1 hcl1 hsc1 hreg1
    have hnp : ∀ p, finder lsfx fs r c ≠ .portion p := by
      intro p
      rw [nsFreeChain, Bool.and_eq_true] at hns1
      exact finder_not_portion ((hmem PY).mp hpy) hns1.1 p
    rw [importlibFindC_cons lsfx fs r rs c t hnp, List.findSome?_cons]
    cases hh : (finder lsfx fs r c).isHit with
    | true =>
      simp only [if_true]
      rw [hA]
      cases hf : findIn sfx src fs (r ++ c :: t) with
      | some x => rfl
      | none =>
        simp only [Option.map_none]
        rw [hf] at hA
        cases t with
        | nil =>
          exfalso
          simp only [importlibFindC, pathFind_single] at hA
          cases h : finder lsfx fs r c with
          | spec f p => rw [h] at hA; simp at hA
          | portion p => exact absurd h (hnp p)
          | nothing => rw [h] at hh; cases hh
        | cons c' rest =>
          simp only [NoSplitPackage, noSplitAux, hf, hh] at hsp
          have : rs.findSome? (fun p => findIn sfx src fs (p ++ c :: c' :: rest)) = none := by
            rw [List.findSome?_eq_none_iff]
            intro x hx
            simp at hsp
            exact hsp x hx
          rw [this]; rfl
    | false =>
      have hmiss := importlibFindC_single_miss lsfx fs r c t hnp hh
      rw [hmiss] at hA
      have hf : findIn sfx src fs (r ++ c :: t) = none := by
        cases h : findIn sfx src fs (r ++ c :: t) with
        | none => rfl
        | some x => rw [h] at hA; simp at hA
      rw [hf]
      simp only [Bool.false_eq_true, if_false]
      apply ih hns2 hcl2 hsc2 hreg2
      cases t with
      | nil => simp [NoSplitPackage]
      | cons c' rest =>
        simp only [NoSplitPackage, noSplitAux, hf, hh] at hsp
        simpa [NoSplitPackage] using hsp

end Find
open Find

theorem find_agrees (roots : List Path) (sfx src lsfx : List Str) (fs : Fs) (comps : List Str)
    (hv : validComps comps = true)
    (hs : SameSuffixes sfx lsfx = true)
    (hns : NoNamespaceDirs roots fs comps = true)
    (hcl : NoModulePackageClash roots sfx fs comps = true)
    (hsc : SameChoice roots sfx lsfx fs comps = true)
    (hreg : Regular roots sfx fs comps = true)
    (hsp : NoSplitPackage roots sfx src lsfx fs comps = true) :
    (importlibFindC lsfx fs roots comps).map Loc.file?
      = (roots.findSome? (fun p => findIn sfx src fs (p ++ comps))).map (fun x => some x.1) := by
  cases comps with
  | nil => simp [validComps] at hv
  | cons c t => exact find_agrees_aux roots sfx src lsfx fs c t hs hns hcl hsc hreg hsp

theorem getModuleC_file (roots : List Path) (sfx src lsfx : List Str) (fs : Fs) (comps : List Str)
    (hv : validComps comps = true)
    (hs : SameSuffixes sfx lsfx = true)
    (hns : NoNamespaceDirs roots fs comps = true)
    (hcl : NoModulePackageClash roots sfx fs comps = true)
    (hsc : SameChoice roots sfx lsfx fs comps = true)
    (hreg : Regular roots sfx fs comps = true)
    (hsp : NoSplitPackage roots sfx src lsfx fs comps = true) (inSys : Bool) :
    (getModuleC roots sfx src fs inSys comps).file? = (importlibFindC lsfx fs roots comps).bind Loc.file? := by
  have h := find_agrees roots sfx src lsfx fs comps hv hs hns hcl hsc hreg hsp
  unfold getModuleC
  cases hX : importlibFindC lsfx fs roots comps with
  | none =>
    rw [hX] at h
    cases hY : roots.findSome? (fun p => findIn sfx src fs (p ++ comps)) with
    | none => cases inSys <;> simp [ModRes.file?]
    | some y => rw [hY] at h; simp at h
  | some x =>
    rw [hX] at h
    cases hY : roots.findSome? (fun p => findIn sfx src fs (p ++ comps)) with
    | none => rw [hY] at h; simp at h
    | some y =>
      rw [hY] at h
      obtain ⟨f, b⟩ := y
      simp only [Option.map_some, Option.some.injEq] at h
      simp [ModRes.file?, h]

theorem getModuleC_importError_iff (roots : List Path) (sfx src lsfx : List Str) (fs : Fs) (comps : List Str)
    (hv : validComps comps = true)
    (hs : SameSuffixes sfx lsfx = true)
    (hns : NoNamespaceDirs roots fs comps = true)
    (hcl : NoModulePackageClash roots sfx fs comps = true)
    (hsc : SameChoice roots sfx lsfx fs comps = true)
    (hreg : Regular roots sfx fs comps = true)
    (hsp : NoSplitPackage roots sfx src lsfx fs comps = true) :
    getModuleC roots sfx src fs false comps = .importError ↔ importlibFindC lsfx fs roots comps = none := by
  have h := find_agrees roots sfx src lsfx fs comps hv hs hns hcl hsc hreg hsp
  unfold getModuleC
  cases hX : importlibFindC lsfx fs roots comps with
  | none =>
    rw [hX] at h
    cases hY : roots.findSome? (fun p => findIn sfx src fs (p ++ comps)) with
    | none => simp
    | some y => rw [hY] at h; simp at h
  | some x =>
    rw [hX] at h
    cases hY : roots.findSome? (fun p => findIn sfx src fs (p ++ comps)) with
    | none => rw [hY] at h; simp at h
    | some y => obtain ⟨f, b⟩ := y; simp

theorem find?_append_comm {α} (p : α → Bool) (a b : List α) (h : (a.any p && b.any p) = false) :
    (a ++ b).find? p = (b ++ a).find? p := by
  rw [Bool.and_eq_false_iff] at h
  rw [List.find?_append, List.find?_append]
  rcases h with h | h
  · have ha : a.find? p = none := by
      rw [List.find?_eq_none]; rw [List.any_eq_false] at h; exact h
    rw [ha]; cases b.find? p <;> rfl
  · have hb : b.find? p = none := by
      rw [List.find?_eq_none]; rw [List.any_eq_false] at h; exact h
    rw [hb]; cases a.find? p <;> rfl

theorem Find.sameChoiceAt_of_extFreeAt (nonext ext : List Str) (fs : Fs) (d : Path) (c : Str)
    (h : extFreeAt nonext ext fs d c = true) : sameChoiceAt (nonext ++ ext) (ext ++ nonext) fs d c = true := by
  simp only [extFreeAt, Bool.not_eq_true'] at h
  simp only [sameChoiceAt, beq_iff_eq]
  exact find?_append_comm _ _ _ h

theorem Find.atLeaf_mono (P Q : Path → Str → Bool) (hPQ : ∀ d c, P d c = true → Q d c = true)
    (d : Path) (comps : List Str) (h : atLeaf P d comps = true) : atLeaf Q d comps = true := by
  induction comps generalizing d with
  | nil => rfl
  | cons c t ih =>
    cases t with
    | nil => simp only [atLeaf] at h ⊢; exact hPQ d c h
    | cons c' rest => simp only [atLeaf] at h ⊢; exact ih _ h

theorem sameChoice_of_noExt (roots : List Path) (nonext ext : List Str) (fs : Fs) (comps : List Str)
    (h : NoExtensionNextToSource roots nonext ext fs comps = true) :
    SameChoice roots (nonext ++ ext) (ext ++ nonext) fs comps = true := by
  simp only [NoExtensionNextToSource, SameChoice, List.all_eq_true] at h ⊢
  intro r hr
  exact Find.atLeaf_mono _ _ (Find.sameChoiceAt_of_extFreeAt nonext ext fs) r comps (h r hr)

end SuppModel.Fs
