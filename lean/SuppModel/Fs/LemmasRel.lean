/- Fs family: lemmas behind C07_relative (norm_package = resolve_name). -/
import SuppModel.Fs.Spec
namespace SuppModel.Fs

theorem dirnameN_eq (n : Nat) (p : Path) : dirnameN n p = p.take (p.length - n) := by
  induction n generalizing p with
  | zero => simp [dirnameN]
  | succ n ih =>
    simp only [dirnameN, ih, List.length_dropLast]
    rw [List.dropLast_eq_take, List.take_take]
    congr 1
    omega

theorem joinOn_snoc (parts : List Str) (x : Str) (h : parts ≠ []) :
    joinOn DOT (parts ++ [x]) = joinOn DOT parts ++ DOT :: x := by
  induction parts with
  | nil => exact absurd rfl h
  | cons a t ih =>
    cases t with
    | nil => simp [joinOn]
    | cons b r =>
      have := ih (by simp)
      simp only [List.cons_append, joinOn] at this ⊢
      rw [this]; simp

theorem climb_snoc (fs : Fs) (d : Path) (x : Str) :
    climb fs (d ++ [x]).reverse = if fs.exists (d ++ [x] ++ [INIT_PY]) then climb fs d.reverse ++ [x] else [] := by
  have h1 : (d ++ [x]).reverse = x :: d.reverse := by simp
  have h2 : (x :: d.reverse).reverse = d ++ [x] := by simp
  rw [h1, climb, h2]

theorem climb_chain (fs : Fs) (top : Path) (pkg : List Str) (hc : pkgChainOK fs top pkg = true)
    (base : List Str) (hb : climb fs top.reverse = base) (j : Nat) (hj : j ≤ pkg.length) :
    climb fs (top ++ pkg.take j).reverse = base ++ pkg.take j := by
  induction j with
  | zero => simpa using hb
  | succ j ih =>
    have hj' : j < pkg.length := by omega
    have hx : isPkgDir fs (top ++ pkg.take (j + 1)) = true := by
      simp only [pkgChainOK, List.all_eq_true, List.mem_range] at hc
      exact hc j hj'
    have e : pkg.take (j + 1) = pkg.take j ++ [pkg[j]] := List.take_succ_eq_append_getElem hj'
    rw [e, ← List.append_assoc] at hx
    rw [e, ← List.append_assoc, climb_snoc]
    simp only [isPkgDir] at hx
    rw [if_pos hx, ih (by omega), List.append_assoc]

theorem climb_clean (fs : Fs) (top : Path) (h : noInitUpTo fs top = true) (k : Nat) :
    climb fs (top.take k).reverse = [] := by
  have hk : ∀ j, 0 < j → j ≤ top.length → fs.exists (top.take j ++ [INIT_PY]) = false := by
    intro j hj0 hj
    simp only [noInitUpTo, List.all_eq_true, List.mem_range, isPkgDir] at h
    have := h (j - 1) (by omega)
    rw [show j - 1 + 1 = j by omega] at this
    simpa using this
  rcases List.eq_nil_or_concat (top.take k) with h0 | ⟨d, x, hd⟩
  · rw [h0]; rfl
  · have hpos : 0 < k ∧ 0 < top.length := by
      have hl := congrArg List.length hd
      simp at hl
      omega
    have h3 : fs.exists (top.take k ++ [INIT_PY]) = false := by
      rcases Nat.le_total k top.length with hle | hle
      · exact hk k hpos.1 hle
      · rw [List.take_of_length_le hle]
        have := hk top.length hpos.2 (Nat.le_refl _)
        rwa [List.take_of_length_le (Nat.le_refl _)] at this
    rw [hd, List.concat_eq_append] at h3 ⊢
    rw [climb_snoc, h3]
    simp

theorem normPackage_eq_resolveName (fs : Fs) (top : Path) (pkg : List Str) (base : Str) (rel : Str)
    (hc : pkgChainOK fs top pkg = true) (ht : noInitUpTo fs top = true) :
    normPackage fs (top ++ pkg ++ [base]) rel = resolveName rel pkg := by
  unfold normPackage resolveName
  by_cases hd : rel.head? ≠ some DOT
  · simp [hd]
  · rw [if_neg hd, if_neg hd]
    have hl : 1 ≤ leadingDots rel := by
      cases rel with
      | nil => simp at hd
      | cons c cs =>
        simp only [List.head?_cons, ne_eq, Option.some.injEq, Decidable.not_not] at hd
        simp [leadingDots, hd]
    generalize leadingDots rel = level at hl
    simp only [dirnameN_eq]
    have hlen : (top ++ pkg ++ [base]).length = top.length + pkg.length + 1 := by simp; omega
    rw [hlen]
    have htop : climb fs top.reverse = [] := by
      have := climb_clean fs top ht top.length
      rwa [List.take_of_length_le (Nat.le_refl _)] at this
    by_cases hin : level - 1 ≤ pkg.length
    · -- the root is inside (or the top of) the package chain
      have hroot : (top ++ pkg ++ [base]).take (top.length + pkg.length + 1 - level)
          = top ++ pkg.take (pkg.length - (level - 1)) := by
        rw [List.append_assoc, List.take_append]
        have : top.length + pkg.length + 1 - level - top.length = pkg.length - (level - 1) := by omega
        rw [this, List.take_of_length_le (by omega : top.length ≤ top.length + pkg.length + 1 - level)]
        congr 1
        rw [List.take_append]
        have h2 : pkg.length - (level - 1) - pkg.length = 0 := by omega
        rw [h2]; simp
      rw [hroot]
      have hparts := climb_chain fs top pkg hc [] htop (pkg.length - (level - 1)) (by omega)
      rw [hparts, List.nil_append]
      by_cases hp : pkg = []
      · subst hp; simp
      · rw [if_neg hp]
        by_cases hlv : pkg.length < level
        · have : pkg.length - (level - 1) = 0 := by omega
          simp [this, hlv]
        · have hne : pkg.take (pkg.length - (level - 1)) ≠ [] := by
            intro h0
            have := congrArg List.length h0
            simp at this
            have hpl : 0 < pkg.length := List.length_pos_iff.mpr hp
            omega
          rw [if_neg hne, if_neg hlv]
          by_cases hn : rel.drop level = []
          · simp [hn]
          · simp only [hn, if_false]
            rw [joinOn_snoc _ _ hne]
    · -- the root is above the top
      have hroot : (top ++ pkg ++ [base]).take (top.length + pkg.length + 1 - level)
          = top.take (top.length + pkg.length + 1 - level) := by
        rw [List.append_assoc, List.take_append]
        have : top.length + pkg.length + 1 - level - top.length = 0 := by omega
        rw [this]; simp
      rw [hroot, climb_clean fs top ht]
      have hlv : pkg.length < level := by omega
      simp [hlv]
end SuppModel.Fs
