/-
  Perm — the part of supp that builds results out of Python `set`s (C17, deterministic output).

  Transliterates (as the code is NOW, i.e. after fix de6288d):
    supp/name.py      MultiName.__init__ / valid_names / has_undefined, UndefinedName.__lt__, first_name,
                      CompositeValue.get_attr
    supp/util.py      Location.__lt__ (tuple comparison of `location`)
    supp/scope.py     Flow.parent_names (join branch: nameset, nrow, list(nrow)[0], MultiName(list(nrow))),
                      SourceScope.exported_names
    supp/evaluator.py EvalCtx.declarations (MultiName branch), EvalCtx._evaluate (MultiName branch)
    supp/assistant.py location (output formatting), assist (`sorted(n for n in names if not marked(n))`)

  What is NOT code and therefore a parameter: the iteration order of a Python set.  Elements are hashed
  by identity (addresses) or are `str` (hash depends on PYTHONHASHSEED), so every `list(s)` / `for x in s`
  is `setOrder (dedup xs)` for an ARBITRARY function `setOrder` of which we only know that its result is
  a permutation of its argument (`SetOrder`).  `dedup xs` is the set's content (one representative per
  equality class: objects are equal iff identical — the `id` field —, `UndefinedName`s are `str`s and
  equal iff they spell the same name); the list handed to `setOrder` is in insertion order, so an order
  that depends on the insertion history is covered as well.

  `sorted(...)` is modelled as the stable left-to-right insertion sort that observes its elements only
  through `lt` (`pivot < element`, exactly the comparisons CPython's binary insertion sort makes).
-/
namespace SuppModel.Perm

/-- Python `str` as code points (so `<` on `str` is the lexicographic order below) -/
abbrev Str := List Nat
/-- `(lineno, col)` -/
abbrev Loc := Nat × Nat

inductive PyErr where
  | indexError
  deriving DecidableEq, Repr

instance exceptDecEq {ε α : Type} [DecidableEq ε] [DecidableEq α] : DecidableEq (Except ε α)
  | .ok a, .ok b => if h : a = b then isTrue (by rw [h]) else isFalse (by intro e; cases e; exact h rfl)
  | .error a, .error b => if h : a = b then isTrue (by rw [h]) else isFalse (by intro e; cases e; exact h rfl)
  | .ok _, .error _ => isFalse (by intro e; cases e)
  | .error _, .ok _ => isFalse (by intro e; cases e)

/-! ## the hash-order parameter -/

/-- iteration order of a set whose content is `l`: anything, as long as it is a permutation -/
structure SetOrder (α : Type) where
  order : List α → List α
  perm : ∀ l, (order l).Perm l

/-- content of `set(xs)`: one representative of every element (the last occurrence is kept; which one
    is immaterial because equal elements are indistinguishable and the order is `SetOrder`'s business) -/
def dedup {α : Type} [DecidableEq α] : List α → List α
  | [] => []
  | x :: xs => if x ∈ xs then dedup xs else x :: dedup xs

/-! ## `sorted` -/

/-- place `x` in the already sorted `acc`: before the first element it is smaller than -/
def insertBy {α : Type} (lt : α → α → Bool) (x : α) : List α → List α
  | [] => [x]
  | y :: ys => if lt x y then x :: y :: ys else y :: insertBy lt x ys

def sortInto {α : Type} (lt : α → α → Bool) : List α → List α → List α
  | acc, [] => acc
  | acc, x :: xs => sortInto lt (insertBy lt x acc) xs

/-- `sorted(l)` observing only `lt` -/
def sortBy {α : Type} (lt : α → α → Bool) (l : List α) : List α := sortInto lt [] l

theorem insertBy_perm {α : Type} (lt : α → α → Bool) (x : α) (l : List α) : (insertBy lt x l).Perm (x :: l) := by
  induction l with
  | nil => exact List.Perm.refl _
  | cons y ys ih =>
    simp only [insertBy]
    split
    · exact List.Perm.refl _
    · exact (List.Perm.cons y ih).trans (List.Perm.swap x y ys)

theorem sortInto_perm {α : Type} (lt : α → α → Bool) (l acc : List α) : (sortInto lt acc l).Perm (acc ++ l) := by
  induction l generalizing acc with
  | nil => simp [sortInto]
  | cons x xs ih =>
    simp only [sortInto]
    refine (ih _).trans ?_
    refine ((insertBy_perm lt x acc).append_right xs).trans ?_
    simpa using (List.perm_middle (a := x) (l₁ := acc) (l₂ := xs)).symm

theorem sortBy_perm {α : Type} (lt : α → α → Bool) (l : List α) : (sortBy lt l).Perm l := by
  simpa [sortBy] using sortInto_perm lt l []

/-- some concrete hash orders (used by the driver and the witness) -/
def SetOrder.ident (α : Type) : SetOrder α := ⟨fun l => l, fun _ => List.Perm.refl _⟩
def SetOrder.rev (α : Type) : SetOrder α := ⟨List.reverse, fun l => List.reverse_perm l⟩
/-- order by an arbitrary rank of the elements (any permutation of a duplicate-free list is of this form) -/
def SetOrder.byRank {α : Type} (rank : α → Nat) : SetOrder α :=
  ⟨sortBy (fun a b => decide (rank a < rank b)), fun l => sortBy_perm _ l⟩

/-! ## names -/

/-- an element of `MultiName.alt_names`: `UndefinedName(name)` or a `Name` object (`id` = identity) -/
inductive Alt where
  | undef (name : Str)
  | name (id : Nat) (name : Str) (loc : Loc) (declaredAt : Loc) (file : Str)
  deriving DecidableEq, Repr

def Alt.isUndef : Alt → Bool
  | .undef _ => true
  | _ => false

def Alt.nm : Alt → Str
  | .undef n => n
  | .name _ n _ _ _ => n

/-- `.location` (`UndefinedName.location = (0, 0)`) -/
def Alt.loc : Alt → Loc
  | .undef _ => (0, 0)
  | .name _ _ l _ _ => l

/-- tuple `<` -/
def locLt (a b : Loc) : Bool := decide (a.1 < b.1) || (a.1 == b.1 && decide (a.2 < b.2))

/-- `a < b` as Python dispatches it: `UndefinedName.__lt__` is `True`, `Location.__lt__` compares `.location` -/
def Alt.lt : Alt → Alt → Bool
  | .undef _, _ => true
  | a, b => locLt a.loc b.loc

structure MName where
  altNames : List Alt
  name : Str
  deriving DecidableEq, Repr

/-- what a name table holds under a key, or an element of the list given to `MultiName(...)`:
    a plain name or an existing `MultiName` object (`id` = identity) -/
inductive Item where
  | alt (a : Alt)
  | multi (id : Nat) (m : MName)
  deriving DecidableEq, Repr

/-- `allnames` of `MultiName.__init__` -/
def flatten : List Item → List Alt
  | [] => []
  | .alt a :: r => a :: flatten r
  | .multi _ m :: r => m.altNames ++ flatten r

/-- `sorted(set(allnames))` -/
def altNames (s : SetOrder Alt) (names : List Item) : List Alt :=
  sortBy Alt.lt (s.order (dedup (flatten names)))

/-- `list(set(allnames))`: the construction before fix de6288d -/
def altNamesLegacy (s : SetOrder Alt) (names : List Item) : List Alt :=
  s.order (dedup (flatten names))

def mkMName : List Alt → Except PyErr MName
  | [] => .error .indexError          -- `self.alt_names[0]`
  | a :: r => .ok ⟨a :: r, a.nm⟩

/-- `MultiName(names)` -/
def multiName (s : SetOrder Alt) (names : List Item) : Except PyErr MName := mkMName (altNames s names)
def multiNameLegacy (s : SetOrder Alt) (names : List Item) : Except PyErr MName := mkMName (altNamesLegacy s names)

def MName.validNames (m : MName) : List Alt := m.altNames.filter (fun a => !a.isUndef)
def MName.hasUndefined (m : MName) : Bool := m.altNames.any Alt.isUndef

/-- decidable side condition: the alternatives come from distinct binding sites — two different `Name`
    objects never share a `location`, and there is at most one `UndefinedName` -/
def tieFree : Alt → Alt → Bool
  | .undef _, .undef _ => false
  | .name _ _ l₁ _ _, .name _ _ l₂ _ _ => l₁ != l₂
  | _, _ => true

def allPairs {α : Type} (r : α → α → Bool) : List α → Bool
  | [] => true
  | x :: xs => xs.all (r x) && allPairs r xs

def NoTiesAlts (alts : List Alt) : Bool := allPairs tieFree (dedup alts)
def NoTies (names : List Item) : Bool := NoTiesAlts (flatten names)

/-! ## `Flow.parent_names`, join branch -/

/-- a value of the table `parent_names` builds: a name or a (possibly fresh) MultiName; the identity of
    a fresh MultiName is not an output -/
inductive Val where
  | single (a : Alt)
  | multi (m : MName)
  deriving DecidableEq, Repr

def Item.toVal : Item → Val
  | .alt a => .single a
  | .multi _ m => .multi m

/-- a predecessor's `names` mapping, already merged: first entry for a key wins -/
abbrev Table := List (Str × Item)

structure Hash where
  strs : SetOrder Str
  items : SetOrder Item
  alts : SetOrder Alt

/-- `r.get(n, UndefinedName(n)) for r in pnames` -/
def rowOf (pnames : List Table) (n : Str) : List Item :=
  pnames.map fun r => (r.lookup n).getD (.alt (.undef n))

/-- the body of `for n in nameset` -/
def rowValue (h : Hash) (pnames : List Table) (n : Str) : Except PyErr Val :=
  match h.items.order (dedup (rowOf pnames n)) with
  | [x] => .ok x.toVal                                  -- `list(nrow)[0]`
  | r => (multiName h.alts r).map Val.multi            -- `MultiName(list(nrow))`

/-- `names[n] = ...` for the keys in the given order (a dict: insertion order) -/
def buildTable (f : Str → Except PyErr Val) : List Str → Except PyErr (List (Str × Val))
  | [] => .ok []
  | n :: ns =>
    match f n with
    | .error e => .error e
    | .ok v =>
      match buildTable f ns with
      | .error e => .error e
      | .ok t => .ok ((n, v) :: t)

/-- content of `nameset` -/
def joinKeys (pnames : List Table) : List Str := dedup (pnames.flatMap (fun t => t.map Prod.fst))

def parentNames (h : Hash) (pnames : List Table) : Except PyErr (List (Str × Val)) :=
  buildTable (rowValue h pnames) (h.strs.order (joinKeys pnames))

/-- `names.get(k)` on the result -/
def tableGet (r : Except PyErr (List (Str × Val))) (k : Str) : Except PyErr (Option Val) :=
  r.map (fun t => t.lookup k)

def tableKeys (r : Except PyErr (List (Str × Val))) : Except PyErr (List Str) :=
  r.map (fun t => t.map Prod.fst)

/-- hypothesis of the join theorem, evaluated by the driver: every row is tie-free -/
def NoTiesJoin (pnames : List Table) : Bool :=
  (joinKeys pnames).all fun n => NoTies (dedup (rowOf pnames n))

/-! ## consumers -/

/-- `first_name` -/
def firstName : Val → Except PyErr Alt
  | .single a => .ok a
  | .multi m => match m.validNames with
    | [] => .error .indexError
    | a :: _ => .ok a

/-- `getattr(v, 'location', None) != (0, 0)`: a MultiName has no `location` -/
def Val.exported : Val → Bool
  | .single a => a.loc != (0, 0)
  | .multi _ => true

/-- `SourceScope.exported_names` (a dict comprehension: one failure fails the whole) -/
def exportedNames : List (Str × Val) → Except PyErr (List (Str × Alt))
  | [] => .ok []
  | (k, v) :: r =>
    if v.exported then
      match firstName v with
      | .error e => .error e
      | .ok a => match exportedNames r with
        | .error e => .error e
        | .ok t => .ok ((k, a) :: t)
    else exportedNames r

/-- an entry of `EvalCtx.declarations`' result -/
inductive Decl where
  | one (a : Alt)
  | many (as : List Alt)
  deriving DecidableEq, Repr

/-- `declarations`, MultiName branch; `chase` is the rest of `declarations` on a single name
    (imports, attributes …), which involves no set -/
def declarations (chase : Alt → List Decl) (m : MName) : List Decl :=
  match m.validNames with
  | [] => []
  | [a] => chase a
  | as => [.many as]

structure LocOut where
  loc : Loc
  file : Str
  deriving DecidableEq, Repr

inductive LocEntry where
  | one (l : LocOut)
  | many (ls : List LocOut)
  deriving DecidableEq, Repr

def Alt.locOut : Alt → LocOut
  | .undef _ => ⟨(0, 0), []⟩                   -- never reached: `valid_names` only
  | .name _ _ _ d f => ⟨d, f⟩

/-- the `locs` loop of `assistant.location` -/
def locationOut (ds : List Decl) : List LocEntry :=
  ds.map fun
    | .one a => .one a.locOut
    | .many as => .many (as.map Alt.locOut)

/-- `location()` on a read whose name resolves to `MultiName(names)` -/
def location (s : SetOrder Alt) (chase : Alt → List Decl) (names : List Item) : Except PyErr (List LocEntry) :=
  (multiName s names).map fun m => locationOut (declarations chase m)

def locationLegacy (s : SetOrder Alt) (chase : Alt → List Decl) (names : List Item) : Except PyErr (List LocEntry) :=
  (multiNameLegacy s names).map fun m => locationOut (declarations chase m)

/-- Python `str.__lt__` -/
def strLt : Str → Str → Bool
  | [], [] => false
  | [], _ :: _ => true
  | _ :: _, [] => false
  | a :: as, b :: bs => decide (a < b) || (a == b && strLt as bs)

/-- `sorted(n for n in names if not marked(n))` where `names` is a set / a dict's keys -/
def assist (s : SetOrder Str) (marked : Str → Bool) (names : List Str) : List Str :=
  sortBy strLt ((s.order (dedup names)).filter (fun n => !marked n))

/-- an evaluated value: its attribute table -/
abbrev Attrs := List (Str × Alt)

/-- `EvalCtx._evaluate`, MultiName branch: `CompositeValue([evaluate(n) for n in valid_names if …])` -/
def compositeValues (ev : Alt → Option Attrs) (m : MName) : List Attrs := m.validNames.filterMap ev

/-- `CompositeValue.get_attr` -/
def compositeGetAttr (values : List Attrs) (attr : Str) : Option Alt := values.findSome? (fun v => v.lookup attr)

/-- `x.attr` where `x` resolves to `MultiName(names)` -/
def compositeLookup (s : SetOrder Alt) (ev : Alt → Option Attrs) (names : List Item) (attr : Str) : Except PyErr (Option Alt) :=
  (multiName s names).map fun m => compositeGetAttr (compositeValues ev m) attr

end SuppModel.Perm
