/-
  Perm — lemmas behind Props/C17.lean.
  Core: sorting two permutations of one list by an order that is total on its elements gives one result.
-/
import SuppModel.Perm.Model

namespace SuppModel.Perm
open List

/-! ## generic: insertion sort -/

section sort
variable {α : Type} {lt : α → α → Bool}

theorem mem_insertBy {x a : α} {l : List α} : a ∈ insertBy lt x l ↔ a = x ∨ a ∈ l := by
  rw [(insertBy_perm lt x l).mem_iff]; simp

theorem insertBy_sorted (htr : ∀ a b c, lt a b = true → lt b c = true → lt a c = true)
    (x : α) (acc : List α) (hacc : acc.Pairwise (fun a b => lt a b = true))
    (htot : ∀ y ∈ acc, lt x y = true ∨ lt y x = true) :
    (insertBy lt x acc).Pairwise (fun a b => lt a b = true) := by
  induction acc with
  | nil => simp [insertBy]
  | cons y ys ih =>
    rw [pairwise_cons] at hacc
    simp only [insertBy]
    split
    · rename_i hxy
      refine pairwise_cons.2 ⟨?_, pairwise_cons.2 hacc⟩
      intro z hz
      rcases mem_cons.1 hz with rfl | hz
      · exact hxy
      · exact htr _ _ _ hxy (hacc.1 z hz)
    · rename_i hxy
      have hyx : lt y x = true := by
        rcases htot y mem_cons_self with h | h
        · exact absurd h hxy
        · exact h
      refine pairwise_cons.2 ⟨?_, ih hacc.2 (fun z hz => htot z (mem_cons_of_mem _ hz))⟩
      intro w hw
      rcases mem_insertBy.1 hw with rfl | hw
      · exact hyx
      · exact hacc.1 w hw

theorem sortInto_sorted (htr : ∀ a b c, lt a b = true → lt b c = true → lt a c = true)
    (l acc : List α) (hacc : acc.Pairwise (fun a b => lt a b = true))
    (htot : (acc ++ l).Pairwise (fun a b => lt a b = true ∨ lt b a = true)) :
    (sortInto lt acc l).Pairwise (fun a b => lt a b = true) := by
  induction l generalizing acc with
  | nil => simpa [sortInto] using hacc
  | cons x xs ih =>
    simp only [sortInto]
    have hsym : ∀ {a b : α}, (lt a b = true ∨ lt b a = true) → (lt b a = true ∨ lt a b = true) := fun h => h.symm
    apply ih
    · apply insertBy_sorted htr x acc hacc
      intro y hy
      have := (pairwise_append.1 htot).2.2 y hy x mem_cons_self
      exact this.symm
    · have hp : (insertBy lt x acc ++ xs).Perm (acc ++ x :: xs) :=
        ((insertBy_perm lt x acc).append_right xs).trans (by simpa using (perm_middle (a := x) (l₁ := acc) (l₂ := xs)).symm)
      exact hp.symm.pairwise htot hsym

theorem sortBy_sorted (htr : ∀ a b c, lt a b = true → lt b c = true → lt a c = true)
    (l : List α) (htot : l.Pairwise (fun a b => lt a b = true ∨ lt b a = true)) :
    (sortBy lt l).Pairwise (fun a b => lt a b = true) :=
  sortInto_sorted htr l [] Pairwise.nil (by simpa using htot)

/-- the core lemma: the result of sorting does not depend on the arrangement of the input -/
theorem sortBy_eq_of_perm (htr : ∀ a b c, lt a b = true → lt b c = true → lt a c = true)
    {l₁ l₂ : List α} (hp : l₁.Perm l₂)
    (hanti : ∀ a b, a ∈ l₁ → b ∈ l₁ → lt a b = true → lt b a = true → a = b)
    (htot : l₁.Pairwise (fun a b => lt a b = true ∨ lt b a = true)) :
    sortBy lt l₁ = sortBy lt l₂ := by
  have h₁ := sortBy_sorted htr l₁ htot
  have h₂ := sortBy_sorted htr l₂ (hp.pairwise htot (fun h => h.symm))
  have hperm : (sortBy lt l₁).Perm (sortBy lt l₂) :=
    (sortBy_perm lt l₁).trans (hp.trans (sortBy_perm lt l₂).symm)
  refine Perm.eq_of_pairwise (le := fun a b => lt a b = true) ?_ h₁ h₂ hperm
  intro a b ha hb hab hba
  exact hanti a b ((sortBy_perm lt l₁).mem_iff.1 ha) (hp.mem_iff.2 ((sortBy_perm lt l₂).mem_iff.1 hb)) hab hba

end sort

theorem pairwise_mem {α : Type} {R : α → α → Prop} {l : List α} (h : l.Pairwise R) {a b : α}
    (ha : a ∈ l) (hb : b ∈ l) : a = b ∨ R a b ∨ R b a := by
  induction l with
  | nil => cases ha
  | cons x xs ih =>
    rw [pairwise_cons] at h
    rcases mem_cons.1 ha with rfl | ha' <;> rcases mem_cons.1 hb with rfl | hb'
    · exact Or.inl rfl
    · exact Or.inr (Or.inl (h.1 _ hb'))
    · exact Or.inr (Or.inr (h.1 _ ha'))
    · exact ih h.2 ha' hb'

theorem allPairs_iff {α : Type} (r : α → α → Bool) (l : List α) :
    allPairs r l = true ↔ l.Pairwise (fun a b => r a b = true) := by
  induction l with
  | nil => simp [allPairs]
  | cons x xs ih => simp [allPairs, ih, List.all_eq_true]

/-! ## dedup -/

section dedup
variable {α : Type} [DecidableEq α]

theorem mem_dedup {a : α} {l : List α} : a ∈ dedup l ↔ a ∈ l := by
  induction l with
  | nil => simp [dedup]
  | cons x xs ih =>
    simp only [dedup]
    split
    · rename_i hx
      rw [ih, mem_cons]
      constructor
      · exact Or.inr
      · rintro (rfl | h)
        · exact hx
        · exact h
    · simp [ih]

theorem nodup_dedup (l : List α) : (dedup l).Nodup := by
  induction l with
  | nil => simp [dedup]
  | cons x xs ih =>
    simp only [dedup]
    split
    · exact ih
    · rename_i hx
      exact nodup_cons.2 ⟨fun h => hx (mem_dedup.1 h), ih⟩

theorem dedup_perm {l₁ l₂ : List α} (h : l₁.Perm l₂) : (dedup l₁).Perm (dedup l₂) :=
  (perm_ext_iff_of_nodup (nodup_dedup l₁) (nodup_dedup l₂)).2 (fun a => by rw [mem_dedup, mem_dedup, h.mem_iff])

end dedup

/-! ## the order on alternatives -/

theorem locLt_trans {a b c : Loc} (h₁ : locLt a b = true) (h₂ : locLt b c = true) : locLt a c = true := by
  obtain ⟨a1, a2⟩ := a; obtain ⟨b1, b2⟩ := b; obtain ⟨c1, c2⟩ := c
  simp only [locLt, Bool.or_eq_true, Bool.and_eq_true, decide_eq_true_eq, beq_iff_eq] at *
  omega

theorem locLt_asymm {a b : Loc} (h₁ : locLt a b = true) (h₂ : locLt b a = true) : False := by
  obtain ⟨a1, a2⟩ := a; obtain ⟨b1, b2⟩ := b
  simp only [locLt, Bool.or_eq_true, Bool.and_eq_true, decide_eq_true_eq, beq_iff_eq] at *
  omega

theorem locLt_total {a b : Loc} (h : a ≠ b) : locLt a b = true ∨ locLt b a = true := by
  obtain ⟨a1, a2⟩ := a; obtain ⟨b1, b2⟩ := b
  have : a1 ≠ b1 ∨ a2 ≠ b2 := by
    by_cases h1 : a1 = b1
    · right; intro h2; exact h (by rw [h1, h2])
    · left; exact h1
  simp only [locLt, Bool.or_eq_true, Bool.and_eq_true, decide_eq_true_eq, beq_iff_eq]
  omega

/-- nothing is smaller than `UndefinedName.location` -/
theorem locLt_zero (a : Loc) : locLt a (0, 0) = false := by
  obtain ⟨a1, a2⟩ := a
  simp [locLt]

theorem Alt.lt_trans (a b c : Alt) (h₁ : Alt.lt a b = true) (h₂ : Alt.lt b c = true) : Alt.lt a c = true := by
  cases a with
  | undef _ => simp [Alt.lt]
  | name i n l d f =>
    cases b with
    | undef _ => simp [Alt.lt, Alt.loc, locLt_zero] at h₁
    | name i' n' l' d' f' =>
      cases c with
      | undef _ => simp [Alt.lt, Alt.loc, locLt_zero] at h₂
      | name i'' n'' l'' d'' f'' =>
        simp only [Alt.lt, Alt.loc] at *
        exact locLt_trans h₁ h₂

theorem tieFree_symm {a b : Alt} (h : tieFree a b = true) : tieFree b a = true := by
  cases a with
  | undef _ =>
    cases b with
    | undef _ => simp [tieFree] at h
    | name i' n' l' d' f' => simp [tieFree]
  | name i n l d f =>
    cases b with
    | undef _ => simp [tieFree]
    | name i' n' l' d' f' =>
      simp only [tieFree, bne_iff_ne, ne_eq] at *
      exact fun e => h e.symm

theorem tieFree_total {a b : Alt} (h : tieFree a b = true) : Alt.lt a b = true ∨ Alt.lt b a = true := by
  cases a with
  | undef _ => simp [Alt.lt]
  | name i n l d f =>
    cases b with
    | undef _ => simp [Alt.lt]
    | name i' n' l' d' f' =>
      simp only [tieFree, bne_iff_ne, ne_eq] at h
      simpa [Alt.lt, Alt.loc] using locLt_total h

theorem tieFree_antisymm {a b : Alt} (h : tieFree a b = true) (h₁ : Alt.lt a b = true) (h₂ : Alt.lt b a = true) : False := by
  cases a with
  | undef _ =>
    cases b with
    | undef _ => simp [tieFree] at h
    | name i' n' l' d' f' => simp [Alt.lt, Alt.loc, locLt_zero] at h₂
  | name i n l d f =>
    cases b with
    | undef _ => simp [Alt.lt, Alt.loc, locLt_zero] at h₁
    | name i' n' l' d' f' =>
      simp only [Alt.lt, Alt.loc] at h₁ h₂
      exact locLt_asymm h₁ h₂

/-! ## MultiName -/

def Item.alts : Item → List Alt
  | .alt a => [a]
  | .multi _ m => m.altNames

theorem flatten_eq_flatMap (l : List Item) : flatten l = l.flatMap Item.alts := by
  induction l with
  | nil => simp [flatten]
  | cons x xs ih => cases x <;> simp [flatten, Item.alts, ih, flatMap_cons]

theorem flatten_perm {l₁ l₂ : List Item} (h : l₁.Perm l₂) : (flatten l₁).Perm (flatten l₂) := by
  rw [flatten_eq_flatMap, flatten_eq_flatMap]; exact h.flatMap_right _

theorem NoTiesAlts_iff (l : List Alt) : NoTiesAlts l = true ↔ (dedup l).Pairwise (fun a b => tieFree a b = true) :=
  allPairs_iff _ _

theorem NoTies_perm {l₁ l₂ : List Item} (hp : l₁.Perm l₂) (h : NoTies l₁ = true) : NoTies l₂ = true := by
  simp only [NoTies, NoTiesAlts_iff] at *
  exact (dedup_perm (flatten_perm hp)).pairwise h tieFree_symm

/-- sorting alternatives: independent of the arrangement when they are tie-free -/
theorem sortAlts_eq {l₁ l₂ : List Alt} (hp : l₁.Perm l₂) (h : l₁.Pairwise (fun a b => tieFree a b = true)) :
    sortBy Alt.lt l₁ = sortBy Alt.lt l₂ := by
  refine sortBy_eq_of_perm Alt.lt_trans hp ?_ (h.imp tieFree_total)
  intro a b ha hb hab hba
  rcases pairwise_mem h ha hb with rfl | ht | ht
  · rfl
  · exact (tieFree_antisymm ht hab hba).elim
  · exact (tieFree_antisymm ht hba hab).elim

theorem altNames_det' (s₁ s₂ : SetOrder Alt) {xs₁ xs₂ : List Item} (hp : xs₁.Perm xs₂) (h : NoTies xs₁ = true) :
    altNames s₁ xs₁ = altNames s₂ xs₂ := by
  simp only [NoTies, NoTiesAlts_iff] at h
  have hD : (dedup (flatten xs₁)).Perm (dedup (flatten xs₂)) := dedup_perm (flatten_perm hp)
  have hp' : (s₁.order (dedup (flatten xs₁))).Perm (s₂.order (dedup (flatten xs₂))) :=
    (s₁.perm _).trans (hD.trans (s₂.perm _).symm)
  exact sortAlts_eq hp' ((s₁.perm _).symm.pairwise h tieFree_symm)

theorem altNames_sorted (s : SetOrder Alt) (xs : List Item) (h : NoTies xs = true) :
    (altNames s xs).Pairwise (fun a b => Alt.lt a b = true ∧ tieFree a b = true) := by
  simp only [NoTies, NoTiesAlts_iff] at h
  have hl : (s.order (dedup (flatten xs))).Pairwise (fun a b => tieFree a b = true) :=
    (s.perm _).symm.pairwise h tieFree_symm
  have h1 := sortBy_sorted (lt := Alt.lt) Alt.lt_trans _ (hl.imp tieFree_total)
  have h2 : (sortBy Alt.lt (s.order (dedup (flatten xs)))).Pairwise (fun a b => tieFree a b = true) :=
    (sortBy_perm _ _).symm.pairwise hl tieFree_symm
  exact pairwise_and_iff.2 ⟨h1, h2⟩

/-- "in source order, Undefined first", spelled out -/
def Alt.before : Alt → Alt → Prop
  | .undef _, .name _ _ _ _ _ => True
  | .name _ _ l₁ _ _, .name _ _ l₂ _ _ => locLt l₁ l₂ = true
  | _, .undef _ => False

theorem before_of_lt {a b : Alt} (h : Alt.lt a b = true ∧ tieFree a b = true) : Alt.before a b := by
  cases a with
  | undef _ =>
    cases b with
    | undef _ => simp [tieFree] at h
    | name i' n' l' d' f' => trivial
  | name i n l d f =>
    cases b with
    | undef _ => simp [Alt.lt, Alt.loc, locLt_zero] at h
    | name i' n' l' d' f' => simpa [Alt.before, Alt.lt, Alt.loc] using h.1

theorem multiName_det' (s₁ s₂ : SetOrder Alt) {xs₁ xs₂ : List Item} (hp : xs₁.Perm xs₂) (h : NoTies xs₁ = true) :
    multiName s₁ xs₁ = multiName s₂ xs₂ := by
  simp only [multiName, altNames_det' s₁ s₂ hp h]

/-! ## parent_names -/

def rowCase (s : SetOrder Alt) : List Item → Except PyErr Val
  | [x] => .ok x.toVal
  | r => (multiName s r).map Val.multi

theorem rowValue_eq (h : Hash) (p : List Table) (n : Str) :
    rowValue h p n = rowCase h.alts (h.items.order (dedup (rowOf p n))) := by
  simp only [rowValue, rowCase]
  split <;> simp_all

theorem rowCase_perm (s₁ s₂ : SetOrder Alt) {r₁ r₂ : List Item} (hp : r₁.Perm r₂) (h : NoTies r₁ = true) :
    rowCase s₁ r₁ = rowCase s₂ r₂ := by
  match r₁, r₂, hp with
  | [], r₂, hp => rw [hp.nil_eq.symm]; simp [rowCase, multiName, altNames_det' s₁ s₂ (Perm.refl _) h]
  | [x], r₂, hp => rw [(singleton_perm.1 hp).symm]; simp [rowCase]
  | a :: b :: t, [], hp => exact absurd hp.length_eq (by simp)
  | a :: b :: t, [c], hp => exact absurd hp.length_eq (by simp)
  | a :: b :: t, c :: d :: u, hp => simp only [rowCase, multiName_det' s₁ s₂ hp h]

theorem rowValue_det (h₁ h₂ : Hash) (p : List Table) (n : Str) (h : NoTies (dedup (rowOf p n)) = true) :
    rowValue h₁ p n = rowValue h₂ p n := by
  rw [rowValue_eq, rowValue_eq]
  have hp : (h₁.items.order (dedup (rowOf p n))).Perm (h₂.items.order (dedup (rowOf p n))) :=
    (h₁.items.perm _).trans (h₂.items.perm _).symm
  exact rowCase_perm _ _ hp (NoTies_perm (h₁.items.perm _).symm h)

theorem buildTable_congr {f g : Str → Except PyErr Val} {ks : List Str} (h : ∀ n ∈ ks, f n = g n) :
    buildTable f ks = buildTable g ks := by
  induction ks with
  | nil => rfl
  | cons n ns ih =>
    simp only [buildTable, h n mem_cons_self, ih (fun m hm => h m (mem_cons_of_mem _ hm))]

theorem pyErr_eq (e₁ e₂ : PyErr) : e₁ = e₂ := by cases e₁; cases e₂; rfl

instance : Subsingleton PyErr := ⟨pyErr_eq⟩

theorem buildTable_perm_get (f : Str → Except PyErr Val) {ks₁ ks₂ : List Str} (hp : ks₁.Perm ks₂) (k : Str) :
    tableGet (buildTable f ks₁) k = tableGet (buildTable f ks₂) k := by
  induction hp with
  | nil => rfl
  | cons n _ ih =>
    simp only [buildTable]
    cases hf : f n with
    | error e => rfl
    | ok v =>
      simp only []
      rename_i l₁ l₂ _
      cases h₁ : buildTable f l₁ <;> cases h₂ : buildTable f l₂ <;>
        simp_all [tableGet, Except.map, List.lookup_cons]
  | swap a b l =>
    simp only [buildTable]
    cases ha : f a <;> cases hb : f b <;> cases hl : buildTable f l <;>
      simp only [tableGet, Except.map] <;> try (exact congrArg _ (Subsingleton.elim _ _))
    rename_i va vb t
    simp only [List.lookup_cons]
    cases hkb : (k == b) <;> cases hka : (k == a) <;> simp only []
    have e1 : k = b := by simpa using hkb
    have e2 : k = a := by simpa using hka
    subst e1; subst e2
    simp_all
  | trans _ _ ih₁ ih₂ => exact ih₁.trans ih₂

theorem buildTable_keys {f : Str → Except PyErr Val} {ks : List Str} {t : List (Str × Val)}
    (h : buildTable f ks = .ok t) : t.map Prod.fst = ks := by
  induction ks generalizing t with
  | nil => simp [buildTable] at h; subst h; rfl
  | cons n ns ih =>
    simp only [buildTable] at h
    cases hf : f n with
    | error e => simp [hf] at h
    | ok v =>
      cases hb : buildTable f ns with
      | error e => simp [hf, hb] at h
      | ok t' =>
        simp [hf, hb] at h
        subst h
        simp [ih hb]

theorem parentNames_det (h₁ h₂ : Hash) (p : List Table) (h : NoTiesJoin p = true) (k : Str) :
    tableGet (parentNames h₁ p) k = tableGet (parentNames h₂ p) k := by
  simp only [NoTiesJoin, List.all_eq_true] at h
  simp only [parentNames]
  have hc : buildTable (rowValue h₁ p) (h₁.strs.order (joinKeys p)) =
      buildTable (rowValue h₂ p) (h₁.strs.order (joinKeys p)) :=
    buildTable_congr (fun n hn => rowValue_det h₁ h₂ p n (h n ((h₁.strs.perm _).mem_iff.1 hn)))
  rw [hc]
  exact buildTable_perm_get _ ((h₁.strs.perm _).trans (h₂.strs.perm _).symm) k

theorem parentNames_keys (h₁ h₂ : Hash) (p : List Table) {t₁ t₂ : List (Str × Val)}
    (e₁ : parentNames h₁ p = .ok t₁) (e₂ : parentNames h₂ p = .ok t₂) :
    (t₁.map Prod.fst).Perm (t₂.map Prod.fst) := by
  rw [buildTable_keys e₁, buildTable_keys e₂]
  exact (h₁.strs.perm _).trans (h₂.strs.perm _).symm

/-! ## str order, assist -/

theorem strLt_trans : ∀ (a b c : Str), strLt a b = true → strLt b c = true → strLt a c = true
  | [], [], _, h, _ => by simp [strLt] at h
  | [], _ :: _, [], _, h => by simp [strLt] at h
  | [], _ :: _, _ :: _, _, _ => by simp [strLt]
  | _ :: _, [], _, h, _ => by simp [strLt] at h
  | _ :: _, _ :: _, [], _, h => by simp [strLt] at h
  | a :: as, b :: bs, c :: cs, h₁, h₂ => by
    simp only [strLt, Bool.or_eq_true, Bool.and_eq_true, decide_eq_true_eq, beq_iff_eq] at *
    rcases h₁ with h₁ | ⟨rfl, h₁⟩ <;> rcases h₂ with h₂ | ⟨rfl, h₂⟩
    · left; omega
    · left; exact h₁
    · left; exact h₂
    · right; exact ⟨rfl, strLt_trans as bs cs h₁ h₂⟩

theorem strLt_asymm : ∀ (a b : Str), strLt a b = true → strLt b a = true → False
  | [], [], h, _ => by simp [strLt] at h
  | [], _ :: _, _, h => by simp [strLt] at h
  | _ :: _, [], h, _ => by simp [strLt] at h
  | a :: as, b :: bs, h₁, h₂ => by
    simp only [strLt, Bool.or_eq_true, Bool.and_eq_true, decide_eq_true_eq, beq_iff_eq] at *
    rcases h₁ with h₁ | ⟨rfl, h₁⟩ <;> rcases h₂ with h₂ | ⟨h, h₂⟩
    · omega
    · omega
    · omega
    · exact strLt_asymm as bs h₁ h₂

theorem strLt_total : ∀ (a b : Str), a ≠ b → strLt a b = true ∨ strLt b a = true
  | [], [], h => absurd rfl h
  | [], _ :: _, _ => by simp [strLt]
  | _ :: _, [], _ => by simp [strLt]
  | a :: as, b :: bs, h => by
    simp only [strLt, Bool.or_eq_true, Bool.and_eq_true, decide_eq_true_eq, beq_iff_eq]
    by_cases hab : a = b
    · subst hab
      have : as ≠ bs := fun e => h (by rw [e])
      rcases strLt_total as bs this with h' | h'
      · left; right; exact ⟨rfl, h'⟩
      · right; right; exact ⟨rfl, h'⟩
    · omega

theorem sortStr_eq {l₁ l₂ : List Str} (hp : l₁.Perm l₂) (hn : l₁.Nodup) : sortBy strLt l₁ = sortBy strLt l₂ := by
  refine sortBy_eq_of_perm strLt_trans hp ?_ (hn.imp (fun {a b} h => strLt_total a b h))
  intro a b _ _ hab hba
  exact (strLt_asymm a b hab hba).elim

theorem assist_det (s₁ s₂ : SetOrder Str) (marked : Str → Bool) (names : List Str) :
    assist s₁ marked names = assist s₂ marked names := by
  simp only [assist]
  apply sortStr_eq
  · exact ((s₁.perm _).trans (s₂.perm _).symm).filter _
  · exact ((s₁.perm _).symm.nodup (nodup_dedup names)).filter _

theorem assist_sorted (s : SetOrder Str) (marked : Str → Bool) (names : List Str) :
    (assist s marked names).Pairwise (fun a b => strLt a b = true) := by
  simp only [assist]
  apply sortBy_sorted strLt_trans
  have : ((s.order (dedup names)).filter (fun n => !marked n)).Nodup :=
    ((s.perm _).symm.nodup (nodup_dedup names)).filter _
  exact this.imp (fun {a b} h => strLt_total a b h)

end SuppModel.Perm
