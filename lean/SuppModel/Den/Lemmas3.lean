/- C01: name-level facts — key sets only grow along a region; the entry table of a nested scope. -/
import SuppModel.Den.Lemmas2
namespace SuppModel.Den

/-- handler chains occur only as the handler part of a `tryx` (and `hnil` only at the end of a chain), for-targets are
    bindings, no binding of a name declared `global`, no comprehension (C01_visible does not cover reads inside them) -/
def wf : Stmt → Bool
  | .hnil => false
  | .hcons _ _ _ _ => false
  | .gbind _ _ => false
  | .seq s t => wf s && wf t
  | .ite c a b => wf c && wf a && wf b
  | .while_ c b e => wf c && wf b && wf e
  | .for_ it tg b e => wf it && isBinds tg && wf tg && wf b && wf e
  | .tryx _ _ b hs e => wf b && isHcons hs && wfH hs && wf e
  | .fin s f => wf s && wf f
  | .comp _ _ => false
  | .cfor _ _ _ => false
  | .def_ pre _ _ _ _ => wf pre
  | .lam pre _ _ => wf pre
  | .cls pre _ _ _ => wf pre
  | _ => true
where
  wfH : Stmt → Bool
  | .hnil => true
  | .hcons ty nm hb rest => wf ty && wf nm && wf hb && wfH rest
  | _ => false

def HasDef (l : Alts) : Prop := ∃ d, some d ∈ l

/-- a region never loses a name: on every statement either `x` passes or `s` itself defines it -/
theorem pass_or_gen (x : Ident) (s : Stmt) :
    (wf s = true → pass s x ∨ ∃ d, gen s x (some d)) ∧
    (wf.wfH s = true → isHcons s = true → pass s x ∨ ∃ d, gen s x (some d)) := by
  induction s with
  | bind y d => refine ⟨fun _ => ?_, by simp [isHcons]⟩; by_cases h : x = y <;> simp [pass, gen, h]
  | seq s t ihs iht =>
      refine ⟨fun h => ?_, by simp [isHcons]⟩
      simp only [wf, Bool.and_eq_true] at h
      have a := ihs.1 h.1; have b := iht.1 h.2
      simp only [pass, gen]; grind
  | ite c a b ihc iha ihb =>
      refine ⟨fun h => ?_, by simp [isHcons]⟩
      simp only [wf, Bool.and_eq_true] at h
      have k1 := ihc.1 h.1.1; have k2 := iha.1 h.1.2; have k3 := ihb.1 h.2
      simp only [pass, gen]; grind
  | while_ c b e ihc ihb ihe =>
      refine ⟨fun h => ?_, by simp [isHcons]⟩
      simp only [wf, Bool.and_eq_true] at h
      have k1 := ihc.1 h.1.1; have k2 := ihb.1 h.1.2; have k3 := ihe.1 h.2
      simp only [pass, gen]; grind
  | for_ it tg b e ihi iht ihb ihe =>
      refine ⟨fun h => ?_, by simp [isHcons]⟩
      simp only [wf, Bool.and_eq_true] at h
      have k1 := ihi.1 h.1.1.1.1; have k2 := iht.1 h.1.1.2; have k3 := ihb.1 h.1.2; have k4 := ihe.1 h.2
      simp only [pass, gen]; grind
  | tryx r1 r2 b hs e ihb ihh ihe =>
      refine ⟨fun h => ?_, by simp [isHcons]⟩
      simp only [wf, Bool.and_eq_true] at h
      have k1 := ihb.1 h.1.1.1; have k2 := ihh.2 h.1.2 h.1.1.2; have k3 := ihe.1 h.2
      simp only [pass, gen]; grind
  | hnil => simp [wf, isHcons]
  | hcons ty nm hb rest iht ihn ihb ihr =>
      refine ⟨by simp [wf], fun h _ => ?_⟩
      simp only [wf.wfH, Bool.and_eq_true] at h
      have k1 := iht.1 h.1.1.1; have k2 := ihn.1 h.1.1.2; have k3 := ihb.1 h.1.2
      simp only [pass, gen]; grind
  | fin s f ihs ihf =>
      refine ⟨fun h => ?_, by simp [isHcons]⟩
      simp only [wf, Bool.and_eq_true] at h
      have a := ihs.1 h.1; have b := ihf.1 h.2
      simp only [pass, gen]; grind
  | comp it g ihi ihg => simp [wf, wf.wfH]
  | cfor tg ifs inner iht ihf ihn => simp [wf, wf.wfH]
  | def_ pre f d ps body ihp _ _ =>
      refine ⟨fun h => ?_, by simp [isHcons]⟩
      simp only [wf] at h
      have a := ihp.1 h
      simp only [pass, gen]; by_cases e : x = f <;> simp [e] <;> grind
  | lam pre ps body ihp _ _ =>
      refine ⟨fun h => ?_, by simp [isHcons]⟩
      simp only [wf] at h
      have a := ihp.1 h
      simp only [pass, gen]; exact a
  | cls pre c d body ihp _ =>
      refine ⟨fun h => ?_, by simp [isHcons]⟩
      simp only [wf] at h
      have a := ihp.1 h
      simp only [pass, gen]; by_cases e : x = c <;> simp [e] <;> grind
  | _ => simp [pass, isHcons]

/-- key sets only grow: a name with a definition before `s` has one after `s` (jumps and raise points anywhere) -/
theorem keys_grow (ks : List Ident) (s : Stmt) (T : Tbl) (x : Ident) (hwf : wf s = true)
    (h : HasDef (T.get x)) : HasDef ((A ks s T).get x) := by
  obtain ⟨d, hd⟩ := h
  rcases (pass_or_gen x s).1 hwf with hp | ⟨d', hg⟩
  · exact ⟨d, (A_normal ks s T x (some d)).2 (.inr ⟨hp, hd⟩)⟩
  · exact ⟨d', (A_normal ks s T x (some d')).2 (.inl hg)⟩

theorem isBinds_pass (s : Stmt) (h : isBinds s = true) (x : Ident) (hx : x ∉ localsOf s) : pass s x := by
  induction s <;> simp_all [isBinds, pass, localsOf]

theorem isBinds_gen (s : Stmt) (h : isBinds s = true) (x : Ident) (v : Option Site) (hx : x ∉ localsOf s) :
    ¬ gen s x v := by
  induction s <;> simp_all [isBinds, gen, localsOf]
  all_goals grind

end SuppModel.Den
