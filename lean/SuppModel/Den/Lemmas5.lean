/- C01: a name an execution finds bound at a read has a definition in supp's table at that read — full grammar of
   one scope body, jumps and raise points anywhere (name level). -/
import SuppModel.Den.Lemmas3
namespace SuppModel.Den

/-- `x` is bound -/
def B (σ : State) (x : Ident) : Prop := ∃ d, σ x = some d
/-- `s` itself contributes a definition of `x` to the table after it -/
def G1 (s : Stmt) (x : Ident) : Prop := ∃ d, gen s x (some d)
/-- the part of `s` supp puts before read `r` (its `mayPrecede` part) contributes a definition of `x` -/
def GA1 (s : Stmt) (r : RId) (x : Ident) : Prop := ∃ d, genAt s r x (some d)

def InvN (s : Stmt) (x : Ident) (σ σ' : State) : Prop := B σ' x → G1 s x ∨ (pass s x ∧ B σ x)
def InvS (s : Stmt) (r : RId) (x : Ident) (σ σ' : State) : Prop := B σ' x → GA1 s r x ∨ (passAt s r x ∧ B σ x)

/-- every outcome: normal completion, jumps, exceptions (first part) and the observation stop (second part) -/
def Vis (s : Stmt) (x : Ident) (σ : State) (o : Outcome) (σ' : State) : Prop :=
  ((∀ r, o ≠ .stop r) → InvN s x σ σ') ∧ (∀ r, o = .stop r → InvS s r x σ σ')

theorem B_del (nm : Stmt) (σ : State) (x : Ident) (h : B (delEx nm σ) x) : B σ x := by
  unfold delEx at h
  cases hn : exName nm with
  | none => simpa [hn] using h
  | some y =>
    simp only [hn, B, State.del] at h
    obtain ⟨d, hd⟩ := h
    by_cases e : x = y
    · simp [e] at hd
    · exact ⟨d, by simpa [e] using hd⟩

theorem wfH_isHcons (s : Stmt) (h : wf.wfH s = true) (hne : s ≠ .hnil) : isHcons s = true := by
  cases s <;> simp_all [wf.wfH, isHcons]

theorem exec_vis (x : Ident) (h : Exec s σ o σ') :
    (wf s = true → Vis s x σ o σ') ∧ (wf.wfH s = true → Vis s x σ o σ') := by
  induction h with
  | skip => simp +contextual [Vis, InvN, pass, wf.wfH]
  | @bind y d σ =>
      refine ⟨fun _ => ⟨fun _ hb => ?_, by simp⟩, by simp [wf.wfH]⟩
      by_cases e : x = y
      · exact .inl ⟨d, by simp [gen, e]⟩
      · refine .inr ⟨by simp [pass, e], ?_⟩
        obtain ⟨d', hd⟩ := hb
        exact ⟨d', by simpa [State.upd, e] using hd⟩
  | gbind => simp [wf, wf.wfH]
  | read => simp +contextual [Vis, InvN, pass, wf.wfH]
  | readStop => simp +contextual [Vis, InvS, passAt, wf.wfH]
  | @seqN s σ σ1 t o σ2 _ _ ih1 ih2 =>
      refine ⟨fun hw => ?_, by simp [wf.wfH]⟩
      simp only [wf, Bool.and_eq_true] at hw
      have g1 := ih1.1 hw.1; have g2 := ih2.1 hw.2
      have p1 := (pass_or_gen x s).1 hw.1; have p2 := (pass_or_gen x t).1 hw.2
      simp only [Vis, InvN, InvS, G1, GA1, gen, pass, genAt, passAt] at *
      grind
  | @seqA s σ o σ1 t _ hne ih1 =>
      refine ⟨fun hw => ?_, by simp [wf.wfH]⟩
      simp only [wf, Bool.and_eq_true] at hw
      have g1 := ih1.1 hw.1
      have p1 := (pass_or_gen x s).1 hw.1; have p2 := (pass_or_gen x t).1 hw.2
      simp only [Vis, InvN, InvS, G1, GA1, gen, pass, genAt, passAt] at *
      grind
  | @iteT c σ σ1 a o σ2 b _ _ ihc iha =>
      refine ⟨fun hw => ?_, by simp [wf.wfH]⟩
      simp only [wf, Bool.and_eq_true] at hw
      have gc := ihc.1 hw.1.1; have ga := iha.1 hw.1.2
      have p1 := (pass_or_gen x c).1 hw.1.1; have p2 := (pass_or_gen x a).1 hw.1.2; have p3 := (pass_or_gen x b).1 hw.2
      simp only [Vis, InvN, InvS, G1, GA1, gen, pass, genAt, passAt] at *
      grind
  | @iteF c σ σ1 b o σ2 a _ _ ihc ihb =>
      refine ⟨fun hw => ?_, by simp [wf.wfH]⟩
      simp only [wf, Bool.and_eq_true] at hw
      have gc := ihc.1 hw.1.1; have gb := ihb.1 hw.2
      have p1 := (pass_or_gen x c).1 hw.1.1; have p2 := (pass_or_gen x a).1 hw.1.2; have p3 := (pass_or_gen x b).1 hw.2
      simp only [Vis, InvN, InvS, G1, GA1, gen, pass, genAt, passAt] at *
      grind
  | @iteS c σ r σ1 a b _ ihc =>
      refine ⟨fun hw => ?_, by simp [wf.wfH]⟩
      simp only [wf, Bool.and_eq_true] at hw
      have gc := ihc.1 hw.1.1
      simp only [Vis, InvN, InvS, G1, GA1, gen, pass, genAt, passAt] at *
      grind
  | @whileExit c σ σ1 e o σ2 b _ _ ihc ihe =>
      refine ⟨fun hw => ?_, by simp [wf.wfH]⟩
      simp only [wf, Bool.and_eq_true] at hw
      have gc := ihc.1 hw.1.1; have ge := ihe.1 hw.2
      have p1 := (pass_or_gen x c).1 hw.1.1; have p2 := (pass_or_gen x b).1 hw.1.2; have p3 := (pass_or_gen x e).1 hw.2
      simp only [Vis, InvN, InvS, G1, GA1, gen, pass, genAt, passAt] at *
      grind
  | @whileStep c σ σ1 b ob σ2 e o σ3 _ _ hob _ ihc ihb ihw =>
      refine ⟨fun hw => ?_, by simp [wf.wfH]⟩
      have gw := ihw.1 hw
      simp only [wf, Bool.and_eq_true] at hw
      have gc := ihc.1 hw.1.1; have gb := ihb.1 hw.1.2
      have p1 := (pass_or_gen x c).1 hw.1.1; have p2 := (pass_or_gen x b).1 hw.1.2; have p3 := (pass_or_gen x e).1 hw.2
      simp only [Vis, InvN, InvS, G1, GA1, gen, pass, genAt, passAt] at *
      grind
  | @whileBrk c σ σ1 b σ2 e _ _ ihc ihb =>
      refine ⟨fun hw => ?_, by simp [wf.wfH]⟩
      simp only [wf, Bool.and_eq_true] at hw
      have gc := ihc.1 hw.1.1; have gb := ihb.1 hw.1.2
      have p1 := (pass_or_gen x c).1 hw.1.1; have p2 := (pass_or_gen x b).1 hw.1.2; have p3 := (pass_or_gen x e).1 hw.2
      simp only [Vis, InvN, InvS, G1, GA1, gen, pass, genAt, passAt] at *
      grind
  | @whileAbort c σ σ1 b ob σ2 e _ _ hob ihc ihb =>
      refine ⟨fun hw => ?_, by simp [wf.wfH]⟩
      simp only [wf, Bool.and_eq_true] at hw
      have gc := ihc.1 hw.1.1; have gb := ihb.1 hw.1.2
      have p1 := (pass_or_gen x c).1 hw.1.1; have p2 := (pass_or_gen x b).1 hw.1.2; have p3 := (pass_or_gen x e).1 hw.2
      simp only [Vis, InvN, InvS, G1, GA1, gen, pass, genAt, passAt] at *
      grind
  | @whileS c σ r σ1 b e _ ihc =>
      refine ⟨fun hw => ?_, by simp [wf.wfH]⟩
      simp only [wf, Bool.and_eq_true] at hw
      have gc := ihc.1 hw.1.1
      simp only [Vis, InvN, InvS, G1, GA1, gen, pass, genAt, passAt] at *
      grind
  | @for_ it tg b e σ o σ' _ ih =>
      refine ⟨fun hw => ?_, by simp [wf.wfH]⟩
      simp only [wf, Bool.and_eq_true] at hw
      have hd : wf (.seq it (.while_ .skip (.seq tg b) e)) = true := by
        simp [wf, hw.1.1.1.1, hw.1.1.2, hw.1.2, hw.2]
      have g := ih.1 hd
      have nr1 : ∀ r, passAt tg r x = False := fun r => eq_false (isBinds_noReads tg hw.1.1.1.2 r x none).1
      have nr2 : ∀ r v, genAt tg r x v = False := fun r v => eq_false (isBinds_noReads tg hw.1.1.1.2 r x v).2
      have p1 := (pass_or_gen x it).1 hw.1.1.1.1; have p2 := (pass_or_gen x tg).1 hw.1.1.2
      have p3 := (pass_or_gen x b).1 hw.1.2; have p4 := (pass_or_gen x e).1 hw.2
      simp only [Vis, InvN, InvS, G1, GA1, gen, pass, genAt, passAt, nr1, nr2] at *
      grind
  | @tryN b σ σ1 e o σ2 r1 r2 hs _ _ ihb ihe =>
      refine ⟨fun hw => ?_, by simp [wf.wfH]⟩
      simp only [wf, Bool.and_eq_true] at hw
      have gb := ihb.1 hw.1.1.1; have ge := ihe.1 hw.2
      have p1 := (pass_or_gen x b).1 hw.1.1.1; have p2 := (pass_or_gen x hs).2 hw.1.2 hw.1.1.2; have p3 := (pass_or_gen x e).1 hw.2
      simp only [Vis, InvN, InvS, G1, GA1, gen, pass, genAt, passAt] at *
      grind
  | @tryX b σ σ1 hs o σ2 r1 r2 e _ _ ihb ihh =>
      refine ⟨fun hw => ?_, by simp [wf.wfH]⟩
      simp only [wf, Bool.and_eq_true] at hw
      have gb := ihb.1 hw.1.1.1; have gh := ihh.2 hw.1.2
      have p1 := (pass_or_gen x b).1 hw.1.1.1; have p2 := (pass_or_gen x hs).2 hw.1.2 hw.1.1.2; have p3 := (pass_or_gen x e).1 hw.2
      simp only [Vis, InvN, InvS, G1, GA1, gen, pass, genAt, passAt] at *
      grind
  | @tryX1 hs σ o σ2 r2 b e _ ihh =>
      refine ⟨fun hw => ?_, by simp [wf.wfH]⟩
      simp only [wf, Bool.and_eq_true] at hw
      have gh := ihh.2 hw.1.2
      have p1 := (pass_or_gen x b).1 hw.1.1.1; have p2 := (pass_or_gen x hs).2 hw.1.2 hw.1.1.2; have p3 := (pass_or_gen x e).1 hw.2
      simp only [Vis, InvN, InvS, G1, GA1, gen, pass, genAt, passAt] at *
      grind
  | @tryX2 b σ σ1 hs o σ2 r1 e _ _ ihb ihh =>
      refine ⟨fun hw => ?_, by simp [wf.wfH]⟩
      simp only [wf, Bool.and_eq_true] at hw
      have gb := ihb.1 hw.1.1.1; have gh := ihh.2 hw.1.2
      have p1 := (pass_or_gen x b).1 hw.1.1.1; have p2 := (pass_or_gen x hs).2 hw.1.2 hw.1.1.2; have p3 := (pass_or_gen x e).1 hw.2
      simp only [Vis, InvN, InvS, G1, GA1, gen, pass, genAt, passAt] at *
      grind
  | @tryJ b σ o σ1 r1 r2 hs e _ hn hx ihb =>
      refine ⟨fun hw => ?_, by simp [wf.wfH]⟩
      simp only [wf, Bool.and_eq_true] at hw
      have gb := ihb.1 hw.1.1.1
      have p1 := (pass_or_gen x b).1 hw.1.1.1; have p2 := (pass_or_gen x hs).2 hw.1.2 hw.1.1.2; have p3 := (pass_or_gen x e).1 hw.2
      simp only [Vis, InvN, InvS, G1, GA1, gen, pass, genAt, passAt] at *
      grind
  | @hMatch ty σ nm σ2 hb o σ3 rest _ _ _ hns ihty ihnm ihhb =>
      refine ⟨by simp [wf], fun hw => ?_⟩
      simp only [wf.wfH, Bool.and_eq_true] at hw
      have gn := ihnm.1 hw.1.1.2; have gb := ihhb.1 hw.1.2
      have p1 := (pass_or_gen x ty).1 hw.1.1.1; have p2 := (pass_or_gen x nm).1 hw.1.1.2; have p3 := (pass_or_gen x hb).1 hw.1.2
      have hdel := B_del nm σ3 x
      clear ihty ihnm ihhb
      simp only [Vis, InvN, InvS, G1, GA1, gen, pass, genAt, passAt] at *
      grind
  | @hMatchS ty σ nm σ2 hb r σ3 rest _ _ _ ihty ihnm ihhb =>
      refine ⟨by simp [wf], fun hw => ?_⟩
      simp only [wf.wfH, Bool.and_eq_true] at hw
      have gn := ihnm.1 hw.1.1.2; have gb := ihhb.1 hw.1.2
      have p1 := (pass_or_gen x ty).1 hw.1.1.1; have p2 := (pass_or_gen x nm).1 hw.1.1.2; have p3 := (pass_or_gen x hb).1 hw.1.2
      clear ihty ihnm ihhb
      simp only [Vis, InvN, InvS, G1, GA1, gen, pass, genAt, passAt] at *
      grind
  | @hSkip rest ty σ o σ2 nm hb hne _ _ ihty ihr =>
      refine ⟨by simp [wf], fun hw => ?_⟩
      simp only [wf.wfH, Bool.and_eq_true] at hw
      have gr := ihr.2 hw.2
      clear ihty ihr
      simp only [Vis, InvN, InvS, G1, GA1, gen, pass, genAt, passAt] at *
      grind
  | @hS ty σ r σ1 nm hb rest _ ihty =>
      refine ⟨by simp [wf], fun hw => ?_⟩
      simp only [wf.wfH, Bool.and_eq_true] at hw
      have gt := ihty.1 hw.1.1.1
      simp only [Vis, InvN, InvS, G1, GA1, gen, pass, genAt, passAt] at *
      grind
  | @finN s σ o σ1 f σ2 _ hns _ ihs ihf =>
      refine ⟨fun hw => ?_, by simp [wf.wfH]⟩
      simp only [wf, Bool.and_eq_true] at hw
      have gs := ihs.1 hw.1; have gf := ihf.1 hw.2
      have p1 := (pass_or_gen x s).1 hw.1; have p2 := (pass_or_gen x f).1 hw.2
      simp only [Vis, InvN, InvS, G1, GA1, gen, pass, genAt, passAt] at *
      grind
  | @finA s σ o σ1 f o' σ2 _ hns _ hne ihs ihf =>
      refine ⟨fun hw => ?_, by simp [wf.wfH]⟩
      simp only [wf, Bool.and_eq_true] at hw
      have gs := ihs.1 hw.1; have gf := ihf.1 hw.2
      have p1 := (pass_or_gen x s).1 hw.1; have p2 := (pass_or_gen x f).1 hw.2
      simp only [Vis, InvN, InvS, G1, GA1, gen, pass, genAt, passAt] at *
      grind
  | @finS s σ r σ1 f _ ihs =>
      refine ⟨fun hw => ?_, by simp [wf.wfH]⟩
      simp only [wf, Bool.and_eq_true] at hw
      have gs := ihs.1 hw.1
      simp only [Vis, InvN, InvS, G1, GA1, gen, pass, genAt, passAt] at *
      grind
  | @def_ pre σ σ1 f d ps body _ ihp =>
      refine ⟨fun hw => ?_, by simp [wf.wfH]⟩
      simp only [wf] at hw
      have gp := ihp.1 hw
      have hu : B (σ1.upd f d) x → x = f ∨ B σ1 x := by
        intro ⟨d', hd⟩; by_cases e : x = f
        · exact .inl e
        · exact .inr ⟨d', by simpa [State.upd, e] using hd⟩
      have hf : ∀ d' : Site, (∃ d'' : Site, some d'' = some d') := fun d' => ⟨d', rfl⟩
      simp only [Vis, InvN, InvS, G1, GA1, gen, pass, genAt, passAt] at *
      by_cases e : x = f
      · simp [e]
      · grind
  | @defS pre σ r σ1 f d ps body _ ihp =>
      refine ⟨fun hw => ?_, by simp [wf.wfH]⟩
      simp only [wf] at hw
      have gp := ihp.1 hw
      simp only [Vis, InvN, InvS, G1, GA1, gen, pass, genAt, passAt] at *
      grind
  | @lam pre σ σ1 ps body _ ihp =>
      refine ⟨fun hw => ?_, by simp [wf.wfH]⟩
      simp only [wf] at hw
      have gp := ihp.1 hw
      simp only [Vis, InvN, InvS, G1, GA1, gen, pass, genAt, passAt] at *
      grind
  | @lamS pre σ r σ1 ps body _ ihp =>
      refine ⟨fun hw => ?_, by simp [wf.wfH]⟩
      simp only [wf] at hw
      have gp := ihp.1 hw
      simp only [Vis, InvN, InvS, G1, GA1, gen, pass, genAt, passAt] at *
      grind
  | @clsN pre σ σ1 body σ2 c d _ _ ihp ihb =>
      refine ⟨fun hw => ?_, by simp [wf.wfH]⟩
      simp only [wf] at hw
      have gp := ihp.1 hw
      have hu : B (σ1.upd c d) x → x = c ∨ B σ1 x := by
        intro ⟨d', hd⟩; by_cases e : x = c
        · exact .inl e
        · exact .inr ⟨d', by simpa [State.upd, e] using hd⟩
      clear ihb
      simp only [Vis, InvN, InvS, G1, GA1, gen, pass, genAt, passAt] at *
      by_cases e : x = c
      · simp [e]
      · grind
  | @clsX pre σ σ1 body σ2 c d _ _ ihp ihb =>
      refine ⟨fun hw => ?_, by simp [wf.wfH]⟩
      simp only [wf] at hw
      have gp := ihp.1 hw
      clear ihb
      simp only [Vis, InvN, InvS, G1, GA1, gen, pass, genAt, passAt] at *
      by_cases e : x = c
      · simp [e]
      · grind
  | @clsS pre σ r σ1 c d body _ ihp =>
      refine ⟨fun hw => ?_, by simp [wf.wfH]⟩
      simp only [wf] at hw
      have gp := ihp.1 hw
      simp only [Vis, InvN, InvS, G1, GA1, gen, pass, genAt, passAt] at *
      grind
  | compN => simp [wf, wf.wfH]
  | compS1 => simp [wf, wf.wfH]
  | compS2 => simp [wf, wf.wfH]
  | mayraiseN => simp +contextual [Vis, InvN, pass, wf.wfH]
  | mayraiseX => simp +contextual [Vis, InvN, pass, wf.wfH]
  | brk => simp +contextual [Vis, InvN, pass, wf.wfH]
  | cont => simp +contextual [Vis, InvN, pass, wf.wfH]
  | ret => simp +contextual [Vis, InvN, pass, wf.wfH]
  | raise_ => simp +contextual [Vis, InvN, pass, wf.wfH]

end SuppModel.Den
