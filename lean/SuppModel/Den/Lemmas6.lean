/- The executable interpreter `run` (what the driver evaluates and the harness compares with CPython) is sound for the
   relational semantics `Exec` / `Chain` the theorems are about. -/
import SuppModel.Den.Lemmas2
namespace SuppModel.Den

abbrev Ev := RId × Option Site

/-- a trace event `(r, v)`: some execution evaluates read `r`, whose name then holds `v` -/
def EvE (s : Stmt) (σ : State) (e : Ev) : Prop :=
  ∃ x σr, (e.1, x) ∈ readsOf s ∧ Exec s σ (.stop e.1) σr ∧ σr x = e.2

def EvC (s : Stmt) (σ : State) (e : Ev) : Prop :=
  ∃ x σr, (e.1, x) ∈ readsOf s ∧ Chain s σ (.stop e.1) σr ∧ σr x = e.2

/-- a run from `(σ, tr)` to `(σ', tr')` with outcome `o` is an execution, and its new trace events are reachable reads -/
def Sound (s : Stmt) (σ : State) (tr : List Ev) (o : Outcome) (σ' : State) (tr' : List Ev) : Prop :=
  (∀ r, o ≠ .stop r) ∧ Exec s σ o σ' ∧ ∃ evs, tr' = evs ++ tr ∧ ∀ e ∈ evs, EvE s σ e

def CSound (s : Stmt) (σ : State) (tr : List Ev) (o : Outcome) (σ' : State) (tr' : List Ev) : Prop :=
  o = .normal ∧ Chain s σ .normal σ' ∧ ∃ evs, tr' = evs ++ tr ∧ ∀ e ∈ evs, EvC s σ e

theorem EvE.lift {sub s : Stmt} {σ1 σ : State} {e : Ev} (hr : ∀ p, p ∈ readsOf sub → p ∈ readsOf s)
    (hx : ∀ r σr, Exec sub σ1 (.stop r) σr → Exec s σ (.stop r) σr) (h : EvE sub σ1 e) : EvE s σ e := by
  obtain ⟨x, σr, h1, h2, h3⟩ := h
  exact ⟨x, σr, hr _ h1, hx _ _ h2, h3⟩

theorem EvC.lift {sub s : Stmt} {σ1 σ : State} {e : Ev} (hr : ∀ p, p ∈ readsOf sub → p ∈ readsOf s)
    (hx : ∀ r σr, Chain sub σ1 (.stop r) σr → Chain s σ (.stop r) σr) (h : EvC sub σ1 e) : EvC s σ e := by
  obtain ⟨x, σr, h1, h2, h3⟩ := h
  exact ⟨x, σr, hr _ h1, hx _ _ h2, h3⟩

/-! ### generic composition -/

theorem sound_one {a s : Stmt} {σ σ0 σ' : State} {tr tr' : List Ev} {oa o : Outcome}
    (hr : ∀ p, p ∈ readsOf a → p ∈ readsOf s)
    (hx : ∀ r σr, Exec a σ0 (.stop r) σr → Exec s σ (.stop r) σr)
    (hns : ∀ r, o ≠ .stop r) (hex : Exec s σ o σ')
    (S : Sound a σ0 tr oa σ' tr') : Sound s σ tr o σ' tr' := by
  obtain ⟨_, _, evs, ht, he⟩ := S
  exact ⟨hns, hex, evs, ht, fun e h => (he e h).lift hr hx⟩

theorem sound_two {a b s : Stmt} {σ σa σ1 σb σ2 : State} {tr tr1 tr2 : List Ev} {oa ob o : Outcome}
    (hra : ∀ p, p ∈ readsOf a → p ∈ readsOf s) (hrb : ∀ p, p ∈ readsOf b → p ∈ readsOf s)
    (hxa : ∀ r σr, Exec a σa (.stop r) σr → Exec s σ (.stop r) σr)
    (hxb : ∀ r σr, Exec b σb (.stop r) σr → Exec s σ (.stop r) σr)
    (hns : ∀ r, o ≠ .stop r) (hex : Exec s σ o σ2)
    (SA : Sound a σa tr oa σ1 tr1) (SB : Sound b σb tr1 ob σ2 tr2) : Sound s σ tr o σ2 tr2 := by
  obtain ⟨_, _, ea, hta, hea⟩ := SA
  obtain ⟨_, _, eb, htb, heb⟩ := SB
  refine ⟨hns, hex, eb ++ ea, by simp [hta, htb], fun e h => ?_⟩
  rcases List.mem_append.1 h with h | h
  · exact (heb e h).lift hrb hxb
  · exact (hea e h).lift hra hxa

theorem sound_three {a b c s : Stmt} {σ σa σ1 σb σ2 σc σ3 : State} {tr tr1 tr2 tr3 : List Ev} {oa ob oc o : Outcome}
    (hra : ∀ p, p ∈ readsOf a → p ∈ readsOf s) (hrb : ∀ p, p ∈ readsOf b → p ∈ readsOf s)
    (hrc : ∀ p, p ∈ readsOf c → p ∈ readsOf s)
    (hxa : ∀ r σr, Exec a σa (.stop r) σr → Exec s σ (.stop r) σr)
    (hxb : ∀ r σr, Exec b σb (.stop r) σr → Exec s σ (.stop r) σr)
    (hxc : ∀ r σr, Exec c σc (.stop r) σr → Exec s σ (.stop r) σr)
    (hns : ∀ r, o ≠ .stop r) (hex : Exec s σ o σ3)
    (SA : Sound a σa tr oa σ1 tr1) (SB : Sound b σb tr1 ob σ2 tr2) (SC : Sound c σc tr2 oc σ3 tr3) :
    Sound s σ tr o σ3 tr3 := by
  obtain ⟨_, _, ea, hta, hea⟩ := SA
  obtain ⟨_, _, eb, htb, heb⟩ := SB
  obtain ⟨_, _, ec, htc, hec⟩ := SC
  refine ⟨hns, hex, ec ++ eb ++ ea, by simp [hta, htb, htc], fun e h => ?_⟩
  rcases List.mem_append.1 h with h | h
  · rcases List.mem_append.1 h with h | h
    · exact (hec e h).lift hrc hxc
    · exact (heb e h).lift hrb hxb
  · exact (hea e h).lift hra hxa

theorem csound_two {a b s : Stmt} {σ σa σ1 σb σ2 : State} {tr tr1 tr2 : List Ev} {oa ob : Outcome}
    (hra : ∀ p, p ∈ readsOf a → p ∈ readsOf s) (hrb : ∀ p, p ∈ readsOf b → p ∈ readsOf s)
    (hxa : ∀ r σr, Chain a σa (.stop r) σr → Chain s σ (.stop r) σr)
    (hxb : ∀ r σr, Chain b σb (.stop r) σr → Chain s σ (.stop r) σr)
    (hex : Chain s σ .normal σ2)
    (SA : CSound a σa tr oa σ1 tr1) (SB : CSound b σb tr1 ob σ2 tr2) : CSound s σ tr .normal σ2 tr2 := by
  obtain ⟨_, _, ea, hta, hea⟩ := SA
  obtain ⟨_, _, eb, htb, heb⟩ := SB
  refine ⟨rfl, hex, eb ++ ea, by simp [hta, htb], fun e h => ?_⟩
  rcases List.mem_append.1 h with h | h
  · exact (heb e h).lift hrb hxb
  · exact (hea e h).lift hra hxa

theorem sound_nil {s : Stmt} {σ σ' : State} {tr : List Ev} {o : Outcome} (hns : ∀ r, o ≠ .stop r)
    (hex : Exec s σ o σ') : Sound s σ tr o σ' tr :=
  ⟨hns, hex, [], rfl, by simp⟩

/-! ### the interpreter -/

theorem bindN_some {res : RunRes} {k : RunSt → RunRes} {o : Outcome} {st' : RunSt}
    (h : res.bindN k = some (o, st')) :
    (∃ st1, res = some (.normal, st1) ∧ k st1 = some (o, st')) ∨ (res = some (o, st') ∧ o ≠ .normal) := by
  rcases res with _ | ⟨o1, st1⟩
  · simp [RunRes.bindN] at h
  · cases o1 <;> simp only [RunRes.bindN] at h
    · exact .inl ⟨st1, rfl, h⟩
    all_goals (simp only [Option.some.injEq, Prod.mk.injEq] at h; obtain ⟨h1, h2⟩ := h; subst h1 h2; exact .inr ⟨rfl, by simp⟩)

@[simp] theorem pop_σ (st : RunSt) : st.pop.2.σ = st.σ := by
  unfold RunSt.pop; cases st.ds <;> rfl
@[simp] theorem pop_tr (st : RunSt) : st.pop.2.tr = st.tr := by
  unfold RunSt.pop; cases st.ds <;> rfl
@[simp] theorem popIf_σ (st : RunSt) (s : Stmt) : (st.popIf s).2.σ = st.σ := by
  unfold RunSt.popIf; split <;> simp
@[simp] theorem popIf_tr (st : RunSt) (s : Stmt) : (st.popIf s).2.tr = st.tr := by
  unfold RunSt.popIf; split <;> simp
@[simp] theorem popMatch_σ (st : RunSt) (s : Stmt) : (st.popMatch s).2.σ = st.σ := by
  unfold RunSt.popMatch; split <;> simp
@[simp] theorem popMatch_tr (st : RunSt) (s : Stmt) : (st.popMatch s).2.tr = st.tr := by
  unfold RunSt.popMatch; split <;> simp
@[simp] theorem popTrip_σ (st : RunSt) (k : Nat) : (st.popTrip k).2.σ = st.σ := by
  unfold RunSt.popTrip; split <;> simp
@[simp] theorem popTrip_tr (st : RunSt) (k : Nat) : (st.popTrip k).2.tr = st.tr := by
  unfold RunSt.popTrip; split <;> simp

theorem isEvents_runWf (s : Stmt) (h : isEvents s = true) : runWf s = true := by
  induction s <;> simp_all [isEvents, runWf]

theorem isEvents_chainWf (s : Stmt) (h : isEvents s = true) : chainWf s = true := by
  induction s <;> simp_all [isEvents, chainWf]

theorem isNm_runWf (s : Stmt) (h : isNm s = true) : runWf s = true := by
  cases s <;> simp_all [isNm, runWf]


theorem isNm_reads (s : Stmt) (h : isNm s = true) : readsOf s = [] := by
  cases s <;> simp_all [isNm, readsOf]

theorem isBinds_reads (s : Stmt) (h : isBinds s = true) : readsOf s = [] := by
  induction s <;> simp_all [isBinds, readsOf]

theorem evE_nil {s : Stmt} {σ : State} {e : Ev} (h : readsOf s = []) : ¬ EvE s σ e := by
  rintro ⟨x, σr, h1, _⟩; simp [h] at h1

theorem evC_nil {s : Stmt} {σ : State} {e : Ev} (h : readsOf s = []) : ¬ EvC s σ e := by
  rintro ⟨x, σr, h1, _⟩; simp [h] at h1

/-- reads do not change the state -/
theorem run_reads_σ (s : Stmt) (hr : isReads s = true) :
    ∀ n st o st', run n s st = some (o, st') → st'.σ = st.σ := by
  induction s with
  | skip => intro n st o st' h; cases n <;> simp [run] at h; rw [← h.2]
  | read x r => intro n st o st' h; cases n <;> simp [run] at h; rw [← h.2]
  | seq a b iha ihb =>
      intro n st o st' h
      simp only [isReads, Bool.and_eq_true] at hr
      cases n with
      | zero => simp [run] at h
      | succ n =>
        simp only [run] at h
        rcases bindN_some h with ⟨st1, h1, h2⟩ | ⟨h1, _⟩
        · rw [ihb hr.2 n st1 o st' h2, iha hr.1 n st .normal st1 h1]
        · exact iha hr.1 n st o st' h1
  | _ => simp [isReads] at hr

theorem nm_normal (nm : Stmt) (h : isNm nm = true) (n : Nat) (st : RunSt) (o : Outcome) (st' : RunSt)
    (hr : run n nm st = some (o, st')) : o = .normal := by
  cases nm <;> simp [isNm] at h <;> cases n <;> simp [run] at hr <;> exact hr.1.symm

def RunOK (n : Nat) : Prop :=
  (∀ s st o st', runWf s = true → run n s st = some (o, st') → Sound s st.σ st.tr o st'.σ st'.tr) ∧
  (∀ s st o st', runWf.hsWf s = true → run n s st = some (o, st') → Sound s st.σ st.tr o st'.σ st'.tr) ∧
  (∀ c b e k st o st', isEvents c = true → runWf b = true → runWf e = true →
      run.loop n c b e k st = some (o, st') → Sound (.while_ c b e) st.σ st.tr o st'.σ st'.tr) ∧
  (∀ g st o st', chainWf g = true → run n g st = some (o, st') → CSound g st.σ st.tr o st'.σ st'.tr) ∧
  (∀ tg ifs inner k st o st', isBinds tg = true → isEvents ifs = true → chainWf inner = true →
      run.cloop n tg ifs inner k st = some (o, st') → CSound (.cfor tg ifs inner) st.σ st.tr o st'.σ st'.tr)


theorem events_normal {n : Nat} (ih : RunOK n) {c : Stmt} (hc : isEvents c = true) {st : RunSt} {o : Outcome} {st' : RunSt}
    (h : run n c st = some (o, st')) : o = .normal :=
  (ih.2.2.2.1 c st o st' (isEvents_chainWf c hc) h).1

theorem step_loop {n : Nat} (ih : RunOK n) :
    ∀ c b e k st o st', isEvents c = true → runWf b = true → runWf e = true →
      run.loop (n + 1) c b e k st = some (o, st') → Sound (.while_ c b e) st.σ st.tr o st'.σ st'.tr := by
  have evn := fun c hc st o st' h => @events_normal n ih c hc st o st' h
  obtain ⟨R, _, L, _, _⟩ := ih
  intro c b e k st o st' hc hb he h
  simp only [run.loop] at h
  have rc : ∀ p, p ∈ readsOf c → p ∈ readsOf (.while_ c b e) := fun p hp => by simp [readsOf, hp]
  have rb : ∀ p, p ∈ readsOf b → p ∈ readsOf (.while_ c b e) := fun p hp => by simp [readsOf, hp]
  have re : ∀ p, p ∈ readsOf e → p ∈ readsOf (.while_ c b e) := fun p hp => by simp [readsOf, hp]
  rcases bindN_some h with ⟨st1, h1, h2⟩ | ⟨h1, hne⟩
  · have SC := R c st .normal st1 (isEvents_runWf c hc) h1
    by_cases hd : (st1.popTrip k).1 = true
    · simp only [hd, if_true] at h2
      rcases hrb : run n b (st1.popTrip k).2 with _ | ⟨ob, st3⟩
      · simp [hrb] at h2
      · have SB := R b _ ob st3 hb hrb
        simp only [popTrip_σ, popTrip_tr] at SB
        have xc : ∀ r σr, Exec c st.σ (.stop r) σr → Exec (.while_ c b e) st.σ (.stop r) σr := fun _ _ hx => .whileS hx
        have xb : ∀ r σr, Exec b st1.σ (.stop r) σr → Exec (.while_ c b e) st.σ (.stop r) σr :=
          fun r _ hx => .whileAbort SC.2.1 hx (.inr (.inr ⟨r, rfl⟩))
        cases ob with
        | normal =>
            simp only [hrb] at h2
            have SW := L c b e (k + 1) st3 o st' hc hb he h2
            exact sound_three rc rb (fun p hp => hp) xc xb
              (fun _ _ hx => .whileStep SC.2.1 SB.2.1 (.inl rfl) hx) SW.1
              (.whileStep SC.2.1 SB.2.1 (.inl rfl) SW.2.1) SC SB SW
        | cont =>
            simp only [hrb] at h2
            have SW := L c b e (k + 1) st3 o st' hc hb he h2
            exact sound_three rc rb (fun p hp => hp) xc xb
              (fun _ _ hx => .whileStep SC.2.1 SB.2.1 (.inr rfl) hx) SW.1
              (.whileStep SC.2.1 SB.2.1 (.inr rfl) SW.2.1) SC SB SW
        | brk =>
            simp only [hrb, Option.some.injEq, Prod.mk.injEq] at h2
            obtain ⟨rfl, rfl⟩ := h2
            exact sound_two rc rb xc xb (by simp) (.whileBrk SC.2.1 SB.2.1) SC SB
        | ret =>
            simp only [hrb, Option.some.injEq, Prod.mk.injEq] at h2
            obtain ⟨rfl, rfl⟩ := h2
            exact sound_two rc rb xc xb (by simp) (.whileAbort SC.2.1 SB.2.1 (.inl rfl)) SC SB
        | exc =>
            simp only [hrb, Option.some.injEq, Prod.mk.injEq] at h2
            obtain ⟨rfl, rfl⟩ := h2
            exact sound_two rc rb xc xb (by simp) (.whileAbort SC.2.1 SB.2.1 (.inr (.inl rfl))) SC SB
        | stop r => exact absurd rfl (SB.1 r)
    · simp only [hd, if_false] at h2
      have SE := R e _ o st' he h2
      simp only [popTrip_σ, popTrip_tr] at SE
      exact sound_two rc re (fun _ _ hx => .whileS hx) (fun _ _ hx => .whileExit SC.2.1 hx) SE.1
        (.whileExit SC.2.1 SE.2.1) SC SE
  · exact absurd (evn c hc _ _ _ h1) hne


theorem step_chain {n : Nat} (ih : RunOK n) :
    ∀ g st o st', chainWf g = true → run (n + 1) g st = some (o, st') → CSound g st.σ st.tr o st'.σ st'.tr := by
  obtain ⟨_, _, _, C, CL⟩ := ih
  intro g st o st' hw h
  cases g with
  | skip =>
      simp only [run, Option.some.injEq, Prod.mk.injEq] at h; obtain ⟨rfl, rfl⟩ := h
      exact ⟨rfl, .skip, [], rfl, by simp⟩
  | bind x d =>
      simp only [run, Option.some.injEq, Prod.mk.injEq] at h; obtain ⟨rfl, rfl⟩ := h
      exact ⟨rfl, .bind, [], rfl, by simp⟩
  | read x r =>
      simp only [run, Option.some.injEq, Prod.mk.injEq] at h; obtain ⟨rfl, rfl⟩ := h
      refine ⟨rfl, .read, [(r, st.σ x)], rfl, fun e he => ?_⟩
      simp only [List.mem_singleton] at he; subst he
      exact ⟨x, st.σ, by simp [readsOf], .readStop, rfl⟩
  | seq a b =>
      simp only [chainWf, Bool.and_eq_true] at hw
      simp only [run] at h
      rcases bindN_some h with ⟨st1, h1, h2⟩ | ⟨h1, hne⟩
      · have CA := C a st .normal st1 (isEvents_chainWf a hw.1) h1
        have CB := C b st1 o st' hw.2 h2
        have := CB.1; subst this
        exact csound_two (fun p hp => by simp [readsOf, hp]) (fun p hp => by simp [readsOf, hp])
          (fun _ _ hx => .seqS hx) (fun _ _ hx => .seqN CA.2.1 hx) (.seqN CA.2.1 CB.2.1) CA CB
      · exact absurd (C a st o st' (isEvents_chainWf a hw.1) h1).1 hne
  | cfor tg ifs inner =>
      simp only [chainWf, Bool.and_eq_true] at hw
      simp only [run] at h
      exact CL tg ifs inner 0 st o st' hw.1.1 hw.1.2 hw.2 h
  | _ => simp [chainWf, isEvents] at hw

theorem step_cloop {n : Nat} (ih : RunOK n) :
    ∀ tg ifs inner k st o st', isBinds tg = true → isEvents ifs = true → chainWf inner = true →
      run.cloop (n + 1) tg ifs inner k st = some (o, st') →
      CSound (.cfor tg ifs inner) st.σ st.tr o st'.σ st'.tr := by
  obtain ⟨_, _, _, C, CL⟩ := ih
  intro tg ifs inner k st o st' ht hi hn h
  simp only [run.cloop] at h
  by_cases hd : (st.popTrip k).1 = true
  · simp only [hd, if_true] at h
    rcases bindN_some h with ⟨st2, h1, h2⟩ | ⟨h1, hne⟩
    · have CT := C tg _ .normal st2 (isEvents_chainWf tg (isBinds_isEvents tg ht)) h1
      simp only [popTrip_σ, popTrip_tr] at CT
      rcases bindN_some h2 with ⟨st3, h3, h4⟩ | ⟨h3, hne⟩
      · have CI := C ifs st2 .normal st3 (isEvents_chainWf ifs hi) h3
        obtain ⟨_, ct, et, htt, het⟩ := CT
        obtain ⟨_, ci, ei, hti, hei⟩ := CI
        have ri : ∀ q, q ∈ readsOf ifs → q ∈ readsOf (.cfor tg ifs inner) := fun q hq => by simp [readsOf, hq]
        have rn : ∀ q, q ∈ readsOf inner → q ∈ readsOf (.cfor tg ifs inner) := fun q hq => by simp [readsOf, hq]
        have xi : ∀ r σr, Chain ifs st2.σ (.stop r) σr → Chain (.cfor tg ifs inner) st.σ (.stop r) σr :=
          fun _ _ hx => .iterS1 ct hx
        have tnil : ∀ e, e ∈ et → False := fun e he => evC_nil (isBinds_reads tg ht) (het e he)
        by_cases hp1 : (st3.popIf ifs).1 = true
        · simp only [hp1, if_true] at h4
          rcases bindN_some h4 with ⟨st5, h5, h6⟩ | ⟨h5, hne⟩
          · have CN := C inner _ .normal st5 hn h5
            simp only [popIf_σ, popIf_tr] at CN
            have CR := CL tg ifs inner (k + 1) st5 o st' ht hi hn h6
            obtain ⟨_, cn, en, htn, hen⟩ := CN
            obtain ⟨ho, cr, er, htr, her⟩ := CR
            subst ho
            refine ⟨rfl, .iter ct ci cn cr, er ++ en ++ ei ++ et, by simp [htt, hti, htn, htr], fun e he => ?_⟩
            simp only [List.mem_append] at he
            rcases he with ((he | he) | he) | he
            · exact (her e he).lift (fun q hq => hq) (fun _ _ hx => .iter ct ci cn hx)
            · exact (hen e he).lift rn (fun _ _ hx => .iterS2 ct ci hx)
            · exact (hei e he).lift ri xi
            · exact absurd he (tnil e)
          · have := (C inner _ o st' hn h5).1; exact absurd this hne
        · simp only [hp1] at h4
          have CR := CL tg ifs inner (k + 1) _ o st' ht hi hn h4
          simp only [popIf_σ, popIf_tr] at CR
          obtain ⟨ho, cr, er, htr, her⟩ := CR
          subst ho
          refine ⟨rfl, .iterSkip ct ci cr, er ++ ei ++ et, by simp [htt, hti, htr], fun e he => ?_⟩
          simp only [List.mem_append] at he
          rcases he with (he | he) | he
          · exact (her e he).lift (fun q hq => hq) (fun _ _ hx => .iterSkip ct ci hx)
          · exact (hei e he).lift ri xi
          · exact absurd he (tnil e)
      · exact absurd (C ifs st2 o st' (isEvents_chainWf ifs hi) h3).1 hne
    · exact absurd (C tg _ o st' (isEvents_chainWf tg (isBinds_isEvents tg ht)) h1).1 hne
  · simp only [hd] at h
    simp only [Bool.false_eq_true, if_false, Option.some.injEq, Prod.mk.injEq] at h
    obtain ⟨rfl, rfl⟩ := h
    exact ⟨rfl, by simpa using Chain.done, [], by simp, by simp⟩


theorem step_hs {n : Nat} (ih : RunOK n) :
    ∀ s st o st', runWf.hsWf s = true → run (n + 1) s st = some (o, st') → Sound s st.σ st.tr o st'.σ st'.tr := by
  have evn := fun c hc st o st' h => @events_normal n ih c hc st o st' h
  obtain ⟨R, H, _, _, _⟩ := ih
  intro s st o st' hw h
  cases s with
  | hnil => simp [run] at h
  | hcons ty nm hb rest =>
      simp only [runWf.hsWf, Bool.and_eq_true] at hw
      obtain ⟨⟨⟨hty, hnm⟩, hhb⟩, hrest⟩ := hw
      simp only [run] at h
      have ety := isReads_isEvents ty hty
      have rty : ∀ p, p ∈ readsOf ty → p ∈ readsOf (.hcons ty nm hb rest) := fun p hp => by simp [readsOf, hp]
      have rhb : ∀ p, p ∈ readsOf hb → p ∈ readsOf (.hcons ty nm hb rest) := fun p hp => by simp [readsOf, hp]
      have rrs : ∀ p, p ∈ readsOf rest → p ∈ readsOf (.hcons ty nm hb rest) := fun p hp => by simp [readsOf, hp]
      rcases bindN_some h with ⟨st1, h1, h2⟩ | ⟨h1, hne⟩
      · have STy := R ty st .normal st1 (isEvents_runWf ty ety) h1
        have hσ := run_reads_σ ty hty n st .normal st1 h1
        rw [hσ] at STy
        have xty : ∀ r σr, Exec ty st.σ (.stop r) σr → Exec (.hcons ty nm hb rest) st.σ (.stop r) σr :=
          fun _ _ hx => .hS hx
        by_cases hp : (st1.popMatch rest).1 = true
        · simp only [hp, if_true] at h2
          rcases bindN_some h2 with ⟨st3, h3, h4⟩ | ⟨h3, hne⟩
          · have SN := R nm _ .normal st3 (isNm_runWf nm hnm) h3
            simp only [popMatch_σ, popMatch_tr, hσ] at SN
            rcases hrb : run n hb st3 with _ | ⟨ohb, st4⟩
            · simp [hrb] at h4
            · simp only [hrb, Option.some.injEq, Prod.mk.injEq] at h4
              obtain ⟨rfl, rfl⟩ := h4
              have SB := R hb st3 ohb st4 hhb hrb
              obtain ⟨_, ety', et, htt, het⟩ := STy
              obtain ⟨_, enm, en, htn, hen⟩ := SN
              obtain ⟨nsb, ehb, eb, htb, heb⟩ := SB
              refine ⟨nsb, .hMatch ety' enm ehb nsb, eb ++ en ++ et, by simp [htt, htn, htb], fun e he => ?_⟩
              simp only [List.mem_append] at he
              rcases he with (he | he) | he
              · exact (heb e he).lift rhb (fun _ _ hx => .hMatchS ety' enm hx)
              · exact absurd (hen e he) (evE_nil (isNm_reads nm hnm))
              · exact (het e he).lift rty xty
          · exact absurd (nm_normal nm hnm _ _ _ _ h3) hne
        · simp only [hp] at h2
          simp only [Bool.false_eq_true, if_false] at h2
          have SR := H rest _ o st' hrest h2
          simp only [popMatch_σ, popMatch_tr, hσ] at SR
          have hne : rest ≠ .hnil := by
            intro e; subst e; simp [RunSt.popMatch] at hp
          exact sound_two rty rrs xty (fun _ _ hx => .hSkip hne STy.2.1 hx) SR.1 (.hSkip hne STy.2.1 SR.2.1) STy SR
      · exact absurd (evn ty ety _ _ _ h1) hne
  | _ => simp [runWf.hsWf] at hw


theorem step_run {n : Nat} (ih : RunOK n) :
    ∀ s st o st', runWf s = true → run (n + 1) s st = some (o, st') → Sound s st.σ st.tr o st'.σ st'.tr := by
  have evn := fun c hc st o st' h => @events_normal n ih c hc st o st' h
  obtain ⟨R, H, L, C, _⟩ := ih
  intro s st o st' hw h
  cases s with
  | skip =>
      simp only [run, Option.some.injEq, Prod.mk.injEq] at h; obtain ⟨rfl, rfl⟩ := h
      exact sound_nil (by simp) .skip
  | bind x d =>
      simp only [run, Option.some.injEq, Prod.mk.injEq] at h; obtain ⟨rfl, rfl⟩ := h
      exact sound_nil (by simp) .bind
  | gbind x d =>
      simp only [run, Option.some.injEq, Prod.mk.injEq] at h; obtain ⟨rfl, rfl⟩ := h
      exact sound_nil (by simp) .gbind
  | read x r =>
      simp only [run, Option.some.injEq, Prod.mk.injEq] at h; obtain ⟨rfl, rfl⟩ := h
      refine ⟨by simp, .read, [(r, st.σ x)], rfl, fun e he => ?_⟩
      simp only [List.mem_singleton] at he; subst he
      exact ⟨x, st.σ, by simp [readsOf], .readStop, rfl⟩
  | seq a b =>
      simp only [runWf, Bool.and_eq_true] at hw
      simp only [run] at h
      have ra : ∀ p, p ∈ readsOf a → p ∈ readsOf (.seq a b) := fun p hp => by simp [readsOf, hp]
      have rb : ∀ p, p ∈ readsOf b → p ∈ readsOf (.seq a b) := fun p hp => by simp [readsOf, hp]
      rcases bindN_some h with ⟨st1, h1, h2⟩ | ⟨h1, hne⟩
      · have SA := R a st .normal st1 hw.1 h1
        have SB := R b st1 o st' hw.2 h2
        exact sound_two ra rb (fun _ _ hx => .seqA hx (by simp)) (fun _ _ hx => .seqN SA.2.1 hx) SB.1
          (.seqN SA.2.1 SB.2.1) SA SB
      · have SA := R a st o st' hw.1 h1
        exact sound_one ra (fun _ _ hx => .seqA hx (by simp)) SA.1 (.seqA SA.2.1 hne) SA
  | ite c a b =>
      simp only [runWf, Bool.and_eq_true] at hw
      simp only [run] at h
      have rc : ∀ p, p ∈ readsOf c → p ∈ readsOf (.ite c a b) := fun p hp => by simp [readsOf, hp]
      have ra : ∀ p, p ∈ readsOf a → p ∈ readsOf (.ite c a b) := fun p hp => by simp [readsOf, hp]
      have rb : ∀ p, p ∈ readsOf b → p ∈ readsOf (.ite c a b) := fun p hp => by simp [readsOf, hp]
      rcases bindN_some h with ⟨st1, h1, h2⟩ | ⟨h1, hne⟩
      · have SC := R c st .normal st1 (isEvents_runWf c hw.1.1) h1
        by_cases hd : st1.pop.1 = true
        · simp only [hd, if_true] at h2
          have SA := R a _ o st' hw.1.2 h2
          simp only [pop_σ, pop_tr] at SA
          exact sound_two rc ra (fun _ _ hx => .iteS hx) (fun _ _ hx => .iteT SC.2.1 hx) SA.1 (.iteT SC.2.1 SA.2.1) SC SA
        · simp only [hd] at h2
          simp only [Bool.false_eq_true, if_false] at h2
          have SB := R b _ o st' hw.2 h2
          simp only [pop_σ, pop_tr] at SB
          exact sound_two rc rb (fun _ _ hx => .iteS hx) (fun _ _ hx => .iteF SC.2.1 hx) SB.1 (.iteF SC.2.1 SB.2.1) SC SB
      · exact absurd (evn c hw.1.1 _ _ _ h1) hne
  | while_ c b e =>
      simp only [runWf, Bool.and_eq_true] at hw
      simp only [run] at h
      exact L c b e 0 st o st' hw.1.1 hw.1.2 hw.2 h
  | for_ it tg b e =>
      simp only [runWf, Bool.and_eq_true] at hw
      simp only [run] at h
      have ri : ∀ p, p ∈ readsOf it → p ∈ readsOf (.for_ it tg b e) := fun p hp => by simp [readsOf, hp]
      have rw' : ∀ p, p ∈ readsOf (.while_ .skip (.seq tg b) e) → p ∈ readsOf (.for_ it tg b e) := fun p hp => by
        simp only [readsOf, List.mem_append, List.nil_append] at hp ⊢
        rcases hp with (hp | hp) | hp
        · exact .inl (.inl (.inr hp))
        · exact .inl (.inr hp)
        · exact .inr hp
      rcases bindN_some h with ⟨st1, h1, h2⟩ | ⟨h1, hne⟩
      · have SI := R it st .normal st1 hw.1.1.1 h1
        have SW := L .skip (.seq tg b) e 0 st1 o st' rfl (by simp [runWf, hw.1.1.2, hw.1.2]) hw.2 h2
        exact sound_two ri rw' (fun _ _ hx => .for_ (.seqA hx (by simp))) (fun _ _ hx => .for_ (.seqN SI.2.1 hx)) SW.1
          (.for_ (.seqN SI.2.1 SW.2.1)) SI SW
      · have SI := R it st o st' hw.1.1.1 h1
        exact sound_one ri (fun _ _ hx => .for_ (.seqA hx (by simp))) SI.1 (.for_ (.seqA SI.2.1 hne)) SI
  | tryx r1 r2 b hs e =>
      simp only [runWf, Bool.and_eq_true] at hw
      obtain ⟨⟨⟨hb, _⟩, hh⟩, he⟩ := hw
      simp only [run] at h
      have rb : ∀ p, p ∈ readsOf b → p ∈ readsOf (.tryx r1 r2 b hs e) := fun p hp => by simp [readsOf, hp]
      have rh : ∀ p, p ∈ readsOf hs → p ∈ readsOf (.tryx r1 r2 b hs e) := fun p hp => by simp [readsOf, hp]
      have re : ∀ p, p ∈ readsOf e → p ∈ readsOf (.tryx r1 r2 b hs e) := fun p hp => by simp [readsOf, hp]
      have xb : ∀ r σr, Exec b st.σ (.stop r) σr → Exec (.tryx r1 r2 b hs e) st.σ (.stop r) σr :=
        fun _ _ hx => .tryJ hx (by simp) (by simp)
      -- the body and what follows it, from a state with the same σ / trace as `st`
      have body : ∀ st0 : RunSt, st0.σ = st.σ → st0.tr = st.tr →
          (match run n b st0 with
            | some (.normal, st1) =>
                if (if r2 = true then st1.pop else (false, st1)).1 = true then run n hs (if r2 = true then st1.pop else (false, st1)).2
                else run n e (if r2 = true then st1.pop else (false, st1)).2
            | some (.exc, st1) => run n hs st1
            | res => res) = some (o, st') → Sound (.tryx r1 r2 b hs e) st.σ st.tr o st'.σ st'.tr := by
        intro st0 hσ0 htr0 hm
        rcases hrb : run n b st0 with _ | ⟨ob, st1⟩
        · simp [hrb] at hm
        · have SB := R b st0 ob st1 hb hrb
          rw [hσ0, htr0] at SB
          cases ob with
          | normal =>
              simp only [hrb] at hm
              cases r2 with
              | false =>
                  simp only [Bool.false_eq_true, if_false] at hm
                  have SE := R e st1 o st' he hm
                  exact sound_two rb re xb (fun _ _ hx => .tryN SB.2.1 hx) SE.1 (.tryN SB.2.1 SE.2.1) SB SE
              | true =>
                  simp only [if_true] at hm
                  by_cases hd : st1.pop.1 = true
                  · simp only [hd, if_true] at hm
                    have SH := H hs _ o st' hh hm
                    simp only [pop_σ, pop_tr] at SH
                    exact sound_two rb rh xb (fun _ _ hx => .tryX2 SB.2.1 hx) SH.1 (.tryX2 SB.2.1 SH.2.1) SB SH
                  · simp only [hd] at hm
                    simp only [Bool.false_eq_true, if_false] at hm
                    have SE := R e _ o st' he hm
                    simp only [pop_σ, pop_tr] at SE
                    exact sound_two rb re xb (fun _ _ hx => .tryN SB.2.1 hx) SE.1 (.tryN SB.2.1 SE.2.1) SB SE
          | exc =>
              simp only [hrb] at hm
              have SH := H hs st1 o st' hh hm
              exact sound_two rb rh xb (fun _ _ hx => .tryX SB.2.1 hx) SH.1 (.tryX SB.2.1 SH.2.1) SB SH
          | brk =>
              simp only [hrb, Option.some.injEq, Prod.mk.injEq] at hm; obtain ⟨rfl, rfl⟩ := hm
              exact sound_one rb xb (by simp) (.tryJ SB.2.1 (by simp) (by simp)) SB
          | cont =>
              simp only [hrb, Option.some.injEq, Prod.mk.injEq] at hm; obtain ⟨rfl, rfl⟩ := hm
              exact sound_one rb xb (by simp) (.tryJ SB.2.1 (by simp) (by simp)) SB
          | ret =>
              simp only [hrb, Option.some.injEq, Prod.mk.injEq] at hm; obtain ⟨rfl, rfl⟩ := hm
              exact sound_one rb xb (by simp) (.tryJ SB.2.1 (by simp) (by simp)) SB
          | stop r => exact absurd rfl (SB.1 r)
      cases r1 with
      | false =>
          simp only [Bool.false_eq_true, if_false] at h
          exact body st rfl rfl h
      | true =>
          simp only [if_true] at h
          by_cases hd : st.pop.1 = true
          · simp only [hd, if_true] at h
            have SH := H hs _ o st' hh h
            simp only [pop_σ, pop_tr] at SH
            exact sound_one rh (fun _ _ hx => .tryX1 hx) SH.1 (.tryX1 SH.2.1) SH
          · simp only [hd] at h
            simp only [Bool.false_eq_true, if_false] at h
            exact body st.pop.2 (pop_σ st) (pop_tr st) h
  | hnil => simp [runWf] at hw
  | hcons ty nm hb rest => simp [runWf] at hw
  | fin a f =>
      simp only [runWf, Bool.and_eq_true] at hw
      simp only [run] at h
      have ra : ∀ p, p ∈ readsOf a → p ∈ readsOf (.fin a f) := fun p hp => by simp [readsOf, hp]
      have rf : ∀ p, p ∈ readsOf f → p ∈ readsOf (.fin a f) := fun p hp => by simp [readsOf, hp]
      rcases hra : run n a st with _ | ⟨oa, st1⟩
      · simp [hra] at h
      · simp only [hra] at h
        have SA := R a st oa st1 hw.1 hra
        have xa : ∀ r σr, Exec a st.σ (.stop r) σr → Exec (.fin a f) st.σ (.stop r) σr := fun _ _ hx => .finS hx
        have xf : ∀ r σr, Exec f st1.σ (.stop r) σr → Exec (.fin a f) st.σ (.stop r) σr :=
          fun _ _ hx => .finA SA.2.1 SA.1 hx (by simp)
        rcases hrf : run n f st1 with _ | ⟨of, st2⟩
        · simp [hrf] at h
        · have SF := R f st1 of st2 hw.2 hrf
          cases of with
          | normal =>
              simp only [hrf, Option.some.injEq, Prod.mk.injEq] at h; obtain ⟨rfl, rfl⟩ := h
              exact sound_two ra rf xa xf SA.1 (.finN SA.2.1 SA.1 SF.2.1) SA SF
          | stop r => exact absurd rfl (SF.1 r)
          | _ =>
              simp only [hrf, Option.some.injEq, Prod.mk.injEq] at h; obtain ⟨rfl, rfl⟩ := h
              exact sound_two ra rf xa xf (by simp) (.finA SA.2.1 SA.1 SF.2.1 (by simp)) SA SF
  | comp it g =>
      simp only [runWf, Bool.and_eq_true] at hw
      simp only [run] at h
      rcases bindN_some h with ⟨st1, h1, h2⟩ | ⟨h1, hne⟩
      · have SI := R it st .normal st1 (isEvents_runWf it hw.1) h1
        rcases hrg : run n g { st1 with σ := State.hide (compTargets g) st1.σ } with _ | ⟨og, st2⟩
        · simp [hrg] at h2
        · simp only [hrg, Option.some.injEq, Prod.mk.injEq] at h2
          obtain ⟨rfl, rfl⟩ := h2
          have CG := C g _ og st2 hw.2 hrg
          obtain ⟨_, ei, evi, hti, hei⟩ := SI
          obtain ⟨rfl, cg, evg, htg, heg⟩ := CG
          refine ⟨by simp, .compN ei cg, evg ++ evi, by simp [hti, htg], fun e he => ?_⟩
          rcases List.mem_append.1 he with he | he
          · obtain ⟨x, σr, q1, q2, q3⟩ := heg e he
            exact ⟨x, σr, by simp [readsOf, q1], .compS2 ei q2, q3⟩
          · exact (hei e he).lift (fun p hp => by simp [readsOf, hp]) (fun _ _ hx => .compS1 hx)
      · exact absurd (evn it hw.1 _ _ _ h1) hne
  | cfor tg ifs inner => simp [runWf] at hw
  | def_ pre f d ps body =>
      simp only [runWf] at hw
      simp only [run] at h
      rcases bindN_some h with ⟨st1, h1, h2⟩ | ⟨h1, hne⟩
      · simp only [Option.some.injEq, Prod.mk.injEq] at h2; obtain ⟨rfl, rfl⟩ := h2
        have SP := R pre st .normal st1 (isEvents_runWf pre hw) h1
        obtain ⟨_, ep, evs, ht, he⟩ := SP
        exact ⟨by simp, .def_ ep, evs, ht, fun e h => (he e h).lift (fun p hp => by simp [readsOf, hp]) (fun _ _ hx => .defS hx)⟩
      · exact absurd (evn pre hw _ _ _ h1) hne
  | lam pre ps body =>
      simp only [runWf] at hw
      simp only [run] at h
      have := evn pre hw _ _ _ h; subst this
      have SP := R pre st .normal st' (isEvents_runWf pre hw) h
      exact sound_one (fun p hp => by simp [readsOf, hp]) (fun _ _ hx => .lamS hx) (by simp) (.lam SP.2.1) SP
  | cls pre c d body => simp [runWf] at hw
  | mayraise k =>
      simp only [run, Option.some.injEq, Prod.mk.injEq] at h; obtain ⟨rfl, rfl⟩ := h
      simp only [pop_σ, pop_tr]
      by_cases hd : st.pop.1 = true
      · simp only [hd, if_true]; exact sound_nil (by simp) .mayraiseX
      · simp only [hd]; exact sound_nil (by simp) .mayraiseN
  | brk =>
      simp only [run, Option.some.injEq, Prod.mk.injEq] at h; obtain ⟨rfl, rfl⟩ := h
      exact sound_nil (by simp) .brk
  | cont =>
      simp only [run, Option.some.injEq, Prod.mk.injEq] at h; obtain ⟨rfl, rfl⟩ := h
      exact sound_nil (by simp) .cont
  | ret =>
      simp only [run, Option.some.injEq, Prod.mk.injEq] at h; obtain ⟨rfl, rfl⟩ := h
      exact sound_nil (by simp) .ret
  | raise_ =>
      simp only [run, Option.some.injEq, Prod.mk.injEq] at h; obtain ⟨rfl, rfl⟩ := h
      exact sound_nil (by simp) .raise_

theorem runOK : ∀ n, RunOK n := by
  intro n
  induction n with
  | zero =>
      refine ⟨?_, ?_, ?_, ?_, ?_⟩ <;> intros <;> simp_all [run, run.loop, run.cloop]
  | succ n ih => exact ⟨step_run ih, step_hs ih, step_loop ih, step_chain ih, step_cloop ih⟩

end SuppModel.Den
