/- C03: every syntactic path of the fragment is an execution (tests, trip counts, raise points and handler matches
   are free decisions), hence every alternative supp lists is realised. -/
import SuppModel.Den.Lemmas2
namespace SuppModel.Den

/-- value `v` of `x` after `s` when it was `u` before, according to the closed form -/
def Out (s : Stmt) (x : Ident) (u v : Option Site) : Prop := gen s x v ∨ (pass s x ∧ u = v)
def OutAt (s : Stmt) (r : RId) (x : Ident) (u v : Option Site) : Prop := genAt s r x v ∨ (passAt s r x ∧ u = v)

def Any (s : Stmt) : Prop := ∀ σ : State, ∃ σ', Exec s σ .normal σ'
def Can (s : Stmt) (x : Ident) : Prop :=
  ∀ (σ : State) (v : Option Site), Out s x (σ x) v → ∃ σ', Exec s σ .normal σ' ∧ σ' x = v
def CanAt (s : Stmt) (x : Ident) : Prop :=
  ∀ (r : RId) (σ : State) (v : Option Site), OutAt s r x (σ x) v → ∃ σ', Exec s σ (.stop r) σ' ∧ σ' x = v

/-! ### transfer along a semantic embedding -/

theorem any_of {s s' : Stmt} (e : ∀ σ σ', Exec s' σ .normal σ' → Exec s σ .normal σ') (a : Any s') : Any s :=
  fun σ => let ⟨σ', h⟩ := a σ; ⟨σ', e _ _ h⟩

theorem can_of2 {s s1 s2 : Stmt} {x : Ident}
    (e1 : ∀ σ σ', Exec s1 σ .normal σ' → Exec s σ .normal σ')
    (e2 : ∀ σ σ', Exec s2 σ .normal σ' → Exec s σ .normal σ')
    (h : ∀ u v, Out s x u v → Out s1 x u v ∨ Out s2 x u v) (c1 : Can s1 x) (c2 : Can s2 x) : Can s x := by
  intro σ v ho
  rcases h _ _ ho with h | h
  · obtain ⟨σ', h1, h2⟩ := c1 σ v h; exact ⟨σ', e1 _ _ h1, h2⟩
  · obtain ⟨σ', h1, h2⟩ := c2 σ v h; exact ⟨σ', e2 _ _ h1, h2⟩

theorem canAt_of2 {s s1 s2 : Stmt} {x : Ident}
    (e1 : ∀ r σ σ', Exec s1 σ (.stop r) σ' → Exec s σ (.stop r) σ')
    (e2 : ∀ r σ σ', Exec s2 σ (.stop r) σ' → Exec s σ (.stop r) σ')
    (h : ∀ r u v, OutAt s r x u v → OutAt s1 r x u v ∨ OutAt s2 r x u v) (c1 : CanAt s1 x) (c2 : CanAt s2 x) :
    CanAt s x := by
  intro r σ v ho
  rcases h _ _ _ ho with h | h
  · obtain ⟨σ', h1, h2⟩ := c1 r σ v h; exact ⟨σ', e1 _ _ _ h1, h2⟩
  · obtain ⟨σ', h1, h2⟩ := c2 r σ v h; exact ⟨σ', e2 _ _ _ h1, h2⟩

/-! ### leaves -/

theorem any_skip : Any .skip := fun _ => ⟨_, .skip⟩
theorem can_skip (x : Ident) : Can .skip x := by
  intro σ v h; simp only [Out, gen, pass, false_or, true_and] at h; exact ⟨σ, .skip, h⟩
theorem canAt_skip (x : Ident) : CanAt .skip x := by
  intro r σ v h; simp [OutAt, genAt, passAt] at h

theorem any_bind (y : Ident) (d : Site) : Any (.bind y d) := fun σ => ⟨_, .bind⟩
theorem can_bind (y : Ident) (d : Site) (x : Ident) : Can (.bind y d) x := by
  intro σ v h
  simp only [Out, gen, pass] at h
  refine ⟨σ.upd y d, .bind, ?_⟩
  rcases h with ⟨h1, h2⟩ | ⟨h1, h2⟩
  · simp [State.upd, h1, h2]
  · simp [State.upd, h1, h2]
theorem canAt_bind (y : Ident) (d : Site) (x : Ident) : CanAt (.bind y d) x := by
  intro r σ v h; simp [OutAt, genAt, passAt] at h

theorem any_read (y : Ident) (r : RId) : Any (.read y r) := fun σ => ⟨σ, .read⟩
theorem can_read (y : Ident) (r : RId) (x : Ident) : Can (.read y r) x := by
  intro σ v h; simp only [Out, gen, pass, false_or, true_and] at h; exact ⟨σ, .read, h⟩
theorem canAt_read (y : Ident) (r' : RId) (x : Ident) : CanAt (.read y r') x := by
  intro r σ v h
  simp only [OutAt, genAt, passAt, false_or] at h
  obtain ⟨h1, h2⟩ := h
  subst h1
  exact ⟨σ, .readStop, h2⟩

/-! ### sequence -/

theorem any_seq {s t : Stmt} (hs : Any s) (ht : Any t) : Any (.seq s t) := fun σ =>
  let ⟨σ1, h1⟩ := hs σ; let ⟨σ2, h2⟩ := ht σ1; ⟨σ2, .seqN h1 h2⟩

theorem can_seq {s t : Stmt} {x : Ident} (hs : Any s) (cs : Can s x) (ct : Can t x) : Can (.seq s t) x := by
  intro σ v h
  simp only [Out, gen, pass] at h
  rcases h with (h | ⟨hp, h⟩) | ⟨⟨hp1, hp2⟩, e⟩
  · obtain ⟨σ1, h1⟩ := hs σ
    obtain ⟨σ2, h2, e2⟩ := ct σ1 v (.inl h)
    exact ⟨σ2, .seqN h1 h2, e2⟩
  · obtain ⟨σ1, h1, e1⟩ := cs σ v (.inl h)
    obtain ⟨σ2, h2, e2⟩ := ct σ1 v (.inr ⟨hp, e1⟩)
    exact ⟨σ2, .seqN h1 h2, e2⟩
  · obtain ⟨σ1, h1, e1⟩ := cs σ v (.inr ⟨hp1, e⟩)
    obtain ⟨σ2, h2, e2⟩ := ct σ1 v (.inr ⟨hp2, e1⟩)
    exact ⟨σ2, .seqN h1 h2, e2⟩

theorem canAt_seq {s t : Stmt} {x : Ident} (hs : Any s) (cs : Can s x) (as : CanAt s x) (at' : CanAt t x) :
    CanAt (.seq s t) x := by
  intro r σ v h
  simp only [OutAt, genAt, passAt] at h
  rcases h with (h | h | ⟨hp, h⟩) | ⟨h | ⟨hp1, hp2⟩, e⟩
  · obtain ⟨σ1, h1, e1⟩ := as r σ v (.inl h)
    exact ⟨σ1, .seqA h1 (by simp), e1⟩
  · obtain ⟨σ1, h1⟩ := hs σ
    obtain ⟨σ2, h2, e2⟩ := at' r σ1 v (.inl h)
    exact ⟨σ2, .seqN h1 h2, e2⟩
  · obtain ⟨σ1, h1, e1⟩ := cs σ v (.inl h)
    obtain ⟨σ2, h2, e2⟩ := at' r σ1 v (.inr ⟨hp, e1⟩)
    exact ⟨σ2, .seqN h1 h2, e2⟩
  · obtain ⟨σ1, h1, e1⟩ := as r σ v (.inr ⟨h, e⟩)
    exact ⟨σ1, .seqA h1 (by simp), e1⟩
  · obtain ⟨σ1, h1, e1⟩ := cs σ v (.inr ⟨hp2, e⟩)
    obtain ⟨σ2, h2, e2⟩ := at' r σ1 v (.inr ⟨hp1, e1⟩)
    exact ⟨σ2, .seqN h1 h2, e2⟩

/-! ### while -/

section whileLoop
variable {c b e : Stmt} {x : Ident}

theorem any_while (hc : Any c) (he : Any e) : Any (.while_ c b e) := fun σ =>
  let ⟨σ1, h1⟩ := hc σ; let ⟨σ2, h2⟩ := he σ1; ⟨σ2, .whileExit h1 h2⟩

/-- the loop head can be reached with `x` holding its entry value or anything the back edge contributes -/
theorem while_head (hc : Any c) (cc : Can c x) (cb : Can b x) (σ : State) (u : Option Site)
    (h : σ x = u ∨ gen b x u ∨ (pass b x ∧ gen c x u)) :
    ∃ σh, σh x = u ∧ ∀ o σ', Exec (.while_ c b e) σh o σ' → Exec (.while_ c b e) σ o σ' := by
  rcases h with h | h | ⟨hp, h⟩
  · exact ⟨σ, h, fun _ _ hw => hw⟩
  · obtain ⟨σ1, h1⟩ := hc σ
    obtain ⟨σ2, h2, e2⟩ := cb σ1 u (.inl h)
    exact ⟨σ2, e2, fun _ _ hw => .whileStep h1 h2 (.inl rfl) hw⟩
  · obtain ⟨σ1, h1, e1⟩ := cc σ u (.inl h)
    obtain ⟨σ2, h2, e2⟩ := cb σ1 u (.inr ⟨hp, e1⟩)
    exact ⟨σ2, e2, fun _ _ hw => .whileStep h1 h2 (.inl rfl) hw⟩

theorem can_while (hc : Any c) (cc : Can c x) (cb : Can b x) (ce : Can e x) : Can (.while_ c b e) x := by
  intro σ v h
  simp only [Out, gen, pass] at h
  rcases h with (h | ⟨hpe, h | ⟨hpc, hH⟩⟩) | ⟨⟨hpe, hpc⟩, e0⟩
  · obtain ⟨σ1, h1⟩ := hc σ
    obtain ⟨σ2, h2, e2⟩ := ce σ1 v (.inl h)
    exact ⟨σ2, .whileExit h1 h2, e2⟩
  · obtain ⟨σ1, h1, e1⟩ := cc σ v (.inl h)
    obtain ⟨σ2, h2, e2⟩ := ce σ1 v (.inr ⟨hpe, e1⟩)
    exact ⟨σ2, .whileExit h1 h2, e2⟩
  · obtain ⟨σh, eh, tr⟩ := while_head (e := e) hc cc cb σ v (.inr hH)
    obtain ⟨σ1, h1, e1⟩ := cc σh v (.inr ⟨hpc, eh⟩)
    obtain ⟨σ2, h2, e2⟩ := ce σ1 v (.inr ⟨hpe, e1⟩)
    exact ⟨σ2, tr _ _ (.whileExit h1 h2), e2⟩
  · obtain ⟨σ1, h1, e1⟩ := cc σ v (.inr ⟨hpc, e0⟩)
    obtain ⟨σ2, h2, e2⟩ := ce σ1 v (.inr ⟨hpe, e1⟩)
    exact ⟨σ2, .whileExit h1 h2, e2⟩

/-- from a state after the test: a read in the body or in the else branch -/
theorem while_after_test (ab : CanAt b x) (ae : CanAt e x) {σh σ1 : State} (h1 : Exec c σh .normal σ1)
    (r : RId) (v : Option Site)
    (h : OutAt b r x (σ1 x) v ∨ OutAt e r x (σ1 x) v) :
    ∃ σ', Exec (.while_ c b e) σh (.stop r) σ' ∧ σ' x = v := by
  rcases h with h | h
  · obtain ⟨σ2, h2, e2⟩ := ab r σ1 v h
    exact ⟨σ2, .whileAbort h1 h2 (.inr (.inr ⟨r, rfl⟩)), e2⟩
  · obtain ⟨σ2, h2, e2⟩ := ae r σ1 v h
    exact ⟨σ2, .whileExit h1 h2, e2⟩

theorem canAt_while (hc : Any c) (cc : Can c x) (ac : CanAt c x) (cb : Can b x) (ab : CanAt b x) (ae : CanAt e x) :
    CanAt (.while_ c b e) x := by
  intro r σ v h
  simp only [OutAt, genAt, passAt] at h
  rcases h with (h | ⟨hpc, hH⟩ | h | h | ⟨hbe, h | ⟨hpc, hH⟩⟩) | ⟨h | ⟨hbe, hpc⟩, e0⟩
  · obtain ⟨σ1, h1, e1⟩ := ac r σ v (.inl h)
    exact ⟨σ1, .whileS h1, e1⟩
  · obtain ⟨σh, eh, tr⟩ := while_head (e := e) hc cc cb σ v (.inr hH)
    obtain ⟨σ1, h1, e1⟩ := ac r σh v (.inr ⟨hpc, eh⟩)
    exact ⟨σ1, tr _ _ (.whileS h1), e1⟩
  · obtain ⟨σ1, h1⟩ := hc σ
    exact while_after_test ab ae h1 r v (.inl (.inl h))
  · obtain ⟨σ1, h1⟩ := hc σ
    exact while_after_test ab ae h1 r v (.inr (.inl h))
  · obtain ⟨σ1, h1, e1⟩ := cc σ v (.inl h)
    rcases hbe with hb | he
    · exact while_after_test ab ae h1 r v (.inl (.inr ⟨hb, e1⟩))
    · exact while_after_test ab ae h1 r v (.inr (.inr ⟨he, e1⟩))
  · obtain ⟨σh, eh, tr⟩ := while_head (e := e) hc cc cb σ v (.inr hH)
    obtain ⟨σ1, h1, e1⟩ := cc σh v (.inr ⟨hpc, eh⟩)
    rcases hbe with hb | he
    · obtain ⟨σ', h2, e2⟩ := while_after_test ab ae h1 r v (.inl (.inr ⟨hb, e1⟩))
      exact ⟨σ', tr _ _ h2, e2⟩
    · obtain ⟨σ', h2, e2⟩ := while_after_test ab ae h1 r v (.inr (.inr ⟨he, e1⟩))
      exact ⟨σ', tr _ _ h2, e2⟩
  · obtain ⟨σ1, h1, e1⟩ := ac r σ v (.inr ⟨h, e0⟩)
    exact ⟨σ1, .whileS h1, e1⟩
  · obtain ⟨σ1, h1, e1⟩ := cc σ v (.inr ⟨hpc, e0⟩)
    rcases hbe with hb | he
    · exact while_after_test ab ae h1 r v (.inl (.inr ⟨hb, e1⟩))
    · exact while_after_test ab ae h1 r v (.inr (.inr ⟨he, e1⟩))

end whileLoop


/-! ### if / try-finally / definitions: embeddings of sequences -/

theorem ite_of_seqT {c a b : Stmt} {σ σ' : State} {o : Outcome} (ho : o = .normal ∨ ∃ r, o = .stop r)
    (h : Exec (.seq c a) σ o σ') : Exec (.ite c a b) σ o σ' := by
  cases h with
  | seqN h1 h2 => exact .iteT h1 h2
  | seqA h1 hne =>
      rcases ho with ho | ⟨r, ho⟩
      · exact absurd ho hne
      · subst ho; exact .iteS h1

theorem ite_of_seqF {c a b : Stmt} {σ σ' : State} {o : Outcome} (ho : o = .normal ∨ ∃ r, o = .stop r)
    (h : Exec (.seq c b) σ o σ') : Exec (.ite c a b) σ o σ' := by
  cases h with
  | seqN h1 h2 => exact .iteF h1 h2
  | seqA h1 hne =>
      rcases ho with ho | ⟨r, ho⟩
      · exact absurd ho hne
      · subst ho; exact .iteS h1

theorem can_ite {c a b : Stmt} {x : Ident} (c1 : Can (.seq c a) x) (c2 : Can (.seq c b) x) : Can (.ite c a b) x :=
  can_of2 (fun _ _ h => ite_of_seqT (.inl rfl) h) (fun _ _ h => ite_of_seqF (.inl rfl) h)
    (by intro u v; simp only [Out, gen, pass]; grind) c1 c2

theorem canAt_ite {c a b : Stmt} {x : Ident} (c1 : CanAt (.seq c a) x) (c2 : CanAt (.seq c b) x) :
    CanAt (.ite c a b) x :=
  canAt_of2 (fun r _ _ h => ite_of_seqT (.inr ⟨r, rfl⟩) h) (fun r _ _ h => ite_of_seqF (.inr ⟨r, rfl⟩) h)
    (by intro r u v; simp only [OutAt, genAt, passAt]; grind) c1 c2

theorem fin_of_seq {s f : Stmt} {σ σ' : State} {o : Outcome} (ho : o = .normal ∨ ∃ r, o = .stop r)
    (h : Exec (.seq s f) σ o σ') : Exec (.fin s f) σ o σ' := by
  cases h with
  | seqN h1 h2 =>
      rcases ho with ho | ⟨r, ho⟩
      · subst ho; exact .finN h1 (by simp) h2
      · subst ho; exact .finA h1 (by simp) h2 (by simp)
  | seqA h1 hne =>
      rcases ho with ho | ⟨r, ho⟩
      · exact absurd ho hne
      · subst ho; exact .finS h1

theorem can_fin {s f : Stmt} {x : Ident} (c1 : Can (.seq s f) x) : Can (.fin s f) x :=
  can_of2 (fun _ _ h => fin_of_seq (.inl rfl) h) (fun _ _ h => fin_of_seq (.inl rfl) h)
    (by intro u v; simp only [Out, gen, pass]; grind) c1 c1

theorem canAt_fin {s f : Stmt} {x : Ident} (c1 : CanAt (.seq s f) x) : CanAt (.fin s f) x :=
  canAt_of2 (fun r _ _ h => fin_of_seq (.inr ⟨r, rfl⟩) h) (fun r _ _ h => fin_of_seq (.inr ⟨r, rfl⟩) h)
    (by intro r u v; simp only [OutAt, genAt, passAt]; grind) c1 c1

theorem def_of_seq {pre ps body : Stmt} {f : Ident} {d : Site} {σ σ' : State} {o : Outcome}
    (h : Exec (.seq pre (.bind f d)) σ o σ') (ho : o = .normal ∨ ∃ r, o = .stop r) :
    Exec (.def_ pre f d ps body) σ o σ' := by
  cases h with
  | seqN h1 h2 => cases h2; exact .def_ h1
  | seqA h1 hne =>
      rcases ho with ho | ⟨r, ho⟩
      · exact absurd ho hne
      · subst ho; exact .defS h1

theorem cls_of_seq {pre body : Stmt} {c : Ident} {d : Site} {σ σ' : State} {o : Outcome} (hb : Any body)
    (h : Exec (.seq pre (.bind c d)) σ o σ') (ho : o = .normal ∨ ∃ r, o = .stop r) :
    Exec (.cls pre c d body) σ o σ' := by
  cases h with
  | @seqN _ _ σ1 _ _ _ h1 h2 =>
      cases h2
      obtain ⟨σ2, h3⟩ := hb σ1
      exact .clsN h1 h3
  | seqA h1 hne =>
      rcases ho with ho | ⟨r, ho⟩
      · exact absurd ho hne
      · subst ho; exact .clsS h1

theorem lam_of {pre ps body : Stmt} {σ σ' : State} {o : Outcome}
    (h : Exec pre σ o σ') (ho : o = .normal ∨ ∃ r, o = .stop r) : Exec (.lam pre ps body) σ o σ' := by
  rcases ho with ho | ⟨r, ho⟩
  · subst ho; exact .lam h
  · subst ho; exact .lamS h

/-! ### try / handlers -/

section tryStmt
variable {b hs e : Stmt} {x : Ident}

theorem any_try {r1 r2 : Bool} (hb : Any b) (he : Any e) : Any (.tryx r1 r2 b hs e) := fun σ =>
  let ⟨σ1, h1⟩ := hb σ; let ⟨σ2, h2⟩ := he σ1; ⟨σ2, .tryN h1 h2⟩

theorem can_try (hb : Any b) (cb : Can b x) (ch : Can hs x) (ce : Can e x) : Can (.tryx true true b hs e) x := by
  intro σ v h
  simp only [Out, gen, pass] at h
  rcases h with (h | ⟨hpe, h⟩ | h | ⟨hph, h⟩) | ⟨⟨hpe, hpb⟩ | hph, e0⟩
  · obtain ⟨σ1, h1⟩ := hb σ
    obtain ⟨σ2, h2, e2⟩ := ce σ1 v (.inl h)
    exact ⟨σ2, .tryN h1 h2, e2⟩
  · obtain ⟨σ1, h1, e1⟩ := cb σ v (.inl h)
    obtain ⟨σ2, h2, e2⟩ := ce σ1 v (.inr ⟨hpe, e1⟩)
    exact ⟨σ2, .tryN h1 h2, e2⟩
  · obtain ⟨σ2, h2, e2⟩ := ch σ v (.inl h)
    exact ⟨σ2, .tryX1 h2, e2⟩
  · obtain ⟨σ1, h1, e1⟩ := cb σ v (.inl h)
    obtain ⟨σ2, h2, e2⟩ := ch σ1 v (.inr ⟨hph, e1⟩)
    exact ⟨σ2, .tryX2 h1 h2, e2⟩
  · obtain ⟨σ1, h1, e1⟩ := cb σ v (.inr ⟨hpb, e0⟩)
    obtain ⟨σ2, h2, e2⟩ := ce σ1 v (.inr ⟨hpe, e1⟩)
    exact ⟨σ2, .tryN h1 h2, e2⟩
  · obtain ⟨σ2, h2, e2⟩ := ch σ v (.inr ⟨hph, e0⟩)
    exact ⟨σ2, .tryX1 h2, e2⟩

theorem canAt_try (hb : Any b) (cb : Can b x) (ab : CanAt b x) (ah : CanAt hs x) (ae : CanAt e x) :
    CanAt (.tryx true true b hs e) x := by
  intro r σ v h
  simp only [OutAt, genAt, passAt] at h
  rcases h with (h | h | ⟨hp, h⟩ | h | ⟨hp, h⟩) | ⟨h | h | ⟨hp, hpb⟩, e0⟩
  · obtain ⟨σ1, h1, e1⟩ := ab r σ v (.inl h)
    exact ⟨σ1, .tryJ h1 (by simp) (by simp), e1⟩
  · obtain ⟨σ2, h2, e2⟩ := ah r σ v (.inl h)
    exact ⟨σ2, .tryX1 h2, e2⟩
  · obtain ⟨σ1, h1, e1⟩ := cb σ v (.inl h)
    obtain ⟨σ2, h2, e2⟩ := ah r σ1 v (.inr ⟨hp, e1⟩)
    exact ⟨σ2, .tryX2 h1 h2, e2⟩
  · obtain ⟨σ1, h1⟩ := hb σ
    obtain ⟨σ2, h2, e2⟩ := ae r σ1 v (.inl h)
    exact ⟨σ2, .tryN h1 h2, e2⟩
  · obtain ⟨σ1, h1, e1⟩ := cb σ v (.inl h)
    obtain ⟨σ2, h2, e2⟩ := ae r σ1 v (.inr ⟨hp, e1⟩)
    exact ⟨σ2, .tryN h1 h2, e2⟩
  · obtain ⟨σ1, h1, e1⟩ := ab r σ v (.inr ⟨h, e0⟩)
    exact ⟨σ1, .tryJ h1 (by simp) (by simp), e1⟩
  · obtain ⟨σ2, h2, e2⟩ := ah r σ v (.inr ⟨h, e0⟩)
    exact ⟨σ2, .tryX1 h2, e2⟩
  · obtain ⟨σ1, h1, e1⟩ := cb σ v (.inr ⟨hpb, e0⟩)
    obtain ⟨σ2, h2, e2⟩ := ae r σ1 v (.inr ⟨hp, e1⟩)
    exact ⟨σ2, .tryN h1 h2, e2⟩

end tryStmt

theorem reads_exec (s : Stmt) (h : isReads s = true) (σ : State) : Exec s σ .normal σ := by
  induction s with
  | skip => exact .skip
  | read => exact .read
  | seq s t ihs iht =>
      simp only [isReads, Bool.and_eq_true] at h
      exact .seqN (ihs h.1) (iht h.2)
  | _ => simp [isReads] at h

/-- an except-clause name other than `x`: binding and un-binding it leave `x` alone -/
theorem name_facts (nm : Stmt) (x : Ident) (h : isName nm = true) (hx : x ∉ bindsOf nm) :
    (∀ v, ¬ gen nm x v) ∧ pass nm x ∧ (∀ σ : State, ∃ σ2, Exec nm σ .normal σ2 ∧ σ2 x = σ x) ∧
    (∀ σ : State, delEx nm σ x = σ x) := by
  cases nm <;> simp [isName] at h
  · exact ⟨by simp [gen], by simp [pass], fun σ => ⟨σ, .skip, rfl⟩, fun σ => by simp [delEx, exName]⟩
  · rename_i y d
    simp only [bindsOf, List.mem_singleton] at hx
    refine ⟨by simp [gen, hx], by simp [pass, hx], fun σ => ⟨σ.upd y d, .bind, by simp [State.upd, hx]⟩, fun σ => ?_⟩
    simp [delEx, exName, State.del, hx]

section handler
variable {ty nm hb rest : Stmt} {x : Ident}

theorem any_hcons (hty : isReads ty = true) (hnm : isName nm = true) (hx : x ∉ bindsOf nm) (ahb : Any hb) :
    Any (.hcons ty nm hb rest) := fun σ =>
  let ⟨σ2, h2, _⟩ := (name_facts nm x hnm hx).2.2.1 σ
  let ⟨σ3, h3⟩ := ahb σ2
  ⟨_, .hMatch (reads_exec ty hty σ) h2 h3 (by simp)⟩

theorem can_hcons (hty : isReads ty = true) (hnm : isName nm = true) (hx : x ∉ bindsOf nm)
    (chb : Can hb x) (cr : Can rest x) : Can (.hcons ty nm hb rest) x := by
  obtain ⟨gn, pn, en, dn⟩ := name_facts nm x hnm hx
  have gt := fun v => (isReads_pass ty hty x v).2
  intro σ v h
  simp only [Out, gen, pass] at h
  have hmatch : Out hb x (σ x) v → ∃ σ', Exec (.hcons ty nm hb rest) σ .normal σ' ∧ σ' x = v := by
    intro ho
    obtain ⟨σ2, h2, e2⟩ := en σ
    obtain ⟨σ3, h3, e3⟩ := chb σ2 v (by rw [e2]; exact ho)
    exact ⟨_, .hMatch (reads_exec ty hty σ) h2 h3 (by simp), by rw [dn]; exact e3⟩
  have hskip : Out rest x (σ x) v → ∃ σ', Exec (.hcons ty nm hb rest) σ .normal σ' ∧ σ' x = v := by
    intro ho
    have hne : rest ≠ .hnil := by
      intro e; subst e; simp [Out, gen, pass] at ho
    obtain ⟨σ2, h2, e2⟩ := cr σ v ho
    exact ⟨σ2, .hSkip hne (reads_exec ty hty σ) h2, e2⟩
  rcases h with (h | ⟨_, h | ⟨_, h⟩⟩ | h) | ⟨⟨_, _, hp⟩ | hp, e0⟩
  · exact hmatch (.inl h)
  · exact absurd h (gn v)
  · exact absurd h (gt v)
  · exact hskip (.inl h)
  · exact hmatch (.inr ⟨hp, e0⟩)
  · exact hskip (.inr ⟨hp, e0⟩)

theorem canAt_hcons (hty : isReads ty = true) (hnm : isName nm = true) (hx : x ∉ bindsOf nm)
    (aty : CanAt ty x) (ahb : CanAt hb x) (ar : CanAt rest x) : CanAt (.hcons ty nm hb rest) x := by
  obtain ⟨gn, pn, en, dn⟩ := name_facts nm x hnm hx
  have gt := fun v => (isReads_pass ty hty x v).2
  intro r σ v h
  simp only [OutAt, genAt, passAt] at h
  have hty' : OutAt ty r x (σ x) v → ∃ σ', Exec (.hcons ty nm hb rest) σ (.stop r) σ' ∧ σ' x = v := by
    intro ho
    obtain ⟨σ1, h1, e1⟩ := aty r σ v ho
    exact ⟨σ1, .hS h1, e1⟩
  have hmatch : OutAt hb r x (σ x) v → ∃ σ', Exec (.hcons ty nm hb rest) σ (.stop r) σ' ∧ σ' x = v := by
    intro ho
    obtain ⟨σ2, h2, e2⟩ := en σ
    obtain ⟨σ3, h3, e3⟩ := ahb r σ2 v (by rw [e2]; exact ho)
    exact ⟨_, .hMatchS (reads_exec ty hty σ) h2 h3, e3⟩
  have hskip : OutAt rest r x (σ x) v → ∃ σ', Exec (.hcons ty nm hb rest) σ (.stop r) σ' ∧ σ' x = v := by
    intro ho
    have hne : rest ≠ .hnil := by
      intro e; subst e; simp [OutAt, genAt, passAt] at ho
    obtain ⟨σ2, h2, e2⟩ := ar r σ v ho
    exact ⟨σ2, .hSkip hne (reads_exec ty hty σ) h2, e2⟩
  rcases h with (h | h | ⟨_, h | ⟨_, h⟩⟩ | h) | ⟨h | ⟨hp, _, _⟩ | h, e0⟩
  · exact hty' (.inl h)
  · exact hmatch (.inl h)
  · exact absurd h (gn v)
  · exact absurd h (gt v)
  · exact hskip (.inl h)
  · exact hty' (.inr ⟨h, e0⟩)
  · exact hmatch (.inr ⟨hp, e0⟩)
  · exact hskip (.inr ⟨h, e0⟩)

end handler


theorem late_events (r : RId) (x : Ident) (s : Stmt) (h : isEvents s = true) : lateRead s r x = false := by
  induction s <;> simp_all [isEvents, lateRead]

theorem late_name (r : RId) (x : Ident) (s : Stmt) (h : isName s = true) : lateRead s r x = false := by
  cases s <;> simp_all [isName, lateRead]

/-- no late reads without comprehensions -/
theorem late_false (r : RId) (x : Ident) (s : Stmt) :
    (inFrag true s = true → lateRead s r x = false) ∧ (inFrag.inHs true s = true → lateRead s r x = false) := by
  induction s <;> simp_all [inFrag, inFrag.inHs, lateRead]
  all_goals grind [late_events, late_name, isReads_isEvents, isBinds_isEvents]

/-! ### the fragment: every statement is realisable -/

def Real (s : Stmt) (x : Ident) : Prop := Any s ∧ Can s x ∧ CanAt s x
def RealH (s : Stmt) (x : Ident) : Prop := (isHcons s = true → Any s) ∧ Can s x ∧ CanAt s x

theorem real_seq {s t : Stmt} {x : Ident} (a : Real s x) (b : Real t x) : Real (.seq s t) x :=
  ⟨any_seq a.1 b.1, can_seq a.1 a.2.1 b.2.1, canAt_seq a.1 a.2.1 a.2.2 b.2.2⟩

theorem real_while {c b e : Stmt} {x : Ident} (rc : Real c x) (rb : Real b x) (re : Real e x) :
    Real (.while_ c b e) x :=
  ⟨any_while rc.1 re.1, can_while rc.1 rc.2.1 rb.2.1 re.2.1,
   canAt_while rc.1 rc.2.1 rc.2.2 rb.2.1 rb.2.2 re.2.2⟩

theorem real_skip (x : Ident) : Real .skip x := ⟨any_skip, can_skip x, canAt_skip x⟩

theorem real (x : Ident) (s : Stmt) :
    (inFrag true s = true → x ∉ exNames s → Real s x) ∧
    (inFrag.inHs true s = true → x ∉ exNames s → RealH s x) := by
  induction s with
  | skip => exact ⟨fun _ _ => real_skip x, by simp [inFrag.inHs]⟩
  | bind y d => exact ⟨fun _ _ => ⟨any_bind y d, can_bind y d x, canAt_bind y d x⟩, by simp [inFrag.inHs]⟩
  | read y r => exact ⟨fun _ _ => ⟨any_read y r, can_read y r x, canAt_read y r x⟩, by simp [inFrag.inHs]⟩
  | seq s t ihs iht =>
      refine ⟨fun hf hx => ?_, by simp [inFrag.inHs]⟩
      simp only [inFrag, Bool.and_eq_true] at hf
      simp only [exNames, List.mem_append, not_or] at hx
      exact real_seq (ihs.1 hf.1 hx.1) (iht.1 hf.2 hx.2)
  | ite c a b ihc iha ihb =>
      refine ⟨fun hf hx => ?_, by simp [inFrag.inHs]⟩
      simp only [inFrag, Bool.and_eq_true] at hf
      simp only [exNames, List.mem_append, not_or] at hx
      have rc := ihc.1 (isEvents_inFrag true c hf.1.1) hx.1.1
      have ra := iha.1 hf.1.2 hx.1.2
      have rb := ihb.1 hf.2 hx.2
      have r1 := real_seq rc ra
      have r2 := real_seq rc rb
      exact ⟨fun σ => let ⟨σ', h⟩ := r1.1 σ; ⟨σ', ite_of_seqT (.inl rfl) h⟩, can_ite r1.2.1 r2.2.1, canAt_ite r1.2.2 r2.2.2⟩
  | while_ c b e ihc ihb ihe =>
      refine ⟨fun hf hx => ?_, by simp [inFrag.inHs]⟩
      simp only [inFrag, Bool.and_eq_true] at hf
      simp only [exNames, List.mem_append, not_or] at hx
      exact real_while (ihc.1 (isEvents_inFrag true c hf.1.1) hx.1.1) (ihb.1 hf.1.2 hx.1.2) (ihe.1 hf.2 hx.2)
  | for_ it tg b e ihi iht ihb ihe =>
      refine ⟨fun hf hx => ?_, by simp [inFrag.inHs]⟩
      simp only [inFrag, Bool.and_eq_true] at hf
      simp only [exNames, List.mem_append, not_or] at hx
      have ri := ihi.1 (isEvents_inFrag true it (isReads_isEvents it hf.1.1.1)) hx.1.1.1
      have rt := iht.1 (isEvents_inFrag true tg (isBinds_isEvents tg hf.1.1.2)) hx.1.1.2
      have rb := ihb.1 hf.1.2 hx.1.2
      have re := ihe.1 hf.2 hx.2
      have rd := real_seq ri (real_while (real_skip x) (real_seq rt rb) re)
      have nr1 : ∀ r, passAt tg r x = False := fun r => eq_false (isBinds_noReads tg hf.1.1.2 r x none).1
      have nr2 : ∀ r v, genAt tg r x v = False := fun r v => eq_false (isBinds_noReads tg hf.1.1.2 r x v).2
      refine ⟨any_of (fun _ _ h => .for_ h) rd.1, ?_, ?_⟩
      · exact can_of2 (fun _ _ h => .for_ h) (fun _ _ h => .for_ h)
          (by intro u v; simp only [Out, gen, pass]; grind) rd.2.1 rd.2.1
      · exact canAt_of2 (fun _ _ _ h => .for_ h) (fun _ _ _ h => .for_ h)
          (by intro r u v; simp only [OutAt, genAt, passAt, gen, pass, nr1, nr2]; grind) rd.2.2 rd.2.2
  | tryx r1 r2 b hs e ihb ihh ihe =>
      refine ⟨fun hf hx => ?_, by simp [inFrag.inHs]⟩
      simp only [inFrag, Bool.and_eq_true, Bool.not_true, Bool.false_or] at hf
      simp only [exNames, List.mem_append, not_or] at hx
      obtain ⟨⟨⟨⟨⟨h1, h2⟩, hb⟩, hc⟩, hh⟩, he⟩ := hf
      subst h1; subst h2
      have rb := ihb.1 hb hx.1.1
      have rh := ihh.2 hh hx.1.2
      have re := ihe.1 he hx.2
      exact ⟨any_try rb.1 re.1, can_try rb.1 rb.2.1 rh.2.1 re.2.1, canAt_try rb.1 rb.2.1 rb.2.2 rh.2.2 re.2.2⟩
  | hnil =>
      refine ⟨by simp [inFrag], fun _ _ => ⟨by simp [isHcons], ?_, ?_⟩⟩
      · intro σ v h; simp [Out, gen, pass] at h
      · intro r σ v h; simp [OutAt, genAt, passAt] at h
  | hcons ty nm hb rest iht ihn ihb ihr =>
      refine ⟨by simp [inFrag], fun hh hx => ?_⟩
      simp only [inFrag.inHs, Bool.and_eq_true] at hh
      simp only [exNames, List.mem_append, not_or] at hx
      have rt := iht.1 (isEvents_inFrag true ty (isReads_isEvents ty hh.1.1.1)) hx.1.1.1
      have rb := ihb.1 hh.1.2 hx.1.2
      have rr := ihr.2 hh.2 hx.2
      exact ⟨fun _ => any_hcons hh.1.1.1 hh.1.1.2 hx.1.1.2 rb.1,
             can_hcons hh.1.1.1 hh.1.1.2 hx.1.1.2 rb.2.1 rr.2.1,
             canAt_hcons hh.1.1.1 hh.1.1.2 hx.1.1.2 rt.2.2 rb.2.2 rr.2.2⟩
  | fin s f ihs ihf =>
      refine ⟨fun hf hx => ?_, by simp [inFrag.inHs]⟩
      simp only [inFrag, Bool.and_eq_true] at hf
      simp only [exNames, List.mem_append, not_or] at hx
      have r1 := real_seq (ihs.1 hf.1 hx.1) (ihf.1 hf.2 hx.2)
      exact ⟨fun σ => let ⟨σ', h⟩ := r1.1 σ; ⟨σ', fin_of_seq (.inl rfl) h⟩, can_fin r1.2.1, canAt_fin r1.2.2⟩
  | def_ pre f d ps body ihp _ _ =>
      refine ⟨fun hf hx => ?_, by simp [inFrag.inHs]⟩
      simp only [inFrag] at hf
      simp only [exNames] at hx
      have rp := ihp.1 (isEvents_inFrag true pre (isReads_isEvents pre hf)) hx
      have r1 : Real (.seq pre (.bind f d)) x := real_seq rp ⟨any_bind f d, can_bind f d x, canAt_bind f d x⟩
      refine ⟨any_of (fun _ _ h => def_of_seq h (.inl rfl)) r1.1, ?_, ?_⟩
      · exact can_of2 (fun _ _ h => def_of_seq h (.inl rfl)) (fun _ _ h => def_of_seq h (.inl rfl))
          (by intro u v; simp only [Out, gen, pass]; grind) r1.2.1 r1.2.1
      · exact canAt_of2 (fun r _ _ h => def_of_seq h (.inr ⟨r, rfl⟩)) (fun r _ _ h => def_of_seq h (.inr ⟨r, rfl⟩))
          (by intro r u v; simp only [OutAt, genAt, passAt, gen, pass]; grind) r1.2.2 r1.2.2
  | lam pre ps body ihp _ _ =>
      refine ⟨fun hf hx => ?_, by simp [inFrag.inHs]⟩
      simp only [inFrag] at hf
      simp only [exNames] at hx
      have rp := ihp.1 (isEvents_inFrag true pre (isReads_isEvents pre hf)) hx
      refine ⟨any_of (fun _ _ h => lam_of h (.inl rfl)) rp.1, ?_, ?_⟩
      · exact can_of2 (fun _ _ h => lam_of h (.inl rfl)) (fun _ _ h => lam_of h (.inl rfl))
          (by intro u v; simp only [Out, gen, pass]; grind) rp.2.1 rp.2.1
      · exact canAt_of2 (fun r _ _ h => lam_of h (.inr ⟨r, rfl⟩)) (fun r _ _ h => lam_of h (.inr ⟨r, rfl⟩))
          (by intro r u v; simp only [OutAt, genAt, passAt]; grind) rp.2.2 rp.2.2
  | cls pre c d body ihp ihb =>
      refine ⟨fun hf hx => ?_, by simp [inFrag.inHs]⟩
      simp only [inFrag, Bool.and_eq_true] at hf
      simp only [exNames, List.mem_append, not_or] at hx
      have rp := ihp.1 (isEvents_inFrag true pre (isReads_isEvents pre hf.1)) hx.1
      have rb := ihb.1 hf.2 hx.2
      have r1 : Real (.seq pre (.bind c d)) x := real_seq rp ⟨any_bind c d, can_bind c d x, canAt_bind c d x⟩
      refine ⟨any_of (fun _ _ h => cls_of_seq rb.1 h (.inl rfl)) r1.1, ?_, ?_⟩
      · exact can_of2 (fun _ _ h => cls_of_seq rb.1 h (.inl rfl)) (fun _ _ h => cls_of_seq rb.1 h (.inl rfl))
          (by intro u v; simp only [Out, gen, pass]; grind) r1.2.1 r1.2.1
      · exact canAt_of2 (fun r _ _ h => cls_of_seq rb.1 h (.inr ⟨r, rfl⟩)) (fun r _ _ h => cls_of_seq rb.1 h (.inr ⟨r, rfl⟩))
          (by intro r u v; simp only [OutAt, genAt, passAt, gen, pass]; grind) r1.2.2 r1.2.2
  | _ => simp [inFrag, inFrag.inHs]

end SuppModel.Den
