/- Closed forms of supp's tables (`gen` / `pass`, `genAt` / `passAt`) and their relation to the reference
   semantics.  Proof files only. -/
import SuppModel.Den.Sem
namespace SuppModel.Den

theorem lookup_map (ks : List Ident) (f : Ident → Alts) (x : Ident) :
    (ks.map fun k => (k, f k)).lookup x = if x ∈ ks then some (f x) else none := by
  induction ks with
  | nil => simp
  | cons k ks ih =>
    simp only [List.map_cons, List.lookup_cons, List.mem_cons]
    by_cases h : x = k
    · subst h; simp
    · have : (x == k) = false := by simpa using h
      simp [this, ih, h]

theorem mem_union (a b : Alts) (v : Option Site) : v ∈ Alts.union a b ↔ v ∈ a ∨ v ∈ b := by
  unfold Alts.union
  simp only [List.mem_append, List.mem_filter]
  by_cases h : v ∈ a <;> simp [h]

/-- the evaluation-strategy parameter `ks` does not change the table -/
theorem get_join (ks : List Ident) (T U : Tbl) (x : Ident) :
    (Tbl.join ks T U).get x = Alts.union (T.get x) (U.get x) := by
  unfold Tbl.join
  simp only [lookup_map]
  by_cases h : x ∈ ks <;> simp [h]

theorem mem_join (ks : List Ident) (T U : Tbl) (x : Ident) (v : Option Site) :
    v ∈ (Tbl.join ks T U).get x ↔ v ∈ T.get x ∨ v ∈ U.get x := by
  rw [get_join, mem_union]

theorem mem_upd (T : Tbl) (x y : Ident) (d : Site) (v : Option Site) :
    v ∈ (T.upd x d).get y ↔ (if y = x then v = some d else v ∈ T.get y) := by
  unfold Tbl.upd
  by_cases h : y = x <;> simp [h]


/-! ## closed form of `A`: `A s T = gen s ∪ (pass s ? T)` per name -/

/-- name `y` is not rebound on some path through `s` -/
def pass : Stmt → Ident → Prop
  | .skip, _ => True | .gbind _ _, _ => True | .read _ _, _ => True
  | .bind x _, y => y ≠ x
  | .seq s t, y => pass s y ∧ pass t y
  | .ite c a b, y => pass c y ∧ (pass a y ∨ pass b y)
  | .while_ c _ e, y => pass e y ∧ pass c y
  | .for_ it _ _ e, y => pass e y ∧ pass it y
  | .tryx _ _ b hs e, y => (pass e y ∧ pass b y) ∨ pass hs y
  | .hnil, _ => False
  | .hcons ty nm hb rest, y => (pass ty y ∧ pass nm y ∧ pass hb y) ∨ pass rest y
  | .fin s f, y => pass s y ∧ pass f y
  | .comp it _, y => pass it y
  | .cfor tg ifs inner, y => pass tg y ∧ pass ifs y ∧ pass inner y
  | .def_ pre f _ _ _, y => pass pre y ∧ y ≠ f
  | .lam pre _ _, y => pass pre y
  | .cls pre c _ _, y => pass pre y ∧ y ≠ c
  | .mayraise _, _ => True | .brk, _ => True | .cont, _ => True | .ret, _ => True | .raise_, _ => True

/-- alternative `a` for name `y` is produced by `s` itself -/
def gen : Stmt → Ident → Option Site → Prop
  | .skip, _, _ => False | .gbind _ _, _, _ => False | .read _ _, _, _ => False
  | .bind x d, y, a => y = x ∧ a = some d
  | .seq s t, y, a => gen t y a ∨ (pass t y ∧ gen s y a)
  | .ite c a b, y, v => gen a y v ∨ gen b y v ∨ ((pass a y ∨ pass b y) ∧ gen c y v)
  | .while_ c b e, y, a => gen e y a ∨ (pass e y ∧ (gen c y a ∨ (pass c y ∧ (gen b y a ∨ (pass b y ∧ gen c y a)))))
  | .for_ it tg b e, y, a => gen e y a ∨ (pass e y ∧ (gen b y a ∨ (pass b y ∧ gen tg y a) ∨ gen it y a))
  | .tryx _ _ b hs e, y, a => gen e y a ∨ (pass e y ∧ gen b y a) ∨ gen hs y a ∨ (pass hs y ∧ gen b y a)
  | .hnil, _, _ => False
  | .hcons ty nm hb rest, y, a =>
      gen hb y a ∨ (pass hb y ∧ (gen nm y a ∨ (pass nm y ∧ gen ty y a))) ∨ gen rest y a
  | .fin s f, y, a => gen f y a ∨ (pass f y ∧ gen s y a)
  | .comp it g, y, a => gen it y a ∨ gen g y a
  | .cfor tg ifs inner, y, a => gen inner y a ∨ (pass inner y ∧ (gen ifs y a ∨ (pass ifs y ∧ gen tg y a)))
  | .def_ pre f d _ _, y, a => (y = f ∧ a = some d) ∨ (y ≠ f ∧ gen pre y a)
  | .lam pre _ _, y, a => gen pre y a
  | .cls pre c d _, y, a => (y = c ∧ a = some d) ∨ (y ≠ c ∧ gen pre y a)
  | .mayraise _, _, _ => False | .brk, _, _ => False | .cont, _, _ => False | .ret, _, _ => False
  | .raise_, _, _ => False

theorem A_normal (ks : List Ident) (s : Stmt) (T : Tbl) (y : Ident) (v : Option Site) :
    v ∈ (A ks s T).get y ↔ (gen s y v ∨ (pass s y ∧ v ∈ T.get y)) := by
  induction s generalizing T with
  | skip => simp [A, gen, pass]
  | bind x d => simp only [A, mem_upd, gen, pass]; by_cases h : y = x <;> simp [h]
  | gbind x d => simp [A, gen, pass]
  | read x r => simp [A, gen, pass]
  | seq s t ihs iht => simp only [A, gen, pass, iht, ihs]; grind
  | ite c a b ihc iha ihb => simp only [A, mem_join, gen, pass, iha, ihb, ihc]; grind
  | while_ c b e ihc ihb ihe => simp only [A, mem_join, gen, pass, ihc, ihb, ihe]; grind
  | for_ it tg b e ihi iht ihb ihe => simp only [A, mem_join, gen, pass, ihi, iht, ihb, ihe]; grind
  | tryx r1 r2 b hs e ihb ihh ihe => simp only [A, mem_join, gen, pass, ihb, ihh, ihe]; grind
  | hnil => simp [A, gen, pass, Tbl.bot]
  | hcons ty nm hb rest iht ihn ihb ihr => simp only [A, mem_join, gen, pass, iht, ihn, ihb, ihr]; grind
  | fin s f ihs ihf => simp only [A, gen, pass, ihf, ihs]; grind
  | comp it g ihi ihg => simp only [A, mem_join, gen, pass, ihi, ihg]; grind
  | cfor tg ifs inner iht ihf ihn => simp only [A, gen, pass, iht, ihf, ihn]; grind
  | def_ pre f d ps body ihp _ _ => simp only [A, mem_upd, gen, pass, ihp]; by_cases h : y = f <;> simp [h]
  | lam pre ps body ihp _ _ => simp only [A, gen, pass, ihp]
  | cls pre c d body ihp _ => simp only [A, mem_upd, gen, pass, ihp]; by_cases h : y = c <;> simp [h]
  | mayraise k => simp [A, gen, pass]
  | brk => simp [A, gen, pass]
  | cont => simp [A, gen, pass]
  | ret => simp [A, gen, pass]
  | raise_ => simp [A, gen, pass]


/-! ## closed form of `at_`: the table at read `r` is `genAt s r ∪ (passAt s r ? T)` (for reads of this scope body) -/

/-- read ids inside nested scope bodies (their tables come from the enclosing FINAL table, not from `T`) -/
def nestedReads : Stmt → List RId
  | .seq s t => nestedReads s ++ nestedReads t
  | .ite c a b => nestedReads c ++ nestedReads a ++ nestedReads b
  | .while_ c b e => nestedReads c ++ nestedReads b ++ nestedReads e
  | .for_ it tg b e => nestedReads it ++ nestedReads tg ++ nestedReads b ++ nestedReads e
  | .tryx _ _ b hs e => nestedReads b ++ nestedReads hs ++ nestedReads e
  | .hcons ty nm hb rest => nestedReads ty ++ nestedReads nm ++ nestedReads hb ++ nestedReads rest
  | .fin s f => nestedReads s ++ nestedReads f
  | .comp it g => nestedReads it ++ nestedReads g
  | .cfor tg ifs inner => nestedReads tg ++ nestedReads ifs ++ nestedReads inner
  | .def_ pre _ _ _ body => nestedReads pre ++ (readsOf body).map (·.1)
  | .lam pre _ body => nestedReads pre ++ (readsOf body).map (·.1)
  | .cls pre _ _ body => nestedReads pre ++ (readsOf body).map (·.1)
  | _ => []

/-- read `r` belongs to this scope body and name `y` is not rebound on some path from the start of `s` to it -/
def passAt : Stmt → RId → Ident → Prop
  | .read _ r', r, _ => r = r'
  | .seq s t, r, y => passAt s r y ∨ (passAt t r y ∧ pass s y)
  | .ite c a b, r, y => passAt c r y ∨ ((passAt a r y ∨ passAt b r y) ∧ pass c y)
  | .while_ c b e, r, y => passAt c r y ∨ ((passAt b r y ∨ passAt e r y) ∧ pass c y)
  | .for_ it tg b e, r, y => passAt it r y ∨ (passAt b r y ∧ pass tg y ∧ pass it y) ∨ (passAt e r y ∧ pass it y)
  | .tryx _ _ b hs e, r, y => passAt b r y ∨ passAt hs r y ∨ (passAt e r y ∧ pass b y)
  | .hcons ty nm hb rest, r, y => passAt ty r y ∨ (passAt hb r y ∧ pass nm y ∧ pass ty y) ∨ passAt rest r y
  | .fin s f, r, y => passAt s r y ∨ (passAt f r y ∧ pass s y)
  | .comp it g, r, y => passAt it r y ∨ (passAt g r y ∧ pass it y)
  | .cfor tg ifs inner, r, y => (passAt ifs r y ∧ pass tg y) ∨ (passAt inner r y ∧ pass ifs y ∧ pass tg y)
  | .def_ pre _ _ _ _, r, y => passAt pre r y
  | .lam pre _ _, r, y => passAt pre r y
  | .cls pre _ _ _, r, y => passAt pre r y
  | _, _, _ => False

/-- alternative `v` for `y` at read `r` is produced by the part of `s` supp puts before `r` -/
def genAt : Stmt → RId → Ident → Option Site → Prop
  | .seq s t, r, y, v => genAt s r y v ∨ genAt t r y v ∨ (passAt t r y ∧ gen s y v)
  | .ite c a b, r, y, v => genAt c r y v ∨ genAt a r y v ∨ genAt b r y v ∨ ((passAt a r y ∨ passAt b r y) ∧ gen c y v)
  | .while_ c b e, r, y, v =>
      let H := gen b y v ∨ (pass b y ∧ gen c y v)      -- what the back edge adds to the loop head
      genAt c r y v ∨ (passAt c r y ∧ H) ∨ genAt b r y v ∨ genAt e r y v ∨
        ((passAt b r y ∨ passAt e r y) ∧ (gen c y v ∨ (pass c y ∧ H)))
  | .for_ it tg b e, r, y, v =>
      let Hh := gen tg y v ∨ (pass tg y ∧ gen b y v)    -- first body statement, beyond the iterable's table
      let He := gen b y v ∨ (pass b y ∧ Hh)             -- else branch
      genAt it r y v ∨ genAt b r y v ∨ (passAt b r y ∧ (Hh ∨ (pass tg y ∧ gen it y v))) ∨ genAt e r y v ∨
        (passAt e r y ∧ (He ∨ gen it y v))
  | .tryx _ _ b hs e, r, y, v =>
      genAt b r y v ∨ genAt hs r y v ∨ (passAt hs r y ∧ gen b y v) ∨ genAt e r y v ∨ (passAt e r y ∧ gen b y v)
  | .hcons ty nm hb rest, r, y, v =>
      genAt ty r y v ∨ genAt hb r y v ∨ (passAt hb r y ∧ (gen nm y v ∨ (pass nm y ∧ gen ty y v))) ∨ genAt rest r y v
  | .fin s f, r, y, v => genAt s r y v ∨ genAt f r y v ∨ (passAt f r y ∧ gen s y v)
  | .comp it g, r, y, v => genAt it r y v ∨ genAt g r y v ∨ (passAt g r y ∧ gen it y v)
  | .cfor tg ifs inner, r, y, v =>
      genAt ifs r y v ∨ (passAt ifs r y ∧ gen tg y v) ∨ genAt inner r y v ∨
        (passAt inner r y ∧ (gen ifs y v ∨ (pass ifs y ∧ gen tg y v)))
  | .def_ pre _ _ _ _, r, y, v => genAt pre r y v
  | .lam pre _ _, r, y, v => genAt pre r y v
  | .cls pre _ _ _, r, y, v => genAt pre r y v
  | _, _, _, _ => False

theorem union_nil : Alts.union [] [] = [] := rfl

theorem at_none (ks : List Ident) (s : Stmt) (r : RId) (T F : Tbl) (y : Ident)
    (h : r ∉ (readsOf s).map (·.1)) : (at_ ks s r T F).get y = [] := by
  induction s generalizing T F with
  | read x r' => simp only [readsOf, List.map_cons, List.map_nil, List.mem_singleton] at h; simp [at_, h, Tbl.bot]
  | seq s t ihs iht => simp only [readsOf, List.map_append, List.mem_append, not_or] at h; simp [at_, get_join, ihs, iht, h, union_nil]
  | ite c a b ihc iha ihb =>
      simp only [readsOf, List.map_append, List.mem_append, not_or] at h; simp [at_, get_join, ihc, iha, ihb, h, union_nil]
  | while_ c b e ihc ihb ihe =>
      simp only [readsOf, List.map_append, List.mem_append, not_or] at h; simp [at_, get_join, ihc, ihb, ihe, h, union_nil]
  | for_ it tg b e ihi iht ihb ihe =>
      simp only [readsOf, List.map_append, List.mem_append, not_or] at h; simp [at_, get_join, ihi, ihb, ihe, h, union_nil]
  | tryx r1 r2 b hs e ihb ihh ihe =>
      simp only [readsOf, List.map_append, List.mem_append, not_or] at h; simp [at_, get_join, ihb, ihh, ihe, h, union_nil]
  | hcons ty nm hb rest iht ihn ihb ihr =>
      simp only [readsOf, List.map_append, List.mem_append, not_or] at h; simp [at_, get_join, iht, ihb, ihr, h, union_nil]
  | fin s f ihs ihf => simp only [readsOf, List.map_append, List.mem_append, not_or] at h; simp [at_, get_join, ihs, ihf, h, union_nil]
  | comp it g ihi ihg => simp only [readsOf, List.map_append, List.mem_append, not_or] at h; simp [at_, get_join, ihi, ihg, h, union_nil]
  | cfor tg ifs inner iht ihf ihn =>
      simp only [readsOf, List.map_append, List.mem_append, not_or] at h; simp [at_, get_join, ihf, ihn, h, union_nil]
  | def_ pre f d ps body ihp _ ihb =>
      simp only [readsOf, List.map_append, List.mem_append, not_or] at h; simp [at_, get_join, ihp, ihb, h, union_nil]
  | lam pre ps body ihp _ ihb =>
      simp only [readsOf, List.map_append, List.mem_append, not_or] at h; simp [at_, get_join, ihp, ihb, h, union_nil]
  | cls pre c d body ihp ihb =>
      simp only [readsOf, List.map_append, List.mem_append, not_or] at h; simp [at_, get_join, ihp, ihb, h, union_nil]
  | _ => simp [at_, Tbl.bot]

theorem at_normal (ks : List Ident) (s : Stmt) (r : RId) (T F : Tbl) (y : Ident) (v : Option Site)
    (h : r ∉ nestedReads s) :
    v ∈ (at_ ks s r T F).get y ↔ (genAt s r y v ∨ (passAt s r y ∧ v ∈ T.get y)) := by
  induction s generalizing T with
  | read x r' => by_cases e : r = r' <;> simp [at_, genAt, passAt, e, Tbl.bot]
  | seq s t ihs iht =>
      simp only [nestedReads, List.mem_append, not_or] at h
      simp only [at_, mem_join, genAt, passAt, ihs _ h.1, iht _ h.2, A_normal]; grind
  | ite c a b ihc iha ihb =>
      simp only [nestedReads, List.mem_append, not_or] at h
      simp only [at_, mem_join, genAt, passAt, ihc _ h.1.1, iha _ h.1.2, ihb _ h.2, A_normal]; grind
  | while_ c b e ihc ihb ihe =>
      simp only [nestedReads, List.mem_append, not_or] at h
      simp only [at_, mem_join, genAt, passAt, ihc _ h.1.1, ihb _ h.1.2, ihe _ h.2, A_normal]; grind
  | for_ it tg b e ihi iht ihb ihe =>
      simp only [nestedReads, List.mem_append, not_or] at h
      simp only [at_, mem_join, genAt, passAt, ihi _ h.1.1.1, ihb _ h.1.2, ihe _ h.2, A_normal]; grind
  | tryx r1 r2 b hs e ihb ihh ihe =>
      simp only [nestedReads, List.mem_append, not_or] at h
      simp only [at_, mem_join, genAt, passAt, ihb _ h.1.1, ihh _ h.1.2, ihe _ h.2, A_normal]; grind
  | hcons ty nm hb rest iht ihn ihb ihr =>
      simp only [nestedReads, List.mem_append, not_or] at h
      simp only [at_, mem_join, genAt, passAt, iht _ h.1.1.1, ihb _ h.1.2, ihr _ h.2, A_normal]; grind
  | fin s f ihs ihf =>
      simp only [nestedReads, List.mem_append, not_or] at h
      simp only [at_, mem_join, genAt, passAt, ihs _ h.1, ihf _ h.2, A_normal]; grind
  | comp it g ihi ihg =>
      simp only [nestedReads, List.mem_append, not_or] at h
      simp only [at_, mem_join, genAt, passAt, ihi _ h.1, ihg _ h.2, A_normal]; grind
  | cfor tg ifs inner iht ihf ihn =>
      simp only [nestedReads, List.mem_append, not_or] at h
      simp only [at_, mem_join, genAt, passAt, ihf _ h.1.2, ihn _ h.2, A_normal]; grind
  | def_ pre f d ps body ihp _ _ =>
      simp only [nestedReads, List.mem_append, not_or] at h
      simp only [at_, mem_join, genAt, passAt, ihp _ h.1, at_none ks body r _ _ y h.2]; simp
  | lam pre ps body ihp _ _ =>
      simp only [nestedReads, List.mem_append, not_or] at h
      simp only [at_, mem_join, genAt, passAt, ihp _ h.1, at_none ks body r _ _ y h.2]; simp
  | cls pre c d body ihp _ =>
      simp only [nestedReads, List.mem_append, not_or] at h
      simp only [at_, mem_join, genAt, passAt, ihp _ h.1, at_none ks body r _ _ y h.2]; simp
  | _ => simp [at_, genAt, passAt, Tbl.bot]

end SuppModel.Den
