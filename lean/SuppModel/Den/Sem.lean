/- Sem: reference semantics of Python for binding and reading, over `Den.Stmt`.

   `Exec s σ o σ'`: big-step, `σ : Ident → Option Site` (which binding site a name currently holds), outcome
   `normal | brk | cont | ret | exc | stop r`.  `stop r` is the observation device: an execution may stop at the
   evaluation of read `r` (nothing runs afterwards, not even `finally` blocks), so
   `Reach s σ r σr := Exec s σ (stop r) σr` is "some execution from σ evaluates read r in state σr".
   Tests, trip counts, raise points and handler matches are oracle decisions (nondeterministic rules).
   `run` is the same semantics as an executable function of an explicit decision list (the driver runs it
   against CPython's trace). -/
import SuppModel.Den.Model
namespace SuppModel.Den

abbrev State := Ident → Option Site
def State.upd (σ : State) (x : Ident) (d : Site) : State := fun y => if y = x then some d else σ y
def State.del (σ : State) (x : Ident) : State := fun y => if y = x then none else σ y
def State.init : State := fun _ => none

inductive Outcome where
  | normal | brk | cont | ret | exc
  | stop (r : RId)
  deriving DecidableEq, Repr

/-- the name an except clause binds (deleted again when the handler is left) -/
def exName : Stmt → Option Ident
  | .bind x _ => some x
  | .gbind x _ => some x
  | _ => none

def delEx (nm : Stmt) (σ : State) : State :=
  match exName nm with
  | some x => σ.del x
  | none => σ

/-- comprehension variables (the targets of the generator chain) -/
def compTargets : Stmt → List Ident
  | .cfor tg _ inner => bindsOf tg ++ compTargets inner
  | .seq _ t => compTargets t
  | _ => []

def State.hide (tgs : List Ident) (σ : State) : State := fun y => if y ∈ tgs then none else σ y
def State.restore (tgs : List Ident) (saved σ : State) : State := fun y => if y ∈ tgs then saved y else σ y

/-- the body of a comprehension: events (reads, target bindings) and generator levels.  A level makes zero or more
    iterations: targets, conditions, then (condition true) the inner part.  Outcomes: `normal` or the observation stop. -/
inductive Chain : Stmt → State → Outcome → State → Prop
  | skip : Chain .skip σ .normal σ
  | bind : Chain (.bind x d) σ .normal (σ.upd x d)
  | read : Chain (.read x r) σ .normal σ
  | readStop : Chain (.read x r) σ (.stop r) σ
  | seqN : Chain s σ .normal σ1 → Chain t σ1 o σ2 → Chain (.seq s t) σ o σ2
  | seqS : Chain s σ (.stop r) σ1 → Chain (.seq s t) σ (.stop r) σ1
  | done : Chain (.cfor tg ifs inner) σ .normal σ
  | iterSkip : Chain tg σ .normal σ1 → Chain ifs σ1 .normal σ2 → Chain (.cfor tg ifs inner) σ2 o σ3 →
      Chain (.cfor tg ifs inner) σ o σ3
  | iter : Chain tg σ .normal σ1 → Chain ifs σ1 .normal σ2 → Chain inner σ2 .normal σ3 →
      Chain (.cfor tg ifs inner) σ3 o σ4 → Chain (.cfor tg ifs inner) σ o σ4
  | iterS1 : Chain tg σ .normal σ1 → Chain ifs σ1 (.stop r) σ2 → Chain (.cfor tg ifs inner) σ (.stop r) σ2
  | iterS2 : Chain tg σ .normal σ1 → Chain ifs σ1 .normal σ2 → Chain inner σ2 (.stop r) σ3 →
      Chain (.cfor tg ifs inner) σ (.stop r) σ3

inductive Exec : Stmt → State → Outcome → State → Prop
  | skip : Exec .skip σ .normal σ
  | bind : Exec (.bind x d) σ .normal (σ.upd x d)
  | gbind : Exec (.gbind x d) σ .normal (σ.upd x d)
  | read : Exec (.read x r) σ .normal σ
  | readStop : Exec (.read x r) σ (.stop r) σ
  | seqN : Exec s σ .normal σ1 → Exec t σ1 o σ2 → Exec (.seq s t) σ o σ2
  | seqA : Exec s σ o σ1 → o ≠ .normal → Exec (.seq s t) σ o σ1
  -- if: test events, then one branch
  | iteT : Exec c σ .normal σ1 → Exec a σ1 o σ2 → Exec (.ite c a b) σ o σ2
  | iteF : Exec c σ .normal σ1 → Exec b σ1 o σ2 → Exec (.ite c a b) σ o σ2
  | iteS : Exec c σ (.stop r) σ1 → Exec (.ite c a b) σ (.stop r) σ1
  -- while: the test is evaluated before every iteration and once more on exit
  | whileExit : Exec c σ .normal σ1 → Exec e σ1 o σ2 → Exec (.while_ c b e) σ o σ2
  | whileStep : Exec c σ .normal σ1 → Exec b σ1 ob σ2 → (ob = .normal ∨ ob = .cont) →
      Exec (.while_ c b e) σ2 o σ3 → Exec (.while_ c b e) σ o σ3
  | whileBrk : Exec c σ .normal σ1 → Exec b σ1 .brk σ2 → Exec (.while_ c b e) σ .normal σ2
  | whileAbort : Exec c σ .normal σ1 → Exec b σ1 ob σ2 → (ob = .ret ∨ ob = .exc ∨ ∃ r, ob = .stop r) →
      Exec (.while_ c b e) σ ob σ2
  | whileS : Exec c σ (.stop r) σ1 → Exec (.while_ c b e) σ (.stop r) σ1
  -- for: the iterable once, then "has next?" is the (event-free) test and the targets are bound at the start of
  -- every iteration
  | for_ : Exec (.seq it (.while_ .skip (.seq tg b) e)) σ o σ' → Exec (.for_ it tg b e) σ o σ'
  -- try/except/else
  | tryN : Exec b σ .normal σ1 → Exec e σ1 o σ2 → Exec (.tryx r1 r2 b hs e) σ o σ2
  | tryX : Exec b σ .exc σ1 → Exec hs σ1 o σ2 → Exec (.tryx r1 r2 b hs e) σ o σ2
  | tryX1 : Exec hs σ o σ2 → Exec (.tryx true r2 b hs e) σ o σ2
  | tryX2 : Exec b σ .normal σ1 → Exec hs σ1 o σ2 → Exec (.tryx r1 true b hs e) σ o σ2
  | tryJ : Exec b σ o σ1 → o ≠ .normal → o ≠ .exc → Exec (.tryx r1 r2 b hs e) σ o σ1
  -- handler dispatch (runs in the state in which the exception was raised); the type expressions of the clauses
  -- before the matching one are evaluated too; the last clause catches everything; type expressions do not bind
  | hMatch : Exec ty σ .normal σ → Exec nm σ .normal σ2 → Exec hb σ2 o σ3 → (∀ r, o ≠ .stop r) →
      Exec (.hcons ty nm hb rest) σ o (delEx nm σ3)
  -- (the except name is still bound while the handler body runs: an observation stop inside it sees it)
  | hMatchS : Exec ty σ .normal σ → Exec nm σ .normal σ2 → Exec hb σ2 (.stop r) σ3 →
      Exec (.hcons ty nm hb rest) σ (.stop r) σ3
  | hSkip : rest ≠ .hnil → Exec ty σ .normal σ → Exec rest σ o σ2 → Exec (.hcons ty nm hb rest) σ o σ2
  | hS : Exec ty σ (.stop r) σ1 → Exec (.hcons ty nm hb rest) σ (.stop r) σ1
  -- try/finally: the finally block runs on every outcome except the observation stop
  | finN : Exec s σ o σ1 → (∀ r, o ≠ .stop r) → Exec f σ1 .normal σ2 → Exec (.fin s f) σ o σ2
  | finA : Exec s σ o σ1 → (∀ r, o ≠ .stop r) → Exec f σ1 o' σ2 → o' ≠ .normal → Exec (.fin s f) σ o' σ2
  | finS : Exec s σ (.stop r) σ1 → Exec (.fin s f) σ (.stop r) σ1
  -- definitions: pre events (decorators, defaults, bases), then the name; a function body runs at call time
  -- (its own activation: a separate program), a class body right away in its own namespace
  | def_ : Exec pre σ .normal σ1 → Exec (.def_ pre f d ps body) σ .normal (σ1.upd f d)
  | defS : Exec pre σ (.stop r) σ1 → Exec (.def_ pre f d ps body) σ (.stop r) σ1
  | lam : Exec pre σ .normal σ1 → Exec (.lam pre ps body) σ .normal σ1
  | lamS : Exec pre σ (.stop r) σ1 → Exec (.lam pre ps body) σ (.stop r) σ1
  | clsN : Exec pre σ .normal σ1 → Exec body σ1 .normal σ2 → Exec (.cls pre c d body) σ .normal (σ1.upd c d)
  | clsX : Exec pre σ .normal σ1 → Exec body σ1 .exc σ2 → Exec (.cls pre c d body) σ .exc σ1
  | clsS : Exec pre σ (.stop r) σ1 → Exec (.cls pre c d body) σ (.stop r) σ1
  -- comprehension: the first iterable outside, the generator chain with the comprehension variables hidden on entry
  -- and restored afterwards (Python 3: they are local to the comprehension)
  | compN : Exec it σ .normal σ1 → Chain g (State.hide (compTargets g) σ1) .normal σ2 →
      Exec (.comp it g) σ .normal (State.restore (compTargets g) σ1 σ2)
  | compS1 : Exec it σ (.stop r) σ1 → Exec (.comp it g) σ (.stop r) σ1
  | compS2 : Exec it σ .normal σ1 → Chain g (State.hide (compTargets g) σ1) (.stop r) σ2 →
      Exec (.comp it g) σ (.stop r) σ2
  -- raise points and jumps
  | mayraiseN : Exec (.mayraise k) σ .normal σ
  | mayraiseX : Exec (.mayraise k) σ .exc σ
  | brk : Exec .brk σ .brk σ
  | cont : Exec .cont σ .cont σ
  | ret : Exec .ret σ .ret σ
  | raise_ : Exec .raise_ σ .exc σ

/-- some execution of `s` from `σ` evaluates read `r` in state `σr` -/
def Reach (s : Stmt) (σ : State) (r : RId) (σr : State) : Prop := Exec s σ (.stop r) σr

/-! ## fragments (decidable) -/

/-- events of a test / iterable / type expression / pre list: reads and binds only -/
def isEvents : Stmt → Bool
  | .skip => true | .bind _ _ => true | .read _ _ => true
  | .seq s t => isEvents s && isEvents t
  | _ => false

def isReads : Stmt → Bool
  | .skip => true | .read _ _ => true
  | .seq s t => isReads s && isReads t
  | _ => false

def isBinds : Stmt → Bool
  | .skip => true | .bind _ _ => true
  | .seq s t => isBinds s && isBinds t
  | _ => false

/-- generator chain of a comprehension in the fragment: targets are bindings, iterables / conditions / element are
    reads (no walrus) -/
def chainFrag : Stmt → Bool
  | .cfor tg ifs inner => isBinds tg && isReads ifs && chainFrag inner
  | .seq s t => isReads s && chainFrag t
  | .skip => true
  | .read _ _ => true
  | _ => false

def readIds (s : Stmt) : List RId := (readsOf s).map (·.1)

/-- read `r` lies, inside a comprehension, before a deeper generator level that binds `x`: on a later iteration it
    finds the value that level left behind (in real Python the first evaluation raises UnboundLocalError); supp looks
    `x` up outside the comprehension -/
def lateChain : Stmt → RId → Ident → Bool
  | .cfor _ ifs inner, r, x => (decide (r ∈ readIds ifs) && decide (x ∈ compTargets inner)) || lateChain inner r x
  | .seq s t, r, x => (decide (r ∈ readIds s) && decide (x ∈ compTargets t)) || lateChain t r x
  | _, _, _ => false

def lateRead : Stmt → RId → Ident → Bool
  | .seq s t, r, x => lateRead s r x || lateRead t r x
  | .ite c a b, r, x => lateRead c r x || lateRead a r x || lateRead b r x
  | .while_ c b e, r, x => lateRead c r x || lateRead b r x || lateRead e r x
  | .for_ it tg b e, r, x => lateRead it r x || lateRead tg r x || lateRead b r x || lateRead e r x
  | .tryx _ _ b hs e, r, x => lateRead b r x || lateRead hs r x || lateRead e r x
  | .hcons ty nm hb rest, r, x => lateRead ty r x || lateRead nm r x || lateRead hb r x || lateRead rest r x
  | .fin s f, r, x => lateRead s r x || lateRead f r x
  | .comp it g, r, x => lateRead it r x || lateChain g r x
  | .def_ pre _ _ _ _, r, x => lateRead pre r x
  | .lam pre _ _, r, x => lateRead pre r x
  | .cls pre _ _ _, r, x => lateRead pre r x
  | _, _, _ => false

def isName : Stmt → Bool
  | .skip => true | .bind _ _ => true
  | _ => false

def isHcons : Stmt → Bool
  | .hcons _ _ _ _ => true
  | _ => false

/-- C02 fragment: structured control flow only.  No jumps, raise points only as the first / last statement of a
    try body (the flags of `tryx`) and always caught, no `global` bindings; comprehensions with read-only
    iterables / conditions / element (C02 only).
    `strict`: C03's additional requirement that a try body may raise both at its start and at its end (every
    syntactic path into a handler is an execution). -/
def inFrag (strict : Bool) : Stmt → Bool
  | .skip => true | .bind _ _ => true | .read _ _ => true
  | .gbind _ _ => false
  | .seq s t => inFrag strict s && inFrag strict t
  | .ite c a b => isEvents c && inFrag strict a && inFrag strict b
  | .while_ c b e => isEvents c && inFrag strict b && inFrag strict e
  | .for_ it tg b e => isReads it && isBinds tg && inFrag strict b && inFrag strict e
  | .tryx r1 r2 b hs e => (!strict || (r1 && r2)) && inFrag strict b && isHcons hs && inHs strict hs && inFrag strict e
  | .hnil => false
  | .hcons _ _ _ _ => false
  | .fin s f => inFrag strict s && inFrag strict f
  | .comp it g => !strict && isReads it && chainFrag g
  | .cfor _ _ _ => false
  | .def_ pre _ _ _ _ => isReads pre
  | .lam pre _ _ => isReads pre
  | .cls pre _ _ body => isReads pre && inFrag strict body
  | .mayraise _ => false | .brk => false | .cont => false | .ret => false | .raise_ => false
where
  /-- a handler chain -/
  inHs (strict : Bool) : Stmt → Bool
  | .hnil => true
  | .hcons ty nm hb rest => isReads ty && isName nm && inFrag strict hb && inHs strict rest
  | _ => false

def inC02 (s : Stmt) : Bool := inFrag false s
def inC03 (s : Stmt) : Bool := inFrag true s

/-- names bound by except clauses of this scope body (unbound again when the handler is left) -/
def exNames : Stmt → List Ident
  | .seq s t => exNames s ++ exNames t
  | .ite c a b => exNames c ++ exNames a ++ exNames b
  | .while_ c b e => exNames c ++ exNames b ++ exNames e
  | .for_ it tg b e => exNames it ++ exNames tg ++ exNames b ++ exNames e
  | .tryx _ _ b hs e => exNames b ++ exNames hs ++ exNames e
  | .hcons ty nm hb rest => exNames ty ++ bindsOf nm ++ exNames hb ++ exNames rest
  | .fin s f => exNames s ++ exNames f
  | .def_ pre _ _ _ _ => exNames pre
  | .lam pre _ _ => exNames pre
  | .cls pre _ _ body => exNames pre ++ exNames body
  | _ => []

/-! ## executable semantics: decisions are consumed in evaluation order, every loop makes at most `trips`
    iterations per activation (then the test is false without consuming a decision) -/

structure RunSt where
  σ : State
  ds : List Bool
  tr : List (RId × Option Site)   -- reversed trace

def RunSt.pop (st : RunSt) : Bool × RunSt :=
  match st.ds with
  | [] => (false, st)
  | b :: rest => (b, { st with ds := rest })

def trips : Nat := 2

abbrev RunRes := Option (Outcome × RunSt)

/-- continue with `k` after a normal outcome, otherwise pass the result on (`none` = out of fuel / stuck) -/
def RunRes.bindN (res : RunRes) (k : RunSt → RunRes) : RunRes :=
  match res with
  | some (.normal, st1) => k st1
  | res => res

/-- the decision of a loop test / iterator: at most `trips` iterations per activation, then "stop" without a decision -/
def RunSt.popTrip (st : RunSt) (k : Nat) : Bool × RunSt := if k < trips then st.pop else (false, st)

/-- condition of a generator level: no decision when there is no condition -/
def RunSt.popIf (st : RunSt) (ifs : Stmt) : Bool × RunSt :=
  match ifs with
  | .skip => (true, st)
  | _ => st.pop

/-- handler match: the last clause catches everything (no decision) -/
def RunSt.popMatch (st : RunSt) (rest : Stmt) : Bool × RunSt :=
  match rest with
  | .hnil => (true, st)
  | _ => st.pop

/-- `fuel` bounds the recursion depth (statement nesting + loop iterations); `none` = out of fuel (programs are far
    below it) or a statement without meaning (a handler chain outside a try) -/
def run : Nat → Stmt → RunSt → RunRes
  | 0, _, _ => none
  | n + 1, s, st =>
    match s with
    | .skip => some (.normal, st)
    | .bind x d => some (.normal, { st with σ := st.σ.upd x d })
    | .gbind x d => some (.normal, { st with σ := st.σ.upd x d })
    | .read x r => some (.normal, { st with tr := (r, st.σ x) :: st.tr })
    | .seq a b => (run n a st).bindN fun st1 => run n b st1
    | .ite c a b => (run n c st).bindN fun st1 => if st1.pop.1 then run n a st1.pop.2 else run n b st1.pop.2
    | .while_ c b e => loop n c b e 0 st
    | .for_ it tg b e => (run n it st).bindN fun st1 => loop n .skip (.seq tg b) e 0 st1
    | .tryx r1 r2 b hs e =>
        let p0 := if r1 then st.pop else (false, st)
        if p0.1 then run n hs p0.2 else
        match run n b p0.2 with
        | some (.normal, st1) =>
            let p2 := if r2 then st1.pop else (false, st1)
            if p2.1 then run n hs p2.2 else run n e p2.2
        | some (.exc, st1) => run n hs st1
        | res => res
    | .hnil => none
    | .hcons ty nm hb rest =>
        (run n ty st).bindN fun st1 =>
          if (st1.popMatch rest).1 then
            (run n nm (st1.popMatch rest).2).bindN fun st3 =>
              match run n hb st3 with
              | some (o, st4) => some (o, { st4 with σ := delEx nm st4.σ })
              | none => none
          else run n rest (st1.popMatch rest).2
    | .fin a f =>
        match run n a st with
        | none => none
        | some (o, st1) =>
          match run n f st1 with
          | some (.normal, st2) => some (o, st2)
          | res => res
    | .comp it g =>
        (run n it st).bindN fun st1 =>
          match run n g { st1 with σ := State.hide (compTargets g) st1.σ } with
          | some (o, st2) => some (o, { st2 with σ := State.restore (compTargets g) st1.σ st2.σ })
          | none => none
    | .cfor tg ifs inner => cloop n tg ifs inner 0 st
    | .def_ pre f d _ _ => (run n pre st).bindN fun st1 => some (.normal, { st1 with σ := st1.σ.upd f d })
    | .lam pre _ _ => run n pre st
    | .cls pre c d _ => (run n pre st).bindN fun st1 => some (.normal, { st1 with σ := st1.σ.upd c d })
    | .mayraise _ => some (if st.pop.1 then .exc else .normal, st.pop.2)
    | .brk => some (.brk, st)
    | .cont => some (.cont, st)
    | .ret => some (.ret, st)
    | .raise_ => some (.exc, st)
where
  loop : Nat → Stmt → Stmt → Stmt → Nat → RunSt → RunRes
    | 0, _, _, _, _, _ => none
    | n + 1, c, b, e, k, st =>
      (run n c st).bindN fun st1 =>
        if (st1.popTrip k).1 then
          match run n b (st1.popTrip k).2 with
          | some (.normal, st3) => loop n c b e (k + 1) st3
          | some (.cont, st3) => loop n c b e (k + 1) st3
          | some (.brk, st3) => some (.normal, st3)
          | res => res
        else run n e (st1.popTrip k).2
  cloop : Nat → Stmt → Stmt → Stmt → Nat → RunSt → RunRes
    | 0, _, _, _, _, _ => none
    | n + 1, tg, ifs, inner, k, st =>
      if (st.popTrip k).1 then
        (run n tg (st.popTrip k).2).bindN fun st2 =>
          (run n ifs st2).bindN fun st3 =>
            if (st3.popIf ifs).1 then (run n inner (st3.popIf ifs).2).bindN fun st5 => cloop n tg ifs inner (k + 1) st5
            else cloop n tg ifs inner (k + 1) (st3.popIf ifs).2
      else some (.normal, (st.popTrip k).2)

/-- what `run` is proved sound for: tests are events, handler types are reads, except names are names, the parts of a
    comprehension are events, definition headers are events; class statements (their body runs at definition time,
    `run` does not execute it) and free-standing handler chains / generator levels are excluded -/
def chainWf : Stmt → Bool
  | .cfor tg ifs inner => isBinds tg && isEvents ifs && chainWf inner
  | .seq s t => isEvents s && chainWf t
  | s => isEvents s

def isNm : Stmt → Bool
  | .skip => true | .bind _ _ => true | .gbind _ _ => true
  | _ => false

def runWf : Stmt → Bool
  | .seq s t => runWf s && runWf t
  | .ite c a b => isEvents c && runWf a && runWf b
  | .while_ c b e => isEvents c && runWf b && runWf e
  | .for_ it tg b e => runWf it && runWf tg && runWf b && runWf e
  | .tryx _ _ b hs e => runWf b && isHcons hs && hsWf hs && runWf e
  | .hnil => false
  | .hcons _ _ _ _ => false
  | .fin s f => runWf s && runWf f
  | .comp it g => isEvents it && chainWf g
  | .cfor _ _ _ => false
  | .def_ pre _ _ _ _ => isEvents pre
  | .lam pre _ _ => isEvents pre
  | .cls _ _ _ _ => false
  | _ => true
where
  hsWf : Stmt → Bool
  | .hnil => true
  | .hcons ty nm hb rest => isReads ty && isNm nm && runWf hb && hsWf rest
  | _ => false

/-- constructs `run` treats by their own-scope effect only (bodies of nested scopes are not executed) -/
def inSem : Stmt → Bool
  | .seq s t => inSem s && inSem t
  | .ite c a b => inSem c && inSem a && inSem b
  | .while_ c b e => inSem c && inSem b && inSem e
  | .for_ it tg b e => inSem it && inSem tg && inSem b && inSem e
  | .tryx _ _ b hs e => inSem b && inSem hs && inSem e
  | .hcons ty nm hb rest => inSem ty && inSem nm && inSem hb && inSem rest
  | .fin s f => inSem s && inSem f
  | .comp it g => inSem it && inSem g
  | .cfor tg ifs inner => inSem tg && inSem ifs && inSem inner
  | .def_ _ _ _ _ _ => false
  | .lam _ _ _ => false
  | .cls _ _ _ _ => false
  | .gbind _ _ => false
  | _ => true

def runProg (prog : Stmt) (ds : List Bool) : Option (Outcome × List (RId × Option Site)) :=
  match run 400 prog { σ := State.init, ds := ds, tr := [] } with
  | some (o, st) => some (o, st.tr.reverse)
  | none => none

end SuppModel.Den
