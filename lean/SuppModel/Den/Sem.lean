/- Sem: reference semantics of Python for binding and reading, over `Den.Stmt`.

   `Exec s σ o σ'`: big-step, `σ : Ident → Option Site` (which binding site a name currently holds), outcome
   `normal | brk | cont | ret | exc | stop r`.  `stop r` is the observation device: an execution may stop at the
   evaluation of read `r` (nothing runs afterwards, not even `finally` blocks), so
   `Reach s σ r σr := Exec s σ (stop r) σr` is "some execution from σ evaluates read r in state σr".
   Tests, trip counts, raise points and handler matches are oracle decisions (nondeterministic rules).
   `run` is the same semantics as an executable function of an explicit decision list (the driver runs it
   against CPython's trace). -/
import SuppModel.Den.Model
namespace SuppModel.Den

abbrev State := Ident → Option Site
def State.upd (σ : State) (x : Ident) (d : Site) : State := fun y => if y = x then some d else σ y
def State.del (σ : State) (x : Ident) : State := fun y => if y = x then none else σ y
def State.init : State := fun _ => none

inductive Outcome where
  | normal | brk | cont | ret | exc
  | stop (r : RId)
  deriving DecidableEq, Repr

/-- the name an except clause binds (deleted again when the handler is left) -/
def exName : Stmt → Option Ident
  | .bind x _ => some x
  | .gbind x _ => some x
  | _ => none

def delEx (nm : Stmt) (σ : State) : State :=
  match exName nm with
  | some x => σ.del x
  | none => σ

/-- comprehension variables (the targets of the generator chain) -/
def compTargets : Stmt → List Ident
  | .cfor tg _ inner => bindsOf tg ++ compTargets inner
  | .seq _ t => compTargets t
  | _ => []

def State.hide (tgs : List Ident) (σ : State) : State := fun y => if y ∈ tgs then none else σ y
def State.restore (tgs : List Ident) (saved σ : State) : State := fun y => if y ∈ tgs then saved y else σ y

/-- the body of a comprehension: events (reads, target bindings) and generator levels.  A level makes zero or more
    iterations: targets, conditions, then (condition true) the inner part.  Outcomes: `normal` or the observation stop. -/
inductive Chain : Stmt → State → Outcome → State → Prop
  | skip : Chain .skip σ .normal σ
  | bind : Chain (.bind x d) σ .normal (σ.upd x d)
  | read : Chain (.read x r) σ .normal σ
  | readStop : Chain (.read x r) σ (.stop r) σ
  | seqN : Chain s σ .normal σ1 → Chain t σ1 o σ2 → Chain (.seq s t) σ o σ2
  | seqS : Chain s σ (.stop r) σ1 → Chain (.seq s t) σ (.stop r) σ1
  | done : Chain (.cfor tg ifs inner) σ .normal σ
  | iterSkip : Chain tg σ .normal σ1 → Chain ifs σ1 .normal σ2 → Chain (.cfor tg ifs inner) σ2 o σ3 →
      Chain (.cfor tg ifs inner) σ o σ3
  | iter : Chain tg σ .normal σ1 → Chain ifs σ1 .normal σ2 → Chain inner σ2 .normal σ3 →
      Chain (.cfor tg ifs inner) σ3 o σ4 → Chain (.cfor tg ifs inner) σ o σ4
  | iterS1 : Chain tg σ .normal σ1 → Chain ifs σ1 (.stop r) σ2 → Chain (.cfor tg ifs inner) σ (.stop r) σ2
  | iterS2 : Chain tg σ .normal σ1 → Chain ifs σ1 .normal σ2 → Chain inner σ2 (.stop r) σ3 →
      Chain (.cfor tg ifs inner) σ (.stop r) σ3

inductive Exec : Stmt → State → Outcome → State → Prop
  | skip : Exec .skip σ .normal σ
  | bind : Exec (.bind x d) σ .normal (σ.upd x d)
  | gbind : Exec (.gbind x d) σ .normal (σ.upd x d)
  | read : Exec (.read x r) σ .normal σ
  | readStop : Exec (.read x r) σ (.stop r) σ
  | seqN : Exec s σ .normal σ1 → Exec t σ1 o σ2 → Exec (.seq s t) σ o σ2
  | seqA : Exec s σ o σ1 → o ≠ .normal → Exec (.seq s t) σ o σ1
  -- if: test events, then one branch
  | iteT : Exec c σ .normal σ1 → Exec a σ1 o σ2 → Exec (.ite c a b) σ o σ2
  | iteF : Exec c σ .normal σ1 → Exec b σ1 o σ2 → Exec (.ite c a b) σ o σ2
  | iteS : Exec c σ (.stop r) σ1 → Exec (.ite c a b) σ (.stop r) σ1
  -- while: the test is evaluated before every iteration and once more on exit
  | whileExit : Exec c σ .normal σ1 → Exec e σ1 o σ2 → Exec (.while_ c b e) σ o σ2
  | whileStep : Exec c σ .normal σ1 → Exec b σ1 ob σ2 → (ob = .normal ∨ ob = .cont) →
      Exec (.while_ c b e) σ2 o σ3 → Exec (.while_ c b e) σ o σ3
  | whileBrk : Exec c σ .normal σ1 → Exec b σ1 .brk σ2 → Exec (.while_ c b e) σ .normal σ2
  | whileAbort : Exec c σ .normal σ1 → Exec b σ1 ob σ2 → (ob = .ret ∨ ob = .exc ∨ ∃ r, ob = .stop r) →
      Exec (.while_ c b e) σ ob σ2
  | whileS : Exec c σ (.stop r) σ1 → Exec (.while_ c b e) σ (.stop r) σ1
  -- for: the iterable once, then "has next?" is the (event-free) test and the targets are bound at the start of
  -- every iteration
  | for_ : Exec (.seq it (.while_ .skip (.seq tg b) e)) σ o σ' → Exec (.for_ it tg b e) σ o σ'
  -- try/except/else
  | tryN : Exec b σ .normal σ1 → Exec e σ1 o σ2 → Exec (.tryx r1 r2 b hs e) σ o σ2
  | tryX : Exec b σ .exc σ1 → Exec hs σ1 o σ2 → Exec (.tryx r1 r2 b hs e) σ o σ2
  | tryX1 : Exec hs σ o σ2 → Exec (.tryx true r2 b hs e) σ o σ2
  | tryX2 : Exec b σ .normal σ1 → Exec hs σ1 o σ2 → Exec (.tryx r1 true b hs e) σ o σ2
  | tryJ : Exec b σ o σ1 → o ≠ .normal → o ≠ .exc → Exec (.tryx r1 r2 b hs e) σ o σ1
  -- handler dispatch (runs in the state in which the exception was raised); the type expressions of the clauses
  -- before the matching one are evaluated too; the last clause catches everything; type expressions do not bind
  | hMatch : Exec ty σ .normal σ → Exec nm σ .normal σ2 → Exec hb σ2 o σ3 →
      Exec (.hcons ty nm hb rest) σ o (delEx nm σ3)
  | hSkip : rest ≠ .hnil → Exec ty σ .normal σ → Exec rest σ o σ2 → Exec (.hcons ty nm hb rest) σ o σ2
  | hS : Exec ty σ (.stop r) σ1 → Exec (.hcons ty nm hb rest) σ (.stop r) σ1
  -- try/finally: the finally block runs on every outcome except the observation stop
  | finN : Exec s σ o σ1 → (∀ r, o ≠ .stop r) → Exec f σ1 .normal σ2 → Exec (.fin s f) σ o σ2
  | finA : Exec s σ o σ1 → (∀ r, o ≠ .stop r) → Exec f σ1 o' σ2 → o' ≠ .normal → Exec (.fin s f) σ o' σ2
  | finS : Exec s σ (.stop r) σ1 → Exec (.fin s f) σ (.stop r) σ1
  -- definitions: pre events (decorators, defaults, bases), then the name; a function body runs at call time
  -- (its own activation: a separate program), a class body right away in its own namespace
  | def_ : Exec pre σ .normal σ1 → Exec (.def_ pre f d ps body) σ .normal (σ1.upd f d)
  | defS : Exec pre σ (.stop r) σ1 → Exec (.def_ pre f d ps body) σ (.stop r) σ1
  | lam : Exec pre σ .normal σ1 → Exec (.lam pre ps body) σ .normal σ1
  | lamS : Exec pre σ (.stop r) σ1 → Exec (.lam pre ps body) σ (.stop r) σ1
  | clsN : Exec pre σ .normal σ1 → Exec body σ1 .normal σ2 → Exec (.cls pre c d body) σ .normal (σ1.upd c d)
  | clsX : Exec pre σ .normal σ1 → Exec body σ1 .exc σ2 → Exec (.cls pre c d body) σ .exc σ1
  | clsS : Exec pre σ (.stop r) σ1 → Exec (.cls pre c d body) σ (.stop r) σ1
  -- comprehension: the first iterable outside, the generator chain with the comprehension variables hidden on entry
  -- and restored afterwards (Python 3: they are local to the comprehension)
  | compN : Exec it σ .normal σ1 → Chain g (State.hide (compTargets g) σ1) .normal σ2 →
      Exec (.comp it g) σ .normal (State.restore (compTargets g) σ1 σ2)
  | compS1 : Exec it σ (.stop r) σ1 → Exec (.comp it g) σ (.stop r) σ1
  | compS2 : Exec it σ .normal σ1 → Chain g (State.hide (compTargets g) σ1) (.stop r) σ2 →
      Exec (.comp it g) σ (.stop r) σ2
  -- raise points and jumps
  | mayraiseN : Exec (.mayraise k) σ .normal σ
  | mayraiseX : Exec (.mayraise k) σ .exc σ
  | brk : Exec .brk σ .brk σ
  | cont : Exec .cont σ .cont σ
  | ret : Exec .ret σ .ret σ
  | raise_ : Exec .raise_ σ .exc σ

/-- some execution of `s` from `σ` evaluates read `r` in state `σr` -/
def Reach (s : Stmt) (σ : State) (r : RId) (σr : State) : Prop := Exec s σ (.stop r) σr

/-! ## fragments (decidable) -/

/-- events of a test / iterable / type expression / pre list: reads and binds only -/
def isEvents : Stmt → Bool
  | .skip => true | .bind _ _ => true | .read _ _ => true
  | .seq s t => isEvents s && isEvents t
  | _ => false

def isReads : Stmt → Bool
  | .skip => true | .read _ _ => true
  | .seq s t => isReads s && isReads t
  | _ => false

def isBinds : Stmt → Bool
  | .skip => true | .bind _ _ => true
  | .seq s t => isBinds s && isBinds t
  | _ => false

/-- generator chain of a comprehension in the fragment: targets are bindings, iterables / conditions / element are
    reads (no walrus) -/
def chainFrag : Stmt → Bool
  | .cfor tg ifs inner => isBinds tg && isReads ifs && chainFrag inner
  | .seq s t => isReads s && chainFrag t
  | .skip => true
  | .read _ _ => true
  | _ => false

def readIds (s : Stmt) : List RId := (readsOf s).map (·.1)

/-- read `r` lies, inside a comprehension, before a deeper generator level that binds `x`: on a later iteration it
    finds the value that level left behind (in real Python the first evaluation raises UnboundLocalError); supp looks
    `x` up outside the comprehension -/
def lateChain : Stmt → RId → Ident → Bool
  | .cfor _ ifs inner, r, x => (decide (r ∈ readIds ifs) && decide (x ∈ compTargets inner)) || lateChain inner r x
  | .seq s t, r, x => (decide (r ∈ readIds s) && decide (x ∈ compTargets t)) || lateChain t r x
  | _, _, _ => false

def lateRead : Stmt → RId → Ident → Bool
  | .seq s t, r, x => lateRead s r x || lateRead t r x
  | .ite c a b, r, x => lateRead c r x || lateRead a r x || lateRead b r x
  | .while_ c b e, r, x => lateRead c r x || lateRead b r x || lateRead e r x
  | .for_ it tg b e, r, x => lateRead it r x || lateRead tg r x || lateRead b r x || lateRead e r x
  | .tryx _ _ b hs e, r, x => lateRead b r x || lateRead hs r x || lateRead e r x
  | .hcons ty nm hb rest, r, x => lateRead ty r x || lateRead nm r x || lateRead hb r x || lateRead rest r x
  | .fin s f, r, x => lateRead s r x || lateRead f r x
  | .comp it g, r, x => lateRead it r x || lateChain g r x
  | .def_ pre _ _ _ _, r, x => lateRead pre r x
  | .lam pre _ _, r, x => lateRead pre r x
  | .cls pre _ _ _, r, x => lateRead pre r x
  | _, _, _ => false

def isName : Stmt → Bool
  | .skip => true | .bind _ _ => true
  | _ => false

def isHcons : Stmt → Bool
  | .hcons _ _ _ _ => true
  | _ => false

/-- C02 fragment: structured control flow only.  No jumps, raise points only as the first / last statement of a
    try body (the flags of `tryx`) and always caught, no `global` bindings; comprehensions with read-only
    iterables / conditions / element (C02 only).
    `strict`: C03's additional requirement that a try body may raise both at its start and at its end (every
    syntactic path into a handler is an execution). -/
def inFrag (strict : Bool) : Stmt → Bool
  | .skip => true | .bind _ _ => true | .read _ _ => true
  | .gbind _ _ => false
  | .seq s t => inFrag strict s && inFrag strict t
  | .ite c a b => isEvents c && inFrag strict a && inFrag strict b
  | .while_ c b e => isEvents c && inFrag strict b && inFrag strict e
  | .for_ it tg b e => isReads it && isBinds tg && inFrag strict b && inFrag strict e
  | .tryx r1 r2 b hs e => (!strict || (r1 && r2)) && inFrag strict b && isHcons hs && inHs strict hs && inFrag strict e
  | .hnil => false
  | .hcons _ _ _ _ => false
  | .fin s f => inFrag strict s && inFrag strict f
  | .comp it g => !strict && isReads it && chainFrag g
  | .cfor _ _ _ => false
  | .def_ pre _ _ _ _ => isReads pre
  | .lam pre _ _ => isReads pre
  | .cls pre _ _ body => isReads pre && inFrag strict body
  | .mayraise _ => false | .brk => false | .cont => false | .ret => false | .raise_ => false
where
  /-- a handler chain -/
  inHs (strict : Bool) : Stmt → Bool
  | .hnil => true
  | .hcons ty nm hb rest => isReads ty && isName nm && inFrag strict hb && inHs strict rest
  | _ => false

def inC02 (s : Stmt) : Bool := inFrag false s
def inC03 (s : Stmt) : Bool := inFrag true s

/-- names bound by except clauses of this scope body (unbound again when the handler is left) -/
def exNames : Stmt → List Ident
  | .seq s t => exNames s ++ exNames t
  | .ite c a b => exNames c ++ exNames a ++ exNames b
  | .while_ c b e => exNames c ++ exNames b ++ exNames e
  | .for_ it tg b e => exNames it ++ exNames tg ++ exNames b ++ exNames e
  | .tryx _ _ b hs e => exNames b ++ exNames hs ++ exNames e
  | .hcons ty nm hb rest => exNames ty ++ bindsOf nm ++ exNames hb ++ exNames rest
  | .fin s f => exNames s ++ exNames f
  | .def_ pre _ _ _ _ => exNames pre
  | .lam pre _ _ => exNames pre
  | .cls pre _ _ body => exNames pre ++ exNames body
  | _ => []

/-! ## executable semantics: decisions are consumed in evaluation order, every loop makes at most `trips`
    iterations per activation (then the test is false without consuming a decision) -/

structure RunSt where
  σ : State
  ds : List Bool
  tr : List (RId × Option Site)   -- reversed trace

def RunSt.pop (st : RunSt) : Bool × RunSt :=
  match st.ds with
  | [] => (false, st)
  | b :: rest => (b, { st with ds := rest })

def trips : Nat := 2

/-- `fuel` bounds the recursion depth (statement nesting + loop iterations); programs are far below it -/
def run : Nat → Stmt → RunSt → Outcome × RunSt
  | 0, _, st => (.exc, st)
  | n + 1, s, st =>
    match s with
    | .skip => (.normal, st)
    | .bind x d => (.normal, { st with σ := st.σ.upd x d })
    | .gbind x d => (.normal, { st with σ := st.σ.upd x d })
    | .read x r => (.normal, { st with tr := (r, st.σ x) :: st.tr })
    | .seq a b =>
        match run n a st with
        | (.normal, st1) => run n b st1
        | res => res
    | .ite c a b =>
        match run n c st with
        | (.normal, st1) => let (d, st2) := st1.pop; if d then run n a st2 else run n b st2
        | res => res
    | .while_ c b e => loop n c b e 0 st
    | .for_ it tg b e =>
        match run n it st with
        | (.normal, st1) => loop n .skip (.seq tg b) e 0 st1
        | res => res
    | .tryx r1 r2 b hs e =>
        let (d1, st0) := if r1 then st.pop else (false, st)
        if d1 then run n hs st0 else
        match run n b st0 with
        | (.normal, st1) =>
            let (d2, st2) := if r2 then st1.pop else (false, st1)
            if d2 then run n hs st2 else run n e st2
        | (.exc, st1) => run n hs st1
        | res => res
    | .hnil => (.exc, st)
    | .hcons ty nm hb rest =>
        match run n ty st with
        | (.normal, st1) =>
            let (d, st2) := match rest with
              | .hnil => (true, st1)
              | _ => st1.pop
            if d then
              match run n nm st2 with
              | (.normal, st3) =>
                  let (o, st4) := run n hb st3
                  (o, { st4 with σ := delEx nm st4.σ })
              | res => res
            else run n rest st2
        | res => res
    | .fin a f =>
        let (o, st1) := run n a st
        match run n f st1 with
        | (.normal, st2) => (o, st2)
        | res => res
    | .comp it g =>
        match run n it st with
        | (.normal, st1) =>
            let saved := st1.σ
            let tgs := compTargets g
            let σ0 : State := fun y => if y ∈ tgs then none else saved y
            let (o, st2) := run n g { st1 with σ := σ0 }
            (o, { st2 with σ := fun y => if y ∈ tgs then saved y else st2.σ y })
        | res => res
    | .cfor tg ifs inner => cloop n tg ifs inner 0 st
    | .def_ pre f d _ _ =>
        match run n pre st with
        | (.normal, st1) => (.normal, { st1 with σ := st1.σ.upd f d })
        | res => res
    | .lam pre _ _ => run n pre st
    | .cls pre c d _ =>
        match run n pre st with
        | (.normal, st1) => (.normal, { st1 with σ := st1.σ.upd c d })
        | res => res
    | .mayraise _ => let (d, st1) := st.pop; if d then (.exc, st1) else (.normal, st1)
    | .brk => (.brk, st)
    | .cont => (.cont, st)
    | .ret => (.ret, st)
    | .raise_ => (.exc, st)
where
  loop : Nat → Stmt → Stmt → Stmt → Nat → RunSt → Outcome × RunSt
    | 0, _, _, _, _, st => (.exc, st)
    | n + 1, c, b, e, k, st =>
      match run n c st with
      | (.normal, st1) =>
          let (d, st2) := if k < trips then st1.pop else (false, st1)
          if d then
            match run n b st2 with
            | (.normal, st3) => loop n c b e (k + 1) st3
            | (.cont, st3) => loop n c b e (k + 1) st3
            | (.brk, st3) => (.normal, st3)
            | res => res
          else run n e st2
      | res => res
  cloop : Nat → Stmt → Stmt → Stmt → Nat → RunSt → Outcome × RunSt
    | 0, _, _, _, _, st => (.exc, st)
    | n + 1, tg, ifs, inner, k, st =>
      let (d, st1) := if k < trips then st.pop else (false, st)
      if d then
        match run n tg st1 with
        | (.normal, st2) =>
            match run n ifs st2 with
            | (.normal, st3) =>
                let (d2, st4) := match ifs with
                  | .skip => (true, st3)
                  | _ => st3.pop
                if d2 then
                  match run n inner st4 with
                  | (.normal, st5) => cloop n tg ifs inner (k + 1) st5
                  | res => res
                else cloop n tg ifs inner (k + 1) st4
            | res => res
        | res => res
      else (.normal, st1)

/-- constructs `run` treats by their own-scope effect only (bodies of nested scopes are not executed) -/
def inSem : Stmt → Bool
  | .seq s t => inSem s && inSem t
  | .ite c a b => inSem c && inSem a && inSem b
  | .while_ c b e => inSem c && inSem b && inSem e
  | .for_ it tg b e => inSem it && inSem tg && inSem b && inSem e
  | .tryx _ _ b hs e => inSem b && inSem hs && inSem e
  | .hcons ty nm hb rest => inSem ty && inSem nm && inSem hb && inSem rest
  | .fin s f => inSem s && inSem f
  | .comp it g => inSem it && inSem g
  | .cfor tg ifs inner => inSem tg && inSem ifs && inSem inner
  | .def_ _ _ _ _ _ => false
  | .lam _ _ _ => false
  | .cls _ _ _ _ => false
  | .gbind _ _ => false
  | _ => true

def runProg (prog : Stmt) (ds : List Bool) : Outcome × List (RId × Option Site) :=
  let (o, st) := run 400 prog { σ := State.init, ds := ds, tr := [] }
  (o, st.tr.reverse)

end SuppModel.Den
