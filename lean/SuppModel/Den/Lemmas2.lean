/- C02: every execution of the fragment is covered by supp's tables (induction on the execution). -/
import SuppModel.Den.Lemmas
namespace SuppModel.Den

/-- per name: the site `x` holds after a normal run of `s` is produced by `s` or passes through it -/
def Step (s : Stmt) (x : Ident) (σ σ' : State) : Prop :=
  ∀ d, σ' x = some d → gen s x (some d) ∨ (pass s x ∧ σ x = some d)

def StepAt (s : Stmt) (r : RId) (x : Ident) (σ σ' : State) : Prop :=
  ∀ d, σ' x = some d → genAt s r x (some d) ∨ (passAt s r x ∧ σ x = some d)

/-- outcome and state of a fragment execution -/
def Good (s : Stmt) (x : Ident) (σ : State) (o : Outcome) (σ' : State) : Prop :=
  (o = .normal ∧ Step s x σ σ') ∨ (∃ r, o = .stop r ∧ StepAt s r x σ σ')

theorem isReads_isEvents : ∀ s, isReads s = true → isEvents s = true
  | .skip, _ => rfl
  | .read _ _, _ => rfl
  | .seq s t, h => by
      simp only [isReads, Bool.and_eq_true] at h
      simp [isEvents, isReads_isEvents s h.1, isReads_isEvents t h.2]
  | .bind _ _, h => by simp [isReads] at h
  | .gbind _ _, h => by simp [isReads] at h
  | .ite _ _ _, h => by simp [isReads] at h
  | .while_ _ _ _, h => by simp [isReads] at h
  | .for_ _ _ _ _, h => by simp [isReads] at h
  | .tryx _ _ _ _ _, h => by simp [isReads] at h
  | .hnil, h => by simp [isReads] at h
  | .hcons _ _ _ _, h => by simp [isReads] at h
  | .fin _ _, h => by simp [isReads] at h
  | .comp _ _, h => by simp [isReads] at h
  | .cfor _ _ _, h => by simp [isReads] at h
  | .def_ _ _ _ _ _, h => by simp [isReads] at h
  | .lam _ _ _, h => by simp [isReads] at h
  | .cls _ _ _ _, h => by simp [isReads] at h
  | .mayraise _, h => by simp [isReads] at h
  | .brk, h => by simp [isReads] at h
  | .cont, h => by simp [isReads] at h
  | .ret, h => by simp [isReads] at h
  | .raise_, h => by simp [isReads] at h

theorem isEvents_inFrag (st : Bool) : ∀ s, isEvents s = true → inFrag st s = true
  | .skip, _ => rfl
  | .read _ _, _ => rfl
  | .bind _ _, _ => rfl
  | .seq s t, h => by
      simp only [isEvents, Bool.and_eq_true] at h
      simp [inFrag, isEvents_inFrag st s h.1, isEvents_inFrag st t h.2]
  | .gbind _ _, h => by simp [isEvents] at h
  | .ite _ _ _, h => by simp [isEvents] at h
  | .while_ _ _ _, h => by simp [isEvents] at h
  | .for_ _ _ _ _, h => by simp [isEvents] at h
  | .tryx _ _ _ _ _, h => by simp [isEvents] at h
  | .hnil, h => by simp [isEvents] at h
  | .hcons _ _ _ _, h => by simp [isEvents] at h
  | .fin _ _, h => by simp [isEvents] at h
  | .comp _ _, h => by simp [isEvents] at h
  | .cfor _ _ _, h => by simp [isEvents] at h
  | .def_ _ _ _ _ _, h => by simp [isEvents] at h
  | .lam _ _ _, h => by simp [isEvents] at h
  | .cls _ _ _ _, h => by simp [isEvents] at h
  | .mayraise _, h => by simp [isEvents] at h
  | .brk, h => by simp [isEvents] at h
  | .cont, h => by simp [isEvents] at h
  | .ret, h => by simp [isEvents] at h
  | .raise_, h => by simp [isEvents] at h

theorem isBinds_isEvents (s : Stmt) (h : isBinds s = true) : isEvents s = true := by
  induction s <;> simp_all [isBinds, isEvents]

theorem isBinds_noReads (s : Stmt) (h : isBinds s = true) (r : RId) (x : Ident) (v : Option Site) :
    ¬ passAt s r x ∧ ¬ genAt s r x v := by
  induction s <;> simp_all [isBinds, passAt, genAt]

theorem isReads_pass (s : Stmt) (h : isReads s = true) (x : Ident) (v : Option Site) :
    pass s x ∧ ¬ gen s x v := by
  induction s <;> simp_all [isReads, pass, gen]

theorem isName_inFrag (st : Bool) (s : Stmt) (h : isName s = true) : inFrag st s = true := by
  cases s <;> simp_all [isName, inFrag]

theorem exec_good (st : Bool) (x : Ident) (h : Exec s σ o σ') :
    (inFrag st s = true → Good s x σ o σ') ∧ (inFrag.inHs st s = true → Good s x σ o σ') := by
  induction h with
  | skip => simp [Good, Step, gen, pass, inFrag.inHs]
  | @bind x' d σ =>
      refine ⟨fun _ => .inl ⟨rfl, ?_⟩, by simp [inFrag.inHs]⟩
      intro d' hd; by_cases e : x = x' <;> simp_all [State.upd, gen, pass]
  | gbind => simp [inFrag, inFrag.inHs]
  | read => simp [Good, Step, gen, pass, inFrag.inHs]
  | readStop => simp [Good, StepAt, genAt, passAt, inFrag.inHs]
  | seqN _ _ ih1 ih2 =>
      refine ⟨fun hf => ?_, by simp [inFrag.inHs]⟩
      simp only [inFrag, Bool.and_eq_true] at hf
      have g1 := ih1.1 hf.1; have g2 := ih2.1 hf.2
      simp only [Good, Step, StepAt, gen, pass, genAt, passAt] at *
      grind
  | seqA _ hne ih1 =>
      refine ⟨fun hf => ?_, by simp [inFrag.inHs]⟩
      simp only [inFrag, Bool.and_eq_true] at hf
      have g1 := ih1.1 hf.1
      simp only [Good, Step, StepAt, gen, pass, genAt, passAt] at *
      grind
  | iteT _ _ ihc iha =>
      refine ⟨fun hf => ?_, by simp [inFrag.inHs]⟩
      simp only [inFrag, Bool.and_eq_true] at hf
      have gc := ihc.1 (isEvents_inFrag st _ hf.1.1); have ga := iha.1 hf.1.2
      simp only [Good, Step, StepAt, gen, pass, genAt, passAt] at *
      grind
  | iteF _ _ ihc ihb =>
      refine ⟨fun hf => ?_, by simp [inFrag.inHs]⟩
      simp only [inFrag, Bool.and_eq_true] at hf
      have gc := ihc.1 (isEvents_inFrag st _ hf.1.1); have gb := ihb.1 hf.2
      simp only [Good, Step, StepAt, gen, pass, genAt, passAt] at *
      grind
  | iteS _ ihc =>
      refine ⟨fun hf => ?_, by simp [inFrag.inHs]⟩
      simp only [inFrag, Bool.and_eq_true] at hf
      have gc := ihc.1 (isEvents_inFrag st _ hf.1.1)
      simp only [Good, Step, StepAt, gen, pass, genAt, passAt] at *
      grind
  | whileExit _ _ ihc ihe =>
      refine ⟨fun hf => ?_, by simp [inFrag.inHs]⟩
      simp only [inFrag, Bool.and_eq_true] at hf
      have gc := ihc.1 (isEvents_inFrag st _ hf.1.1); have ge := ihe.1 hf.2
      simp only [Good, Step, StepAt, gen, pass, genAt, passAt] at *
      grind
  | whileStep _ _ hob _ ihc ihb ihw =>
      refine ⟨fun hf => ?_, by simp [inFrag.inHs]⟩
      have gw := ihw.1 hf
      simp only [inFrag, Bool.and_eq_true] at hf
      have gc := ihc.1 (isEvents_inFrag st _ hf.1.1); have gb := ihb.1 hf.1.2
      simp only [Good, Step, StepAt, gen, pass, genAt, passAt] at *
      grind
  | whileBrk _ _ ihc ihb =>
      refine ⟨fun hf => ?_, by simp [inFrag.inHs]⟩
      simp only [inFrag, Bool.and_eq_true] at hf
      have gb := ihb.1 hf.1.2
      simp [Good] at gb
  | whileAbort _ _ hob ihc ihb =>
      refine ⟨fun hf => ?_, by simp [inFrag.inHs]⟩
      simp only [inFrag, Bool.and_eq_true] at hf
      have gc := ihc.1 (isEvents_inFrag st _ hf.1.1); have gb := ihb.1 hf.1.2
      simp only [Good, Step, StepAt, gen, pass, genAt, passAt] at *
      grind
  | whileS _ ihc =>
      refine ⟨fun hf => ?_, by simp [inFrag.inHs]⟩
      simp only [inFrag, Bool.and_eq_true] at hf
      have gc := ihc.1 (isEvents_inFrag st _ hf.1.1)
      simp only [Good, Step, StepAt, gen, pass, genAt, passAt] at *
      grind
  | @for_ it tg b e σ o σ' _ ih =>
      refine ⟨fun hf => ?_, by simp [inFrag.inHs]⟩
      simp only [inFrag, Bool.and_eq_true] at hf
      have hd : inFrag st (.seq it (.while_ .skip (.seq tg b) e)) = true := by
        simp [inFrag, isEvents, isEvents_inFrag st it (isReads_isEvents it hf.1.1.1), isEvents_inFrag st tg (isBinds_isEvents tg hf.1.1.2), hf.1.2, hf.2]
      have g := ih.1 hd
      have nr1 : ∀ r, passAt tg r x = False := fun r => eq_false (isBinds_noReads tg hf.1.1.2 r x none).1
      have nr2 : ∀ r v, genAt tg r x v = False := fun r v => eq_false (isBinds_noReads tg hf.1.1.2 r x v).2
      simp only [Good, Step, StepAt, gen, pass, genAt, passAt, nr1, nr2] at g ⊢
      grind
  | tryN _ _ ihb ihe =>
      refine ⟨fun hf => ?_, by simp [inFrag.inHs]⟩
      simp only [inFrag, Bool.and_eq_true] at hf
      have gb := ihb.1 hf.1.1.1.2; have ge := ihe.1 hf.2
      simp only [Good, Step, StepAt, gen, pass, genAt, passAt] at *
      grind
  | tryX _ _ ihb ihh =>
      refine ⟨fun hf => ?_, by simp [inFrag.inHs]⟩
      simp only [inFrag, Bool.and_eq_true] at hf
      have gb := ihb.1 hf.1.1.1.2
      simp [Good] at gb
  | tryX1 _ ihh =>
      refine ⟨fun hf => ?_, by simp [inFrag.inHs]⟩
      simp only [inFrag, Bool.and_eq_true] at hf
      have gh := ihh.2 hf.1.2
      simp only [Good, Step, StepAt, gen, pass, genAt, passAt] at *
      grind
  | tryX2 _ _ ihb ihh =>
      refine ⟨fun hf => ?_, by simp [inFrag.inHs]⟩
      simp only [inFrag, Bool.and_eq_true] at hf
      have gb := ihb.1 hf.1.1.1.2; have gh := ihh.2 hf.1.2
      simp only [Good, Step, StepAt, gen, pass, genAt, passAt] at *
      grind
  | tryJ _ hn hx ihb =>
      refine ⟨fun hf => ?_, by simp [inFrag.inHs]⟩
      simp only [inFrag, Bool.and_eq_true] at hf
      have gb := ihb.1 hf.1.1.1.2
      simp only [Good, Step, StepAt, gen, pass, genAt, passAt] at *
      grind
  | @hMatch ty σ nm σ2 hb o σ3 rest _ _ _ ihty ihnm ihhb =>
      refine ⟨by simp [inFrag], fun hh => ?_⟩
      simp only [inFrag.inHs, Bool.and_eq_true] at hh
      have gn := ihnm.1 (isName_inFrag st _ hh.1.1.2); have gb := ihhb.1 hh.1.2
      have pty := fun v => isReads_pass ty hh.1.1.1 x v
      have hdel : ∀ d, (delEx nm σ3) x = some d → σ3 x = some d := by
        intro d; unfold delEx; cases exName nm <;> simp [State.del]
      clear ihty ihnm ihhb
      have gn' : ∀ d, σ2 x = some d → gen nm x (some d) ∨ (pass nm x ∧ σ x = some d) := by
        rcases gn with ⟨_, h⟩ | ⟨r, h, _⟩
        · exact h
        · cases h
      clear gn
      rcases gb with ⟨ho, hs⟩ | ⟨r, ho, hs⟩
      · refine .inl ⟨ho, fun d hd => ?_⟩
        have h3 := hs d (hdel d hd)
        have g2 := gn' d; have p := pty (some d)
        simp only [gen, pass]
        rcases h3 with h3 | ⟨h3, h4⟩
        · exact .inl (.inl h3)
        · rcases g2 h4 with g2 | ⟨g2, g3⟩
          · exact .inl (.inr (.inl ⟨h3, .inl g2⟩))
          · exact .inr ⟨.inl ⟨p.1, g2, h3⟩, g3⟩
      · refine .inr ⟨r, ho, fun d hd => ?_⟩
        have h3 := hs d (hdel d hd)
        have g2 := gn' d; have p := pty (some d)
        simp only [genAt, passAt]
        rcases h3 with h3 | ⟨h3, h4⟩
        · exact .inl (.inr (.inl h3))
        · rcases g2 h4 with g2 | ⟨g2, g3⟩
          · exact .inl (.inr (.inr (.inl ⟨h3, .inl g2⟩)))
          · exact .inr ⟨.inr (.inl ⟨h3, g2, p.1⟩), g3⟩
  | hSkip _ _ _ ihty ihr =>
      refine ⟨by simp [inFrag], fun hh => ?_⟩
      simp only [inFrag.inHs, Bool.and_eq_true] at hh
      have gr := ihr.2 hh.2
      simp only [Good, Step, StepAt, gen, pass, genAt, passAt] at *
      grind
  | hS _ ihty =>
      refine ⟨by simp [inFrag], fun hh => ?_⟩
      simp only [inFrag.inHs, Bool.and_eq_true] at hh
      have gt := ihty.1 (isEvents_inFrag st _ (isReads_isEvents _ hh.1.1.1))
      simp only [Good, Step, StepAt, gen, pass, genAt, passAt] at *
      grind
  | finN _ hns _ ihs ihf =>
      refine ⟨fun hf => ?_, by simp [inFrag.inHs]⟩
      simp only [inFrag, Bool.and_eq_true] at hf
      have gs := ihs.1 hf.1; have gf := ihf.1 hf.2
      simp only [Good, Step, StepAt, gen, pass, genAt, passAt] at *
      grind
  | finA _ hns _ hne ihs ihf =>
      refine ⟨fun hf => ?_, by simp [inFrag.inHs]⟩
      simp only [inFrag, Bool.and_eq_true] at hf
      have gs := ihs.1 hf.1; have gf := ihf.1 hf.2
      simp only [Good, Step, StepAt, gen, pass, genAt, passAt] at *
      grind
  | finS _ ihs =>
      refine ⟨fun hf => ?_, by simp [inFrag.inHs]⟩
      simp only [inFrag, Bool.and_eq_true] at hf
      have gs := ihs.1 hf.1
      simp only [Good, Step, StepAt, gen, pass, genAt, passAt] at *
      grind
  | @def_ pre σ σ1 f d ps body _ ihp =>
      refine ⟨fun hf => ?_, by simp [inFrag.inHs]⟩
      simp only [inFrag] at hf
      have gp := ihp.1 (isEvents_inFrag st _ (isReads_isEvents _ hf))
      simp only [Good, Step, StepAt, gen, pass, genAt, passAt, State.upd] at *
      by_cases e : x = f <;> simp_all
  | defS _ ihp =>
      refine ⟨fun hf => ?_, by simp [inFrag.inHs]⟩
      simp only [inFrag] at hf
      have gp := ihp.1 (isEvents_inFrag st _ (isReads_isEvents _ hf))
      simp only [Good, Step, StepAt, gen, pass, genAt, passAt] at *
      grind
  | lam _ ihp =>
      refine ⟨fun hf => ?_, by simp [inFrag.inHs]⟩
      simp only [inFrag] at hf
      have gp := ihp.1 (isEvents_inFrag st _ (isReads_isEvents _ hf))
      simp only [Good, Step, StepAt, gen, pass, genAt, passAt] at *
      grind
  | lamS _ ihp =>
      refine ⟨fun hf => ?_, by simp [inFrag.inHs]⟩
      simp only [inFrag] at hf
      have gp := ihp.1 (isEvents_inFrag st _ (isReads_isEvents _ hf))
      simp only [Good, Step, StepAt, gen, pass, genAt, passAt] at *
      grind
  | @clsN pre σ σ1 body σ2 c d _ _ ihp ihb =>
      refine ⟨fun hf => ?_, by simp [inFrag.inHs]⟩
      simp only [inFrag, Bool.and_eq_true] at hf
      have gp := ihp.1 (isEvents_inFrag st _ (isReads_isEvents _ hf.1))
      simp only [Good, Step, StepAt, gen, pass, genAt, passAt, State.upd] at *
      by_cases e : x = c <;> simp_all
  | clsX _ _ ihp ihb =>
      refine ⟨fun hf => ?_, by simp [inFrag.inHs]⟩
      simp only [inFrag, Bool.and_eq_true] at hf
      have gb := ihb.1 hf.2
      simp [Good] at gb
  | clsS _ ihp =>
      refine ⟨fun hf => ?_, by simp [inFrag.inHs]⟩
      simp only [inFrag, Bool.and_eq_true] at hf
      have gp := ihp.1 (isEvents_inFrag st _ (isReads_isEvents _ hf.1))
      simp only [Good, Step, StepAt, gen, pass, genAt, passAt] at *
      grind
  | mayraiseN => simp [inFrag, inFrag.inHs]
  | mayraiseX => simp [inFrag, inFrag.inHs]
  | brk => simp [inFrag, inFrag.inHs]
  | cont => simp [inFrag, inFrag.inHs]
  | ret => simp [inFrag, inFrag.inHs]
  | raise_ => simp [inFrag, inFrag.inHs]
end SuppModel.Den
