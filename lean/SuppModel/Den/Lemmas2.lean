/- C02: every execution of the fragment is covered by supp's tables (induction on the execution). -/
import SuppModel.Den.Lemmas
namespace SuppModel.Den

/-- per name: what `x` holds after a normal run of `s` is produced by `s` or passes through it.
    `sm = true`: stated for bindings only (`v ≠ none`); `sm = false`: also for "unbound" -/
def Step (sm : Bool) (s : Stmt) (x : Ident) (σ σ' : State) : Prop :=
  ∀ v, (sm = true → v ≠ none) → σ' x = v → gen s x v ∨ (pass s x ∧ σ x = v)

def StepAt (sm : Bool) (s : Stmt) (r : RId) (x : Ident) (σ σ' : State) : Prop :=
  ∀ v, (sm = true → v ≠ none) → σ' x = v → lateRead s r x = true ∨ genAt s r x v ∨ (passAt s r x ∧ σ x = v)

/-- outcome and state of a fragment execution -/
def Good (sm : Bool) (s : Stmt) (x : Ident) (σ : State) (o : Outcome) (σ' : State) : Prop :=
  (o = .normal ∧ Step sm s x σ σ') ∨ (∃ r, o = .stop r ∧ StepAt sm s r x σ σ')

theorem isReads_isEvents : ∀ s, isReads s = true → isEvents s = true
  | .skip, _ => rfl
  | .read _ _, _ => rfl
  | .seq s t, h => by
      simp only [isReads, Bool.and_eq_true] at h
      simp [isEvents, isReads_isEvents s h.1, isReads_isEvents t h.2]
  | .bind _ _, h => by simp [isReads] at h
  | .gbind _ _, h => by simp [isReads] at h
  | .ite _ _ _, h => by simp [isReads] at h
  | .while_ _ _ _, h => by simp [isReads] at h
  | .for_ _ _ _ _, h => by simp [isReads] at h
  | .tryx _ _ _ _ _, h => by simp [isReads] at h
  | .hnil, h => by simp [isReads] at h
  | .hcons _ _ _ _, h => by simp [isReads] at h
  | .fin _ _, h => by simp [isReads] at h
  | .comp _ _, h => by simp [isReads] at h
  | .cfor _ _ _, h => by simp [isReads] at h
  | .def_ _ _ _ _ _, h => by simp [isReads] at h
  | .lam _ _ _, h => by simp [isReads] at h
  | .cls _ _ _ _, h => by simp [isReads] at h
  | .mayraise _, h => by simp [isReads] at h
  | .brk, h => by simp [isReads] at h
  | .cont, h => by simp [isReads] at h
  | .ret, h => by simp [isReads] at h
  | .raise_, h => by simp [isReads] at h

theorem isEvents_inFrag (st : Bool) : ∀ s, isEvents s = true → inFrag st s = true
  | .skip, _ => rfl
  | .read _ _, _ => rfl
  | .bind _ _, _ => rfl
  | .seq s t, h => by
      simp only [isEvents, Bool.and_eq_true] at h
      simp [inFrag, isEvents_inFrag st s h.1, isEvents_inFrag st t h.2]
  | .gbind _ _, h => by simp [isEvents] at h
  | .ite _ _ _, h => by simp [isEvents] at h
  | .while_ _ _ _, h => by simp [isEvents] at h
  | .for_ _ _ _ _, h => by simp [isEvents] at h
  | .tryx _ _ _ _ _, h => by simp [isEvents] at h
  | .hnil, h => by simp [isEvents] at h
  | .hcons _ _ _ _, h => by simp [isEvents] at h
  | .fin _ _, h => by simp [isEvents] at h
  | .comp _ _, h => by simp [isEvents] at h
  | .cfor _ _ _, h => by simp [isEvents] at h
  | .def_ _ _ _ _ _, h => by simp [isEvents] at h
  | .lam _ _ _, h => by simp [isEvents] at h
  | .cls _ _ _ _, h => by simp [isEvents] at h
  | .mayraise _, h => by simp [isEvents] at h
  | .brk, h => by simp [isEvents] at h
  | .cont, h => by simp [isEvents] at h
  | .ret, h => by simp [isEvents] at h
  | .raise_, h => by simp [isEvents] at h

theorem isBinds_isEvents (s : Stmt) (h : isBinds s = true) : isEvents s = true := by
  induction s <;> simp_all [isBinds, isEvents]

theorem isBinds_noReads (s : Stmt) (h : isBinds s = true) (r : RId) (x : Ident) (v : Option Site) :
    ¬ passAt s r x ∧ ¬ genAt s r x v := by
  induction s <;> simp_all [isBinds, passAt, genAt]

theorem isReads_pass (s : Stmt) (h : isReads s = true) (x : Ident) (v : Option Site) :
    pass s x ∧ ¬ gen s x v := by
  induction s <;> simp_all [isReads, pass, gen]

theorem isName_inFrag (st : Bool) (s : Stmt) (h : isName s = true) : inFrag st s = true := by
  cases s <;> simp_all [isName, inFrag]

/-! ### comprehension chains -/

theorem isBinds_mem (s : Stmt) (h : isBinds s = true) (x : Ident) :
    (∀ v, gen s x v → x ∈ bindsOf s) ∧ (pass s x → x ∉ bindsOf s) := by
  induction s <;> simp_all [isBinds, gen, pass, bindsOf]
  all_goals grind

theorem isReads_passAt (s : Stmt) (h : isReads s = true) (r : RId) (x : Ident) :
    (passAt s r x → r ∈ readIds s) ∧ ∀ v, ¬ genAt s r x v := by
  induction s with
  | skip => simp [passAt, genAt]
  | read y r' => simp [passAt, genAt, readIds, readsOf]
  | seq s t ihs iht =>
      simp only [isReads, Bool.and_eq_true] at h
      have a := ihs h.1; have b := iht h.2
      have ps := fun v => isReads_pass s h.1 x v
      simp only [passAt, genAt, readIds, readsOf, List.map_append, List.mem_append] at *
      grind
  | _ => simp [isReads] at h

theorem isReads_exNames (s : Stmt) (h : isReads s = true) : exNames s = [] := by
  induction s <;> simp_all [isReads, exNames]

def EStep (s : Stmt) (x : Ident) (σ σ' : State) : Prop := ∀ v, σ' x = v → gen s x v ∨ (pass s x ∧ σ x = v)
def EStepAt (s : Stmt) (r : RId) (x : Ident) (σ σ' : State) : Prop :=
  ∀ v, σ' x = v → genAt s r x v ∨ (passAt s r x ∧ σ x = v)

theorem chain_events (x : Ident) (h : Chain s σ o σ') :
    isEvents s = true → (o = .normal ∧ EStep s x σ σ') ∨ (∃ r, o = .stop r ∧ EStepAt s r x σ σ') := by
  induction h with
  | skip => simp [EStep, gen, pass]
  | @bind y d σ =>
      intro _; refine .inl ⟨rfl, ?_⟩
      intro v hv; by_cases e : x = y <;> simp_all [State.upd, gen, pass]
  | read => simp [EStep, gen, pass]
  | readStop => simp [EStepAt, genAt, passAt]
  | seqN _ _ ih1 ih2 =>
      intro he; simp only [isEvents, Bool.and_eq_true] at he
      have g1 := ih1 he.1; have g2 := ih2 he.2
      simp only [EStep, EStepAt, gen, pass, genAt, passAt] at *
      grind
  | seqS _ ih1 =>
      intro he; simp only [isEvents, Bool.and_eq_true] at he
      have g1 := ih1 he.1
      simp only [EStep, EStepAt, gen, pass, genAt, passAt] at *
      grind
  | _ => simp [isEvents]

theorem chain_events_normal (x : Ident) (he : isEvents s = true) (h : Chain s σ .normal σ') : EStep s x σ σ' := by
  rcases chain_events x h he with ⟨_, h⟩ | ⟨r, h, _⟩
  · exact h
  · cases h

theorem chain_events_stop (x : Ident) (he : isEvents s = true) (h : Chain s σ (.stop r) σ') : EStepAt s r x σ σ' := by
  rcases chain_events x h he with ⟨h, _⟩ | ⟨r', h, h2⟩
  · cases h
  · cases h; exact h2

theorem late_of_pass (x : Ident) (r : RId) (s : Stmt) (hf : chainFrag s = true) (hp : passAt s r x)
    (hx : x ∈ compTargets s) : lateChain s r x = true := by
  induction s with
  | seq s t ihs iht =>
      simp only [chainFrag, Bool.and_eq_true] at hf
      simp only [compTargets] at hx
      simp only [passAt] at hp
      simp only [lateChain, Bool.or_eq_true, Bool.and_eq_true, decide_eq_true_eq]
      rcases hp with hp | ⟨hp, _⟩
      · exact .inl ⟨(isReads_passAt s hf.1 r x).1 hp, hx⟩
      · exact .inr (iht hf.2 hp hx)
  | cfor tg ifs inner _ _ ihn =>
      simp only [chainFrag, Bool.and_eq_true] at hf
      simp only [compTargets, List.mem_append] at hx
      simp only [passAt] at hp
      simp only [lateChain, Bool.or_eq_true, Bool.and_eq_true, decide_eq_true_eq]
      rcases hp with ⟨hp, ht⟩ | ⟨hp, _, ht⟩
      · rcases hx with hx | hx
        · exact absurd hx ((isBinds_mem tg hf.1.1 x).2 ht)
        · exact .inl ⟨(isReads_passAt ifs hf.1.2 r x).1 hp, hx⟩
      · rcases hx with hx | hx
        · exact absurd hx ((isBinds_mem tg hf.1.1 x).2 ht)
        · exact .inr (ihn hf.2 hp hx)
  | _ => simp_all [compTargets]

def CN (s : Stmt) (x : Ident) (σa σb : State) : Prop := x ∉ compTargets s → σb x = σa x
def CS (s : Stmt) (r : RId) (x : Ident) (σa σb : State) : Prop :=
  ∀ v, σb x = v → lateChain s r x = true ∨ genAt s r x v ∨ (passAt s r x ∧ σa x = v)

/-- inside a comprehension: names it does not bind keep their value; at a read, `x` holds what supp's straight-line
    reading of the chain says, unless the read is a late one -/
theorem chain_ok (x : Ident) (h : Chain s σa o σb) :
    chainFrag s = true → (o = .normal ∧ CN s x σa σb) ∨ (∃ r, o = .stop r ∧ CS s r x σa σb) := by
  induction h with
  | skip => intro _; exact .inl ⟨rfl, fun _ => rfl⟩
  | bind => simp [chainFrag]
  | read => intro _; exact .inl ⟨rfl, fun _ => rfl⟩
  | readStop => intro _; exact .inr ⟨_, rfl, fun v hv => .inr (.inr ⟨by simp [passAt], hv⟩)⟩
  | @seqN s σ σ1 t o σ2 h1 _ _ ih2 =>
      intro hf; simp only [chainFrag, Bool.and_eq_true] at hf
      have e1 := chain_events_normal x (isReads_isEvents s hf.1) h1
      have rp := fun v => isReads_pass s hf.1 x v
      have g2 := ih2 hf.2
      simp only [EStep, CN, CS, compTargets, gen, pass, genAt, passAt, lateChain, Bool.or_eq_true] at *
      grind
  | @seqS s σ r σ1 t h1 _ =>
      intro hf; simp only [chainFrag, Bool.and_eq_true] at hf
      have e1 := chain_events_stop x (isReads_isEvents s hf.1) h1
      have rp := fun v => (isReads_passAt s hf.1 r x).2 v
      simp only [EStepAt, CN, CS, compTargets, gen, pass, genAt, passAt, lateChain, Bool.or_eq_true] at *
      grind
  | done => intro _; exact .inl ⟨rfl, fun _ => rfl⟩
  | @iterSkip tg σ σ1 ifs σ2 inner o σ3 h1 h2 _ _ _ ih3 =>
      intro hf
      have g3 := ih3 hf
      simp only [chainFrag, Bool.and_eq_true] at hf
      have e1 := chain_events_normal x (isBinds_isEvents tg hf.1.1) h1
      have e2 := chain_events_normal x (isReads_isEvents ifs hf.1.2) h2
      have rp := fun v => isReads_pass ifs hf.1.2 x v
      have bm := isBinds_mem tg hf.1.1 x
      simp only [EStep, CN, CS, compTargets, List.mem_append, not_or, gen, pass, genAt, passAt, lateChain,
        Bool.or_eq_true] at *
      grind
  | @iter tg σ σ1 ifs σ2 inner σ3 o σ4 h1 h2 _ _ _ _ ihn ih4 =>
      intro hf
      have g4 := ih4 hf
      simp only [chainFrag, Bool.and_eq_true] at hf
      have gn := ihn hf.2
      have e1 := chain_events_normal x (isBinds_isEvents tg hf.1.1) h1
      have e2 := chain_events_normal x (isReads_isEvents ifs hf.1.2) h2
      have rp := fun v => isReads_pass ifs hf.1.2 x v
      have bm := isBinds_mem tg hf.1.1 x
      have lp := fun r => late_of_pass x r inner hf.2
      have ri := fun r => (isReads_passAt ifs hf.1.2 r x).1
      simp only [EStep, CN, CS, compTargets, List.mem_append, not_or, gen, pass, genAt, passAt, lateChain,
        Bool.or_eq_true, Bool.and_eq_true, decide_eq_true_eq] at *
      grind
  | @iterS1 tg σ σ1 ifs r σ2 inner h1 h2 _ _ =>
      intro hf
      simp only [chainFrag, Bool.and_eq_true] at hf
      have e1 := chain_events_normal x (isBinds_isEvents tg hf.1.1) h1
      have e2 := chain_events_stop x (isReads_isEvents ifs hf.1.2) h2
      have rp := fun v => (isReads_passAt ifs hf.1.2 r x).2 v
      simp only [EStep, EStepAt, CN, CS, gen, pass, genAt, passAt] at *
      grind
  | @iterS2 tg σ σ1 ifs σ2 inner r σ3 h1 h2 _ _ _ ihn =>
      intro hf
      simp only [chainFrag, Bool.and_eq_true] at hf
      have gn := ihn hf.2
      have e1 := chain_events_normal x (isBinds_isEvents tg hf.1.1) h1
      have e2 := chain_events_normal x (isReads_isEvents ifs hf.1.2) h2
      have rp := fun v => isReads_pass ifs hf.1.2 x v
      simp only [EStep, CN, CS, gen, pass, genAt, passAt, lateChain, Bool.or_eq_true] at *
      grind

theorem exName_binds (nm : Stmt) (y : Ident) (h : isName nm = true) (e : exName nm = some y) : y ∈ bindsOf nm := by
  cases nm <;> simp_all [isName, exName, bindsOf]

/-- `sm = false` needs `x` not to be an except-clause name of `s` (those are unbound again when the handler is left,
    which supp does not model) -/
theorem exec_good (sm st : Bool) (x : Ident) (h : Exec s σ o σ') :
    (inFrag st s = true → (sm = true ∨ x ∉ exNames s) → Good sm s x σ o σ') ∧
    (inFrag.inHs st s = true → (sm = true ∨ x ∉ exNames s) → Good sm s x σ o σ') := by
  induction h with
  | skip => simp [Good, Step, gen, pass, inFrag.inHs]
  | @bind x' d σ =>
      refine ⟨fun _ _ => .inl ⟨rfl, ?_⟩, by simp [inFrag.inHs]⟩
      intro v hv hd; by_cases e : x = x' <;> simp_all [State.upd, gen, pass]
  | gbind => simp [inFrag, inFrag.inHs]
  | read => simp [Good, Step, gen, pass, inFrag.inHs]
  | readStop => simp +contextual [Good, StepAt, genAt, passAt, inFrag.inHs]
  | seqN _ _ ih1 ih2 =>
      refine ⟨fun hf hx => ?_, by simp [inFrag.inHs]⟩
      simp only [inFrag, Bool.and_eq_true] at hf
      simp only [exNames, List.mem_append, not_or, or_and_left] at hx
      have g1 := ih1.1 hf.1 hx.1; have g2 := ih2.1 hf.2 hx.2
      simp only [Good, Step, StepAt, gen, pass, genAt, passAt, lateRead, Bool.or_eq_true] at *
      grind
  | seqA _ hne ih1 =>
      refine ⟨fun hf hx => ?_, by simp [inFrag.inHs]⟩
      simp only [inFrag, Bool.and_eq_true] at hf
      simp only [exNames, List.mem_append, not_or, or_and_left] at hx
      have g1 := ih1.1 hf.1 hx.1
      simp only [Good, Step, StepAt, gen, pass, genAt, passAt, lateRead, Bool.or_eq_true] at *
      grind
  | iteT _ _ ihc iha =>
      refine ⟨fun hf hx => ?_, by simp [inFrag.inHs]⟩
      simp only [inFrag, Bool.and_eq_true] at hf
      simp only [exNames, List.mem_append, not_or, or_and_left] at hx
      have gc := ihc.1 (isEvents_inFrag st _ hf.1.1) hx.1.1; have ga := iha.1 hf.1.2 hx.1.2
      simp only [Good, Step, StepAt, gen, pass, genAt, passAt, lateRead, Bool.or_eq_true] at *
      grind
  | iteF _ _ ihc ihb =>
      refine ⟨fun hf hx => ?_, by simp [inFrag.inHs]⟩
      simp only [inFrag, Bool.and_eq_true] at hf
      simp only [exNames, List.mem_append, not_or, or_and_left] at hx
      have gc := ihc.1 (isEvents_inFrag st _ hf.1.1) hx.1.1; have gb := ihb.1 hf.2 hx.2
      simp only [Good, Step, StepAt, gen, pass, genAt, passAt, lateRead, Bool.or_eq_true] at *
      grind
  | iteS _ ihc =>
      refine ⟨fun hf hx => ?_, by simp [inFrag.inHs]⟩
      simp only [inFrag, Bool.and_eq_true] at hf
      simp only [exNames, List.mem_append, not_or, or_and_left] at hx
      have gc := ihc.1 (isEvents_inFrag st _ hf.1.1) hx.1.1
      simp only [Good, Step, StepAt, gen, pass, genAt, passAt, lateRead, Bool.or_eq_true] at *
      grind
  | whileExit _ _ ihc ihe =>
      refine ⟨fun hf hx => ?_, by simp [inFrag.inHs]⟩
      simp only [inFrag, Bool.and_eq_true] at hf
      simp only [exNames, List.mem_append, not_or, or_and_left] at hx
      have gc := ihc.1 (isEvents_inFrag st _ hf.1.1) hx.1.1; have ge := ihe.1 hf.2 hx.2
      simp only [Good, Step, StepAt, gen, pass, genAt, passAt, lateRead, Bool.or_eq_true] at *
      grind
  | whileStep _ _ hob _ ihc ihb ihw =>
      refine ⟨fun hf hx => ?_, by simp [inFrag.inHs]⟩
      have gw := ihw.1 hf hx
      simp only [inFrag, Bool.and_eq_true] at hf
      simp only [exNames, List.mem_append, not_or, or_and_left] at hx
      have gc := ihc.1 (isEvents_inFrag st _ hf.1.1) hx.1.1; have gb := ihb.1 hf.1.2 hx.1.2
      simp only [Good, Step, StepAt, gen, pass, genAt, passAt, lateRead, Bool.or_eq_true] at *
      grind
  | whileBrk _ _ ihc ihb =>
      refine ⟨fun hf hx => ?_, by simp [inFrag.inHs]⟩
      simp only [inFrag, Bool.and_eq_true] at hf
      simp only [exNames, List.mem_append, not_or, or_and_left] at hx
      have gb := ihb.1 hf.1.2 hx.1.2
      simp [Good] at gb
  | whileAbort _ _ hob ihc ihb =>
      refine ⟨fun hf hx => ?_, by simp [inFrag.inHs]⟩
      simp only [inFrag, Bool.and_eq_true] at hf
      simp only [exNames, List.mem_append, not_or, or_and_left] at hx
      have gc := ihc.1 (isEvents_inFrag st _ hf.1.1) hx.1.1; have gb := ihb.1 hf.1.2 hx.1.2
      simp only [Good, Step, StepAt, gen, pass, genAt, passAt, lateRead, Bool.or_eq_true] at *
      grind
  | whileS _ ihc =>
      refine ⟨fun hf hx => ?_, by simp [inFrag.inHs]⟩
      simp only [inFrag, Bool.and_eq_true] at hf
      simp only [exNames, List.mem_append, not_or, or_and_left] at hx
      have gc := ihc.1 (isEvents_inFrag st _ hf.1.1) hx.1.1
      simp only [Good, Step, StepAt, gen, pass, genAt, passAt, lateRead, Bool.or_eq_true] at *
      grind
  | @for_ it tg b e σ o σ' _ ih =>
      refine ⟨fun hf hx => ?_, by simp [inFrag.inHs]⟩
      simp only [inFrag, Bool.and_eq_true] at hf
      simp only [exNames, List.mem_append, not_or, or_and_left] at hx
      have hd : inFrag st (.seq it (.while_ .skip (.seq tg b) e)) = true := by
        simp [inFrag, isEvents, isEvents_inFrag st it (isReads_isEvents it hf.1.1.1), isEvents_inFrag st tg (isBinds_isEvents tg hf.1.1.2), hf.1.2, hf.2]
      have hxd : sm = true ∨ x ∉ exNames (.seq it (.while_ .skip (.seq tg b) e)) := by
        simp only [exNames, List.mem_append, not_or, List.nil_append, or_and_left]
        exact ⟨hx.1.1.1, ⟨hx.1.1.2, hx.1.2⟩, hx.2⟩
      have g := ih.1 hd hxd
      have nr1 : ∀ r, passAt tg r x = False := fun r => eq_false (isBinds_noReads tg hf.1.1.2 r x none).1
      have nr2 : ∀ r v, genAt tg r x v = False := fun r v => eq_false (isBinds_noReads tg hf.1.1.2 r x v).2
      simp only [Good, Step, StepAt, gen, pass, genAt, passAt, lateRead, Bool.or_eq_true, nr1, nr2] at g ⊢
      grind
  | tryN _ _ ihb ihe =>
      refine ⟨fun hf hx => ?_, by simp [inFrag.inHs]⟩
      simp only [inFrag, Bool.and_eq_true] at hf
      simp only [exNames, List.mem_append, not_or, or_and_left] at hx
      have gb := ihb.1 hf.1.1.1.2 hx.1.1; have ge := ihe.1 hf.2 hx.2
      simp only [Good, Step, StepAt, gen, pass, genAt, passAt, lateRead, Bool.or_eq_true] at *
      grind
  | tryX _ _ ihb ihh =>
      refine ⟨fun hf hx => ?_, by simp [inFrag.inHs]⟩
      simp only [inFrag, Bool.and_eq_true] at hf
      simp only [exNames, List.mem_append, not_or, or_and_left] at hx
      have gb := ihb.1 hf.1.1.1.2 hx.1.1
      simp [Good] at gb
  | tryX1 _ ihh =>
      refine ⟨fun hf hx => ?_, by simp [inFrag.inHs]⟩
      simp only [inFrag, Bool.and_eq_true] at hf
      simp only [exNames, List.mem_append, not_or, or_and_left] at hx
      have gh := ihh.2 hf.1.2 hx.1.2
      simp only [Good, Step, StepAt, gen, pass, genAt, passAt, lateRead, Bool.or_eq_true] at *
      grind
  | tryX2 _ _ ihb ihh =>
      refine ⟨fun hf hx => ?_, by simp [inFrag.inHs]⟩
      simp only [inFrag, Bool.and_eq_true] at hf
      simp only [exNames, List.mem_append, not_or, or_and_left] at hx
      have gb := ihb.1 hf.1.1.1.2 hx.1.1; have gh := ihh.2 hf.1.2 hx.1.2
      simp only [Good, Step, StepAt, gen, pass, genAt, passAt, lateRead, Bool.or_eq_true] at *
      grind
  | tryJ _ hn hx ihb =>
      refine ⟨fun hf hx => ?_, by simp [inFrag.inHs]⟩
      simp only [inFrag, Bool.and_eq_true] at hf
      simp only [exNames, List.mem_append, not_or, or_and_left] at hx
      have gb := ihb.1 hf.1.1.1.2 hx.1.1
      simp only [Good, Step, StepAt, gen, pass, genAt, passAt, lateRead, Bool.or_eq_true] at *
      grind
  | @hMatch ty σ nm σ2 hb o σ3 rest _ _ _ hns ihty ihnm ihhb =>
      refine ⟨by simp [inFrag], fun hh hx => ?_⟩
      simp only [inFrag.inHs, Bool.and_eq_true] at hh
      simp only [exNames, List.mem_append, not_or, or_and_left] at hx
      have gn := ihnm.1 (isName_inFrag st _ hh.1.1.2) (.inr (by cases nm <;> simp_all [isName, exNames])); have gb := ihhb.1 hh.1.2 hx.1.2
      have pty := fun v => isReads_pass ty hh.1.1.1 x v
      have hdel : ∀ v, (sm = true → v ≠ none) → (delEx nm σ3) x = v → σ3 x = v := by
        intro v hv; unfold delEx
        cases hn : exName nm with
        | none => simp
        | some y =>
          simp only [State.del]
          by_cases e : x = y
          · subst e
            simp only [if_true]
            intro hvn
            rcases hx.1.1.2 with h | h
            · exact absurd hvn.symm (hv h)
            · exact absurd (exName_binds nm x hh.1.1.2 hn) h
          · simp [e]
      clear ihty ihnm ihhb
      have gn' : ∀ v, (sm = true → v ≠ none) → σ2 x = v → gen nm x v ∨ (pass nm x ∧ σ x = v) := by
        rcases gn with ⟨_, h⟩ | ⟨r, h, _⟩
        · exact h
        · cases h
      clear gn
      rcases gb with ⟨ho, hs⟩ | ⟨r, ho, _⟩
      · refine .inl ⟨ho, fun v hv hd => ?_⟩
        have h3 := hs v hv (hdel v hv hd)
        have g2 := gn' v hv; have p := pty v
        simp only [gen, pass]
        rcases h3 with h3 | ⟨h3, h4⟩
        · exact .inl (.inl h3)
        · rcases g2 h4 with g2 | ⟨g2, g3⟩
          · exact .inl (.inr (.inl ⟨h3, .inl g2⟩))
          · exact .inr ⟨.inl ⟨p.1, g2, h3⟩, g3⟩
      · exact absurd ho (hns r)
  | @hMatchS ty σ nm σ2 hb r σ3 rest _ _ _ ihty ihnm ihhb =>
      refine ⟨by simp [inFrag], fun hh hx => ?_⟩
      simp only [inFrag.inHs, Bool.and_eq_true] at hh
      simp only [exNames, List.mem_append, not_or, or_and_left] at hx
      have gn := ihnm.1 (isName_inFrag st _ hh.1.1.2) (.inr (by cases nm <;> simp_all [isName, exNames])); have gb := ihhb.1 hh.1.2 hx.1.2
      have pty := fun v => isReads_pass ty hh.1.1.1 x v
      clear ihty ihnm ihhb
      have gn' : ∀ v, (sm = true → v ≠ none) → σ2 x = v → gen nm x v ∨ (pass nm x ∧ σ x = v) := by
        rcases gn with ⟨_, h⟩ | ⟨r, h, _⟩
        · exact h
        · cases h
      clear gn
      rcases gb with ⟨ho, _⟩ | ⟨r', ho, hs⟩
      · cases ho
      · cases ho
        refine .inr ⟨r, rfl, fun v hv hd => ?_⟩
        have h3 := hs v hv hd
        have g2 := gn' v hv; have p := pty v
        simp only [genAt, passAt, lateRead, Bool.or_eq_true]
        rcases h3 with h3 | h3 | ⟨h3, h4⟩
        · exact .inl (.inl (.inr h3))
        · exact .inr (.inl (.inr (.inl h3)))
        · rcases g2 h4 with g2 | ⟨g2, g3⟩
          · exact .inr (.inl (.inr (.inr (.inl ⟨h3, .inl g2⟩))))
          · exact .inr (.inr ⟨.inr (.inl ⟨h3, g2, p.1⟩), g3⟩)
  | hSkip _ _ _ ihty ihr =>
      refine ⟨by simp [inFrag], fun hh hx => ?_⟩
      simp only [inFrag.inHs, Bool.and_eq_true] at hh
      simp only [exNames, List.mem_append, not_or, or_and_left] at hx
      have gr := ihr.2 hh.2 hx.2
      simp only [Good, Step, StepAt, gen, pass, genAt, passAt, lateRead, Bool.or_eq_true] at *
      grind
  | hS _ ihty =>
      refine ⟨by simp [inFrag], fun hh hx => ?_⟩
      simp only [inFrag.inHs, Bool.and_eq_true] at hh
      simp only [exNames, List.mem_append, not_or, or_and_left] at hx
      have gt := ihty.1 (isEvents_inFrag st _ (isReads_isEvents _ hh.1.1.1)) hx.1.1.1
      simp only [Good, Step, StepAt, gen, pass, genAt, passAt, lateRead, Bool.or_eq_true] at *
      grind
  | finN _ hns _ ihs ihf =>
      refine ⟨fun hf hx => ?_, by simp [inFrag.inHs]⟩
      simp only [inFrag, Bool.and_eq_true] at hf
      simp only [exNames, List.mem_append, not_or, or_and_left] at hx
      have gs := ihs.1 hf.1 hx.1; have gf := ihf.1 hf.2 hx.2
      simp only [Good, Step, StepAt, gen, pass, genAt, passAt, lateRead, Bool.or_eq_true] at *
      grind
  | finA _ hns _ hne ihs ihf =>
      refine ⟨fun hf hx => ?_, by simp [inFrag.inHs]⟩
      simp only [inFrag, Bool.and_eq_true] at hf
      simp only [exNames, List.mem_append, not_or, or_and_left] at hx
      have gs := ihs.1 hf.1 hx.1; have gf := ihf.1 hf.2 hx.2
      simp only [Good, Step, StepAt, gen, pass, genAt, passAt, lateRead, Bool.or_eq_true] at *
      grind
  | finS _ ihs =>
      refine ⟨fun hf hx => ?_, by simp [inFrag.inHs]⟩
      simp only [inFrag, Bool.and_eq_true] at hf
      simp only [exNames, List.mem_append, not_or, or_and_left] at hx
      have gs := ihs.1 hf.1 hx.1
      simp only [Good, Step, StepAt, gen, pass, genAt, passAt, lateRead, Bool.or_eq_true] at *
      grind
  | @def_ pre σ σ1 f d ps body _ ihp =>
      refine ⟨fun hf hx => ?_, by simp [inFrag.inHs]⟩
      simp only [inFrag] at hf
      simp only [exNames] at hx
      have gp := ihp.1 (isEvents_inFrag st _ (isReads_isEvents _ hf)) hx
      simp only [Good, Step, StepAt, gen, pass, genAt, passAt, lateRead, Bool.or_eq_true, State.upd] at *
      by_cases e : x = f <;> simp_all
  | defS _ ihp =>
      refine ⟨fun hf hx => ?_, by simp [inFrag.inHs]⟩
      simp only [inFrag] at hf
      simp only [exNames] at hx
      have gp := ihp.1 (isEvents_inFrag st _ (isReads_isEvents _ hf)) hx
      simp only [Good, Step, StepAt, gen, pass, genAt, passAt, lateRead, Bool.or_eq_true] at *
      grind
  | lam _ ihp =>
      refine ⟨fun hf hx => ?_, by simp [inFrag.inHs]⟩
      simp only [inFrag] at hf
      simp only [exNames] at hx
      have gp := ihp.1 (isEvents_inFrag st _ (isReads_isEvents _ hf)) hx
      simp only [Good, Step, StepAt, gen, pass, genAt, passAt, lateRead, Bool.or_eq_true] at *
      grind
  | lamS _ ihp =>
      refine ⟨fun hf hx => ?_, by simp [inFrag.inHs]⟩
      simp only [inFrag] at hf
      simp only [exNames] at hx
      have gp := ihp.1 (isEvents_inFrag st _ (isReads_isEvents _ hf)) hx
      simp only [Good, Step, StepAt, gen, pass, genAt, passAt, lateRead, Bool.or_eq_true] at *
      grind
  | @clsN pre σ σ1 body σ2 c d _ _ ihp ihb =>
      refine ⟨fun hf hx => ?_, by simp [inFrag.inHs]⟩
      simp only [inFrag, Bool.and_eq_true] at hf
      simp only [exNames, List.mem_append, not_or, or_and_left] at hx
      have gp := ihp.1 (isEvents_inFrag st _ (isReads_isEvents _ hf.1)) hx.1
      simp only [Good, Step, StepAt, gen, pass, genAt, passAt, lateRead, Bool.or_eq_true, State.upd] at *
      by_cases e : x = c <;> simp_all
  | clsX _ _ ihp ihb =>
      refine ⟨fun hf hx => ?_, by simp [inFrag.inHs]⟩
      simp only [inFrag, Bool.and_eq_true] at hf
      simp only [exNames, List.mem_append, not_or, or_and_left] at hx
      have gb := ihb.1 hf.2 hx.2
      simp [Good] at gb
  | clsS _ ihp =>
      refine ⟨fun hf hx => ?_, by simp [inFrag.inHs]⟩
      simp only [inFrag, Bool.and_eq_true] at hf
      simp only [exNames, List.mem_append, not_or, or_and_left] at hx
      have gp := ihp.1 (isEvents_inFrag st _ (isReads_isEvents _ hf.1)) hx.1
      simp only [Good, Step, StepAt, gen, pass, genAt, passAt, lateRead, Bool.or_eq_true] at *
      grind
  | @compN it σ σ1 g σ2 _ hg ihit =>
      refine ⟨fun hf hx => ?_, by simp [inFrag.inHs]⟩
      simp only [inFrag, Bool.and_eq_true] at hf
      have git := ihit.1 (isEvents_inFrag st _ (isReads_isEvents _ hf.1.2)) (.inr (by simp [isReads_exNames it hf.1.2]))
      have cg := chain_ok x hg hf.2
      have hres : ∀ v, State.restore (compTargets g) σ1 σ2 x = v → σ1 x = v := by
        intro v hv; unfold State.restore at hv
        by_cases e : x ∈ compTargets g
        · simpa [e] using hv
        · rcases cg with ⟨_, cn⟩ | ⟨r, h, _⟩
          · have h2 := cn e
            simp only [e, if_false] at hv
            rw [← hv, h2]; simp [State.hide, e]
          · cases h
      clear cg ihit
      simp only [Good, Step, StepAt, CS, gen, pass, genAt, passAt, lateRead, Bool.or_eq_true] at *
      grind
  | @compS1 it σ r σ1 g _ ihit =>
      refine ⟨fun hf hx => ?_, by simp [inFrag.inHs]⟩
      simp only [inFrag, Bool.and_eq_true] at hf
      have git := ihit.1 (isEvents_inFrag st _ (isReads_isEvents _ hf.1.2)) (.inr (by simp [isReads_exNames it hf.1.2]))
      simp only [Good, Step, StepAt, CS, gen, pass, genAt, passAt, lateRead, Bool.or_eq_true] at *
      grind
  | @compS2 it σ σ1 g r σ2 _ hg ihit =>
      refine ⟨fun hf hx => ?_, by simp [inFrag.inHs]⟩
      simp only [inFrag, Bool.and_eq_true] at hf
      have git := ihit.1 (isEvents_inFrag st _ (isReads_isEvents _ hf.1.2)) (.inr (by simp [isReads_exNames it hf.1.2]))
      have cg : CS g r x (State.hide (compTargets g) σ1) σ2 := by
        rcases chain_ok x hg hf.2 with ⟨h, _⟩ | ⟨r', h, h2⟩
        · cases h
        · cases h; exact h2
      have hh : ∀ v, State.hide (compTargets g) σ1 x = v → x ∈ compTargets g ∨ σ1 x = v := by
        intro v hv; unfold State.hide at hv
        by_cases e : x ∈ compTargets g
        · exact .inl e
        · exact .inr (by simpa [e] using hv)
      have lp := late_of_pass x r g hf.2
      clear ihit
      simp only [Good, Step, StepAt, CS, gen, pass, genAt, passAt, lateRead, Bool.or_eq_true] at *
      grind
  | mayraiseN => simp [inFrag, inFrag.inHs]
  | mayraiseX => simp [inFrag, inFrag.inHs]
  | brk => simp [inFrag, inFrag.inHs]
  | cont => simp [inFrag, inFrag.inHs]
  | ret => simp [inFrag, inFrag.inHs]
  | raise_ => simp [inFrag, inFrag.inHs]
end SuppModel.Den
