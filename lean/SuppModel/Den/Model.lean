/- Den: the compositional, position-free reading of supp's name analysis
   (/repo/supp/nast.py `extract_visitor`, /repo/supp/scope.py `Flow.names / parent_names / names_at`, `LoopFlow`).

   A program is an event-level statement `Stmt`: which names are bound at which sites and read at which
   read-ids, in which control structure.  `A ks s T` is the name table after `s` when the table before it is `T`
   (supp: `flow.names` of the region control is in after `s`); `at_ ks s r T F` is the table supp consults for
   read `r` (`name.flow.names_at(np(name))`), `F` being the FINAL table of the enclosing scope body (what
   `FuncScope.names` / `SourceScope.names` give to nested scopes).

   A table maps a name to the list of its alternatives: `some d` = the binding at site `d`, `none` = supp's
   `UndefinedName` alternative ("unbound on some path"); a key supp does not have at all is `[none]`.
   Lists are used as sets (statements via `∈`). -/
namespace SuppModel.Den

abbrev Ident := String
abbrev Site := Nat
abbrev RId := Nat

inductive Stmt where
  | skip
  | bind (x : Ident) (d : Site)
  /-- binding of a name the enclosing function declares `global`: `Flow.add_name` sends it to
      `SourceScope._global_names`, the local region is unchanged -/
  | gbind (x : Ident) (d : Site)
  | read (x : Ident) (r : RId)
  | seq (s t : Stmt)
  | ite (c a b : Stmt)
  | while_ (c b e : Stmt)
  | for_ (it tg b e : Stmt)
  /-- try with at least one handler: body, handler chain (`hcons … hnil`), else.  `r1` / `r2`: the body starts /
      ends with a raise point (`mayraise` as first / last statement of the body; supp ignores raise points) -/
  | tryx (r1 r2 : Bool) (b hs e : Stmt)
  | hnil
  | hcons (ty nm hb rest : Stmt)
  /-- `try: s finally: f` (a Python `try/except/else/finally` is `fin (tryx b hs e) f`) -/
  | fin (s f : Stmt)
  /-- comprehension: first iterable (evaluated outside), generator chain -/
  | comp (it g : Stmt)
  /-- one `for tg in … if ifs` level of a comprehension; `inner` is `seq it' (cfor …)` or the element -/
  | cfor (tg ifs inner : Stmt)
  | def_ (pre : Stmt) (f : Ident) (d : Site) (params body : Stmt)
  | lam (pre params body : Stmt)
  | cls (pre : Stmt) (c : Ident) (d : Site) (body : Stmt)
  | mayraise (k : Nat)
  | brk | cont | ret | raise_
  deriving Repr, Inhabited

abbrev Alts := List (Option Site)

/-- a name table.  (A structure around the lookup function rather than a bare function: compiled code then builds
    every table once instead of re-running the analysis at every lookup.) -/
structure Tbl where
  get : Ident → Alts

def Tbl.empty : Tbl := ⟨fun _ => [none]⟩
def Tbl.upd (T : Tbl) (x : Ident) (d : Site) : Tbl := ⟨fun y => if y = x then [some d] else T.get y⟩
/-- the table with no alternative at all (neutral element of `join`; an empty list of predecessor regions) -/
def Tbl.bot : Tbl := ⟨fun _ => []⟩

def Alts.union (a b : Alts) : Alts := a ++ b.filter (fun v => !a.contains v)

/-- union of the alternatives of two predecessor regions (`parent_names` builds a set per name).  The rows of the
    names `ks` are computed once (`ks` = the identifiers the program reads: a pure evaluation-strategy parameter,
    the result is the same table for every `ks`, see `Lemmas.get_join`) -/
def Tbl.join (ks : List Ident) (T U : Tbl) : Tbl :=
  let cache := ks.map fun k => (k, Alts.union (T.get k) (U.get k))
  ⟨fun x => match cache.lookup x with
    | some v => v
    | none => Alts.union (T.get x) (U.get x)⟩

/-- table after `s` (jumps and raise points are ignored by supp: control falls through) -/
def A (ks : List Ident) : Stmt → Tbl → Tbl
  | .skip, T => T
  | .bind x d, T => T.upd x d
  | .gbind _ _, T => T
  | .read _ _, T => T
  | .seq s t, T => A ks t (A ks s T)
  | .ite c a b, T => let T1 := A ks c T; (A ks a T1).join ks (A ks b T1)
  -- visit_While: test region [cur, LoopFlow(body)], body [test], else [test], join [else]
  | .while_ c b e, T =>
      let L := A ks b (A ks c T)          -- LoopFlow.names: the body's table with the back edge cut
      let T2 := A ks c (T.join ks L)      -- after the test
      A ks e T2
  -- visit_For: iter in cur; 'for' region [cur, LoopFlow(body)] holds the targets; else [cur, body]; join [else]
  | .for_ it tg b e, T =>
      let T1 := A ks it T
      let L := A ks b (A ks tg T1)
      let head := A ks tg (T1.join ks L)
      A ks e (T1.join ks (A ks b head))
  -- visit_Try: body [cur]; every handler [cur, body]; else [body]; join [else] + handlers
  | .tryx _ _ b hs e, T => let B := A ks b T; (A ks e B).join ks (A ks hs (T.join ks B))
  | .hnil, _ => Tbl.bot
  | .hcons ty nm hb rest, T => (A ks hb (A ks nm (A ks ty T))).join ks (A ks rest T)
  | .fin s f, T => A ks f (A ks s T)
  -- visit_ListComp: 'comp' regions chained, comp-join [cur, last]
  | .comp it g, T => let T1 := A ks it T; T1.join ks (A ks g T1)
  | .cfor tg ifs inner, T => A ks inner (A ks ifs (A ks tg T))
  | .def_ pre f d _ _, T => (A ks pre T).upd f d
  | .lam pre _ _, T => A ks pre T
  | .cls pre c d _, T => (A ks pre T).upd c d
  | .mayraise _, T => T
  | .brk, T => T
  | .cont, T => T
  | .ret, T => T
  | .raise_, T => T

/-- names bound by the statements of this scope body itself (nested scope bodies excluded, comprehension variables
    included) -/
def bindsOf : Stmt → List Ident
  | .skip => [] | .bind x _ => [x] | .gbind _ _ => [] | .read _ _ => []
  | .seq s t => bindsOf s ++ bindsOf t
  | .ite c a b => bindsOf c ++ bindsOf a ++ bindsOf b
  | .while_ c b e => bindsOf c ++ bindsOf b ++ bindsOf e
  | .for_ it tg b e => bindsOf it ++ bindsOf tg ++ bindsOf b ++ bindsOf e
  | .tryx _ _ b hs e => bindsOf b ++ bindsOf hs ++ bindsOf e
  | .hnil => []
  | .hcons ty nm hb rest => bindsOf ty ++ bindsOf nm ++ bindsOf hb ++ bindsOf rest
  | .fin s f => bindsOf s ++ bindsOf f
  | .comp it g => bindsOf it ++ bindsOf g
  | .cfor tg ifs inner => bindsOf tg ++ bindsOf ifs ++ bindsOf inner
  | .def_ pre f _ _ _ => bindsOf pre ++ [f]
  | .lam pre _ _ => bindsOf pre
  | .cls pre c _ _ => bindsOf pre ++ [c]
  | .mayraise _ => [] | .brk => [] | .cont => [] | .ret => [] | .raise_ => []

/-- `scope.locals`: every `add_name` in a region of the scope whose name is not declared global — nested scope bodies
    excluded; comprehension variables are NOT locals of the enclosing scope (they are inserted into the 'comp'
    region without `add_name`) -/
def localsOf : Stmt → List Ident
  | .skip => [] | .bind x _ => [x] | .gbind _ _ => [] | .read _ _ => []
  | .seq s t => localsOf s ++ localsOf t
  | .ite c a b => localsOf c ++ localsOf a ++ localsOf b
  | .while_ c b e => localsOf c ++ localsOf b ++ localsOf e
  | .for_ it tg b e => localsOf it ++ localsOf tg ++ localsOf b ++ localsOf e
  | .tryx _ _ b hs e => localsOf b ++ localsOf hs ++ localsOf e
  | .hnil => []
  | .hcons ty nm hb rest => localsOf ty ++ localsOf nm ++ localsOf hb ++ localsOf rest
  | .fin s f => localsOf s ++ localsOf f
  | .comp it g => localsOf it ++ localsOf g
  | .cfor _ ifs inner => localsOf ifs ++ localsOf inner
  | .def_ pre f _ _ _ => localsOf pre ++ [f]
  | .lam pre _ _ => localsOf pre
  | .cls pre c _ _ => localsOf pre ++ [c]
  | .mayraise _ => [] | .brk => [] | .cont => [] | .ret => [] | .raise_ => []

/-- entry table of a function body: parameters, then the enclosing scope's FINAL table minus the function's locals
    (`Flow.parent_names`, branch without predecessor regions, FuncScope case) -/
def funcEntry (ks : List Ident) (F : Tbl) (params body : Stmt) : Tbl :=
  let loc := localsOf params ++ localsOf body
  A ks params ⟨fun x => if x ∈ loc then [none] else F.get x⟩

/-- table at read `r` (`[]` everywhere when `r` does not occur in `s`) -/
def at_ (ks : List Ident) : Stmt → RId → Tbl → Tbl → Tbl
  | .skip, _, _, _ => Tbl.bot
  | .bind _ _, _, _, _ => Tbl.bot
  | .gbind _ _, _, _, _ => Tbl.bot
  | .read _ r', r, T, _ => if r = r' then T else Tbl.bot
  | .seq s t, r, T, F => (at_ ks s r T F).join ks (at_ ks t r (A ks s T) F)
  | .ite c a b, r, T, F =>
      let T1 := A ks c T
      ((at_ ks c r T F).join ks (at_ ks a r T1 F)).join ks (at_ ks b r T1 F)
  | .while_ c b e, r, T, F =>
      let L := A ks b (A ks c T)
      let head := T.join ks L
      let T2 := A ks c head
      ((at_ ks c r head F).join ks (at_ ks b r T2 F)).join ks (at_ ks e r T2 F)
  | .for_ it tg b e, r, T, F =>
      let T1 := A ks it T
      let L := A ks b (A ks tg T1)
      let head := A ks tg (T1.join ks L)
      ((at_ ks it r T F).join ks (at_ ks b r head F)).join ks (at_ ks e r (T1.join ks (A ks b head)) F)
  | .tryx _ _ b hs e, r, T, F =>
      let B := A ks b T
      ((at_ ks b r T F).join ks (at_ ks hs r (T.join ks B) F)).join ks (at_ ks e r B F)
  | .hnil, _, _, _ => Tbl.bot
  | .hcons ty nm hb rest, r, T, F =>
      ((at_ ks ty r T F).join ks (at_ ks hb r (A ks nm (A ks ty T)) F)).join ks (at_ ks rest r T F)
  | .fin s f, r, T, F => (at_ ks s r T F).join ks (at_ ks f r (A ks s T) F)
  | .comp it g, r, T, F => (at_ ks it r T F).join ks (at_ ks g r (A ks it T) F)
  | .cfor tg ifs inner, r, T, F =>
      let T1 := A ks tg T
      (at_ ks ifs r T1 F).join ks (at_ ks inner r (A ks ifs T1) F)
  | .def_ pre _ _ params body, r, T, F =>
      let E := funcEntry ks F params body
      (at_ ks pre r T F).join ks (at_ ks body r E (A ks body E))
  | .lam pre params body, r, T, F =>
      let E := funcEntry ks F params body
      (at_ ks pre r T F).join ks (at_ ks body r E (A ks body E))
  -- class body: ALL of the enclosing final table; scopes nested in it look through to the class's parent
  | .cls pre _ _ body, r, T, F => (at_ ks pre r T F).join ks (at_ ks body r F F)
  | .mayraise _, _, _, _ => Tbl.bot
  | .brk, _, _, _ => Tbl.bot
  | .cont, _, _, _ => Tbl.bot
  | .ret, _, _, _ => Tbl.bot
  | .raise_, _, _, _ => Tbl.bot

/-- `SourceScope._global_names`: bindings of names declared global, in visit order (the last one wins) -/
def globalsOf : Stmt → List (Ident × Site)
  | .skip => [] | .bind _ _ => [] | .gbind x d => [(x, d)] | .read _ _ => []
  | .seq s t => globalsOf s ++ globalsOf t
  | .ite c a b => globalsOf c ++ globalsOf a ++ globalsOf b
  | .while_ c b e => globalsOf c ++ globalsOf b ++ globalsOf e
  | .for_ it tg b e => globalsOf it ++ globalsOf tg ++ globalsOf b ++ globalsOf e
  | .tryx _ _ b hs e => globalsOf b ++ globalsOf hs ++ globalsOf e
  | .hnil => []
  | .hcons ty nm hb rest => globalsOf ty ++ globalsOf nm ++ globalsOf hb ++ globalsOf rest
  | .fin s f => globalsOf s ++ globalsOf f
  | .comp it g => globalsOf it ++ globalsOf g
  | .cfor tg ifs inner => globalsOf tg ++ globalsOf ifs ++ globalsOf inner
  | .def_ pre _ _ params body => globalsOf pre ++ globalsOf params ++ globalsOf body
  | .lam pre params body => globalsOf pre ++ globalsOf params ++ globalsOf body
  | .cls pre _ _ body => globalsOf pre ++ globalsOf body
  | .mayraise _ => [] | .brk => [] | .cont => [] | .ret => [] | .raise_ => []

/-- entry table of the module region: `MergedDict(_global_names, builtins)` (builtins are not program names) -/
def moduleEntry (prog : Stmt) : Tbl :=
  (globalsOf prog).foldl (fun T (p : Ident × Site) => T.upd p.1 p.2) Tbl.empty

/-- all reads (id, name) of a program, nested scopes included -/
def readsOf : Stmt → List (RId × Ident)
  | .skip => [] | .bind _ _ => [] | .gbind _ _ => [] | .read x r => [(r, x)]
  | .seq s t => readsOf s ++ readsOf t
  | .ite c a b => readsOf c ++ readsOf a ++ readsOf b
  | .while_ c b e => readsOf c ++ readsOf b ++ readsOf e
  | .for_ it tg b e => readsOf it ++ readsOf tg ++ readsOf b ++ readsOf e
  | .tryx _ _ b hs e => readsOf b ++ readsOf hs ++ readsOf e
  | .hnil => []
  | .hcons ty nm hb rest => readsOf ty ++ readsOf nm ++ readsOf hb ++ readsOf rest
  | .fin s f => readsOf s ++ readsOf f
  | .comp it g => readsOf it ++ readsOf g
  | .cfor tg ifs inner => readsOf tg ++ readsOf ifs ++ readsOf inner
  | .def_ pre _ _ params body => readsOf pre ++ readsOf params ++ readsOf body
  | .lam pre params body => readsOf pre ++ readsOf params ++ readsOf body
  | .cls pre _ _ body => readsOf pre ++ readsOf body
  | .mayraise _ => [] | .brk => [] | .cont => [] | .ret => [] | .raise_ => []

/-- supp's answer for read `r` of name `x` in the module `prog` -/
def answer (prog : Stmt) (r : RId) (x : Ident) : Alts :=
  let T0 := moduleEntry prog
  let ks := ((readsOf prog).map (·.2)).eraseDups
  (at_ ks prog r T0 (A ks prog T0)).get x

end SuppModel.Den
