/-
  The shape of supp's three entry points (`linter.lint`, `assistant.assist`,
  `assistant.location`) over their components.  CPython's parser, the cursor marking
  (`util.Source`), the analyses are PARAMETERS; what is modelled is only how the entry
  points combine them: `lint` turns a SyntaxError into the single diagnostic E01, `assist`
  and `location` let a SyntaxError of the cursor-marked text through and nothing else.
  That the components themselves never raise is the subject of the totality theorems of
  the other families (re-exported in Props/C08.lean) and of the crash search of the C08
  harness — the runtime (recursion limit, memory) is outside any model.
-/
namespace SuppModel.Api

structure SynErr where
  msg : String
  line : Option Nat
  off : Option Nat
  deriving Repr, DecidableEq

inductive Code where
  | E01 | E02 | E42 | W01 | W02
  deriving Repr, DecidableEq

structure Diag where
  code : Code
  msg : String
  line : Option Nat
  col : Option Nat
  deriving Repr, DecidableEq

/-- `linter.lint` -/
def lint {Tree : Type} (parse : String → Except SynErr Tree) (analyse : Tree → List Diag) (src : String) :
    List Diag :=
  match parse src with
  | .error e => [⟨.E01, e.msg, e.line, e.off⟩]
  | .ok t => analyse t

/-- what `assist` / `location` can do: answer, or raise SyntaxError -/
inductive Outcome (α : Type) where
  | answer (a : α)
  | syntaxError (e : SynErr)
  deriving Repr

/-- `assistant.assist` / `assistant.location`: parse the cursor-marked text, then compute -/
def atCursor {Tree α : Type} (parse : String → Except SynErr Tree) (mark : String → Nat × Nat → String)
    (compute : Tree → Nat × Nat → α) (src : String) (pos : Nat × Nat) : Outcome α :=
  match parse (mark src pos) with
  | .error e => .syntaxError e
  | .ok t => .answer (compute t pos)

end SuppModel.Api
