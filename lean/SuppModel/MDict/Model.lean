/-
  MDict — executable model of `supp/merged_dict.py` (`MergedDict`), the lookup chain every name table of
  supp is made of (`Flow.names`, `parent_names`, the scope `names` properties build their answers as
  `MergedDict(own bindings, outer tables…)`).  Core Lean only.

  A Python `dict` is an association list in insertion order with distinct keys (`Dict.wf`); keys and
  values are naturals (the real code is generic in both; the harness maps them).

    MergedDict.__init__(*dicts)   `init`      — an argument that IS a MergedDict contributes its own `_dicts`
    __getitem__                    `getitem`   — `none` = KeyError
    __contains__                   `contains`
    iteritems / items              `iteritems` — `result = {}; for p in reversed(_dicts): result.update(p)`
    __iter__, itervalues/values    `iter`, `itervalues`
    get(key, default)              `get`
-/
namespace SuppModel.MDict

abbrev Dict := List (Nat × Nat)

/-- `d[k]` of a plain dict (`none` = KeyError) -/
def Dict.get? : Dict → Nat → Option Nat
  | [], _ => none
  | (a, b) :: r, k => if a = k then some b else Dict.get? r k

/-- `d[k] = v`: an existing key keeps its place, a new key goes last -/
def Dict.set : Dict → Nat → Nat → Dict
  | [], k, v => [(k, v)]
  | (a, b) :: r, k, v => if a = k then (a, v) :: r else (a, b) :: Dict.set r k v

/-- `d.update(p)` -/
def Dict.update (d p : Dict) : Dict := p.foldl (fun acc kv => acc.set kv.1 kv.2) d

def Dict.keys (d : Dict) : List Nat := d.map (·.1)

/-- keys of a Python dict are distinct -/
def Dict.wf (d : Dict) : Prop := d.keys.Nodup

instance (d : Dict) : Decidable d.wf := by unfold Dict.wf; infer_instance

/-- a constructor argument: a plain mapping, or a `MergedDict` (given by its `_dicts`) -/
inductive Arg where
  | plain (d : Dict)
  | merged (ds : List Dict)
  deriving Repr

def Arg.parts : Arg → List Dict
  | .plain d => [d]
  | .merged ds => ds

/-- `MergedDict.__init__`: the value of `self._dicts` -/
def init (args : List Arg) : List Dict := args.flatMap Arg.parts

/-- `MergedDict.__getitem__` -/
def getitem : List Dict → Nat → Option Nat
  | [], _ => none
  | p :: r, k => match p.get? k with
    | some v => some v
    | none => getitem r k

/-- `MergedDict.__contains__` -/
def contains (ds : List Dict) (k : Nat) : Bool := ds.any (fun p => (p.get? k).isSome)

/-- `MergedDict.iteritems` (as the list of pairs the resulting dict iterates) -/
def iteritems (ds : List Dict) : Dict := ds.reverse.foldl Dict.update []

def iter (ds : List Dict) : List Nat := (iteritems ds).keys
def itervalues (ds : List Dict) : List Nat := (iteritems ds).map (·.2)

/-- `MergedDict.get` -/
def get (ds : List Dict) (k dflt : Nat) : Nat := (getitem ds k).getD dflt

/-- first-occurrence order: append a key unless it is already there -/
def addKey : List Nat → Nat → List Nat
  | [], k => [k]
  | a :: r, k => if a = k then a :: r else a :: addKey r k

end SuppModel.MDict
