/- Lemmas about the MergedDict model (SuppModel/MDict/Model.lean).  Core Lean only. -/
import SuppModel.MDict.Model
namespace SuppModel.MDict

theorem get?_set (d : Dict) (k v k' : Nat) :
    (d.set k v).get? k' = if k = k' then some v else d.get? k' := by
  induction d with
  | nil => simp [Dict.set, Dict.get?]
  | cons ab r ih =>
    obtain ⟨a, b⟩ := ab
    by_cases h : a = k
    · subst h; by_cases h2 : a = k' <;> simp [Dict.set, Dict.get?, h2]
    · by_cases h2 : a = k'
      · subst h2
        have : ¬ k = a := fun e => h e.symm
        simp [Dict.set, Dict.get?, h, this]
      · simp [Dict.set, Dict.get?, h, h2, ih]

theorem keys_set (d : Dict) (k v : Nat) : (d.set k v).keys = addKey d.keys k := by
  induction d with
  | nil => simp [Dict.set, Dict.keys, addKey]
  | cons ab r ih =>
    obtain ⟨a, b⟩ := ab
    by_cases h : a = k
    · simp [Dict.set, Dict.keys, addKey, h]
    · simp only [Dict.keys] at ih
      simp [Dict.set, Dict.keys, addKey, h, ih]

theorem get?_none_iff (d : Dict) (k : Nat) : d.get? k = none ↔ k ∉ d.keys := by
  induction d with
  | nil => simp [Dict.get?, Dict.keys]
  | cons ab r ih =>
    obtain ⟨a, b⟩ := ab
    simp only [Dict.keys] at ih
    by_cases h : a = k
    · simp [Dict.get?, Dict.keys, h]
    · have : ¬ k = a := fun e => h e.symm
      simp [Dict.get?, Dict.keys, h, this, ih]

theorem get?_isSome_iff (d : Dict) (k : Nat) : (d.get? k).isSome = true ↔ k ∈ d.keys := by
  rcases hg : d.get? k with _ | v
  · simp [(get?_none_iff d k).mp hg]
  · have : ¬ (k ∉ d.keys) := fun h => by rw [(get?_none_iff d k).mpr h] at hg; cases hg
    simp only [Option.isSome_some, true_iff]
    exact Classical.not_not.mp this

theorem mem_addKey (ks : List Nat) (k x : Nat) : x ∈ addKey ks k ↔ x ∈ ks ∨ x = k := by
  induction ks with
  | nil => simp [addKey]
  | cons a r ih =>
    by_cases h : a = k
    · subst h; simp [addKey]
      intro e; exact Or.inl e
    · simp [addKey, h, ih, or_assoc]

theorem addKey_eq (ks : List Nat) (k : Nat) : addKey ks k = if k ∈ ks then ks else ks ++ [k] := by
  induction ks with
  | nil => simp [addKey]
  | cons a r ih =>
    by_cases h : a = k
    · subst h; simp [addKey]
    · have h' : ¬ k = a := fun e => h e.symm
      by_cases hm : k ∈ r <;> simp [addKey, h, h', hm, ih]

theorem nodup_addKey (ks : List Nat) (k : Nat) (h : ks.Nodup) : (addKey ks k).Nodup := by
  rw [addKey_eq]
  by_cases hm : k ∈ ks
  · simpa [hm] using h
  · simp only [hm, if_false]
    rw [List.nodup_append]
    refine ⟨h, by simp, ?_⟩
    intro a ha b hb
    simp at hb; subst hb
    intro e; subst e; exact hm ha

/-- keys of `d.update(p)`: the keys of `d`, then the new keys of `p` in `p`'s order -/
theorem keys_update (d p : Dict) : (d.update p).keys = p.keys.foldl addKey d.keys := by
  induction p generalizing d with
  | nil => simp [Dict.update, Dict.keys]
  | cons ab r ih =>
    have := ih (d.set ab.1 ab.2)
    simp only [Dict.update, List.foldl_cons, Dict.keys, List.map_cons] at this ⊢
    rw [this]; congr 1; exact keys_set d ab.1 ab.2

theorem nodup_foldl_addKey (l ks : List Nat) (h : ks.Nodup) : (l.foldl addKey ks).Nodup := by
  induction l generalizing ks with
  | nil => simpa
  | cons a r ih => exact ih _ (nodup_addKey ks a h)

theorem mem_foldl_addKey (l ks : List Nat) (x : Nat) : x ∈ l.foldl addKey ks ↔ x ∈ ks ∨ x ∈ l := by
  induction l generalizing ks with
  | nil => simp
  | cons a r ih =>
    simp only [List.foldl_cons, ih, mem_addKey, List.mem_cons]
    constructor
    · rintro ((h | h) | h)
      · exact Or.inl h
      · exact Or.inr (Or.inl h)
      · exact Or.inr (Or.inr h)
    · rintro (h | h | h)
      · exact Or.inl (Or.inl h)
      · exact Or.inl (Or.inr h)
      · exact Or.inr h

/-- lookup in `d.update(p)`: `p` wins -/
theorem get?_update (d p : Dict) (hp : p.wf) (k : Nat) :
    (d.update p).get? k = match p.get? k with | some v => some v | none => d.get? k := by
  induction p generalizing d with
  | nil => simp [Dict.update, Dict.get?]
  | cons ab r ih =>
    obtain ⟨a, b⟩ := ab
    have hr : Dict.wf r := by
      simp only [Dict.wf, Dict.keys, List.map_cons, List.nodup_cons] at hp ⊢; exact hp.2
    have ha : a ∉ Dict.keys r := by
      simp only [Dict.wf, Dict.keys, List.map_cons, List.nodup_cons] at hp ⊢; exact hp.1
    have := ih (d.set a b) hr
    simp only [Dict.update, List.foldl_cons] at this ⊢
    rw [this]
    by_cases h : a = k
    · subst h
      rw [(get?_none_iff r a).mpr ha]
      simp [Dict.get?, get?_set]
    · simp [Dict.get?, h, get?_set]

theorem iteritems_cons (p : Dict) (r : List Dict) : iteritems (p :: r) = (iteritems r).update p := by
  simp [iteritems, List.foldl_append]

theorem iteritems_get? (ds : List Dict) (hwf : ∀ d ∈ ds, Dict.wf d) (k : Nat) :
    (iteritems ds).get? k = getitem ds k := by
  induction ds with
  | nil => simp [iteritems, getitem, Dict.get?]
  | cons p r ih =>
    rw [iteritems_cons, get?_update _ _ (hwf p (by simp)), ih (fun d hd => hwf d (by simp [hd]))]
    simp only [getitem]
    cases p.get? k <;> rfl

theorem iter_cons (p : Dict) (r : List Dict) : iter (p :: r) = p.keys.foldl addKey (iter r) := by
  simp [iter, iteritems_cons, keys_update]

theorem iter_nodup (ds : List Dict) : (iter ds).Nodup := by
  induction ds with
  | nil => simp [iter, iteritems, Dict.keys]
  | cons p r ih => rw [iter_cons]; exact nodup_foldl_addKey _ _ ih

theorem mem_iter (ds : List Dict) (k : Nat) : k ∈ iter ds ↔ ∃ d ∈ ds, k ∈ Dict.keys d := by
  induction ds with
  | nil => simp [iter, iteritems, Dict.keys]
  | cons p r ih =>
    rw [iter_cons, mem_foldl_addKey, ih]
    constructor
    · rintro (⟨d, hd, hk⟩ | h)
      · exact ⟨d, by simp [hd], hk⟩
      · exact ⟨p, by simp, h⟩
    · rintro ⟨d, hd, hk⟩
      rcases List.mem_cons.mp hd with e | hd
      · subst e; exact Or.inr hk
      · exact Or.inl ⟨d, hd, hk⟩

theorem foldl_addKey_append (a b ks : List Nat) :
    (a ++ b).foldl addKey ks = b.foldl addKey (a.foldl addKey ks) := by
  simp [List.foldl_append]

/-- iteration order, explicitly: first occurrences in the concatenation of the parts' keys, LAST part first -/
theorem iter_order (ds : List Dict) : iter ds = (ds.reverse.flatMap Dict.keys).foldl addKey [] := by
  induction ds with
  | nil => simp [iter, iteritems, Dict.keys]
  | cons p r ih =>
    rw [iter_cons, ih]
    simp [List.flatMap_append, List.foldl_append]

theorem getitem_isSome (ds : List Dict) (k : Nat) : (getitem ds k).isSome = contains ds k := by
  induction ds with
  | nil => simp [getitem, contains]
  | cons p r ih =>
    simp only [getitem, contains, List.any_cons] at ih ⊢
    rcases hp : p.get? k with _ | v
    · simp [ih]
    · simp

/-- priority: the answer comes from the FIRST part that has the key -/
theorem getitem_first (ds : List Dict) (k v : Nat) :
    getitem ds k = some v ↔
      ∃ pre p post, ds = pre ++ p :: post ∧ p.get? k = some v ∧ ∀ q ∈ pre, q.get? k = none := by
  induction ds with
  | nil => simp [getitem]
  | cons d r ih =>
    rcases hd : d.get? k with _ | w
    · simp only [getitem, hd, ih]
      constructor
      · rintro ⟨pre, p, post, e, hp, hq⟩
        refine ⟨d :: pre, p, post, by simp [e], hp, ?_⟩
        intro q hq'
        rcases List.mem_cons.mp hq' with e' | h'
        · subst e'; exact hd
        · exact hq q h'
      · rintro ⟨pre, p, post, e, hp, hq⟩
        cases pre with
        | nil =>
          simp only [List.nil_append, List.cons.injEq] at e
          rw [← e.1, hd] at hp; cases hp
        | cons x xs =>
          simp only [List.cons_append, List.cons.injEq] at e
          exact ⟨xs, p, post, e.2, hp, fun q h' => hq q (by simp [h'])⟩
    · simp only [getitem, hd]
      constructor
      · intro e; cases e
        exact ⟨[], d, r, by simp, hd, by simp⟩
      · rintro ⟨pre, p, post, e, hp, hq⟩
        cases pre with
        | nil =>
          simp only [List.nil_append, List.cons.injEq] at e
          rw [← e.1, hd] at hp; exact hp
        | cons x xs =>
          simp only [List.cons_append, List.cons.injEq] at e
          have := hq x (by simp)
          rw [← e.1, hd] at this; cases this

theorem getitem_append (a b : List Dict) (k : Nat) :
    getitem (a ++ b) k = match getitem a k with | some v => some v | none => getitem b k := by
  induction a with
  | nil => simp [getitem]
  | cons p r ih =>
    simp only [List.cons_append, getitem]
    rcases p.get? k with _ | v
    · simpa using ih
    · simp

theorem filterMap_congr' {f g : Nat → Option Nat} (l : List Nat) (h : ∀ k ∈ l, f k = g k) :
    l.filterMap f = l.filterMap g := by
  induction l with
  | nil => rfl
  | cons a r ih =>
    have h1 := h a (by simp)
    have h2 := ih (fun k hk => h k (by simp [hk]))
    simp only [List.filterMap_cons, h1, h2]

/-- in a dict (distinct keys) the values are the lookups of the keys, in order -/
theorem values_eq_lookups (d : Dict) (h : d.wf) : d.map (·.2) = d.keys.filterMap d.get? := by
  induction d with
  | nil => simp [Dict.keys]
  | cons ab r ih =>
    obtain ⟨a, b⟩ := ab
    have hr : Dict.wf r := by
      simp only [Dict.wf, Dict.keys, List.map_cons, List.nodup_cons] at h ⊢; exact h.2
    have ha : a ∉ Dict.keys r := by
      simp only [Dict.wf, Dict.keys, List.map_cons, List.nodup_cons] at h ⊢; exact h.1
    have hcongr : (Dict.keys r).filterMap (Dict.get? ((a, b) :: r)) = (Dict.keys r).filterMap (Dict.get? r) := by
      apply filterMap_congr'
      intro k hk
      have : ¬ a = k := fun e => ha (e ▸ hk)
      simp [Dict.get?, this]
    have hhead : Dict.get? ((a, b) :: r) a = some b := by simp [Dict.get?]
    show b :: r.map (·.2) = (a :: Dict.keys r).filterMap (Dict.get? ((a, b) :: r))
    rw [List.filterMap_cons, hhead, hcongr, ← ih hr]

theorem iteritems_wf (ds : List Dict) : (iteritems ds).wf := iter_nodup ds

end SuppModel.MDict
