/- C02, comprehensions: why `C02_sound` needs `lateRead s r x = false`.
   `[… for i in … if T(j) for j in …]`: the condition of the first generator reads `j`, the variable of the second.  On the
   second trip of the outer loop `j` still holds what the inner loop left behind (model semantics: a failing read goes
   on; real Python raises UnboundLocalError at the first evaluation, so CPython never observes this), while supp looks
   `j` up outside the comprehension. -/
import SuppModel.Props.C02
namespace SuppModel.Witness.C02
open SuppModel.Den

def late : Stmt :=
  .comp .skip (.cfor (.bind "i" 1) (.read "j" 5) (.seq .skip (.cfor (.bind "j" 2) .skip (.read "j" 6))))

theorem late_in_fragment : inC02 late = true := by decide
theorem late_is_late : lateRead late 5 "j" = true := by decide

theorem late_reach : ∃ σr, Reach late State.init 5 σr ∧ σr "j" = some 2 :=
  ⟨_, .compS2 .skip (.iter .bind .read (.seqN .skip (.iter .bind .skip .read .done)) (.iterS1 .bind .readStop)),
    by simp [State.upd]⟩

theorem late_not_listed : some 2 ∉ (at_ [] late 5 Tbl.empty Tbl.empty).get "j" := by decide

/-- `C02_sound` without the late-read hypothesis is false (in the model semantics) -/
theorem C02_sound_needs_late :
    ¬ ∀ (s : Stmt) (σ σr : State) (r : RId) (x : Ident) (T F : Tbl) (d : Site),
      inC02 s = true → r ∉ nestedReads s → Reach s σ r σr → (∀ d', σ x = some d' → some d' ∈ T.get x) →
      σr x = some d → some d ∈ (at_ [] s r T F).get x := by
  intro h
  obtain ⟨σr, hr, hx⟩ := late_reach
  exact late_not_listed (h late State.init σr 5 "j" Tbl.empty Tbl.empty 2 late_in_fragment (by decide) hr
    (by intro d' hd; simp [State.init] at hd) hx)

end SuppModel.Witness.C02
