/-
  C17 — negation witness for the construction before fix de6288d (`alt_names = list(set(allnames))`):
  two iteration orders of the same set of three alternatives give two different `location()` outputs,
  and a different exported `first_name`.  (Kept so that a revert is recognised as exactly this defect.)
-/
import SuppModel.Perm.Model

namespace SuppModel.Witness.C17
open SuppModel.Perm

def x (i l : Nat) : Alt := .name i [120] (l, 9) (l, 4) [109, 46, 112, 121]
/-- `if a: x = 1 / elif b: x = 2 / else: x = 3` -/
def alts : List Item := [.alt (x 1 3), .alt (x 2 5), .alt (x 3 7)]

def setOrder₁ : SetOrder Alt := SetOrder.ident Alt
def setOrder₂ : SetOrder Alt := SetOrder.rev Alt

/-- both are permutations of the same three alternatives -/
theorem C17_perm_same_set : (setOrder₁.order (dedup (flatten alts))).Perm (setOrder₂.order (dedup (flatten alts))) :=
  (setOrder₁.perm _).trans (setOrder₂.perm _).symm

/-- the legacy construction: two hash orders, two outputs -/
theorem C17_perm :
    locationLegacy setOrder₁ (fun a => [.one a]) alts ≠ locationLegacy setOrder₂ (fun a => [.one a]) alts := by decide

theorem C17_perm_first_name :
    (multiNameLegacy setOrder₁ alts).bind (fun m => firstName (.multi m)) ≠
    (multiNameLegacy setOrder₂ alts).bind (fun m => firstName (.multi m)) := by decide

/-- the legacy output under `setOrder₂` is not in source order -/
theorem C17_perm_not_source_order :
    altNamesLegacy setOrder₂ alts = [x 3 7, x 2 5, x 1 3] := by decide

/-- the present construction on the same input and the same two orders: one output, in source order -/
theorem C17_fixed_same :
    location setOrder₁ (fun a => [.one a]) alts = location setOrder₂ (fun a => [.one a]) alts ∧
    altNames setOrder₂ alts = [x 1 3, x 2 5, x 3 7] := by decide

end SuppModel.Witness.C17
