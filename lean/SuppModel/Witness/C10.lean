/-
  C10, legacy witness (finding `lint-raises-multiname-locals`, FIXED in /repo by f39595c).

  Before the fix the usage loop tested `sname.name == 'locals' and sname.location == (0, 0)`; on

      def g():
          zz = 1
      def f(c):
          if c:
              locals = 1
          return locals()

  the read of `locals` resolves to MultiName([AssignedName locals, RuntimeName locals]), `MultiName.location`
  raised AttributeError and the never-read local `zz` of `g` was not reported (nothing was).  `Legacy.usageStep`
  keeps that loop only to carry the witness; the current loop (`SuppModel.Lint.usageStep`) answers and reports `zz`.
-/
import SuppModel.Lint.Spec

namespace SuppModel.Witness.C10
open SuppModel.Lint

namespace Legacy

/-- the usage loop as it was before f39595c: differs from `SuppModel.Lint.usageStep` in the MultiName case only -/
def usageStep (st : St) (r : Read) : Except PyErr St :=
  match r.flow with
  | some fl =>
    match fl.table.lookup r.id with
    | some (.multi nm alts) =>
      if nm = "locals" then .error .attributeError          -- `sname.location` on a MultiName
      else .ok { st with used := alts ++ st.used }
    | _ => SuppModel.Lint.usageStep st r
  | none => SuppModel.Lint.usageStep st r

def usageLoop : St → List Read → Except PyErr St
  | st, [] => .ok st
  | st, r :: rs =>
    match usageStep st r with
    | .ok st' => usageLoop st' rs
    | .error e => .error e

def lintModel (m : Module) : Except PyErr (List Diag) :=
  match usageLoop St.init m.reads with
  | .ok st => .ok (st.diags ++ m.allNames.filterMap (reportOf st))
  | .error e => .error e

end Legacy

def crashModule : Module where
  allNames := [
    ⟨0, "g", .funcdef, .module, 0, false, (1, 4), (2, 4)⟩,
    ⟨1, "f", .funcdef, .module, 0, false, (3, 4), (4, 4)⟩,
    ⟨2, "zz", .assigned, .function, 1, false, (2, 4), (2, 10)⟩,
    ⟨3, "c", .argument, .function, 2, false, (3, 6), (4, 4)⟩,
    ⟨4, "locals", .assigned, .function, 2, false, (5, 8), (5, 18)⟩]
  reads := [
    ⟨"c", (4, 7), some ⟨2, [("c", .single ⟨some 3, "c", false, some 2, false⟩)]⟩⟩,
    ⟨"locals", (6, 11), some ⟨2, [("c", .single ⟨some 3, "c", false, some 2, false⟩),
                                   ("locals", .multi "locals" [4])]⟩⟩]

/-- the loop of the old tree raised on it ... -/
theorem legacy_crash : Legacy.lintModel crashModule = .error .attributeError := by rfl

/-- ... the loop of the current tree answers: the unread module-level defs are exempt, `zz` is reported -/
theorem fixed_answer : lintModel crashModule = .ok [⟨"W01", "Unused name: zz", 2, 4⟩] := by rfl

/-- the hypotheses of the C10 theorems hold of it, and `zz` is a never-read local the sentence wants reported -/
theorem crash_in_domain :
    TableWellKeyed crashModule ∧ RefsScoped crashModule ∧ NoDupIds crashModule ∧
    NeverRead crashModule ⟨2, "zz", .assigned, .function, 1, false, (2, 4), (2, 10)⟩ ∧
    spec (specFactsOf ⟨2, "zz", .assigned, .function, 1, false, (2, 4), (2, 10)⟩ false) = some .W01 := by
  decide

end SuppModel.Witness.C10
