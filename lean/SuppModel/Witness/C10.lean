/-
  C10, negation witness of `C10_total_stmt`: a module on which the usage loop of `lint` raises.

  Real input (harness/c10.py replays it; KNOWN_FINDINGS class `lint-raises-multiname-locals`):

      def g():
          zz = 1
      def f(c):
          if c:
              locals = 1
          return locals()

  The read of `locals` at the `return` resolves to MultiName([AssignedName locals, RuntimeName locals]);
  `sname.name == 'locals' and sname.location == (0, 0)` evaluates `MultiName.location` -> AttributeError,
  so the never-read local `zz` of `g` is not reported (nothing is).
-/
import SuppModel.Lint.Spec

namespace SuppModel.Witness.C10
open SuppModel.Lint

def crashModule : Module where
  allNames := [
    ⟨0, "g", .funcdef, .module, 0, false, (1, 4), (2, 4)⟩,
    ⟨1, "f", .funcdef, .module, 0, false, (3, 4), (4, 4)⟩,
    ⟨2, "zz", .assigned, .function, 1, false, (2, 4), (2, 10)⟩,
    ⟨3, "c", .argument, .function, 2, false, (3, 6), (4, 4)⟩,
    ⟨4, "locals", .assigned, .function, 2, false, (5, 8), (5, 18)⟩]
  reads := [
    ⟨"c", (4, 7), some ⟨2, [("c", .single ⟨some 3, "c", false, some 2, false⟩)]⟩⟩,
    ⟨"locals", (6, 11), some ⟨2, [("c", .single ⟨some 3, "c", false, some 2, false⟩),
                                   ("locals", .multi "locals" [4])]⟩⟩]

theorem crash : lintModel crashModule = .error .attributeError := by rfl

/-- the hypotheses of the C10 theorems hold of it, and `zz` is a never-read local the sentence wants reported -/
theorem crash_in_domain :
    TableWellKeyed crashModule ∧ RefsScoped crashModule ∧ NoDupIds crashModule ∧
    NeverRead crashModule ⟨2, "zz", .assigned, .function, 1, false, (2, 4), (2, 10)⟩ ∧
    spec (specFactsOf ⟨2, "zz", .assigned, .function, 1, false, (2, 4), (2, 10)⟩ false) = some .W01 := by
  decide

theorem not_total : ¬ C10_total_stmt := by
  intro h
  obtain ⟨ds, hds⟩ := h crashModule
  rw [crash] at hds
  cases hds

end SuppModel.Witness.C10
