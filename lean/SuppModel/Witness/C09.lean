/-
  C09 — the two earlier behaviours of `check_changes` are stale, by evaluation.
  (Both were repaired in /repo: b5a1370 and 07fdbb8; `Props/C09.lean` proves the property for `.current`.)
-/
import SuppModel.Proj.Model
import SuppModel.Proj.Norm

namespace SuppModel.Witness
open SuppModel.Proj

/-- modules a = [1], b = [2]; names K = 10, L = 11 -/
def starDisk : Disk := [([1], ⟨1, [.star [2]]⟩), ([2], ⟨2, [.bind 10 7]⟩)]

def starHistory : List Op :=
  [.request (.names [1] none), .write [2] 3 [.bind 11 8], .request (.names [1] none)]

/-- pinned tree: `a: from b import *`, rewrite b, ask for a's names through `import a` — the second
    answer is still b's old name K although a fresh project says L -/
theorem C09_star :
    (run .pinned 10 (World.init .pinned starDisk) starHistory).map (·.2.2) = [.names [10], .names [10]] ∧
    fresh 10 ((run .pinned 10 (World.init .pinned starDisk) starHistory).getLast!.1) (.names [1] none)
      = .names [11] := by decide

/-- the same history is answered correctly by the other two variants -/
theorem C09_star_repaired :
    (run .coarseOnly 10 (World.init .coarseOnly starDisk) starHistory).map (·.2.2) = [.names [10], .names [11]] ∧
    (run .current 10 (World.init .current starDisk) starHistory).map (·.2.2) = [.names [10], .names [11]] := by
  decide

/-- resolved imported name (`_ref`): `a: from b import K`, rewrite b so that K is something else -/
theorem C09_ref :
    (run .pinned 10 (World.init .pinned [([1], ⟨1, [.frm [2] 10 10]⟩), ([2], ⟨2, [.bind 10 7]⟩)])
      [.request (.attr [1] none 10), .write [2] 3 [.bind 10 8], .request (.attr [1] none 10)]).map (·.2.2)
      = [.payload 7, .payload 7] := by decide

def createdDisk : Disk := [([1], ⟨1, [.frm [2] 10 10, .star [2]]⟩)]

def createdHistory : List Op :=
  [.request (.attr [1] none 10), .write [2] 2 [.bind 10 7], .request (.attr [1] none 10),
   .request (.names [1] none)]

/-- b5a1370 alone: a imports b before b exists; create b; requests through a still see nothing of b
    (no cached module changed, and the failed import is memoised in a's cached analysis) -/
theorem C09_created :
    (run .coarseOnly 10 (World.init .coarseOnly createdDisk) createdHistory).map (·.2.2)
      = [.nothing, .nothing, .names [10]] ∧
    (run .current 10 (World.init .current createdDisk) createdHistory).map (·.2.2)
      = [.nothing, .payload 7, .names [10, 10]] := by decide

/-- a single history on which the check fails refutes transparency of that variant -/
theorem not_transparent_of {v : Variant} {fuel : Nat} {D0 : Disk} {ops : List Op}
    (hf : freshMtimes (seenOf D0) ops = true) (hbad : transparentOn v fuel D0 ops = false) :
    ¬ Transparent v := by
  intro h
  have : transparentOn v fuel D0 ops = true := by
    unfold transparentOn
    rw [List.all_eq_true]
    intro r hr
    have := h fuel D0 ops hf r hr
    by_cases h1 : r.2.2 = .recursion
    · simp [h1]
    · by_cases h2 : fresh fuel r.1 r.2.1 = .recursion
      · simp [h2]
      · simp [this h1 h2]
  rw [hbad] at this
  cases this

/-- the same when the history uses absolute imports only -/
theorem not_transparentAbs_of {v : Variant} {fuel : Nat} {D0 : Disk} {ops : List Op}
    (ha : absDisk D0 = true) (hf : freshMtimes (seenOf D0) ops = true) (ho : ops.all Op.isAbs = true)
    (hbad : transparentOn v fuel D0 ops = false) : ¬ TransparentAbs v := by
  intro h
  have : transparentOn v fuel D0 ops = true := by
    unfold transparentOn
    rw [List.all_eq_true]
    intro r hr
    have := h fuel D0 ha ops hf ho r hr
    by_cases h1 : r.2.2 = .recursion
    · simp [h1]
    · by_cases h2 : fresh fuel r.1 r.2.1 = .recursion
      · simp [h2]
      · simp [this h1 h2]
  rw [hbad] at this
  cases this

/-- the pinned tree does not have the property (absolute imports suffice) -/
theorem C09_pinned_false : ¬ TransparentAbs .pinned :=
  not_transparentAbs_of (fuel := 10) (D0 := starDisk) (ops := starHistory)
    (by decide) (by decide) (by decide) (by decide)

/-- nor does b5a1370 alone -/
theorem C09_coarseOnly_false : ¬ TransparentAbs .coarseOnly :=
  not_transparentAbs_of (fuel := 10) (D0 := createdDisk) (ops := createdHistory)
    (by decide) (by decide) (by decide) (by decide)

/-- a = [1]: `from b import *` (unchanged), b = [2] cached at mtime 50 -/
def ltDisk : Disk := [([1], ⟨50, [.star [2]]⟩), ([2], ⟨50, [.bind 10 7]⟩)]

/-- request through a; b is rewritten and gets an OLDER mtime (restored from a backup, checked out by git,
    clock skew); the same request -/
def ltHistory : List Op :=
  [.request (.names [1] none), .write [2] 30 [.bind 11 8], .request (.names [1] none)]

/-- `changed` written as `self.mtime < getmtime(...)`: the rewrite to an older mtime goes unnoticed and the
    second answer is b's old name, where a fresh project — and the code as it is, with `!=` — says L -/
theorem C09_lt :
    (run .ltChanged 10 (World.init .ltChanged ltDisk) ltHistory).map (·.2.2) = [.names [10], .names [10]] ∧
    (run .current 10 (World.init .current ltDisk) ltHistory).map (·.2.2) = [.names [10], .names [11]] ∧
    freshMtimes (seenOf ltDisk) ltHistory = true := by decide

/-- so that variant is not transparent, on a 3-step history with absolute imports and fresh mtimes -/
theorem C09_lt_false : ¬ TransparentAbs .ltChanged :=
  not_transparentAbs_of (fuel := 10) (D0 := ltDisk) (ops := ltHistory)
    (by decide) (by decide) (by decide) (by decide)

/-- package `zq_p8.zq_p9` = [8, 9] with `__init__`, but `zq_p8/` has no `__init__.py` yet;
    `zq_p8/zq_p9/zq_m1.py`: `from .zq_m2 import K10`; `zq_p8/zq_p9/zq_m2.py`: `class K10` -/
def normDisk : Disk :=
  [([8, 9], ⟨1, []⟩), ([8, 9, 2], ⟨2, [.bind 10 1]⟩), ([8, 9, 1], ⟨3, [.rfrm 0 [2] 10 10]⟩)]

/-- `from zq_p8.zq_p9 import zq_m1; zq_m1.K10.` — create `zq_p8/__init__.py` — the same request -/
def normHistory : List Op :=
  [.request (.attr [8, 9] (some 1) 10), .write [8] 4 [], .request (.attr [8, 9] (some 1) 10)]

/-- the code before a1df565 (`.noRenorm`).  After `zq_p8/__init__.py` appears, the relative name `.zq_m2` means
    `zq_p8.zq_p9.zq_m2` to a fresh project (which finds `K10`), but the long-lived project keeps the
    `_norm_cache` entry `zq_p9` for that directory and goes on looking for `zq_p9.zq_m2`:
    `check_changes` never dropped `_norm_cache` (it does since a1df565: `_renormed`). -/
theorem C09_norm_history :
    (run .noRenorm 10 (World.init .noRenorm normDisk) normHistory).map (·.2.2) = [.nothing, .nothing] ∧
    fresh 10 (([8], ⟨4, []⟩) :: normDisk) (.attr [8, 9] (some 1) 10) = .payload 1 ∧
    (run .current 10 (World.init .current normDisk) normHistory).map (·.2.2) = [.nothing, .payload 1] := by
  decide

/-- hence the full-strength statement (relative imports included) was false of that code -/
theorem C09_norm_false : ¬ Transparent .noRenorm :=
  not_transparent_of (fuel := 10) (D0 := normDisk) (ops := normHistory) (by decide) (by decide)

/-- the same defect in `norm_package` taken alone.
    `zq_p8/zq_p9/` is a package, `zq_p8/` is not yet; a module in `zq_p8/zq_p9/` does `from .zq_m2 import K`:
    the name is normalised to `zq_p9.zq_m2` and the directory's package path is cached.  Then
    `zq_p8/__init__.py` is created: a fresh project normalises to `zq_p8.zq_p9.zq_m2`, the long-lived one
    keeps answering `zq_p9.zq_m2` — `check_changes` never dropped `_norm_cache` (it does since a1df565: `_renormed`). -/
theorem C09_norm :
    let r1 := Norm.normPackage (fun d => d ∈ [[8, 9]]) false [] [8, 9] 1 [2]
    let r2 := Norm.normPackage (fun d => d ∈ [[8], [8, 9]]) false r1.2 [8, 9] 1 [2]
    r1.1 = some [9, 2] ∧ r2.1 = some [9, 2] ∧
      Norm.freshNorm (fun d => d ∈ [[8], [8, 9]]) [8, 9] 1 [2] = some [8, 9, 2] := by
  decide

end SuppModel.Witness
