/-
  C16 — what the two `fix:` commits repaired, as concrete schedules of the model's legacy variants
  (proved by evaluation; they also show that the model can exhibit the failures).
-/
import SuppModel.Startup.Model

namespace SuppModel.Witness.C16
open SuppModel.Startup

/-- thread 0 calls prepare(), thread 1 makes a call; thread 2 is the starter created by prepare() -/
def raceWorkload : List (List Op) := [[.prepare], [.call]]

/-- prepare() runs to its end; the caller enters run(), passes `if self.prepare_thread:`;
    the starter runs to its end (clearing the field); the caller evaluates `self.prepare_thread.join()` -/
def raceSchedule : List Tid := [0,0,0,0,0,0, 1,1,1,1,1,1, 2,2,2, 1, 1]

/-- pre-fix `run()`: the caller ends with AttributeError (`None.join()`) although exactly one
    server was launched -/
theorem C16_join_race :
    let s := exec .legacyJoin false raceSchedule (init raceWorkload)
    (s.threads[1]?.map (·.out)) = some (.raised .attributeError) ∧ s.popen = 1 ∧ s.lock = none := by
  decide

/-- every decision of that schedule names a runnable thread (nothing was skipped) -/
theorem C16_join_race_strict :
    (execStrict .legacyJoin false raceSchedule (init raceWorkload)).isSome = true := by
  decide

/-- the same schedule on the current source: the call is answered -/
theorem C16_join_race_fixed :
    let s := exec .current false (raceSchedule ++ [1,1,1,1,1,1]) (init raceWorkload)
    (s.threads[1]?.map (fun th => (th.out, th.answered))) = some (.returned, 1) ∧ s.popen = 1 := by
  decide

/-- pre-fix `close()`: TypeError before anything is sent; the server stays alive and `conn` stays -/
theorem C16_close_typeerror :
    let s := exec .legacyClose false (List.replicate 17 0) (init [[.call, .close]])
    (s.threads[0]?.map (·.out)) = some (.raised .typeError) ∧ s.live = true ∧ s.conn.isSome = true ∧
    s.closeMsgs = 0 := by
  decide

/-- the current source on the same schedule: one close message, server gone, conn forgotten -/
theorem C16_close_fixed :
    let s := exec .current false (List.replicate 19 0) (init [[.call, .close]])
    (s.threads[0]?.map (·.out)) = some .returned ∧ s.live = false ∧ s.conn = none ∧ s.closeMsgs = 1 := by
  decide

end SuppModel.Witness.C16
