/-
  C07 — negation witness for the full statement (no `NoSplitPackage` hypothesis): a package split
  across two roots.  r1/pk/__init__.py, r2/pk/__init__.py, r2/pk/m2.py with path [r1, r2]:
  supp's get_module scans every root for the full dotted path and analyses r2/pk/m2.py, while the
  import system binds `pk` to r1/pk and searches `m2` only there: ModuleNotFoundError.
-/
import SuppModel.Generated.Fs

namespace SuppModel.Witness
open SuppModel.Fs SuppModel.Fs.Generated

def r1 : Str := [114, 49]
def r2 : Str := [114, 50]
def pk : Str := [112, 107]
def m2 : Str := [109, 50]

def splitFs : Fs :=
  { files := [[r1, pk, INIT_PY], [r2, pk, INIT_PY], [r2, pk, m2 ++ PY]], dirs := [] }

/-- "pk.m2" -/
def pk_m2 : Str := pk ++ DOT :: m2

/-- every other domain hypothesis of C07_find holds, the model finds r2/pk/m2.py, the specification
    finds nothing, and `NoSplitPackage` is exactly what fails -/
theorem C07_split :
    validComps (splitOn DOT pk_m2) = true ∧
    NoNamespaceDirs [[r1], [r2]] splitFs (splitOn DOT pk_m2) = true ∧
    NoModulePackageClash [[r1], [r2]] SUFFIXES splitFs (splitOn DOT pk_m2) = true ∧
    Regular [[r1], [r2]] SUFFIXES splitFs (splitOn DOT pk_m2) = true ∧
    NoExtensionNextToSource [[r1], [r2]] NONEXT_SUFFIXES EXTENSION_SUFFIXES splitFs (splitOn DOT pk_m2) = true ∧
    NoSplitPackage [[r1], [r2]] SUFFIXES SOURCE_SUFFIXES LOADER_SUFFIXES splitFs (splitOn DOT pk_m2) = false ∧
    getModule [[r1], [r2]] SUFFIXES SOURCE_SUFFIXES splitFs [] pk_m2 = .found [r2, pk, m2 ++ PY] true ∧
    importlibFind LOADER_SUFFIXES splitFs [[r1], [r2]] pk_m2 = none := by
  decide

/-! second recorded defect: an extension module next to its source.  r1/m.py + r1/m.abi3.so, path [r1]:
    supp tries `.py` before the extension suffixes and analyses m.py; FileFinder tries the extension
    suffixes first and `import m` loads m.abi3.so. -/

def mName : Str := [109]
/-- ".abi3.so" -/
def ABI3 : Str := [46, 97, 98, 105, 51, 46, 115, 111]

def extFs : Fs := { files := [[r1, mName ++ PY], [r1, mName ++ ABI3]], dirs := [] }

/-- every other domain hypothesis of C07_find holds (no split either), `NoExtensionNextToSource` is exactly what
    fails, the model selects m.py and the specification m.abi3.so -/
theorem C07_ext_next_to_source :
    validComps (splitOn DOT mName) = true ∧
    NoNamespaceDirs [[r1]] extFs (splitOn DOT mName) = true ∧
    NoModulePackageClash [[r1]] SUFFIXES extFs (splitOn DOT mName) = true ∧
    Regular [[r1]] SUFFIXES extFs (splitOn DOT mName) = true ∧
    NoSplitPackage [[r1]] SUFFIXES SOURCE_SUFFIXES LOADER_SUFFIXES extFs (splitOn DOT mName) = true ∧
    NoExtensionNextToSource [[r1]] NONEXT_SUFFIXES EXTENSION_SUFFIXES extFs (splitOn DOT mName) = false ∧
    getModule [[r1]] SUFFIXES SOURCE_SUFFIXES extFs [] mName = .found [r1, mName ++ PY] true ∧
    importlibFind LOADER_SUFFIXES extFs [[r1]] mName = some (.file [r1, mName ++ ABI3] none) := by
  decide

end SuppModel.Witness
