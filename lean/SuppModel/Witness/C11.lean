/-
  C11 — concrete evaluations of the `find_id_loc` model: current behaviour next to the legacy behaviour
  (before the fix that extended IMPORT_END_DELIMETERS and stopped searching def / class names as
  `' ' + name` without delimiters), and the window limit that is still there today.
-/
import SuppModel.Text.Model
import SuppModel.Props.C11

namespace SuppModel.Witness.C11
open SuppModel.Text

/-! ### `import os#c`: `#` was not an end delimiter -/

theorem C11_import_comment_legacy :
    findIdLocLegacy ["import os#c".toList] "os".toList (1, 0) 0 true = (1, 0) := by decide

theorem C11_import_comment :
    findIdLoc ["import os#c".toList] "os".toList (1, 0) 0 true = (1, 7) := by decide

/-! ### line continuation right after the name: `\` was not an end delimiter -/

theorem C11_import_backslash_legacy :
    findIdLocLegacy ["from a import b\\".toList, ", c".toList] "b".toList (1, 0) 0 true = (1, 0) := by
  decide

theorem C11_import_backslash :
    findIdLoc ["from a import b\\".toList, ", c".toList] "b".toList (1, 0) 0 true = (1, 14) := by decide

/-! ### `def<TAB>f`: the legacy search for `' f'` misses the name -/

theorem C11_def_tab_legacy :
    declaredAtDefLegacy ["def\tf(): pass".toList] "f".toList (1, 0) = (1, 0) := by decide

theorem C11_def_tab :
    declaredAt Generated.funcSite ["def\tf(): pass".toList] "f".toList (1, 0) = (1, 4) := by decide

/-! ### `async def d`: the legacy search for `' d'` finds the `d` of `def` -/

theorem C11_async_def_legacy :
    declaredAtDefLegacy ["async def d(): pass".toList] "d".toList (1, 0) = (1, 6) := by decide

theorem C11_async_def :
    declaredAt Generated.funcSite ["async def d(): pass".toList] "d".toList (1, 0) = (1, 10) := by decide

/-! ### `class<TAB>A` -/

theorem C11_class_tab_legacy :
    declaredAtDefLegacy ["class\tA: pass".toList] "A".toList (1, 0) = (1, 0) := by decide

theorem C11_class_tab :
    declaredAt Generated.classSite ["class\tA: pass".toList] "A".toList (1, 0) = (1, 6) := by decide

/-! ### still true today: the search window is `lines[sl-1 : sl+50]` -/

/-- the imported name is on line 53, outside `lines[0:51]`: the keyword position is reported -/
theorem C11_window_limit :
    findIdLoc ("from a import (".toList :: List.replicate 51 [] ++ ["  x)".toList]) "x".toList (1, 0) 0 true
      = (1, 0) := by decide +kernel

/-- on line 51 (the last line of the window) it is still found -/
theorem C11_window_last :
    findIdLoc ("from a import (".toList :: List.replicate 49 [] ++ ["  x)".toList]) "x".toList (1, 0) 0 true
      = (51, 2) := by decide +kernel

/-! ### delimiters on both sides: `import os, osx, os2 as os` -/

theorem C11_import_os :
    findIdLoc ["import os, osx, os2 as os".toList] "os".toList (1, 0) 0 true = (1, 7) := by decide

theorem C11_import_osx :
    findIdLoc ["import os, osx, os2 as os".toList] "osx".toList (1, 0) 0 true = (1, 11) := by decide

/-! ### fixed by 50717df: `[` was not an end delimiter, `class A[T]:` fell back to the keyword -/

theorem C11_pep695_legacy :
    findIdLocPre695 ["class A[T]: pass".toList] "A".toList (1, 0) 0 true = (1, 0) ∧
    findIdLocPre695 ["def f[T](x): pass".toList] "f".toList (1, 0) 0 true = (1, 0) ∧
    findIdLocPre695 ["class A [T]: pass".toList] "A".toList (1, 0) 0 true = (1, 6) := by decide

/-- ... or landed on a later delimited occurrence of the same text -/
theorem C11_pep695_later_legacy :
    findIdLocPre695 ["class ab[T]: pass".toList, "with ab as x: pass".toList] "ab".toList (1, 0) 0 true = (2, 5) := by
  decide

theorem C11_pep695 :
    declaredAt Generated.classSite ["class A[T]: pass".toList] "A".toList (1, 0) = (1, 6) ∧
    declaredAt Generated.funcSite ["def f[T](x): pass".toList] "f".toList (1, 0) = (1, 4) ∧
    declaredAt Generated.classSite ["class ab[T]: pass".toList, "with ab as x: pass".toList] "ab".toList (1, 0) = (1, 6) := by
  decide

/-! ### fixed by f8cda8c: `Source.lines` used `str.splitlines`, which also breaks at form feeds.
    For the text "x = 1\\n\\x0c\\nimport os\\ndef f(): pass\\n" the parser sees 4 lines and reports the import at (3, 0);
    `str.splitlines` gave 5 lines, and the search started at line 3 of THOSE lines answered (4, 7) -- line 4 of the
    parser's numbering is `def f(): pass`.  `util.splitlines` gives the parser's 4 lines and the answer (3, 7). -/

theorem C11_formfeed_legacy :
    splitlinesLegacy "x = 1\n\x0c\nimport os\ndef f(): pass\n".toList =
      ["x = 1".toList, [], [], "import os".toList, "def f(): pass".toList] ∧
    findIdLoc (splitlinesLegacy "x = 1\n\x0c\nimport os\ndef f(): pass\n".toList) "os".toList (3, 0) 0 true = (4, 7) := by
  decide

theorem C11_formfeed :
    splitlines "x = 1\n\x0c\nimport os\ndef f(): pass\n".toList =
      ["x = 1".toList, ['\x0c'], "import os".toList, "def f(): pass".toList] ∧
    findIdLoc (splitlines "x = 1\n\x0c\nimport os\ndef f(): pass\n".toList) "os".toList (3, 0) 0 true = (3, 7) := by
  decide

/-! ### fixed by 4a16e68: `location()` reported positions of the MARKED text.  `x = 1\n[nn for nn in x]`, cursor (2, 3):
    the comprehension variable stands at (2, 8); the marked analysis has it at (2, 21) -/

theorem C11_location_shift_legacy :
    (locationEntryLegacy { name := "nn".toList, declaredAt := markedPos (2, 3) (2, 8), filename := "m.py".toList }).loc = (2, 21) ∧
    (locationEntry "m.py".toList (2, 3)
      { name := "nn".toList, declaredAt := markedPos (2, 3) (2, 8), filename := "m.py".toList }).loc = (2, 8) := by decide

end SuppModel.Witness.C11
