/-
  Extract — negation witness: without the restriction on PEP 695 type parameters
  `extract_every_load_has_flow_stmt` is false of the current code.  The tree is what
  `ast.parse("b = int\ndef f[T: b](): pass\n")` serialises to; on it the real linter reports
  ('E42', 'UNKNOWN NAME: b', 2, 9) (harness/extractcorr.py: `type_params_witness`).
-/
import SuppModel.Props.Extract

namespace SuppModel.Witness.Extract
open SuppModel.Flow SuppModel.Extract SuppModel.Props.Extract

private def nm (id ctx : String) (l c : Nat) : Ast :=
  .node "Name" (some (l, c)) ["id", "ctx"] [.str id, .str ctx]

def tpTree : Ast :=
  .node "Module" none ["body", "type_ignores"] [.list [
    .node "Assign" (some (1, 0)) ["targets", "value", "type_comment"] [.list [nm "b" "Store" 1 0], nm "int" "Load" 1 4, .none],
    .node "FunctionDef" (some (2, 0)) ["name", "args", "body", "decorator_list", "returns", "type_comment", "type_params"]
      [.str "f",
       .node "arguments" none ["posonlyargs", "args", "vararg", "kwonlyargs", "kw_defaults", "kwarg", "defaults"]
         [.list [], .list [], .none, .list [], .list [], .none, .list []],
       .list [.node "Pass" (some (2, 15)) [] []], .list [], .none, .none,
       .list [.node "TypeVar" (some (2, 6)) ["name", "bound"] [.str "T", nm "b" "Load" 2 9]]]
    ], .list []]

def tpLines : List Text.Str := ["b = int".toList, "def f[T: b](): pass".toList]

/-- the tree is well-shaped, extraction succeeds, and the read of `b` at (2, 9) has no flow -/
theorem type_params_read_gets_no_flow :
    wellShaped tpTree = true ∧ noTypeParams tpTree = false ∧ (some (2, 9), "b") ∈ loads tpTree ∧
    (match extract tpLines [] tpTree with
     | .ok st => st.flowAttrs.all (fun a => !(a.1 == some (2, 9) && a.2.1 == "b"))
     | .error _ => false) = true := by
  decide +kernel

theorem extract_every_load_has_flow_stmt_false : ¬ extract_every_load_has_flow_stmt := by
  intro h
  have hw : wellShaped tpTree = true := by decide +kernel
  obtain ⟨st, hst⟩ := extract_total tpLines [] tpTree hw
  have hk : (some (2, 9), "b") ∈ loads tpTree := by decide +kernel
  obtain ⟨f, hf⟩ := h tpLines [] tpTree st hw hst _ hk
  have hall : (match extract tpLines [] tpTree with
     | .ok st => st.flowAttrs.all (fun a => !(a.1 == some (2, 9) && a.2.1 == "b"))
     | .error _ => false) = true := by decide +kernel
  rw [hst] at hall
  simp only [List.all_eq_true] at hall
  have := hall _ hf
  simp at this

end SuppModel.Witness.Extract
