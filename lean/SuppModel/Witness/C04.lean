/-
  C04 — witnesses proved by evaluation (`decide +kernel`).

  The memoised evaluator of Flow/Memo.lean (= scope.py after the rework "every table is cached
  together with the loop resolutions whose cut edge it met": `loop_tracked`, one cache slot per
  object, reuse iff all `deps` are still in progress) is still NOT a memoisation of the pure
  evaluator on every graph, and its answers still DO depend on the history on some graphs.

  Mechanism (gSingle).  Flow 3 has two loop predecessors, loop 0 (target 3) and loop 1 (target 2);
  flow 2 has predecessors flow 1 and loop 0.  Cold query at flow 3:
    * loop 0 is resolved at top level (resolution 1); inside, loop 1 is met and resolved in a
      NESTED resolution (2); flow 2 meets loop 0's cut edge, so loop 1's table is stored with
      deps {(0,1)} and becomes unusable when resolution 1 ends; loop 0's table — which was built
      from loop 1 being RESOLVED — is stored with its own resolution dropped from its deps:
      deps = ∅, final;
    * then loop 1 is resolved at top level (resolution 3, its entry is unusable); flow 2 asks for
      loop 0 and the final entry is reused, although under "loop 1 is being resolved" the pure
      evaluator's loop 0 sees loop 1 UNRESOLVED.
  The same happens in scope.py when these four regions are built by hand from `Flow` /
  `LoopFlow` objects (`f3.names_at((9, 9))['b']` is the plain Name, not a MultiName with
  UndefinedName).  What is missing from an entry is the set of loops that were RESOLVED to
  compute it: the checked evaluator of Flow/Checked.lean records it and gives up on such a reuse.
  These two graphs are not extractor-shaped (a flow whose only predecessors are loop edges, a
  loop edge listed before the forward edge).  On the for/for graph `gNested` below, which is,
  such reuses DO happen (the check fires), the intermediate tables differ from the pure
  evaluator's, and yet every answer agrees with the pure evaluator in every order tried: there
  the property rests on the correspondence / oracle search of harness/c04.py only.
-/
import SuppModel.Props.C04

namespace SuppModel.Witness.C04
open SuppModel.Flow SuppModel.Props.C04

private def nm (i : Nat) (s : String) : NameRec := { id := i, name := s, loc := (1, 0), scope := 0 }
private def modScope (fin : Nat) : ScopeRec := ScopeRec.mk 0 .module none [] fin []

/-- one cold query already differs from the pure evaluator -/
def gSingle : Graph :=
  Graph.mk
    [FlowRec.mk 0 0 [nm 0 "b"] [],
     FlowRec.mk 1 0 [] [Parent.flow 0],
     FlowRec.mk 2 0 [nm 2 "a"] [Parent.flow 1, Parent.loop 0 3],
     FlowRec.mk 3 0 [] [Parent.loop 0 3, Parent.loop 1 2]]
    [modScope 3] []

def qSingle : Query := ⟨3, (9, 9), "b"⟩

theorem C04_single_memo :
    runQueries gSingle 15 {} [qSingle] = [some (some [.nm 0])] := by decide +kernel

theorem C04_single_pure :
    lookupAt gSingle 15 3 (9, 9) "b" = some (some [.undef "b", .nm 0]) := by decide +kernel

/-- the full-strength history statement is false of the model -/
theorem C04_history_false : ¬ C04_history_stmt := by
  intro h
  obtain ⟨n', hn'⟩ := h gSingle 15 [qSingle] 0 qSingle (some [.nm 0]) rfl
    (by rw [C04_single_memo]; rfl)
  have := C04_pure_deterministic gSingle n' 15 3 (9, 9) "b" _ _ hn' C04_single_pure
  revert this
  decide

/-- the entry that is wrongly reused: after the cold query, loop 0's table is cached as FINAL
    (no deps) while loop 1's first table died with resolution 1 -/
theorem C04_single_entries :
    ((mNamesAt gSingle 15 {} 3 (9, 9)).map (fun r =>
        (r.1.entries.filter (fun e => e.key = .loop 0 3 ∨ e.key = .loop 1 2)).map
          (fun e => (e.key, e.deps)))) =
      some [(.loop 1 2, []), (.loop 0 3, []), (.loop 1 2, [(0, 1)])] := by decide +kernel

/-- genuine history dependence: the answer to `qDep` depends on whether flow 0 was queried before -/
def gDep : Graph :=
  Graph.mk
    [FlowRec.mk 0 0 [nm 0 "b"] [Parent.loop 0 1],
     FlowRec.mk 1 0 [nm 1 "a"] [Parent.loop 1 2, Parent.flow 0],
     FlowRec.mk 2 0 [nm 2 "a"] [Parent.loop 0 1]]
    [modScope 2] []

def qWarm : Query := ⟨0, (9, 9), "b"⟩
def qDep : Query := ⟨1, (9, 9), "b"⟩

theorem C04_dep_warm :
    runQueries gDep 13 {} [qWarm, qDep] = [some (some [.nm 0]), some (some [.undef "b", .nm 0])] := by
  decide +kernel

theorem C04_dep_cold : runQueries gDep 13 {} [qDep] = [some (some [.nm 0])] := by decide +kernel

/-- the full-strength two-histories statement is false of the model -/
theorem C04_two_histories_false : ¬ C04_two_histories_stmt := by
  intro h
  have := h gDep 13 13 [qWarm, qDep] [qDep] 1 0 qDep (some [.undef "b", .nm 0]) (some [.nm 0])
    rfl rfl (by rw [C04_dep_warm]; rfl) (by rw [C04_dep_cold]; rfl)
  revert this
  decide

/-- on both witnesses the checked evaluator gives up exactly on the answers that are wrong or
    history dependent (so the partial theorems do not apply to them) -/
theorem C04_checked_gives_up :
    runQueriesChecked gSingle 15 {} [qSingle] = [none] ∧
    runQueriesChecked gDep 13 {} [qWarm, qDep] = [some (some [.nm 0]), none] ∧
    runQueriesChecked gDep 13 {} [qDep] = [none] := by decide +kernel

/-- and the exact evaluator gives the pure evaluator's answers there, in both histories -/
theorem C04_exact_on_witnesses :
    runQueriesExact gSingle 15 {} [qSingle] = [some (some [.undef "b", .nm 0])] ∧
    runQueriesExact gDep 13 {} [qWarm, qDep] = [some (some [.nm 0]), some (some [.nm 0])] ∧
    runQueriesExact gDep 13 {} [qDep] = [some (some [.nm 0])] ∧
    lookupAt gDep 13 1 (9, 9) "b" = some (some [.nm 0]) := by decide +kernel

/-- `for i …: c; for j …: (if …: y); d` then `z`: an extractor-shaped graph with NESTED loops.
    flow 1 = outer head (back edge: loop 1 from flow 5), flow 2 = inner head (loop 2 from flow 4) -/
def gNested : Graph :=
  Graph.mk
    [FlowRec.mk 0 0 [nm 100 "x"] [],
     FlowRec.mk 1 0 [nm 101 "i", nm 102 "c"] [Parent.flow 0, Parent.loop 1 5],
     FlowRec.mk 2 0 [nm 103 "j"] [Parent.flow 1, Parent.loop 2 4],
     FlowRec.mk 3 0 [nm 104 "y"] [Parent.flow 2],
     FlowRec.mk 4 0 [] [Parent.flow 3, Parent.flow 2],
     FlowRec.mk 5 0 [nm 105 "d"] [Parent.flow 2],
     FlowRec.mk 6 0 [nm 106 "z"] [Parent.flow 1]]
    [modScope 6] []

def nestedHistory : List Query := [⟨6, (9, 9), "y"⟩, ⟨4, (0, 0), "y"⟩, ⟨4, (0, 0), "d"⟩]

/-- there the real evaluator agrees with the pure one, but the checked one gives up on the queries
    inside the loops: nested loops are outside the domain of `C04_history_partial` -/
theorem C04_nested_not_covered :
    runQueries gNested 40 {} nestedHistory =
      nestedHistory.map (fun q => lookupAt gNested 40 q.flow q.pos q.key) ∧
    runQueries gNested 40 {} nestedHistory =
      [some (some [.undef "y", .nm 104]), some (some [.undef "y", .nm 104]),
       some (some [.undef "d", .nm 105])] ∧
    runQueriesChecked gNested 40 {} nestedHistory = [some (some [.undef "y", .nm 104]), none, none] ∧
    runQueriesChecked gNested 40 {} nestedHistory.reverse =
      [none, none, some (some [.undef "y", .nm 104])] := by decide +kernel

/-- every (flow, name) pair of `gNested`, 49 queries -/
def nestedAll : List Query :=
  (List.range 7).flatMap (fun f => ["x", "i", "c", "j", "y", "d", "z"].map (fun k => ⟨f, (9, 9), k⟩))

def nestedAgrees (qs : List Query) : Bool :=
  runQueries gNested 40 {} qs == qs.map (fun q => lookupAt gNested 40 q.flow q.pos q.key) &&
  runQueriesExact gNested 40 {} qs == runQueries gNested 40 {} qs

/-- the real evaluator agrees with the pure one AND with the exact evaluator (the hypothesis of
    `C04_history_validated`) on all 49 queries of `gNested`, asked in any of the 49 rotations of
    the list and their reversals (98 histories) -/
theorem C04_nested_agrees_observationally :
    (List.range 49).all (fun k =>
      nestedAgrees (nestedAll.drop k ++ nestedAll.take k) &&
      nestedAgrees (nestedAll.drop k ++ nestedAll.take k).reverse) = true := by decide +kernel

end SuppModel.Witness.C04
