/-
  C04 (attribute evaluator) — witnesses proved by evaluation.

  g₁: 0 → [1, 2], 1 → [2], 2 → [1]   (1 and 2 form a cycle; 0 sits above it)

  * `legacy_history_dependent`: with `cachedLegacy` (every computed value kept for good, the code before
    /repo 265f3e6) the answer to request 2 is [2, 1] on a fresh project and [2] after request 0:
    during request 0 node 2 was evaluated below 1, where its dependency 1 is cut, and that truncated
    value stayed in the slot.
  * `discipline_same_case`: the `cycle_guard` discipline answers [2, 1] both times.
  * `answer_not_cache_free`: also under the discipline a request's answer on a cyclic graph is not the
    cache-free value (a provisional value computed under one stack is reused under another within the
    same request) — history independence is NOT "memoisation of evalPure"; on nodes that meet no cut it is
    (`C04Eval_acyclic_exact`).
-/
import SuppModel.EvalMemo.Basic
namespace SuppModel.EvalMemo.Witness

def g₁ : Graph := [[1, 2], [2], [1]]

theorem legacy_history_dependent :
    (requestLegacy g₁ St.empty 2).1 = [2, 1] ∧
    (requestLegacy g₁ (runHistoryLegacy g₁ [0] St.empty) 2).1 = [2] := by decide

theorem legacy_not_history_independent :
    ¬ ∀ (g : Graph) (h : List Nat) (n : Nat),
      (requestLegacy g (runHistoryLegacy g h St.empty) n).1 = (requestLegacy g St.empty n).1 :=
  fun H => absurd (H g₁ [0] 2) (by decide)

theorem discipline_same_case :
    (request g₁ St.empty 2).1 = [2, 1] ∧ (request g₁ (runHistory g₁ [0] St.empty) 2).1 = [2, 1] := by decide

theorem answer_not_cache_free :
    (request g₁ St.empty 0).1 = [0, 1, 2, 2] ∧ (evalPure g₁ 4 [] 0).1 = [0, 1, 2, 2, 1] := by decide

end SuppModel.EvalMemo.Witness
