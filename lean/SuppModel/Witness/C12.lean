/-
  C12 — witnesses: concrete evaluations of the model (current and legacy code), the refutation of the
  full `from`-branch statement, and the overlap example behind `noEarlyMark`.
  Everything here is closed by `decide`.
-/
import SuppModel.Props.C12

namespace SuppModel.Witness.C12
open SuppModel.Text

/-! ## the prefix: legacy split on `.`, whitespace, `(` only; the current code splits on every `\W` -/

theorem legacy_eq : prefixOfLegacy "x=fo".toList = "x=fo".toList ∧
    identSuffix asciiWord "x=fo".toList = "fo".toList ∧ prefixOf asciiWord "x=fo".toList = "fo".toList := by
  decide

theorem legacy_bracket : prefixOfLegacy "[fo".toList = "[fo".toList ∧
    identSuffix asciiWord "[fo".toList = "fo".toList ∧ prefixOf asciiWord "[fo".toList = "fo".toList := by
  decide

theorem legacy_comma : prefixOfLegacy "foo,fo".toList = "foo,fo".toList ∧
    identSuffix asciiWord "foo,fo".toList = "fo".toList ∧ prefixOf asciiWord "foo,fo".toList = "fo".toList := by
  decide

theorem legacy_plus : prefixOfLegacy "1+fo".toList = "1+fo".toList ∧
    identSuffix asciiWord "1+fo".toList = "fo".toList ∧ prefixOf asciiWord "1+fo".toList = "fo".toList := by
  decide

theorem legacy_colon : prefixOfLegacy "x:fo".toList = "x:fo".toList ∧
    identSuffix asciiWord "x:fo".toList = "fo".toList ∧ prefixOf asciiWord "x:fo".toList = "fo".toList := by
  decide

/-! ## legacy import prefix: the whole name under the cursor, not the part left of it -/

theorem legacy_import_prefix :
    (splitPkg (unmark "os.pa__supp_mark__th".toList)).2 = "path".toList ∧
    identSuffix asciiWord "import os.pa".toList = "pa".toList ∧
    assistPrefix asciiWord "import os.pa".toList = "pa".toList := by decide

/-! ## legacy proposals: no filter, the marked name under the cursor was proposed -/

theorem legacy_proposals :
    sortStr (keys [("ba__supp_mark__r".toList, ())]) = ["ba__supp_mark__r".toList] ∧
    marked "ba__supp_mark__r".toList = true ∧
    proposals [("ba__supp_mark__r".toList, ()), ("bar".toList, ())] = ["bar".toList] := by decide

/-! ## the legacy `from` branch (before ab8463e): `line.lstrip().startswith('from ') and ' import ' not in line` -/

/-- `from os import(pa|` (valid Python: `from os import(path)`) is still in the `from` branch, because
    `' import '` with both spaces does not occur; the prefix is `import(pa`, not `pa` -/
theorem from_paren :
    fromBranchLegacy "from os import(pa".toList = true ∧
    assistPrefixLegacy asciiWord "from os import(pa".toList = "import(pa".toList ∧
    assistPrefix asciiWord "from os import(pa".toList = "pa".toList ∧
    identSuffix asciiWord "from os import(pa".toList = "pa".toList := by decide

/-- the same with a tab after `import` -/
theorem from_tab :
    fromBranchLegacy "from os import\tpa".toList = true ∧
    assistPrefixLegacy asciiWord "from os import\tpa".toList = "import\tpa".toList ∧
    assistPrefix asciiWord "from os import\tpa".toList = "pa".toList ∧
    identSuffix asciiWord "from os import\tpa".toList = "pa".toList := by decide

/-- the full `from`-branch statement for the legacy branch -/
def C12_from_legacy_stmt : Prop :=
  ∀ (isWord : Char → Bool) (line : Str), isWord ' ' = false → isWord '.' = false →
    fromBranchLegacy line = true → fromPrefixLegacy line = identSuffix isWord line

/-- ... was false of the code -/
theorem C12_from_legacy_false : ¬ C12_from_legacy_stmt := by
  intro h
  have := h asciiWord "from os import(pa".toList (by decide) (by decide) (by decide)
  revert this
  decide

/-- whereas the well-formed case is fine -/
theorem from_ok :
    fromBranchLegacy "from os.pa".toList = true ∧
    assistPrefixLegacy asciiWord "from os.pa".toList = "pa".toList ∧
    assistPrefix asciiWord "from os.pa".toList = "pa".toList ∧
    identSuffix asciiWord "from os.pa".toList = "pa".toList := by decide

/-! ## why `noEarlyMark`: the text left of the cursor can complete an earlier occurrence of the mark -/

theorem overlap :
    noEarlyMark "__supp_mark".toList = false ∧
    unmark ("__supp_mark".toList ++ Generated.sourceMark ++ "x".toList) = "supp_mark__x".toList ∧
    unmark ("__supp_mark".toList ++ Generated.sourceMark ++ "x".toList) ≠ "__supp_mark".toList ++ "x".toList := by
  decide

end SuppModel.Witness.C12
