/-
  C06 — witnesses proved by evaluation.
  * the pre-fix `InstanceValue._attrs` (before /repo commit bd90a2a) violated the instance lookup rule:
    two classes, D(B) overriding m; the legacy table answers B's m on an instance of D.
  * before /repo commit 51a17f1 supp bound the first parameter of EVERY function in a class body to an
    instance (FuncScope.get_argument), so `cls` inside a classmethod was looked up in the instance table
    (`clsParamLegacy`); when an attribute is both a class-body name and assigned through self the answer was
    the self-assignment, not the class-body definition Python's `cls.x` selects.  Now `cls` is the class itself
    (`classAttrs`).
-/
import SuppModel.Attrs.Spec

namespace SuppModel.Witness.C06
open SuppModel.Attrs

/-- `class B: def m(self)` (site 10), `class D(B): def m(self)` (site 20) -/
def hOverride : Hier :=
  [(0, ⟨[], [("m", 10)], []⟩),
   (1, ⟨[.src 0], [("m", 20)], []⟩)]

/-- the hierarchy is in the property's domain and Python's lookup of `D().m` selects D's m -/
theorem C06_override_domain :
    Acyclic hOverride 1 ∧ NoRepeatedAncestors hOverride 1 ∧ instAssigned hOverride 1 "m" = false ∧
      classLookup hOverride 1 "m" = some (.site 20) := by decide

/-- the old code answered B's m -/
theorem C06_override_legacy : Dict.get (instAttrsLegacy hOverride 1) "m" = some (.site 10) := by decide

/-- the current code answers D's m -/
theorem C06_override_fixed : Dict.get (instAttrs hOverride 1) "m" = some (.site 20) := by decide

/-- so the instance-lookup statement is false of the legacy table -/
theorem C06_legacy_false :
    ¬ (∀ (h : Hier) (c : ClassId) (x : String), Acyclic h c → NoRepeatedAncestors h c →
        instAssigned h c x = false →
        Dict.get (instAttrsLegacy h c) x = (classLookup h c x).or (runtimeInstLookup h c x)) := by
  intro hall
  have := hall hOverride 1 "m" (by decide) (by decide) (by decide)
  revert this
  decide

/-- `class C: x = 0 (site 1); def m(self): self.x = 1 (site 2)` -/
def hCls : Hier := [(0, ⟨[], [("x", 1), ("m", 2)], [("x", 3)]⟩)]

/-- the old code consulted the instance table for `cls` (site 3); Python's `cls.x` is the class-body x (site 1),
    which the class table the current code consults gives -/
theorem C06_cls_as_instance_legacy :
    Dict.get (clsParamLegacy hCls 0) "x" = some (.multi [3]) ∧ classLookup hCls 0 "x" = some (.site 1) ∧
      Dict.get (classAttrs hCls 0) "x" = some (.site 1) := by decide

end SuppModel.Witness.C06
