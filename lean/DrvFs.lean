import SuppModel.Drv.Main
import SuppModel.Drv.Fs
def main : IO Unit := SuppModel.Drv.runLoop SuppModel.Drv.Fs.handle
