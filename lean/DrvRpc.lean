import SuppModel.Drv.Main
import SuppModel.Drv.Rpc
def main : IO Unit := SuppModel.Drv.runLoop SuppModel.Drv.Rpc.handle
