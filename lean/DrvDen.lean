import SuppModel.Drv.Main
import SuppModel.Drv.Den
def main : IO Unit := SuppModel.Drv.runLoop SuppModel.Drv.Den.handle
