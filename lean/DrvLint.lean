import SuppModel.Drv.Main
import SuppModel.Drv.Lint
def main : IO Unit := SuppModel.Drv.runLoop SuppModel.Drv.Lint.handle
