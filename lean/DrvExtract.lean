import SuppModel.Drv.Main
import SuppModel.Drv.Extract
def main : IO Unit := SuppModel.Drv.runLoop SuppModel.Drv.Extract.handle
