import SuppModel.Drv.Main
import SuppModel.Drv.EvalMemo
def main : IO Unit := SuppModel.Drv.runLoop SuppModel.Drv.EvalMemo.handle
