import SuppModel.Drv.Main
import SuppModel.Drv.Startup
def main : IO Unit := SuppModel.Drv.runLoop SuppModel.Drv.Startup.handle
