import SuppModel.Drv.Main
import SuppModel.Drv.Attrs
def main : IO Unit := SuppModel.Drv.runLoop SuppModel.Drv.Attrs.handle
