import SuppModel.Drv.Main
import SuppModel.Drv.Perm
def main : IO Unit := SuppModel.Drv.runLoop SuppModel.Drv.Perm.handle
