import SuppModel.Msgpack.Spec
