import SuppModel.Drv.Main
import SuppModel.Drv.Text
def main : IO Unit := SuppModel.Drv.runLoop SuppModel.Drv.Text.handle
