import SuppModel.Drv.Main
import SuppModel.Drv.Msgpack
def main : IO Unit := SuppModel.Drv.runLoop SuppModel.Drv.Msgpack.handle
