/-
  Line-protocol driver: one JSON object per input line, one JSON value per output line.
  `{"m": <model>, "op": <operation>, ...}`.  It only (de)serialises and calls the
  executable model definitions the theorems are about.
-/
import SuppModel.Drv.Msgpack

open Lean SuppModel.Drv

def dispatch (j : Json) : Json :=
  match jstr j "m" with
  | .ok "msgpack" => SuppModel.Drv.Msgpack.handle j
  | .ok "ping" => Json.mkObj [("ok", Json.str "pong")]
  | _ => errJson "unknown model"

partial def loop (hin hout : IO.FS.Stream) : IO Unit := do
  let line ← hin.getLine
  if line.isEmpty then return ()
  let out := match Json.parse line with
    | .ok j => dispatch j
    | .error e => errJson ("parse: " ++ e)
  hout.putStrLn out.compress
  hout.flush
  loop hin hout

def main : IO Unit := do
  loop (← IO.getStdin) (← IO.getStdout)
